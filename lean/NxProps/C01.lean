import NxProofs.Cipher
import NxProofs.Refine
import NxProofs.RefineSend
import NxProofs.Sys
import NxProofs.Duplex
import NxProofs.HandshakeServer
import NxProofs.HandshakeClient
import NxProofs.HandshakeAcks
import NxProofs.Liveness
import NxProofs.Unreliable
import NxProps.C04
/-!
# C01 — PRUDP reliable channel: in-order, exactly-once, uncorrupted delivery

Model: `NxModel/Prudp/Channel.lean` (L2: one direction, one substream; `Window`, `split`, `Reasm`,
position-indexed `Cipher`, monotone sender `log`, adversarial network = any list of `arrive j`).
The network may drop (never choose `j`), duplicate (choose it twice), delay and reorder (any order).
Statements only; proofs in `NxProofs/{Window,Frag,Channel,Cipher}.lean`.

Hypotheses, each explicit and satisfiable (examples at the end):
* `CipherOk c`   — decode∘encode = id at equal positions, non-empty stays non-empty (holds for RC4 = xor
                   with a key stream, and for no cipher; zlib enters only through `decompress∘compress = id`);
* `1 ≤ size`     — fragment size;
* `start < 65536`;
* `runOk`        — H-window: every arriving copy is within 2^15 packets of the receiver's release point
                   (16-bit ids cannot survive more: `half_window_needed` below; DESIGN §6 D12).
* one writer at a time per substream — the per-substream send lock (repo commit 5f9d62f, D11): `Op.begin` is refused
                   while another `send` of the substream is between its fragments. A `send` itself is NOT atomic:
                   `Op.begin msg` followed by one `Op.frag` per fragment, and keep-alive pings (same id counter on
                   substream 0, sent by the timer task without the lock), `disconnect()` and arrivals may fall between
                   any two fragments. `Op.send msg` is the same call with nothing in between.

**L1 → L2 (receive side).** The endpoint model that reproduces real sessions byte for byte (`NxModel/Prudp/Conn.lean`) refines
this channel on its receive path: `window_update_natural` (the sliding window does not look at what it stores),
`l1_release_loop_refines_l2` (`Conn.consume` = `Core.consume` on the projected packets, under the abstraction `RRel`:
EOF flag = closed, queue = delivered messages, fragment buffer, decryption position) and `l1_process_reliable_refines_l2`
(`process_reliable` = `Receiver.arrive`). Hypotheses: the substream's lists exist (`SubWF`), the window holds reliable
packets of that substream (`GoodWin`, preserved), compression off (`decompress = id`; the zlib framing is C08's).
**L1 → L2 (send side).** `l1_send_refines_l2`: what `send(data, substream)` hands to the transport projects (`wireOf`) to a
prefix of exactly the wires `Sender.send` appends to its log for this message — same sequence ids, fragment ids and ciphertext
at the same cipher positions — and to all of them when no exception occurred and the link is up (an exception or a dead link can
only cut the emission short). The network between two endpoints (which copies of which wires arrive when) is the L2 model's
adversary; that the real network layer hands the emitted bytes to the peer's `handle` is what the correspondence runs tie.
-/
namespace Nx.C01
open Nx Nx.Chan

/-- **Safety.** Whatever the network does, what the receiver delivers is a prefix of what was sent:
    nothing lost in the middle, duplicated, reordered, merged, split or altered. -/
theorem C01_safety (c : Cipher) (hc : CipherOk c) (size : Nat) (hsz : 1 ≤ size) (start : Nat) (hs : start < 65536)
    (ops : List Op) (hok : runOk c size (init start) ops = true) :
    (run c size (init start) ops).r.core.reasm.out <+: (run c size (init start) ops).s.sent := by
  obtain ⟨hS, hR⟩ := inv_run c hc size hsz start ops (init start) (inv_init c start hs).1 (inv_init c start hs).2 hok
  exact delivered_prefix_sent c start _ hS hR

/-- **Completeness.** Once every packet of the log has been released and no `send` is in the middle of its fragments,
    exactly the sent messages have been delivered, no partial message is pending and the cipher positions agree —
    while the connection is open, and also after a `disconnect()` that was issued while no `send` was in progress. -/
theorem C01_complete (c : Cipher) (hc : CipherOk c) (size : Nat) (hsz : 1 ≤ size) (start : Nat) (hs : start < 65536)
    (ops : List Op) (hok : runOk c size (init start) ops = true)
    (hall : (run c size (init start) ops).r.nrel = (run c size (init start) ops).s.log.length)
    (hidle : (run c size (init start) ops).s.pending = [])
    (hclean : (run c size (init start) ops).s.closing = false ∨ (run c size (init start) ops).s.clean = true) :
    (run c size (init start) ops).r.core.reasm.out = (run c size (init start) ops).s.sent ∧
    (run c size (init start) ops).r.core.reasm.buf = [] ∧
    (run c size (init start) ops).r.core.decPos = (run c size (init start) ops).s.encPos := by
  obtain ⟨hS, hR⟩ := inv_run c hc size hsz start ops (init start) (inv_init c start hs).1 (inv_init c start hs).2 hok
  have h := hR.core
  rw [hall, List.take_length, sndInv_cons hS hidle hclean] at h
  rw [h]; exact ⟨rfl, rfl, rfl⟩

/-- **Completeness, with a `send` in the middle of its fragments.** While the connection is open and everything emitted so far
    has been released, releasing the fragments the `send` in progress still has to emit — whatever ids they get, i.e. whatever
    pings fall in between — completes exactly the sent messages. -/
theorem C01_complete_in_progress (c : Cipher) (hc : CipherOk c) (size : Nat) (hsz : 1 ≤ size) (start : Nat) (hs : start < 65536)
    (ops : List Op) (hok : runOk c size (init start) ops = true)
    (hall : (run c size (init start) ops).r.nrel = (run c size (init start) ops).s.log.length)
    (hopen : (run c size (init start) ops).s.closing = false) (id : Nat) :
    ((run c size (init start) ops).r.core.consume c
        (wiresOf c id (run c size (init start) ops).s.encPos (run c size (init start) ops).s.pending)).reasm =
      ⟨[], (run c size (init start) ops).s.sent⟩ := by
  obtain ⟨hS, hR⟩ := inv_run c hc size hsz start ops (init start) (inv_init c start hs).1 (inv_init c start hs).2 hok
  have h := hR.core
  rw [hall, List.take_length] at h
  have hl := hS.live hopen
  rw [consume_append, ← h, consume_wiresOf_id c _ _ id] at hl
  rw [hl]

/-- **Progress.** While the receiver is open, an arrival of the packet it is waiting for is always released
    (so delivering each outstanding packet once — by retransmission, C02 — reaches `C01_complete`). -/
theorem C01_progress (c : Cipher) (hc : CipherOk c) (size : Nat) (hsz : 1 ≤ size) (start : Nat) (hs : start < 65536)
    (ops : List Op) (hok : runOk c size (init start) ops = true)
    (hopen : (run c size (init start) ops).r.core.closed = false)
    (w : Wire) (hw : (run c size (init start) ops).s.log[(run c size (init start) ops).r.nrel]? = some w) :
    (run c size (init start) ops).r.nrel < ((run c size (init start) ops).r.arrive c w).nrel := by
  obtain ⟨hS, hR⟩ := inv_run c hc size hsz start ops (init start) (inv_init c start hs).1 (inv_init c start hs).2 hok
  generalize run c size (init start) ops = ch at *
  have hlt : ch.r.nrel < ch.s.log.length := by
    cases hlt : decide (ch.r.nrel < ch.s.log.length) with
    | true => exact of_decide_eq_true hlt
    | false =>
      have : ch.s.log.length ≤ ch.r.nrel := Nat.le_of_not_lt (of_decide_eq_false hlt)
      rw [List.getElem?_eq_none this] at hw; cases hw
  have hid : w.id = idOf start ch.r.nrel := by
    have := hS.ids _ hlt
    rw [List.getElem?_eq_getElem hlt] at hw
    cases hw; exact this
  have hne := update_next_progress ch.s.log start ch.r.win ch.r.nrel w (hR.win hopen)
  unfold Receiver.arrive
  simp only [hopen, Bool.false_eq_true, if_false, hid]
  have : 0 < (ch.r.win.update (idOf start ch.r.nrel) w).2.length := List.length_pos_iff.mpr hne
  omega

/-- **Liveness, the receiver's half.** In a run within the half-window hypothesis, if every packet of the final log has
    arrived at least once while the receiver was open — in any order, with any duplicates, interleaved with further sends,
    pings and fragments — then the sliding window has released the whole log. (That at least one copy of every packet arrives
    is what "faults within the retransmission budget" gives: each packet is re-sent until acknowledged, C02 `resend_chain`.) -/
theorem C01_all_arrived_all_released (c : Cipher) (hc : CipherOk c) (size : Nat) (hsz : 1 ≤ size) (start : Nat) (hs : start < 65536)
    (ops : List Op) (hok : runOk c size (init start) ops = true)
    (hopen : (run c size (init start) ops).r.core.closed = false)
    (hall : ∀ j, j < (run c size (init start) ops).s.log.length → j ∈ arrived c size (init start) ops) :
    (run c size (init start) ops).r.nrel = (run c size (init start) ops).s.log.length :=
  all_arrived_all_released c hc size hsz start hs ops hok hopen hall

/-- **Liveness.** While both sides keep the connection open (no DISCONNECT released, none issued) and no `send` is between
    its fragments: once every emitted packet has arrived at least once, every message passed to `send` has been delivered,
    exactly once and in order, nothing partial is pending and the cipher positions agree. -/
theorem C01_liveness (c : Cipher) (hc : CipherOk c) (size : Nat) (hsz : 1 ≤ size) (start : Nat) (hs : start < 65536)
    (ops : List Op) (hok : runOk c size (init start) ops = true)
    (hopen : (run c size (init start) ops).r.core.closed = false)
    (hall : ∀ j, j < (run c size (init start) ops).s.log.length → j ∈ arrived c size (init start) ops)
    (hidle : (run c size (init start) ops).s.pending = [])
    (hclean : (run c size (init start) ops).s.closing = false ∨ (run c size (init start) ops).s.clean = true) :
    (run c size (init start) ops).r.core.reasm.out = (run c size (init start) ops).s.sent ∧
    (run c size (init start) ops).r.core.reasm.buf = [] ∧
    (run c size (init start) ops).r.core.decPos = (run c size (init start) ops).s.encPos :=
  C01_complete c hc size hsz start hs ops hok (all_arrived_all_released c hc size hsz start hs ops hok hopen hall) hidle hclean

/-- **Graceful close is in order.** If the receiver has reached end-of-stream through the sender's DISCONNECT, and
    `disconnect()` was called while no `send` was between its fragments, then every message ever passed to `send` was delivered
    before the end-of-stream and nothing partial is left: `recv` returns all of them, then raises. -/
theorem C01_closed_after_everything (c : Cipher) (hc : CipherOk c) (size : Nat) (hsz : 1 ≤ size) (start : Nat) (hs : start < 65536)
    (ops : List Op) (hok : runOk c size (init start) ops = true)
    (hcl : (run c size (init start) ops).r.core.closed = true) (hclean : (run c size (init start) ops).s.clean = true) :
    (run c size (init start) ops).s.closing = true ∧
    (run c size (init start) ops).r.core.reasm.out = (run c size (init start) ops).s.sent ∧
    (run c size (init start) ops).r.core.reasm.buf = [] := by
  obtain ⟨hS, hR⟩ := inv_run c hc size hsz start ops (init start) (inv_init c start hs).1 (inv_init c start hs).2 hok
  exact closed_after_everything c start _ hS hR hcl hclean

/-- the one-step `send` of the model is `begin` followed by one `frag` per fragment: the fragment-granular operations
    describe the same call, they only allow other things to happen in between -/
theorem send_is_begin_then_frags (c : Cipher) (size : Nat) (s : Sender) (m : Bytes) (hcl : s.closing = false) (hp : s.pending = []) :
    s.send c size m = fragN c (split size m).length (s.begin size m) := send_eq_begin_frags c size s m hcl hp

/-- fragmentation: a non-empty message reassembles to exactly itself — for every size ≥ 1 and every length,
    exact multiples of the fragment size included -/
theorem frag_roundtrip (size : Nat) (hs : 1 ≤ size) (m : Bytes) (hm : m ≠ []) (out : List Bytes) :
    absorbFrags ⟨[], out⟩ (split size m) = ⟨[], out ++ [m]⟩ := by
  have := split_absorb size hs m out
  have hne : m.isEmpty = false := by cases m <;> simp_all
  simpa [hne] using this

/-- the window releases the log in order, exactly once (the core of exactly-once delivery) -/
theorem window_release_in_order {α : Type} (L : List α) (start : Nat) (w : Window α) (r i : Nat) (p : α)
    (hinv : SInv L start w r) (hp : L[i]? = some p) (h1 : r < i + 32768) (h2 : i < r + 32768) :
    ∃ r', r ≤ r' ∧ SInv L start (w.update (idOf start i) p).1 r' ∧
      (w.update (idOf start i) p).2 = (L.drop r).take (r' - r) :=
  update_spec L start w r i p hinv hp h1 h2

/-- RC4 (xor with a running key stream) meets the cipher hypothesis, for every key stream -/
theorem rc4_like_ok (ks : Nat → UInt8) : CipherOk (xorCipher ks) := xorCipher_ok ks

/-- an unreliable payload that is delivered is the one that was sent (same per-packet key on both sides) -/
theorem unreliable_roundtrip (c : Cipher) (hc : CipherOk c) (pos : Nat) (x : Bytes) : c.dec pos (c.enc pos x) = x :=
  hc.dec_enc pos x

open Nx.L1 Nx.Prudp in
/-- **unreliable data on the endpoint model**: every packet `send_unreliable(data)` hands to the transport is a DATA packet
    without the RELIABLE flag that decodes — at any endpoint holding the same unreliable base key and cipher setting, in any
    state, after any other traffic — to exactly `data`, and decoding it leaves that endpoint as it was -/
theorem unreliable_delivered_is_what_was_sent (env : Env) (hl : EnvLaws env)
    (now : Time) (a b : Conn) (data : Bytes) (hk : b.unrelKey = a.unrelKey) (hon : b.cipherOn = a.cipherOn) :
    ∀ q ∈ emitted (a.sendUnreliable env now data),
      q.type = TYPE_DATA ∧ hasReliable q.flags = false ∧ b.decodePayload env q = .ok (data, b) :=
  unreliable_end_to_end env hl now a b data hk hon

/-! non-vacuity: a connected endpoint does emit a packet for `send_unreliable` (stream transport only to keep the kernel's
    evaluation short; with RC4 the theorem is the same statement) -/
open Nx.L1 Nx.Prudp in
example :
    let env : Env := { C04.toyEnv with s := { transport := TRANSPORT_TCP } }
    let a := { Conn.new env (some 1) 1 2 3 ("10.0.0.2", 1) 15 10 ("10.0.0.1", 2) 1 10 with state := STATE_CONNECTED }
    (emitted (a.sendUnreliable env 0 [7, 8, 9])).map (·.payload) = [[7, 8, 9]] := by decide +kernel

/-- H-window cannot be dropped: a stale copy delayed by more than half the id space is accepted as a
    future packet (protocol-inherent, 16-bit ids). -/
theorem half_window_needed :
    (Window.update (α := Nat) { next := 40000, packets := [] } 5 777).1.packets = [(5, 777)] := by decide

/-! ### non-vacuity -/

/-- a run with reordering, duplication and loss that satisfies every hypothesis and delivers a proper prefix -/
example :
    let ops := [Op.send [1, 2, 3, 4, 5], .send [9], .arrive 2, .arrive 2, .arrive 0, .arrive 1, .arrive 0]
    runOk idCipher 2 (init 65535) ops = true ∧
      (run idCipher 2 (init 65535) ops).r.core.reasm.out = [[1, 2, 3, 4, 5]] ∧
      (run idCipher 2 (init 65535) ops).s.sent = [[1, 2, 3, 4, 5], [9]] := by decide

example : CipherOk idCipher := idCipher_ok

/-- a keep-alive ping between the fragments of a message (and a duplicate of it, and reordering): the message arrives whole -/
example :
    let ops := [Op.begin [1, 2, 3, 4, 5], .frag, .ping, .frag, .arrive 2, .frag, .arrive 1, .arrive 1, .arrive 3, .arrive 0]
    runOk idCipher 2 (init 7) ops = true ∧
      (run idCipher 2 (init 7) ops).s.log.map (·.kind) = [.data 1, .ping, .data 2, .data 0] ∧
      (run idCipher 2 (init 7) ops).r.core.reasm.out = [[1, 2, 3, 4, 5]] ∧
      (run idCipher 2 (init 7) ops).s.sent = [[1, 2, 3, 4, 5]] ∧ (run idCipher 2 (init 7) ops).s.pending = [] := by decide

/-- the hypotheses of `C01_liveness` are met by a run in which the first copy of a packet is lost (never arrives), later
    packets arrive before its retransmission, a duplicate arrives late, and a ping falls inside the second message -/
example :
    let ops := [Op.send [1, 2, 3], .arrive 1, .begin [4, 5, 6], .frag, .ping, .arrive 3, .arrive 2, .frag, .arrive 0, .arrive 4, .arrive 1]
    runOk idCipher 2 (init 65534) ops = true ∧ (run idCipher 2 (init 65534) ops).r.core.closed = false ∧
      (∀ j, j < (run idCipher 2 (init 65534) ops).s.log.length → j ∈ arrived idCipher 2 (init 65534) ops) ∧
      (run idCipher 2 (init 65534) ops).s.pending = [] ∧ (run idCipher 2 (init 65534) ops).s.closing = false ∧
      (run idCipher 2 (init 65534) ops).r.core.reasm.out = [[1, 2, 3], [4, 5, 6]] := by decide

/-- the hypotheses of `C01_closed_after_everything` are met: two messages, a graceful disconnect, reordering -/
example :
    let ops := [Op.send [1, 2, 3], .send [4], .disconnect, .ping, .arrive 3, .arrive 2, .arrive 0, .arrive 1]
    runOk idCipher 2 (init 9) ops = true ∧ (run idCipher 2 (init 9) ops).r.core.closed = true ∧
      (run idCipher 2 (init 9) ops).s.clean = true ∧ (run idCipher 2 (init 9) ops).r.core.reasm.out = [[1, 2, 3], [4]] := by decide

/-- a `send` that is still between its fragments: the hypotheses of `C01_complete_in_progress` are met -/
example :
    let ops := [Op.begin [1, 2, 3, 4, 5], .frag, .ping, .arrive 0, .arrive 1]
    runOk idCipher 2 (init 7) ops = true ∧ (run idCipher 2 (init 7) ops).r.nrel = (run idCipher 2 (init 7) ops).s.log.length ∧
      (run idCipher 2 (init 7) ops).s.closing = false ∧ (run idCipher 2 (init 7) ops).s.pending.length = 2 ∧
      (run idCipher 2 (init 7) ops).r.core.reasm = ⟨[1, 2], []⟩ := by decide

/-! ### the L1 endpoint's receive path refines the L2 receiver -/

open Nx.L1 Nx.Prudp in
theorem window_update_natural {α β : Type} (f : α → β) (w : Window α) (id : Nat) (p : α) :
    (w.map f).update id (f p) = ((w.update id p).1.map f, (w.update id p).2.map f) := update_map f w id p

open Nx.L1 Nx.Prudp in
theorem l1_release_loop_refines_l2 (env : Env) (hround : ∀ b, env.decompress (env.compress b) = .ok b) (sub : Nat) (ci : Cipher)
    (rel : List Packet) (c : Conn) (core : Core) (hw : SubWF c sub) (hc : cipherOf c sub = ci)
    (hgood : ∀ q ∈ rel, q.substreamId = sub ∧ hasReliable q.flags = true)
    (hwell : Core.wellAt (wrap env ci) core (rel.map wireOf)) (hr : RRel c sub core) :
    RRel (Conn.consume env sub rel c).c sub (core.consume (wrap env ci) (rel.map wireOf)) ∧
    SubWF (Conn.consume env sub rel c).c sub ∧ cipherOf (Conn.consume env sub rel c).c sub = ci :=
  consume_refines env hround sub ci rel c core hw hc hgood hwell hr

open Nx.L1 Nx.Prudp in
theorem l1_process_reliable_refines_l2 (env : Env) (sub : Nat) (c : Conn) (w : Window Packet)
    (core : Core) (nrel : Nat) (p : Packet) (hw : SubWF c sub) (hwl : sub < c.windows.length) (hwin : c.windows[sub]? = some w)
    (hgw : GoodWin sub w) (hp : p.substreamId = sub ∧ hasReliable p.flags = true) (hr : RRel c sub core) (hlive : c.eof = false)
    (hround : ∀ b, env.decompress (env.compress b) = .ok b)
    (hwell : Core.wellAt (wrap env (cipherOf c sub)) core ((w.update p.packetId p).2.map wireOf)) :
    ∃ w', (c.processReliable env p).c.windows[sub]? = some w' ∧ GoodWin sub w' ∧
      Receiver.arrive (wrap env (cipherOf c sub)) ⟨w.map wireOf, nrel, core⟩ (wireOf p) =
        ⟨w'.map wireOf, nrel + (w.update p.packetId p).2.length, (Receiver.arrive (wrap env (cipherOf c sub)) ⟨w.map wireOf, nrel, core⟩ (wireOf p)).core⟩ ∧
      RRel (c.processReliable env p).c sub (Receiver.arrive (wrap env (cipherOf c sub)) ⟨w.map wireOf, nrel, core⟩ (wireOf p)).core ∧
      SubWF (c.processReliable env p).c sub ∧ cipherOf (c.processReliable env p).c sub = cipherOf c sub :=
  processReliable_refines env sub c w core nrel p hw hwl hwin hgw hp hr hlive hround hwell

open Nx.L1 Nx.Prudp in
theorem l1_send_refines_l2 (env : Env) (now : Time) (c : Conn) (data : Bytes) (sub n pos : Nat)
    (hs : SRel c sub n pos) :
    (emitted (c.send env now data sub)).map wireOf <+: wiresOf (wrap env (cipherOf c sub)) n pos (split c.fragmentSize data) ∧
    ((c.send env now data sub).err = none → (c.send env now data sub).c.linkUp = true →
      (emitted (c.send env now data sub)).map wireOf = wiresOf (wrap env (cipherOf c sub)) n pos (split c.fragmentSize data) ∧
      SRel (c.send env now data sub).c sub (iterSeq (split c.fragmentSize data).length n)
        (pos + wiresLen (wiresOf (wrap env (cipherOf c sub)) n pos (split c.fragmentSize data)))) :=
  send_refines env now c data sub n pos hs

/-! non-vacuity of the send side: a fresh connection's substream 0 has next id 1 at cipher position 0 -/
open Nx.L1 Nx.Prudp in
example :
    let c := Conn.new C04.toyEnv (some 1) 1 2 3 ("10.0.0.2", 1) 15 10 ("10.0.0.1", 2) 1 10
    SRel c 0 1 0 ∧ (∀ b, C04.toyEnv.compress b = b) :=
  ⟨⟨rfl, ⟨_, rfl, fun _ => rfl⟩⟩, fun _ => rfl⟩

/-! non-vacuity: a fresh connection and the initial L2 core are related, its substream 0 is well-formed, its window is good -/
open Nx.L1 Nx.Prudp in
example :
    let c := Conn.new C04.toyEnv (some 1) 1 2 3 ("10.0.0.2", 1) 15 10 ("10.0.0.1", 2) 1 10
    SubWF c 0 ∧ RRel c 0 core0 ∧ c.eof = false ∧ c.windows[0]? = some { next := 1, packets := [] } ∧
    GoodWin 0 ({ next := 1, packets := [] } : Window Packet) ∧ (∀ b, C04.toyEnv.decompress b = .ok b) := by
  refine ⟨by unfold SubWF; decide, ⟨rfl, rfl, fun _ => ⟨rfl, fun _ => ⟨_, rfl, rfl⟩⟩⟩, rfl, rfl, ?_, fun _ => rfl⟩
  intro kq h; cases h

/-! ### the two endpoints and the network between them, as one system (`NxProofs/Sys.lean`)

`Sys` = a sending `Conn`, a receiving `Conn`, and `net`: everything the sender ever handed to its transport for the substream.
A step is an application `send` at the sender — as one step, or fragment by fragment (`begin`, then one `frag` per turn of its
loop) with keep-alive pings of the sender's timer task (`ping`, substream 0) and deliveries falling in between — or the delivery
of *any* element of `net` to the receiver (any order, any number of times; never = loss) — straight to `process_reliable`
(`deliver`) or through the whole receive path `handle` (`deliverH`: state, signature, substream and session gates, the
acknowledgement, then `process_reliable`; `handle_reliable_path`) — or the injection of ANY packet whose signature is not the
one the receiver expects of it (`inject`: forged with other keys, altered in flight, of any type and flags; by C04's signature
gate it changes nothing). So `C01_system_safety` is safety in the presence of an active attacker who cannot produce the
expected signatures (HMAC assumption, C04).

**For each direction and substream.** An endpoint is at once the sender of one direction and the receiver of the other, on
several substreams. The system's steps therefore also include everything the endpoints do that is NOT part of the channel under
study: the sender endpoint sending on other substreams (`aSendOther`) and receiving the other direction's data through its
whole receive path (`aRecv`, any substream), the receiver endpoint sending data of its own on any substream (`bSend`),
receiving data of other substreams (`bRecvOther`), its keep-alive (`bPing`) and the acknowledgements it is handed (`bAckIn`), acknowledgements of any kind at the sender (`ackIn`).
`NxProofs/Roles.lean` shows each of them to be a frame step for the role the channel uses (`SendFr`: counter, key, encryption
position, fragment size; `RecvFr`: windows, queues, fragment buffers, EOF, link, key, decryption position), so they change
nothing in the coupling: the end-to-end theorems hold with arbitrary traffic of the other direction and of other substreams
interleaved — and, applied with the roles exchanged, for the other direction at the same time. `Good` = the coupling `Cpl` with an L2 channel state + the channel invariants.
Hypotheses of a run (`Sys.runOk`, decidable, checked step by step): a `send` is refused at once (closed connection, invalid
substream) or runs to its end on a live link — an exception out of the transport in the middle of a message is excluded
(it leaves a hole in the id sequence; the application saw the exception); a delivered copy is within half the id space of
the receiver's release point (16-bit ids, `half_window_needed`). Compression off (`compress = id`), as in the L1 sessions. -/

open Nx.L1 Nx.Prudp in
/-- the per-substream cipher of an endpoint (RC4 at a running position / none on stream transports) meets the channel's
    cipher hypothesis for every key: `CipherOk` is not an assumption about the endpoints -/
theorem endpoint_cipher_ok (c : Conn) (sub : Nat) : CipherOk (cipherOf c sub) := cipherOf_ok c sub

open Nx.L1 Nx.Prudp in
/-- **every run of the two-endpoint system is a run of the L2 channel** (same sends, arrivals of the same log entries),
    within the channel's half-window hypothesis, and the coupling holds at its end -/
theorem C01_system_refines_channel (env : Env) (hl : EnvLaws env)
    (sub : Nat) (ci : Cipher) (size : Nat) (hsz : 1 ≤ size) (start : Nat) (ops : List SysOp) (s : Sys) (ch : Chan)
    (h0 : Good env sub ci size start s ch) (hok : Sys.runOk env sub s ops = true) :
    Good env sub ci size start (Sys.run env sub s ops) (Chan.run (wrap env ci) size ch (Sys.absOps env sub s ops)) ∧
    Chan.runOk (wrap env ci) size ch (Sys.absOps env sub s ops) = true :=
  sys_refines env hl sub ci size hsz start ops s ch h0 hok

open Nx.L1 Nx.Prudp in
/-- **Safety, end to end.** Whatever the network does with what the sending endpoint emitted, what the receiving
    application can `recv` on the substream is a prefix of the messages the sending application's `send` accepted. -/
theorem C01_system_safety (env : Env) (hl : EnvLaws env)
    (sub : Nat) (ci : Cipher) (size : Nat) (hsz : 1 ≤ size) (start : Nat) (ops : List SysOp) (s : Sys) (ch : Chan)
    (h0 : Good env sub ci size start s ch) (hok : Sys.runOk env sub s ops = true) :
    ((Sys.run env sub s ops).b.queues[sub]?.getD []) <+: (Sys.run env sub s ops).accepted :=
  good_safe (sys_refines env hl sub ci size hsz start ops s ch h0 hok).1

open Nx.L1 Nx.Prudp in
/-- **Completeness, end to end.** Once the receiver's window has released as many packets as the sender emitted and no
    `send` is between its fragments, the receiving application has exactly the accepted messages, and no partial message is pending. -/
theorem C01_system_complete (env : Env) (hl : EnvLaws env)
    (sub : Nat) (ci : Cipher) (size : Nat) (hsz : 1 ≤ size) (start : Nat) (ops : List SysOp) (s : Sys) (ch : Chan)
    (h0 : Good env sub ci size start s ch) (hok : Sys.runOk env sub s ops = true)
    (hall : (Sys.run env sub s ops).nrel = (Sys.run env sub s ops).net.length)
    (hidle : (Sys.run env sub s ops).pend = [])
    (hopen : (Sys.run env sub s ops).a.state = STATE_CONNECTED ∨ (Sys.run env sub s ops).clean = true) :
    ((Sys.run env sub s ops).b.queues[sub]?.getD []) = (Sys.run env sub s ops).accepted ∧
    ((Sys.run env sub s ops).b.eof = false → ((Sys.run env sub s ops).b.fragBufs[sub]?.getD []) = []) :=
  good_complete (sys_refines env hl sub ci size hsz start ops s ch h0 hok).1 hall hidle hopen

open Nx.L1 Nx.Prudp in
/-- **Liveness, end to end.** Starting from the initial channel: if the receiving endpoint is still open, no `send` is between
    its fragments, and every packet the sending endpoint handed to its transport has been delivered at least once (as seen in
    the corresponding channel run), the receiving application has exactly the accepted messages. -/
theorem C01_system_liveness (env : Env) (hl : EnvLaws env)
    (sub : Nat) (ci : Cipher) (size : Nat) (hsz : 1 ≤ size) (start : Nat) (hs : start < 65536) (ops : List SysOp) (s : Sys)
    (h0 : Good env sub ci size start s (Chan.init start)) (hok : Sys.runOk env sub s ops = true)
    (hopen : (Sys.run env sub s ops).b.eof = false) (hidle : (Sys.run env sub s ops).pend = [])
    (hconn : (Sys.run env sub s ops).a.state = STATE_CONNECTED ∨ (Sys.run env sub s ops).clean = true)
    (hall : ∀ j, j < (Sys.run env sub s ops).net.length → j ∈ arrived (wrap env ci) size (Chan.init start) (Sys.absOps env sub s ops)) :
    ((Sys.run env sub s ops).b.queues[sub]?.getD []) = (Sys.run env sub s ops).accepted := by
  obtain ⟨hg, hrok⟩ := sys_refines env hl sub ci size hsz start ops s (Chan.init start) h0 hok
  have hcl : (Chan.run (wrap env ci) size (Chan.init start) (Sys.absOps env sub s ops)).r.core.closed = false := by
    rw [hg.cpl.rrel.closed]; exact hopen
  have hlen : (Chan.run (wrap env ci) size (Chan.init start) (Sys.absOps env sub s ops)).s.log.length = (Sys.run env sub s ops).net.length := by
    rw [← hg.cpl.log, List.length_map]
  have hrel := all_arrived_all_released (wrap env ci) (good_cipher hl hg) size hsz start hs _ hrok hcl (fun j hj => hall j (by rw [← hlen]; exact hj))
  exact (good_complete hg (by rw [hg.cpl.nrel, hrel, hlen]) hidle hconn).1

open Nx.L1 Nx.Prudp in
/-- **Graceful close, end to end.** If the receiving endpoint has reached end-of-stream — in this system that can only happen
    through the sender's DISCONNECT being released by the window — and `disconnect()` was called while no `send` was between its
    fragments, then everything the sending application passed to `send` had been delivered before: `recv` returns all of it,
    then raises. -/
theorem C01_system_graceful_close (env : Env) (hl : EnvLaws env)
    (sub : Nat) (ci : Cipher) (size : Nat) (hsz : 1 ≤ size) (start : Nat) (ops : List SysOp) (s : Sys) (ch : Chan)
    (h0 : Good env sub ci size start s ch) (hok : Sys.runOk env sub s ops = true)
    (heof : (Sys.run env sub s ops).b.eof = true) (hclean : (Sys.run env sub s ops).clean = true) :
    ((Sys.run env sub s ops).b.queues[sub]?.getD []) = (Sys.run env sub s ops).accepted :=
  good_closed (sys_refines env hl sub ci size hsz start ops s ch h0 hok).1 heof hclean

open Nx.L1 Nx.Prudp in
/-- the hypothesis `Good` holds at the start: for every environment, every substream the settings allow and every choice of
    addresses, ports, session ids, random draws, connection states and the receiver's record of the peer's session id, two
    freshly constructed endpoints are coupled with the initial channel -/
theorem C01_system_initial (env : Env) (sub : Nat) (hsub : sub ≤ env.s.maxSubstreamId)
    (va vb : Option Nat) (ua ca sa ub cb sb : Nat) (la ra lb rb : Addr) (lpa lta rpa rta lpb ltb rpb rtb : Nat) (st stb : Nat)
    (rsb : Option Nat) :
    let a := { Conn.new env va ua ca sa la lpa lta ra rpa rta with state := st }
    let b := { Conn.new env vb ub cb sb lb lpb ltb rb rpb rtb with state := stb, remoteSessionId := rsb }
    Good env sub (cipherOf a sub) env.s.fragmentSize 1 (Sys.fresh a b) (Chan.init 1) :=
  fresh_good env sub hsub va vb ua ca sa ub cb sb la ra lb rb lpa lta rpa rta lpb ltb rpb rtb st stb rsb

open Nx.L1 Nx.Prudp in
/-- … and after both sides have logged in with the same session key (`login` → `set_session_key`: the per-substream key chain,
    cipher positions back to 0), whatever the user ids -/
theorem C01_system_initial_logged_in (env : Env) (sub : Nat) (hsub : sub ≤ env.s.maxSubstreamId) (key : Bytes) (pa ca pb cb : Nat)
    (va vb : Option Nat) (ua cka sa ub ckb sb : Nat) (la ra lb rb : Addr) (lpa lta rpa rta lpb ltb rpb rtb : Nat) (st stb : Nat)
    (rsb : Option Nat) :
    let a := { (Conn.new env va ua cka sa la lpa lta ra rpa rta).login pa ca key with state := st }
    let b := { (Conn.new env vb ub ckb sb lb lpb ltb rb rpb rtb).login pb cb key with state := stb, remoteSessionId := rsb }
    Good env sub (cipherOf a sub) env.s.fragmentSize 1 (Sys.fresh a b) (Chan.init 1) :=
  fresh_good_login env sub hsub key pa ca pb cb va vb ua cka sa ub ckb sb la ra lb rb lpa lta rpa rta lpb ltb rpb rtb st stb rsb

open Nx.L1 Nx.Prudp in
/-- **acknowledgements touch timers only.** Whatever packet carrying the ACK or the aggregate MULTI_ACK flag (and not of the
    handshake types) is handed to `handle` — genuine, stale, coalesced, or forged — the sequence counters, the stream ciphers
    and the fragment size are what they were (`AckFr`); at most retransmission timers are cancelled and, for an acknowledged
    DISCONNECT, the connection is cleaned up. It is a step of the system (`SysOp.ackIn`), so the end-to-end theorems hold with
    acknowledgements of any kind arriving at the sender at any time: they can delay or stop retransmission, never corrupt,
    reorder or duplicate what is delivered. (A SYN/ACK is excluded: on an established connection whose SYN timer is still
    registered it makes the client send another CONNECT, which takes a sequence id — the mechanism of repaired defect D19.) -/
theorem acks_touch_timers_only (env : Env) (now : Time) (c : Conn) (p : Packet) (hack : (hasAck p.flags || hasMultiAck p.flags) = true)
    (hns : p.type ≠ TYPE_SYN) (hnc : p.type ≠ TYPE_CONNECT) : AckFr c (c.handle env now p).c :=
  handle_ack_frame env now c p hack hns hnc

open Nx.L1 Nx.Prudp in
/-- **receiving does not disturb sending** (any substream): an ordinary reliable packet through the whole receive path leaves
    the sequence counter, key, encryption position and fragment size of every substream's sender role as they were -/
theorem receiving_does_not_disturb_sending (env : Env) (now : Time) (c : Conn) (p : Packet) (sub : Nat) (ho : Ordinary p) :
    SendFr c (c.handle env now p).c sub := handle_ordinary_sendFr env now c p sub ho

open Nx.L1 Nx.Prudp in
/-- **sending does not disturb receiving** (any substream, live link): windows, queues, fragment buffers, EOF flag, state, key
    and decryption position of every substream's receiver role are what they were after a `send` on any substream -/
theorem sending_does_not_disturb_receiving (env : Env) (now : Time) (c : Conn) (data : Bytes) (s sub : Nat) (hl : c.linkUp = true) :
    RecvFr c (c.send env now data s).c sub := send_recvFr env now c data s sub hl

open Nx.L1 Nx.Prudp in
/-- **substreams are independent on the sender side**: a `send` on another substream leaves this one's sender role untouched -/
theorem other_substreams_do_not_disturb (env : Env) (now : Time) (c : Conn) (data : Bytes) (s sub : Nat) (hne : s ≠ sub) :
    SendFr c (c.send env now data s).c sub := send_other_sendFr env now c data s sub hne

open Nx.L1 Nx.Prudp in
/-- **a retransmission is a copy.** What a fired retransmission timer hands to the transport is the stored packet itself
    — never a re-encoding (no second pass through compression, cipher or signature) — or nothing; what it stores is that packet
    again; and it leaves every substream's sender role untouched -/
theorem retransmission_is_the_stored_packet (env : Env) (now : Time) (c : Conn) (p : Packet) (k : Nat) :
    (∀ q ∈ emitted (c.fireOne env now (.resend p k)), q = p) ∧ ResFr c (c.fireOne env now (.resend p k)).c [p] ∧
    (∀ sub, SendFr c (c.fireOne env now (.resend p k)).c sub) := fire_resend env now c p k

open Nx.L1 Nx.Prudp in
/-- **the sender's retransmissions are re-deliveries.** In every reachable state of the system (`Good` carries the invariant
    `TimersOk`: the retransmission timers of the sender hold, of the channel's packets, nothing but elements of `net` — the send
    path stores exactly what it emits, the receive path and acknowledgements store nothing), a fired retransmission timer emits
    an element of `net`: a copy of something handed to the transport before, which the network of the system (and the L2
    adversary) may deliver any number of times anyway. `SysOp.fireResend` is a step of the system. -/
theorem C01_retransmission_is_redelivery (env : Env) (hl : EnvLaws env)
    (sub : Nat) (ci : Cipher) (size : Nat) (hsz : 1 ≤ size) (start : Nat) (ops : List SysOp) (s : Sys) (ch : Chan)
    (h0 : Good env sub ci size start s ch) (hok : Sys.runOk env sub s ops = true) (now : Time) (p : Packet) (k : Nat)
    (hp : p ∈ resendsOf (Sys.run env sub s ops).a) (hr : relevant sub p = true) :
    ∀ q ∈ emitted ((Sys.run env sub s ops).a.fireOne env now (.resend p k)), q = p ∧ q ∈ (Sys.run env sub s ops).net :=
  resend_is_redelivery env sub _ now p k (sys_refines env hl sub ci size hsz start ops s ch h0 hok).1.tim hp hr

open Nx.L1 Nx.Prudp in
/-- **what a handshake has to establish.** `Established sub start a b` lists observable facts about two connection objects
    (the sender's counter of the substream is `start`, its cipher at position 0; the receiver's window expects `start` and is
    empty, queue and fragment buffer empty, same key, position 0, live; no retransmission of the channel pending). They suffice:
    the two endpoints and the initial channel `Chan.init start` are coupled, and every end-to-end theorem applies from there on. -/
theorem C01_system_established (sub start : Nat) (a b : Conn) (h : Established sub start a b) :
    Good env sub (cipherOf a sub) a.fragmentSize start (Sys.fresh a b) (Chan.init start) := good_of_established sub start a b h

/-! non-vacuity, and the link to the handshake: the WHOLE modelled handshake — `handshake()` → SYN → `PRUDPServerStream.handle`
    → SYN/ACK → `handle` → CONNECT → `handle` (the server creates, logs in and serves its connection object) → CONNECT/ACK →
    `handle` → the parked `handshake()` resumes — leaves the two connection objects `Established` in both directions on both
    substreams: client→server starts at id 2 on substream 0 (the CONNECT took id 1; the server's window was skipped past it),
    server→client and substream 1 at id 1. (Evaluated by the kernel on a concrete configuration; for all configurations it is
    what the byte- and tick-exact L1 replays of real handshakes tie to the code.) -/
open Nx.L1 Nx.Prudp in
def handshakeRun (env : Env) (cAddr sAddr : Addr) : Option (Conn × Conn) :=
  let c0 := Conn.new env (some 1) 1 2 3 cAddr 15 10 sAddr 1 10
  let r1 := c0.handshake env 0 none
  let em (outs : List SOut) : List Packet := outs.filterMap (fun o => match o with | .emit _ p _ => some p | _ => none)
  match emitted r1 with
  | [syn] =>
    let s0 : ServerStream := { key := none, supFuncs := 0, maxSub := 1, minorVer := 0, addr := sAddr, port := 1, type := 10 }
    let sr1 := s0.handle env 1 {} true syn cAddr
    match em sr1.outs with
    | [synAck] =>
      let r2 := r1.c.handle env 2 synAck
      match emitted r2 with
      | [con] =>
        let sr2 := sr1.s.handle env 3 { localSessionId := 9 } true con cAddr
        match em sr2.outs, clientLookup (cAddr, 15, 10) sr2.s.clients with
        | [conAck], some cS => some ((r2.c.handle env 4 conAck).c.resumeHandshake 4 |>.c, cS)
        | _, _ => none
      | _ => none
    | _ => none
  | _ => none

open Nx.L1 Nx.Prudp in
example :
    let env : Env := { C04.toyEnv with s := { fragmentSize := 2, transport := TRANSPORT_TCP, maxSubstreamId := 1 } }
    (handshakeRun env ("10.0.0.2", 1) ("10.0.0.1", 2)).map (fun (c, s) =>
      (c.state, s.state, establishedB 0 2 c s, establishedB 0 1 s c, establishedB 1 1 c s, establishedB 1 1 s c)) =
      some (STATE_CONNECTED, STATE_CONNECTED, true, true, true, true) := by decide +kernel

open Nx.L1 Nx.Prudp in
/-- **substreams are independent on the receiver side**: `process_reliable` of a packet of another substream (whose window holds
    packets of that substream), as long as it does not end the connection — a released DISCONNECT does —, leaves windows, queue,
    fragment buffer, key and decryption position of this substream's receiver role untouched -/
theorem other_substreams_do_not_disturb_receiving (env : Env) (c : Conn) (p : Packet) (sub : Nat) (hne : p.substreamId ≠ sub)
    (hgw : ∀ w, c.windows[p.substreamId]? = some w → ∀ kq ∈ w.packets, kq.2.substreamId = p.substreamId)
    (hes : EofState c) (heof : (c.processReliable env p).c.eof = c.eof) : RecvFr c (c.processReliable env p).c sub :=
  processReliable_other_recvFr env c p sub hne hgw hes heof

/-! non-vacuity of the retransmission theorems: with a scheduler (as after `handshake`), a `send` arms one timer per fragment,
    the timers hold exactly what was handed to the transport, and a fired one hands the same packet over again -/
open Nx.L1 Nx.Prudp in
example :
    let env : Env := { C04.toyEnv with s := { fragmentSize := 2, transport := TRANSPORT_TCP } }
    let a := { Conn.new env (some 1) 1 2 3 ("10.0.0.2", 1) 15 10 ("10.0.0.1", 2) 1 10 with state := STATE_CONNECTED, sched := some {} }
    let b := Conn.new env (some 1) 4 5 6 ("10.0.0.1", 2) 1 10 ("10.0.0.2", 1) 15 10
    let s := Sys.run env 0 (Sys.fresh a b) [SysOp.send 0 [1, 2, 3]]
    resendsOf s.a = s.net ∧ s.net.length = 2 ∧ (∀ q ∈ s.net, relevant 0 q = true) ∧
    (s.net.map fun q => emitted (s.a.fireOne env 7 (.resend q 0))) = s.net.map (fun q => [q]) := by decide +kernel

/-! non-vacuity of the system theorems: a run with a two-fragment message, reordering, duplication (one copy through the whole
    receive path), a forged DISCONNECT, data of the other direction sent by the receiver endpoint and received by the sender endpoint, acknowledgements and an
    aggregate acknowledgement arriving at either end, a keep-alive of the receiver endpoint, a refused `send`, then a
    three-fragment message sent fragment by fragment with a keep-alive ping between its fragments (and a second `send` that
    finds the lock taken), then a graceful `disconnect()`, a refused `send` after it and the DISCONNECT delivered through `handle`
    meets `Sys.runOk`; the receiver ends up at end-of-stream with exactly the accepted messages (stream transport here, i.e. no RC4, only so
    that the kernel evaluates the run in a second rather than minutes — RC4's key schedule on kernel arrays is slow; the theorems
    themselves hold for every key, `endpoint_cipher_ok`) -/
open Nx.L1 Nx.Prudp in
example :
    let env : Env := { C04.toyEnv with s := { fragmentSize := 2, transport := TRANSPORT_TCP } }
    let a := { Conn.new env (some 1) 1 2 3 ("10.0.0.2", 1) 15 10 ("10.0.0.1", 2) 1 10 with state := STATE_CONNECTED }
    let b := { Conn.new env (some 1) 4 5 6 ("10.0.0.1", 2) 1 10 ("10.0.0.2", 1) 15 10 with state := STATE_CONNECTED, remoteSessionId := some 3 }
    let forged : Packet := { type := TYPE_DISCONNECT, flags := 6, packetId := 1, sessionId := 3, signature := some [99] }
    let ack : Packet := { type := TYPE_DATA, flags := FLAG_ACK, packetId := 1, sessionId := 6, signature := some [1] }
    let aggr : Packet := { type := TYPE_DATA, flags := FLAG_ACK + FLAG_MULTI_ACK, packetId := 2, substreamId := 1, payload := [0, 0, 2, 0], signature := some [2] }
    let back : Packet := { type := TYPE_DATA, flags := 14, packetId := 1, sessionId := 6, payload := [42], signature := some [1] }
    let ops := [SysOp.send 0 [1, 2, 3], .deliver 1, .bSend 1 [7, 7, 7] 0, .aRecv 1 back, .inject 1 forged, .ackIn 1 ack, .deliverH 2 1, .bPing 2,
                .deliverH 3 0, .ackIn 4 aggr, .bAckIn 4 ack, .send 5 [], .deliver 7,
                .begin 6 [4, 5, 6, 7, 8], .frag 6, .ping 7, .send 7 [9], .frag 8, .frag 9, .deliver 5, .deliver 3, .deliver 4, .deliver 2,
                .disconnect 10, .send 11 [10], .deliverH 12 6]
    Sys.runOk env 0 (Sys.fresh a b) ops = true ∧
    (Sys.run env 0 (Sys.fresh a b) ops).b.queues = [[[1, 2, 3], [4, 5, 6, 7, 8]]] ∧
    (Sys.run env 0 (Sys.fresh a b) ops).accepted = [[1, 2, 3], [4, 5, 6, 7, 8]] ∧
    (Sys.run env 0 (Sys.fresh a b) ops).net.map (·.type) = [TYPE_DATA, TYPE_DATA, TYPE_DATA, TYPE_PING, TYPE_DATA, TYPE_DATA, TYPE_DISCONNECT] ∧
    (Sys.run env 0 (Sys.fresh a b) ops).nrel = 7 ∧ (Sys.run env 0 (Sys.fresh a b) ops).pend = [] ∧
    (Sys.run env 0 (Sys.fresh a b) ops).b.eof = true ∧ (Sys.run env 0 (Sys.fresh a b) ops).clean = true := by decide +kernel

/-- a compression that changes the bytes and whose inverse can fail (a one-byte header, as zlib's 0x78): the laws the system
    theorems assume are satisfiable by something other than the identity -/
def markEnv : L1.Env :=
  { C04.toyEnv with
    s := { fragmentSize := 2, transport := Nx.Prudp.TRANSPORT_TCP },
    compress := fun b => 0x78 :: b,
    decompress := fun b => match b with
      | 0x78 :: r => .ok r
      | _ => .error .value }

theorem markEnv_laws : L1.EnvLaws markEnv := ⟨fun _ => rfl, fun _ _ h => by cases h⟩

/-! non-vacuity with compression on: a run over `markEnv` (fragments travel with the header byte in front, so the wire differs
    from the plaintext and positions advance by the compressed length) with reordering and a duplicate meets `Sys.runOk`
    and the receiver has exactly the accepted messages -/
open Nx.L1 Nx.Prudp in
example :
    let env := markEnv
    let a := { Conn.new env (some 1) 1 2 3 ("10.0.0.2", 1) 15 10 ("10.0.0.1", 2) 1 10 with state := STATE_CONNECTED }
    let b := { Conn.new env (some 1) 4 5 6 ("10.0.0.1", 2) 1 10 ("10.0.0.2", 1) 15 10 with state := STATE_CONNECTED, remoteSessionId := some 3 }
    let ops := [SysOp.send 0 [1, 2, 3], .send 1 [9], .deliver 2, .deliver 1, .deliverH 2 0, .deliver 1, .disconnect 3, .deliver 3]
    Sys.runOk env 0 (Sys.fresh a b) ops = true ∧
    (Sys.run env 0 (Sys.fresh a b) ops).net.map (·.payload) = [[0x78, 1, 2], [0x78, 3], [0x78, 9], []] ∧
    (Sys.run env 0 (Sys.fresh a b) ops).b.queues = [[[1, 2, 3], [9]]] ∧
    (Sys.run env 0 (Sys.fresh a b) ops).accepted = [[1, 2, 3], [9]] ∧
    (Sys.run env 0 (Sys.fresh a b) ops).b.eof = true := by decide +kernel

/-! ## from the handshake to `Established`

*For every environment, every client and server configuration, every credential and every pair of packets the client is handed: if
the client is CONNECTED after `handshake()`, a SYN packet, a CONNECT packet and the resumption of `handshake()`, and the server
registered a connection for the client's CONNECT, then the two are `Established` towards each other on every substream the
settings allow* — `handshake_leaves_established`, from the server's half (`server_half_after_connect`: what `process_connect`
registers) and the client's half (`client_half_after_handshake`: `handshake()`, `process_syn`, `process_connect` never touch the
receiver role or the ciphers, and the send counter of substream 0 moves from 1 to 2 exactly when the SYN/ACK is accepted). The one
hypothesis left is that the two ends hold equal substream keys and cipher setting: with credentials that is the ticket's session key
reaching both ends (C05 / C16); without credentials it is proved too (`handshake_leaves_established_without_credentials`: the
handshake never touches keys or cipher setting, both ends keep the default key). Besides the theorem, the kernel checks closed
configurations (`handshakeRun`) and the L1 driver evaluates `establishedB` on the model endpoints after every replayed REAL
handshake (`est`). `handshake_any_packets_leaves_established` is the same for ANY sequence of SYN / CONNECT packets handed to the client (duplicates,
reordering, crafted ones). Not covered by the theorems: the client's own retransmission timers firing during the handshake (the probe and
the replays see those). -/

open Nx.L1 Nx.Prudp in
/-- **the server's half, for every configuration**: the connection object `process_connect` registers for a CONNECT from a peer it
    did not know — whatever the environment, the packet, the random draws and the ticket key — is, on every substream the settings
    allow: an empty receive window at id 2 (substream 0: the CONNECT took id 1) or 1, empty queue and fragment buffer, open, on the
    link as given, send counter 1, both cipher positions 0, no retransmission pending, CONNECTED -/
theorem server_half_after_connect (env : Env) (now : Time) (rnd : Rnd) (up : Bool) (s : ServerStream) (p : Packet) (addr : Addr)
    (hnew : clientLookup (addr, p.sourcePort, p.sourceType) s.clients = none) (cs : Conn)
    (hreg : clientLookup (addr, p.sourcePort, p.sourceType) (s.processConnect env now rnd up p addr).s.clients = some cs)
    (sub : Nat) (hsub : sub ≤ env.s.maxSubstreamId) : ServerFresh cs sub up :=
  server_half_established env now rnd up s p addr hnew cs hreg sub hsub

open Nx.L1 Nx.Prudp in
/-- **the client's half, for every configuration**: a new client object, `handshake()`, a SYN packet handled, a CONNECT packet
    handled, `handshake()` resumed — if the client is CONNECTED after that, then on every substream the settings allow its send counter
    is 2 (substream 0) or 1, its receive window is empty at 1, queue and fragment buffer are empty, it is open on a live link, both
    cipher positions are 0 and its pending retransmission timers hold handshake packets only -/
theorem client_half_after_handshake (env : Env) (version : Option Nat) (u chk sid : Nat) (la : Addr) (lp lt : Nat) (ra : Addr) (rp rt : Nat)
    (t0 t1 t2 t3 : Time) (creds : Option Creds) (synAck conAck : Packet) (hs : synAck.type = TYPE_SYN) (hc : conAck.type = TYPE_CONNECT)
    (sub : Nat) (hsub : sub ≤ env.s.maxSubstreamId) :
    let c4 := ((((Conn.new env version u chk sid la lp lt ra rp rt).handshake env t0 creds).c.handle env t1 synAck).c.handle env t2 conAck).c.resumeHandshake t3 |>.c
    c4.state = STATE_CONNECTED → ClientReady c4 sub :=
  fun h => (client_half_established env version u chk sid la lp lt ra rp rt t0 t1 t2 t3 creds synAck conAck hs hc sub hsub h).1

open Nx.L1 Nx.Prudp in
/-- **the handshake leaves the two endpoints `Established` in both directions** (hence, by `C01_duplex_established`, every duplex
    theorem applies to what follows) -/
theorem handshake_leaves_established (envC envS : Env) (version : Option Nat) (u chk sid : Nat) (la : Addr) (lp lt : Nat) (ra : Addr) (rp rt : Nat)
    (t0 t1 t2 t3 : Time) (creds : Option Creds) (synAck conAck : Packet) (hs : synAck.type = TYPE_SYN) (hc : conAck.type = TYPE_CONNECT)
    (now : Time) (rnd : Rnd) (s : ServerStream) (con : Packet) (addr : Addr)
    (hnew : clientLookup (addr, con.sourcePort, con.sourceType) s.clients = none) (cs : Conn)
    (hreg : clientLookup (addr, con.sourcePort, con.sourceType) (s.processConnect envS now rnd true con addr).s.clients = some cs)
    (sub : Nat) (hsubC : sub ≤ envC.s.maxSubstreamId) (hsubS : sub ≤ envS.s.maxSubstreamId) :
    let c4 := ((((Conn.new envC version u chk sid la lp lt ra rp rt).handshake envC t0 creds).c.handle envC t1 synAck).c.handle envC t2 conAck).c.resumeHandshake t3 |>.c
    c4.state = STATE_CONNECTED →
    (c4.relCiphers[sub]?).map StreamCipher.key = (cs.relCiphers[sub]?).map StreamCipher.key → cs.cipherOn = c4.cipherOn →
    Established sub (if sub = 0 then 2 else 1) c4 cs ∧ Established sub 1 cs c4 := by
  intro c4 hconn hk hon
  exact established_of_halves sub c4 cs
    (client_half_established envC version u chk sid la lp lt ra rp rt t0 t1 t2 t3 creds synAck conAck hs hc sub hsubC hconn).1
    (server_half_established envS now rnd true s con addr hnew cs hreg sub hsubS) hk hon

open Nx.L1 Nx.Prudp in
/-- **… and without credentials nothing is left to assume**: a client that logs in with no credentials, a server without a ticket
    key, the same transport setting at both ends — the handshake never touches keys or cipher setting, both ends hold the default key
    under the transport's cipher setting, so a completed handshake leaves them `Established` in both directions on every substream -/
theorem handshake_leaves_established_without_credentials (envC envS : Env) (version : Option Nat) (u chk sid : Nat) (la : Addr) (lp lt : Nat) (ra : Addr) (rp rt : Nat)
    (t0 t1 t2 t3 : Time) (synAck conAck : Packet) (hs : synAck.type = TYPE_SYN) (hc : conAck.type = TYPE_CONNECT)
    (now : Time) (rnd : Rnd) (s : ServerStream) (con : Packet) (addr : Addr) (hkey : s.key = none)
    (htr : envS.s.transport = envC.s.transport)
    (hnew : clientLookup (addr, con.sourcePort, con.sourceType) s.clients = none) (cs : Conn)
    (hreg : clientLookup (addr, con.sourcePort, con.sourceType) (s.processConnect envS now rnd true con addr).s.clients = some cs)
    (sub : Nat) (hsubC : sub ≤ envC.s.maxSubstreamId) (hsubS : sub ≤ envS.s.maxSubstreamId) :
    let c4 := ((((Conn.new envC version u chk sid la lp lt ra rp rt).handshake envC t0 none).c.handle envC t1 synAck).c.handle envC t2 conAck).c.resumeHandshake t3 |>.c
    c4.state = STATE_CONNECTED → Established sub (if sub = 0 then 2 else 1) c4 cs ∧ Established sub 1 cs c4 := by
  intro c4 hconn
  obtain ⟨hcr, hck, hcon⟩ := client_half_established envC version u chk sid la lp lt ra rp rt t0 t1 t2 t3 none synAck conAck hs hc sub hsubC hconn
  obtain ⟨hson, hsk⟩ := server_ciphers envS now rnd true s con addr hnew cs hreg
  refine established_of_halves sub c4 cs hcr (server_half_established envS now rnd true s con addr hnew cs hreg sub hsubS) ?_ ?_
  · rw [hck, hsk hkey]
    simp only [clientKeys, List.getElem?_map]
    rw [replicate_get _ _ _ (by omega), replicate_get _ _ _ (by omega)]
  · rw [hson, hcon, htr]

open Nx.L1 Nx.Prudp in
/-- **the handshake theorem for ANY handshake packets at the client**: after `handshake()` the client is handed any sequence of SYN
    and CONNECT packets — genuine, duplicated, reordered, late, crafted with any parameters and signatures, any number of them —
    and then `handshake()` resumes (`clientRun`; excluded: the step that made the client CONNECTED raised, i.e. the CONNECT could not
    be encoded). If the client ends up CONNECTED and the server registered a connection for a CONNECT from this peer, the two are
    `Established` towards each other on every substream, given equal substream keys and cipher setting (see
    `handshake_leaves_established_without_credentials` for when that is a theorem too). The CONNECT went out exactly once; a second
    SYN/ACK, whatever it says, changed nothing (`C07.late_synack_changes_nothing`). -/
theorem handshake_any_packets_leaves_established (envC envS : Env) (version : Option Nat) (u chk sid : Nat) (la : Addr) (lp lt : Nat) (ra : Addr) (rp rt : Nat)
    (t0 t3 : Time) (creds : Option Creds) (xs : List HsPkt) (c' : Conn)
    (hr : clientRun envC ((Conn.new envC version u chk sid la lp lt ra rp rt).handshake envC t0 creds).c xs = some c')
    (now : Time) (rnd : Rnd) (s : ServerStream) (con : Packet) (addr : Addr)
    (hnew : clientLookup (addr, con.sourcePort, con.sourceType) s.clients = none) (cs : Conn)
    (hreg : clientLookup (addr, con.sourcePort, con.sourceType) (s.processConnect envS now rnd true con addr).s.clients = some cs)
    (sub : Nat) (hsubC : sub ≤ envC.s.maxSubstreamId) (hsubS : sub ≤ envS.s.maxSubstreamId)
    (hconn : (c'.resumeHandshake t3).c.state = STATE_CONNECTED)
    (hk : ((c'.resumeHandshake t3).c.relCiphers[sub]?).map StreamCipher.key = (cs.relCiphers[sub]?).map StreamCipher.key)
    (hon : cs.cipherOn = (c'.resumeHandshake t3).c.cipherOn) :
    Established sub (if sub = 0 then 2 else 1) (c'.resumeHandshake t3).c cs ∧ Established sub 1 cs (c'.resumeHandshake t3).c :=
  established_of_halves sub _ cs
    (client_half_any_packets envC version u chk sid la lp lt ra rp rt t0 t3 creds xs c' hr sub hsubC hconn).1
    (server_half_established envS now rnd true s con addr hnew cs hreg sub hsubS) hk hon

/-! non-vacuity of `handshake_any_packets_leaves_established`: the client is handed the CONNECT/ACK too early (refused while
    CONNECTING), the genuine SYN/ACK, its duplicate, a crafted SYN/ACK with other parameters and another connection signature, the
    CONNECT/ACK, its duplicate, a late SYN/ACK and the crafted one again: `clientRun` succeeds, the client is CONNECTED with the
    parameters of the GENUINE SYN/ACK, its send counters are [2, 1] (one CONNECT), and the two ends are `Established` both ways on both
    substreams -/
open Nx.L1 Nx.Prudp in
def hsPkt? (now : Time) (p : Packet) : Option HsPkt :=
  if h : p.type = TYPE_SYN then some ⟨now, p, Or.inl h⟩ else if h2 : p.type = TYPE_CONNECT then some ⟨now, p, Or.inr h2⟩ else none

open Nx.L1 Nx.Prudp in
def handshakeRunNoisy (env : Env) (cAddr sAddr : Addr) : Option (Conn × Conn) :=
  let c0 := Conn.new env (some 1) 1 2 3 cAddr 15 10 sAddr 1 10
  let r1 := c0.handshake env 0 none
  let em (outs : List SOut) : List Packet := outs.filterMap (fun o => match o with | .emit _ p _ => some p | _ => none)
  match emitted r1 with
  | [syn] =>
    let s0 : ServerStream := { key := none, supFuncs := 0, maxSub := 1, minorVer := 0, addr := sAddr, port := 1, type := 10 }
    let sr1 := s0.handle env 1 {} true syn cAddr
    match em sr1.outs with
    | [synAck] =>
      match emitted (r1.c.handle env 2 synAck) with
      | [con] =>
        let sr2 := sr1.s.handle env 3 { localSessionId := 9 } true con cAddr
        match em sr2.outs, clientLookup (cAddr, 15, 10) sr2.s.clients with
        | [conAck], some cS =>
          let crafted : Packet := { synAck with maxSubstreamId := 0, connectionSignature := some [9, 9, 9, 9] }
          match [hsPkt? 1 conAck, hsPkt? 2 synAck, hsPkt? 3 synAck, hsPkt? 3 crafted, hsPkt? 4 conAck, hsPkt? 5 conAck,
                 hsPkt? 6 synAck, hsPkt? 6 crafted].mapM id with
          | some xs => (clientRun env r1.c xs).map (fun c' => ((c'.resumeHandshake 7).c, cS))
          | none => none
        | _, _ => none
      | _ => none
    | _ => none
  | _ => none

open Nx.L1 Nx.Prudp in
example :
    let env : Env := { C04.toyEnv with s := { fragmentSize := 2, transport := TRANSPORT_TCP, maxSubstreamId := 1 } }
    (handshakeRunNoisy env ("10.0.0.2", 1) ("10.0.0.1", 2)).map (fun (c, s) =>
      (c.state == STATE_CONNECTED) && (c.counters == [2, 1]) && (c.maxSub == 1) && establishedB 0 2 c s && establishedB 0 1 s c &&
        establishedB 1 1 c s && establishedB 1 1 s c) = some true := by decide +kernel

/-! non-vacuity of `ClientReady`: the client the modelled handshake produces has every field of it (substreams 0 and 1) -/
open Nx.L1 Nx.Prudp in
example :
    let env : Env := { C04.toyEnv with s := { fragmentSize := 2, transport := TRANSPORT_TCP, maxSubstreamId := 1 } }
    (handshakeRun env ("10.0.0.2", 1) ("10.0.0.1", 2)).map (fun (c, _) =>
      [0, 1].all (fun sub =>
        (c.counters[sub]? == some (if sub = 0 then 2 else 1)) && (c.windows[sub]? == some { next := 1, packets := [] }) &&
        (c.queues[sub]? == some []) && (c.fragBufs[sub]? == some []) && !c.eof && c.linkUp &&
        ((c.relCiphers[sub]?).map (·.encPos) == some 0) && ((c.relCiphers[sub]?).map (·.decPos) == some 0) &&
        (resendsOf c).all (fun p => !relevant sub p))) = some true := by decide +kernel

/-! non-vacuity of `C07.late_synack_changes_nothing`: after the modelled handshake the client is CONNECTED and no SYN is waiting
    for its acknowledgement; a crafted SYN/ACK with other parameters leaves it as it was -/
open Nx.L1 Nx.Prudp in
example :
    let env : Env := { C04.toyEnv with s := { fragmentSize := 2, transport := TRANSPORT_TCP, maxSubstreamId := 1 } }
    let crafted : Packet := { type := TYPE_SYN, flags := FLAG_ACK, maxSubstreamId := 0, minorVersion := 0, supportedFunctions := 0,
                              connectionSignature := some [9, 9, 9, 9], signature := some [1] }
    (handshakeRun env ("10.0.0.2", 1) ("10.0.0.1", 2)).map (fun (c, _) =>
      (c.state == STATE_CONNECTED) && c.ackEvents.all (fun e => e.1.1 != TYPE_SYN) && ((c.handle env 9 crafted).c == c)) = some true := by
  decide +kernel

/-! ## both directions of a connection at once -/

open Nx.L1 Nx.Prudp in
/-- **"For each direction … every interleaving of sends in both directions."** Two endpoints A and B, each both sender and
    receiver on substream `sub`. A history is any sequence of: an application `send` at either end — as one step, or fragment
    by fragment (`beginA`, `fragA`, …) with anything either end or the network does in between —, a keep-alive of either end, the delivery (through `handle`: gates, acknowledgement, window, release loop) of ANY packet either end has ever
    emitted to the other end — any order, any number of times, never = loss —, any acknowledgement arriving at either
    end, a retransmission timer of either end firing, any packet with a signature its receiver does not expect at either end, a graceful `disconnect()` of either end, and —
    since `sub` is any substream — sends of either end on the OTHER substreams and any ordinary packet of another substream
    arriving at either end (so the statement holds for every direction and substream while all the others are active). In every state such a history reaches, what B's application can read
    is a prefix of what A's application sent AND what A's application can read is a prefix of what B's sent. The step
    hypotheses (`Duplex.opOk`) are those of `Sys.opOk` for each view; for a delivery that is the half-window condition alone
    (`delivery_hypothesis_is_the_window`). -/
theorem C01_duplex_safety (env : Env) (hl : EnvLaws env) (sub : Nat) (ciA ciB : Cipher) (sizeA sizeB : Nat) (hA : 1 ≤ sizeA) (hB : 1 ≤ sizeB)
    (startA startB : Nat) (ops : List DOp) (d : Duplex) (chAB chBA : Chan)
    (h0 : DGood env sub ciA ciB sizeA sizeB startA startB d chAB chBA) (hok : Duplex.runOk env sub d ops = true) :
    ((Duplex.run env sub d ops).ab.b.queues[sub]?.getD []) <+: (Duplex.run env sub d ops).ab.accepted ∧
    ((Duplex.run env sub d ops).ab.a.queues[sub]?.getD []) <+: (Duplex.run env sub d ops).ba.accepted :=
  duplex_safe (duplex_run env hl sub ciA ciB sizeA sizeB hA hB startA startB ops d chAB chBA h0 hok)

open Nx.L1 Nx.Prudp in
/-- … and once everything either end emitted has been released at the other end (both still connected), and no `send` is between its fragments, each application has
    exactly what the other one sent -/
theorem C01_duplex_complete (env : Env) (hl : EnvLaws env) (sub : Nat) (ciA ciB : Cipher) (sizeA sizeB : Nat) (hA : 1 ≤ sizeA) (hB : 1 ≤ sizeB)
    (startA startB : Nat) (ops : List DOp) (d : Duplex) (chAB chBA : Chan)
    (h0 : DGood env sub ciA ciB sizeA sizeB startA startB d chAB chBA) (hok : Duplex.runOk env sub d ops = true)
    (hallA : (Duplex.run env sub d ops).ab.nrel = (Duplex.run env sub d ops).ab.net.length)
    (hallB : (Duplex.run env sub d ops).ba.nrel = (Duplex.run env sub d ops).ba.net.length)
    (hidleA : (Duplex.run env sub d ops).ab.pend = []) (hidleB : (Duplex.run env sub d ops).ba.pend = [])
    (hopenA : (Duplex.run env sub d ops).ab.a.state = STATE_CONNECTED) (hopenB : (Duplex.run env sub d ops).ba.a.state = STATE_CONNECTED) :
    ((Duplex.run env sub d ops).ab.b.queues[sub]?.getD []) = (Duplex.run env sub d ops).ab.accepted ∧
    ((Duplex.run env sub d ops).ab.a.queues[sub]?.getD []) = (Duplex.run env sub d ops).ba.accepted :=
  duplex_complete (duplex_run env hl sub ciA ciB sizeA sizeB hA hB startA startB ops d chAB chBA h0 hok) hallA hallB hidleA hidleB hopenA hopenB

open Nx.L1 Nx.Prudp in
/-- **Liveness in both directions.** From the initial channels: if both ends are still open and connected and every packet
    either end handed to its transport has been delivered to the other end at least once, each application has exactly what
    the other one sent. (That every packet does arrive once within the retransmission budget is the timers' job:
    `C01_retransmission_is_redelivery`, and on the real code the budget-regime sessions of the correspondence run.) -/
theorem C01_duplex_liveness (env : Env) (hl : EnvLaws env) (sub : Nat) (ciA ciB : Cipher) (sizeA sizeB : Nat) (hA : 1 ≤ sizeA) (hB : 1 ≤ sizeB)
    (startA startB : Nat) (hsA : startA < 65536) (hsB : startB < 65536) (ops : List DOp) (d : Duplex)
    (h0 : DGood env sub ciA ciB sizeA sizeB startA startB d (Chan.init startA) (Chan.init startB))
    (hok : Duplex.runOk env sub d ops = true)
    (hopenB : (Duplex.run env sub d ops).ab.b.eof = false) (hopenA : (Duplex.run env sub d ops).ba.b.eof = false)
    (hconA : (Duplex.run env sub d ops).ab.a.state = STATE_CONNECTED) (hconB : (Duplex.run env sub d ops).ba.a.state = STATE_CONNECTED)
    (hidleA : (Duplex.run env sub d ops).ab.pend = []) (hidleB : (Duplex.run env sub d ops).ba.pend = [])
    (hallA : ∀ j, j < (Duplex.run env sub d ops).ab.net.length →
      j ∈ arrived (wrap env ciA) sizeA (Chan.init startA) (Duplex.absAB env sub d ops))
    (hallB : ∀ j, j < (Duplex.run env sub d ops).ba.net.length →
      j ∈ arrived (wrap env ciB) sizeB (Chan.init startB) (Duplex.absBA env sub d ops)) :
    ((Duplex.run env sub d ops).ab.b.queues[sub]?.getD []) = (Duplex.run env sub d ops).ab.accepted ∧
    ((Duplex.run env sub d ops).ab.a.queues[sub]?.getD []) = (Duplex.run env sub d ops).ba.accepted :=
  duplex_liveness env hl sub ciA ciB sizeA sizeB hA hB startA startB hsA hsB ops d h0 hok hopenB hopenA hconA hconB hidleA hidleB hallA hallB

open Nx.L1 Nx.Prudp in
/-- **Graceful close, both directions on one connection.** In every state a duplex history reaches: if B's application has
    seen end-of-stream — here that can only come from A's DISCONNECT being released by B's window — and A's `disconnect()` was
    called while no `send` of A was between its fragments, then B's application had received everything A's application sent;
    and the same with A and B exchanged. (While A is disconnecting it goes on receiving: `disconnectA` is a frame step of the
    B→A direction.) -/
theorem C01_duplex_graceful_close (env : Env) (hl : EnvLaws env) (sub : Nat) (ciA ciB : Cipher) (sizeA sizeB : Nat) (hA : 1 ≤ sizeA) (hB : 1 ≤ sizeB)
    (startA startB : Nat) (ops : List DOp) (d : Duplex) (chAB chBA : Chan)
    (h0 : DGood env sub ciA ciB sizeA sizeB startA startB d chAB chBA) (hok : Duplex.runOk env sub d ops = true) :
    ((Duplex.run env sub d ops).ab.b.eof = true → (Duplex.run env sub d ops).ab.clean = true →
      ((Duplex.run env sub d ops).ab.b.queues[sub]?.getD []) = (Duplex.run env sub d ops).ab.accepted) ∧
    ((Duplex.run env sub d ops).ab.a.eof = true → (Duplex.run env sub d ops).ba.clean = true →
      ((Duplex.run env sub d ops).ab.a.queues[sub]?.getD []) = (Duplex.run env sub d ops).ba.accepted) :=
  duplex_closed (duplex_run env hl sub ciA ciB sizeA sizeB hA hB startA startB ops d chAB chBA h0 hok)

open Nx.L1 Nx.Prudp in
/-- the duplex hypotheses hold for two endpoints that are `Established` in both directions (what a handshake leaves) -/
theorem C01_duplex_established (env : Env) (sub startA startB : Nat) (a b : Conn)
    (hab : Established sub startA a b) (hba : Established sub startB b a) :
    DGood env sub (cipherOf a sub) (cipherOf b sub) a.fragmentSize b.fragmentSize startA startB
      { ab := Sys.fresh a b, ba := Sys.fresh b a } (Chan.init startA) (Chan.init startB) :=
  duplex_established env sub startA startB a b hab hba

open Nx.L1 Nx.Prudp in
theorem delivery_hypothesis_is_the_window {env : Env} {sub : Nat} {ci : Cipher} {size start : Nat} {d : Duplex} {ch : Chan} (now : Time) (j : Nat)
    (h : Good env sub ci size start d.ab ch) : d.opOk env sub (.toB now j) = d.ab.opOk env sub (.deliverH now j) :=
  toB_ok now j h

/-! non-vacuity: two established endpoints; A sends a two-fragment message fragment by fragment (B's send and a second send
    of A, which finds the lock taken, fall between the fragments), B two messages; the packets of both directions
    are delivered out of order, one twice; a forged DISCONNECT arrives at B and a forged DATA packet at A; a keep-alive of A, an acknowledgement arriving at A; the run meets `Duplex.runOk`,
    both endpoints are `Established` towards each other at the start; then A disconnects gracefully, B still sends a message
    which A (disconnecting) receives, A's DISCONNECT reaches B: end-of-stream at B with everything A sent delivered -/
open Nx.L1 Nx.Prudp in
example :
    let env : Env := { C04.toyEnv with s := { fragmentSize := 2, transport := TRANSPORT_TCP } }
    let a := { Conn.new env (some 1) 1 2 3 ("10.0.0.2", 1) 15 10 ("10.0.0.1", 2) 1 10 with state := STATE_CONNECTED, remoteSessionId := some 6 }
    let b := { Conn.new env (some 1) 4 5 6 ("10.0.0.1", 2) 1 10 ("10.0.0.2", 1) 15 10 with state := STATE_CONNECTED, remoteSessionId := some 3 }
    let ack : Packet := { type := TYPE_DATA, flags := FLAG_ACK, packetId := 1, sessionId := 6, signature := some [1] }
    let forgedB : Packet := { type := TYPE_DISCONNECT, flags := 6, packetId := 1, sessionId := 3, signature := some [99] }
    let forgedA : Packet := { type := TYPE_DATA, flags := 14, packetId := 1, sessionId := 6, payload := [66], signature := some [98] }
    let ops := [DOp.beginA 0 [1, 2, 3], .fragA 0, .sendB 0 [7, 7], .sendA 0 [5], .injectB 1 forgedB, .fragA 1, .toB 1 1, .toA 1 0, .injectA 1 forgedA, .toB 2 0, .toB 3 1, .pingA 4, .toB 4 2,
                .beginB 5 [8], .fragB 5, .toA 6 1, .ackToA 6 ack, .toA 7 0, .disconnectA 8, .sendB 9 [9], .toA 9 2, .toB 10 3]
    let d0 : Duplex := { ab := Sys.fresh a b, ba := Sys.fresh b a }
    (establishedB 0 1 a b && establishedB 0 1 b a) = true ∧
    Duplex.runOk env 0 d0 ops = true ∧
    (Duplex.run env 0 d0 ops).ab.b.queues = [[[1, 2, 3]]] ∧ (Duplex.run env 0 d0 ops).ab.accepted = [[1, 2, 3]] ∧
    (Duplex.run env 0 d0 ops).ab.a.queues = [[[7, 7], [8], [9]]] ∧ (Duplex.run env 0 d0 ops).ba.accepted = [[7, 7], [8], [9]] ∧
    (Duplex.run env 0 d0 ops).ab.b.eof = true ∧ (Duplex.run env 0 d0 ops).ab.clean = true ∧
    (Duplex.run env 0 d0 ops).ab.a = (Duplex.run env 0 d0 ops).ba.b := by decide +kernel

end Nx.C01
