import NxModel.Nex.RmcServer
namespace Nx.RmcServer
open Nx Nx.Rmc

theorem react_unknown_protocol (servers : Registry) (req : Msg) (h : HandleResult)
    (hp : regLookup req.protocol servers = none) :
    react servers req h = sendMsg (responseMsg req (errorResult coreNotImplemented) []) := by
  simp [react, hp]

end Nx.RmcServer
