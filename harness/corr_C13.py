"""C13 — generated structures and methods use exactly the layout their definitions state.

Tie of the Lean schema interpreter (NxModel/Nex/Schema.lean, theorems in NxProps/C13.lean) to the tree:
 1. translator (tools/schema_proto2lean.py): own .proto reader, cross-checked against the repository's
    Tokenizer/Parser; per definition file a generated Lean file whose obligations (`wf_structs`, `wf_protos`,
    `wf_env`) are kernel-checked;
 2. exhaustive over programs: every structure class and every method of every generated module, schema-directed
    values, nex.version in {0, each gate, gate-1, 99999} x struct header off/on x pid size 4/8: bytes of the real
    generated code (Structure.encode, generated client -> fake RMC client -> generated server) must equal the
    interpreter's, and what the real code decodes must equal the interpreter's visible value.
The property *is* "equals an independent interpreter of the definition", so a difference on a well-formed value is
reported as a violation with that value as the replay.

The definition as the independent reader reads it is the authority. When the repository's reader disagrees with it
(e.g. the generator's model of a structure body was changed and the modules regenerated), that alone is only a broken
tie; the check goes on to compare the checked-in generated classes with the definition, spends extra values on the
items the two readings differ on (harness/schema_c13_focus.py), and reports the concrete structure, configuration and
value (shrunk to the attributes that matter) whose bytes differ. Only when the generated code agrees with the
definition on everything explored does the disagreement end as `no-failing-input-found`.
Besides the random boundary values every (item, configuration) gets one *marker* value: every attribute at every
depth set, non-default and distinguishable from its neighbours, so swapped / dropped / wrongly gated attributes always
change the bytes.
 3. histories of ONE value object (harness/c13_inplace.py): the same structure instance is written, mutated in place
    (attribute of an inner structure assigned through the inner object, list appended to / element replaced / removed,
    dict item set / added / removed, attribute of a list element, and plain assignment of an attribute of the written object:
    bytes -> other bytes, ...), and written again under the same settings object, through StreamOut.add and through repeated
    calls of one generated client / server with the same argument / result objects: EVERY write must be the interpreter's
    encoding of the values as they stand at that moment.
 4. histories on the READING side (harness/c13_redecode.py): the same interpreter-made bytes are decoded again and again
    (Structure.decode, argument decoding of every generated server method, response decoding of every generated client
    method) while the application changes the objects it was handed in place (StationURL.__setitem__, DateTime / Result
    state, list / dict / structure / payload mutation at every site, then everything reachable at once): EVERY decode must
    give, field by field, the interpreter's visible value of the bytes and re-encode to the interpreter's bytes, and a
    change of ONE site of a decoded value must leave the rest of that value as it was (twins: equal values in one list / map
    / pair of attributes or arguments; empty and absent values).
"""
import concurrent.futures, multiprocessing, os, time
import vf
from schema_proto2lean import load_env
import schema_tie as T
import schema_c13_focus as F
import c13_inplace as IP
import c13_redecode as RD

LEVEL = "proof"


def proto_names(repo):
    d = os.path.join(repo, "nintendo/files/proto")
    return sorted(f[:-6] for f in os.listdir(d) if f.endswith(".proto"))


def obligations(ctx, envs, which=("wf_structs", "wf_protos", "wf_env")):
    """kernel-check the generated Lean files (in parallel); returns list of (module, theorem, ok, output)"""
    results = []
    def one(name):
        src, names = envs[name].lean_obligations()
        names = [n for n in names if n in which or (("rev" in which) and n.startswith("rev_ascending_"))]
        keep = []
        for line in src.split("\n"):
            if line.startswith("/--"): continue      # doc comments of dropped theorems must not dangle
            if line.startswith("theorem "):
                tn = line.split()[1]
                if tn not in names: continue
            keep.append(line)
        ok, out = ctx.lean_check("Schema_%s_%s" % (name, "rev" if "rev" in which else "wf"), "\n".join(keep) + "\n")
        return name, names, keep, ok, out
    with concurrent.futures.ThreadPoolExecutor(max_workers=8) as ex:
        for name, names, keep, ok, out in ex.map(one, sorted(envs)):
            failed = set()
            if not ok:
                # map error lines back to theorem names
                import re
                for m in re.finditer(r"\.lean:(\d+):\d+: error", out):
                    ln = int(m.group(1))
                    for i in range(ln - 1, -1, -1):
                        if i < len(keep) and keep[i].startswith("theorem "):
                            failed.add(keep[i].split()[1]); break
                if not failed: failed = set(names)
            for n in names:
                results.append((name, n, n not in failed, out if n in failed else ""))
    return results


def run(ctx):
    repo = vf.REPO
    quick = ctx.tier == "quick"
    names = proto_names(repo)
    protodir = os.path.join(repo, "nintendo/files/proto")
    exe = ctx.driver().exe
    ctx.rule = ("every structure class and every method of every generated module (programs), each under nex.version in {0, every gate value, gate-1, 99999} "
                "x struct header off/on x pid size 4/8, with %s schema-directed random value(s) per (item, configuration) (boundary ints of the declared width, "
                "None/empty/multi-byte strings, empty and nested lists/maps, every variant tag and every registered DataHolder payload in rotation) "
                "plus one marker value (every attribute at every depth set, non-default, distinguishable from its neighbours); items on which the "
                "repository's reader of the definition disagrees with the independent reader get 6 (thorough: 12) more values: "
                "real bytes (Structure.encode; generated client -> fake RMC client -> generated server with a recording implementation) vs the compiled Lean "
                "interpreter of the translated definition, and real decode vs the interpreter's visible value; plus truncations and required-None encodings; "
                "plus histories of ONE object per (structure class | method, configuration, marker/random start value): write, then %d in-place mutations "
                "(inner structure attribute through the inner object, list append/setitem/del, dict set/new/del, attribute of a list element, attribute of the "
                "written object incl. bytes->other bytes; categories in rotation so that every class sees every category it has a site for) each followed by a write "
                "under the same settings object (StreamOut.add, one accumulating stream, repeated calls of one generated client/server with the same objects): "
                "every write vs the interpreter's encoding of the current value; "
                "plus histories of DECODES per (structure class | method request | method response, configuration, start value in {marker with twins, one of random / random "
                "with twins / all-empty / every station url empty / every station url absent in rotation}): the interpreter's bytes decoded by the real code, %d single-site "
                "in-place mutations of the decoded object (the inplace categories + StationURL.__setitem__, DateTime.val, Result.error_code; categories in rotation), each "
                "followed by reading the whole object back (only that site may have changed), decode again, one more single-site mutation, then EVERYTHING reachable from all "
                "decoded objects mutated in place, decode again under a fresh settings / server / client object: every decode vs the interpreter's visible value of the bytes, "
                "nothing undecoded, and re-encoded vs the interpreter's bytes. "
                "distinct non-trivial = distinct (module, item, configuration, repetition) cases that agreed" % ("1" if quick else "6", 4 if quick else 6, 2 if quick else 4))
    # ---- 1. translate + cross-check the two readers
    # The definition, as the independent reader reads it, is the authority of the property. A disagreement with the
    # repository's own reader is not reported here: the items the readings differ on become the *focus* of the tie
    # (more values, see schema_c13_focus), and only if the checked-in generated code agrees with the definition on
    # everything explored does the disagreement end as a broken correspondence without failing input (step 4).
    envs, reader_problem, focus = {}, {}, {}
    for n in names:
        env, problem = load_env(protodir, repo, n)
        if problem:
            reader_problem[n] = problem
            if env is not None:
                focus[n] = F.reader_focus(protodir, repo, n)
        if env is not None:
            envs[n] = env
        else:
            ctx.corr_break("proto-readers:" + n, "the independent .proto reader fails on %s.proto (no reading of the definition to compare the generated code with): %s" % (n, problem), {"file": n})
    ctx.extra["definitions_read_differently_by_the_repository_reader"] = sorted(reader_problem)
    # ---- 2. generated obligations
    t0 = time.time()
    for name, thm, ok, out in obligations(ctx, envs):
        ctx.obligation(ok)
        if not ok:
            ctx.corr_break("obligation:%s:%s" % (name, thm), "generated Lean obligation %s for %s.proto does not check" % (thm, name), {"file": name, "theorem": thm, "lean_output": out[-1500:]})
    ctx.extra["obligation_wall_s"] = round(time.time() - t0, 1)
    # ---- 3. exhaustive tie, one fresh process per (module, slice of configurations)
    per_item = 1 if quick else 6
    ip_steps = 4 if quick else 6          # mutations per object history (each followed by a write)
    rd_steps = 2 if quick else 4          # single-site mutations of the first decoded object of a decode history
    tasks = []
    weight = {}
    for n, env in envs.items():
        cfgs = T.module_configs(env)
        w = (len(env.order) + sum(len(p["methods"]) for p in env.protos)) * len(cfgs)
        weight[n] = w
        nchunks = max(1, min(len(cfgs), round(w / (1500 if quick else 400))))
        size = (len(cfgs) + nchunks - 1) // nchunks
        for i in range(0, len(cfgs), size):
            opts = {"marker": True, "shrink": True}
            if n in focus:
                opts.update(focus=focus[n], focus_reps=6 if quick else 12)
            tasks.append(("tie", (repo, n, cfgs[i:i + size], ctx.seed, per_item, exe, True, opts)))
            # the in-place histories of the same slice (own process: own objects, own driver batch)
            tasks.append(("inplace", (repo, n, cfgs[i:i + size], ctx.seed, ip_steps, exe, i)))
            # decode / mutate the decoded object in place / decode the same bytes again
            tasks.append(("redecode", (repo, n, cfgs[i:i + size], ctx.seed, rd_steps, exe, i)))
    tasks.sort(key=lambda t: -weight[t[1][1]] * len(t[1][2]))
    mp = multiprocessing.get_context("fork")
    total_structs, total_methods, unsupported = {}, {}, 0
    soft, hard = [], []
    crashed = {}
    ip = {"diffs": [], "histories": 0, "writes": 0, "avail": set(), "seen": set(), "crashed": {}}
    rd = {"diffs": [], "histories": 0, "decodes": 0, "mutated": 0, "avail": set(), "seen": set(), "crashed": {}}
    with mp.Pool(processes=min(16, os.cpu_count() or 4), maxtasksperchild=1) as pool:
        for res in pool.imap_unordered(RD.dispatch, tasks):
            if res.get("family") == "redecode":
                if res["error"]:
                    if "RuntimeError: driver " in res["error"] or "TimeoutExpired" in res["error"] or "MemoryError" in res["error"]:
                        raise vf.InfraError("redecode worker for %s crashed:\n%s" % (res["module"], res["error"]))
                    rd["crashed"].setdefault(res["module"], res["error"])
                    continue
                for k in res["keys"]:
                    ctx.case(key=k, nontrivial=True)
                ctx.evaluations += res["decodes"] - len(res["keys"])
                for t, c in res["tags"].items(): ctx.tag(t, c)
                for s_ in res["samples"]:
                    if not any("redecode_history" in x for x in ctx.samples) and len(ctx.samples) < 7: ctx.samples.append(s_)
                ctx.traces_validated += res["lines"]
                rd["histories"] += res["cases"]; rd["decodes"] += res["decodes"]; rd["mutated"] += res["mutated_objects"]
                rd["avail"].update((res["module"],) + tuple(x) for x in res["avail"])
                rd["seen"].update((res["module"],) + tuple(x) for x in res["seen"])
                rd["diffs"].extend(res["diffs"])
                continue
            if res.get("family") == "inplace":
                if res["error"]:
                    if "RuntimeError: driver " in res["error"] or "TimeoutExpired" in res["error"] or "MemoryError" in res["error"]:
                        raise vf.InfraError("in-place worker for %s crashed:\n%s" % (res["module"], res["error"]))
                    ip["crashed"].setdefault(res["module"], res["error"])
                    continue
                for k in res["keys"]:
                    ctx.case(key=k, nontrivial=True)
                ctx.evaluations += res["writes"] - len(res["keys"])
                for t, c in res["tags"].items(): ctx.tag(t, c)
                for s_ in res["samples"]:
                    if not any("history" in x for x in ctx.samples) and len(ctx.samples) < 6: ctx.samples.append(s_)
                ctx.traces_validated += res["lines"]
                ip["histories"] += res["cases"]; ip["writes"] += res["writes"]
                ip["avail"].update((res["module"],) + tuple(x) for x in res["avail"])
                ip["seen"].update((res["module"],) + tuple(x) for x in res["seen"])
                ip["diffs"].extend(res["diffs"])
                continue
            if res["error"]:
                if "RuntimeError: driver " in res["error"] or "TimeoutExpired" in res["error"] or "MemoryError" in res["error"]:
                    raise vf.InfraError("worker for %s crashed:\n%s" % (res["module"], res["error"]))
                # the harness drives every generated module of the unchanged tree without an exception: a crash means the
                # generated module / library no longer behaves as the tie expects, and no failing input was isolated
                crashed.setdefault(res["module"], res["error"])
                continue
            total_structs[res["module"]] = res["structs"]
            total_methods[res["module"]] = max(total_methods.get(res["module"], 0), res["methods"])
            unsupported += res["unsupported_checked"]
            for k in res["keys"]:
                ctx.case(key=k, nontrivial=True)
            ctx.evaluations += res["cases"] - len(res["keys"])
            for t, c in res["tags"].items(): ctx.tag(t, c)
            for s in res["samples"]:
                if len(ctx.samples) < 6: ctx.samples.append(s)
            ctx.traces_validated += res["lines"]
            for d in res["diffs"]:
                (soft if d.get("soft") else hard).append(d)
    # ---- 4. report. Root causes first: structures that contain no other differing structure, then other structures,
    # then methods; modules in turn, lowest configuration first.
    per_mod = {}
    for d in hard: per_mod.setdefault(d.get("module"), []).append(d)
    explained = set()
    for n, ds in per_mod.items():
        env = envs.get(n)
        snames = {d["struct"] for d in ds if d.get("struct")}
        inner = F.innermost(env, snames) if env is not None else set()
        fs, fm = F.affected(env, focus[n]) if n in focus else (set(), set())
        for d in ds:
            d["_focus"] = bool(d.get("struct") in fs or (d.get("protocol"), d.get("method")) in fm)
            if d["_focus"] and n in reader_problem:
                explained.add(n)
                d["two_readings_of_the_definition"] = {
                    "authority": "the .proto text as read by the independent reader (tools/schema_proto2lean.py: MyParser)",
                    "repository_reader": reader_problem[n], "items_read_differently": focus[n]["notes"][:20]}
        ds.sort(key=lambda d: (not d["_focus"], 0 if d.get("struct") in inner and d.get("save_diff") else 1 if d.get("struct") else 2,
                               "shrunk" not in d, d.get("cfg") or []))
    reported = 0
    queues = [per_mod[n] for n in sorted(per_mod, key=lambda n: (n not in reader_problem, n))]
    seen_items, noted = set(), set()
    while reported < 25 and any(queues):
        for q in queues:
            while q:
                d = q.pop(0)
                item = d.get("struct") or ("%s.%s" % (d.get("protocol"), d.get("method")))
                if (d.get("module"), item) in seen_items: continue
                seen_items.add((d.get("module"), item))
                d.pop("_focus", None)
                what = "%s [%s %s cfg=%s]" % (d["what"], d.get("module"), item, d.get("cfg"))
                if "two_readings_of_the_definition" in d and d["module"] not in noted:
                    noted.add(d["module"])
                    what += "; the checked-in generated code does not follow the text of %s.proto, which the repository's own reader no longer reads as written (%s)" % (
                        d["module"], "; ".join(focus[d["module"]]["notes"][:2])[:500])
                ctx.violation("layout:%s:%s" % (d.get("module"), item), what,
                              dict(d, how="harness/schema_tie.py: build the value with the generated classes of nintendo.nex.<module> under (nex.version, struct_header, pid_size)=cfg and compare with `nxdrv_C13` fed with the definition (tools/schema_proto2lean.py driver_lines); 'shrunk' is the same difference on a value with every other attribute reset to zero"))
                reported += 1
                break
            if reported >= 25: break
    # ---- 4b. histories of one object: structures first (those that contain no other differing structure first), then
    # methods; the smallest history of each item; items the main tie already reported are the same difference
    ipd = [d for d in ip["diffs"] if (d["module"], d.get("struct") or ("%s.%s" % (d.get("protocol"), d.get("method")))) not in seen_items]
    ip_structs = {}
    for d in ipd:
        if d.get("struct"): ip_structs.setdefault(d["module"], set()).add(d["struct"])
    ip_inner = {n: (F.innermost(envs[n], ss) if n in envs else set()) for n, ss in ip_structs.items()}
    ipd.sort(key=lambda d: (0 if d.get("struct") in ip_inner.get(d["module"], ()) else 1 if d.get("struct") else 2,
                            len(d.get("initial_value") or d.get("initial_args") or ""), d["module"], d["cfg"]))
    ip_reported = 0
    for d in ipd:
        item = d.get("struct") or ("%s.%s" % (d.get("protocol"), d.get("method")))
        if (d["module"], item) in seen_items or ip_reported >= 12: continue
        seen_items.add((d["module"], item))
        ip_reported += 1
        ctx.violation("inplace:%s:%s" % (d["module"], item), "%s [%s %s cfg=%s]" % (d["what"], d["module"], item, d["cfg"]),
                      dict(d, how="/venv/bin/python /verif/harness/c13_inplace.py <this file> re-runs the history of a structure on the tree named by NX_REPO; "
                                  "'writes_real' are the bytes of each write of the ONE object, 'writes_definition' the compiled interpreter's (nxdrv_C13) encoding of the value as it stood at that write"))
    # ---- 4c. histories of decodes: in-message aliasing first (smallest bytes), then structures, then methods
    rdd = [d for d in rd["diffs"] if (d["module"], d.get("struct") or ("%s.%s" % (d.get("protocol"), d.get("method")))) not in seen_items]
    rd_structs = {}
    for d in rdd:
        if d.get("struct"): rd_structs.setdefault(d["module"], set()).add(d["struct"])
    rd_inner = {n: (F.innermost(envs[n], ss) if n in envs else set()) for n, ss in rd_structs.items()}
    # self-contained histories (the bad decode follows mutations of THIS history) before first-decode differences
    rdd.sort(key=lambda d: (d.get("bad_decode") == 0, 0 if d.get("struct") in rd_inner.get(d["module"], ()) else 1 if d.get("struct") else 2, len(d["bytes"]), d["module"], d["cfg"]))
    rd_reported = 0
    for d in rdd:
        item = d.get("struct") or ("%s.%s" % (d.get("protocol"), d.get("method")))
        if (d["module"], item, d["side"]) in seen_items or rd_reported >= 12: continue
        seen_items.add((d["module"], item, d["side"]))
        rd_reported += 1
        ctx.violation("redecode:%s:%s:%s" % (d["module"], item, d["side"]), "%s [%s %s cfg=%s, bytes %s]" % (d["what"], d["module"], item, d["cfg"], d["bytes"][:200]),
                      dict(d, how="/venv/bin/python /verif/harness/c13_redecode.py <this file> re-runs the history of a structure on the tree named by NX_REPO: 'bytes' (made by the compiled "
                                  "interpreter nxdrv_C13 from the definition) are decoded by the real code, the decoded object is changed in place as 'history' says, the same bytes are decoded again; "
                                  "every decode must read back as 'definition_decodes_them_to'"))
    for n, tb in sorted(rd["crashed"].items()):
        if not per_mod.get(n) and n not in explained and not any(d["module"] == n for d in rd["diffs"]):
            ctx.corr_break("redecode-worker-crash:" + n, "driving the decode/mutate/decode histories of module %s raised an exception the tie does not expect" % n, {"file": n, "traceback": tb[-3000:]})
    ctx.extra["redecode_histories"] = rd["histories"]
    ctx.extra["redecode_decodes_compared"] = rd["decodes"]
    ctx.extra["redecode_objects_mutated_in_place"] = rd["mutated"]
    ctx.extra["redecode_item_x_mutation_category_pairs"] = {"available": len(rd["avail"]), "visited": len(rd["avail"] & rd["seen"])}
    ctx.extra["redecode_disagreements"] = len(rd["diffs"])
    for n, tb in sorted(ip["crashed"].items()):
        if not per_mod.get(n) and n not in explained and not any(d["module"] == n for d in ip["diffs"]):
            ctx.corr_break("inplace-worker-crash:" + n, "driving the write/mutate/write histories of module %s raised an exception the tie does not expect" % n, {"file": n, "traceback": tb[-3000:]})
    ctx.extra["inplace_histories"] = ip["histories"]
    ctx.extra["inplace_writes_compared"] = ip["writes"]
    ctx.extra["inplace_mutations_per_history"] = ip_steps
    ctx.extra["inplace_struct_x_mutation_category_pairs"] = {"available": len(ip["avail"]), "visited": len(ip["avail"] & ip["seen"])}
    ctx.extra["inplace_disagreements"] = len(ip["diffs"])
    for n, tb in sorted(crashed.items()):
        if not per_mod.get(n) and n not in explained:
            ctx.corr_break("worker-crash:" + n, "driving the generated module %s raised an exception the tie does not expect" % n, {"file": n, "traceback": tb[-3000:]})
    for n, problem in sorted(reader_problem.items()):
        if n in envs and n not in explained:
            ctx.corr_break("proto-readers:" + n, "my .proto reader and the repository's Parser disagree / fail on %s.proto and the generated code agrees with my reading on every explored value: %s" % (n, problem),
                           {"file": n, "items_read_differently": focus.get(n, {}).get("notes", [])[:20]})
    if soft and not hard:
        d = soft[0]
        ctx.corr_break("schema-malformed-inputs", "%d malformed-input cases (truncation / required None) are answered differently by real code and interpreter" % len(soft), d)
    ctx.programs = sum(total_structs.values()) + sum(total_methods.values())
    ctx.exhaustive = True
    ctx.extra["modules"] = len(envs)
    ctx.extra["structure_classes"] = sum(total_structs.values())
    ctx.extra["methods"] = sum(total_methods.values())
    ctx.extra["unsupported_methods_checked"] = unsupported
    ctx.extra["values_per_item_and_config"] = per_item
    ctx.extra["disagreements"] = len(hard) + len(soft)
    ctx.assumptions.append("string/stationurl payloads are compared as UTF-8 bytes, float/double as IEEE bit patterns, DateTime/Result as their integer (value-level codecs are C15's)")
    ctx.assumptions.append("each generated module is exercised in a fresh process: DataHolder.object_map is a process-global keyed by bare class name, so modules that redefine a registered name (e.g. MatchmakeSession in matchmaking_mk8d) override each other when imported together — outside this property's per-definition quantifier")
