import NxModel.Nex.Schema
import NxProofs.Bytes
/-! proofs about the schema interpreter (C13, C14) -/
namespace Nx.Schema
open Nx

/-! ## primitives -/

theorem rd_append (b r : Bytes) : rd b.length (b ++ r) = .ok (b, r) := by
  simp [rd]

theorem rdN_leN (w : W) (n : Nat) (r : Bytes) (h : n < 2 ^ w.bits) : rdN w (leN w n ++ r) = .ok (n, r) := by
  cases w <;> simp only [W.bits] at h <;> simp only [rdN, leN]
  · exact rdU8_u8 n r (by omega)
  · exact rdU16_u16le n r (by omega)
  · exact rdU32_u32le n r (by omega)
  · exact rdU64_u64le n r (by omega)

theorem encUInt_ok {w : W} {i : Int} {b : Bytes} (h : encUInt w i = .ok b) :
    0 ≤ i ∧ i < (2 : Int) ^ w.bits ∧ b = leN w i.toNat := by
  unfold encUInt at h
  split at h
  · rename_i hc; cases h; exact ⟨hc.1, hc.2, rfl⟩
  · cases h

theorem encUInt_rt {w : W} {i : Int} {b : Bytes} (r : Bytes) (h : encUInt w i = .ok b) :
    intOk (rdN w (b ++ r)) = .ok (.int i, r) := by
  obtain ⟨h0, h1, rfl⟩ := encUInt_ok h
  have hn : i.toNat < 2 ^ w.bits := by
    have : ((i.toNat : Nat) : Int) < ((2 ^ w.bits : Nat) : Int) := by
      rw [Int.toNat_of_nonneg h0]; push_cast; exact h1
    exact Int.ofNat_lt.mp this
  rw [rdN_leN w _ r hn]
  simp [intOk, Int.toNat_of_nonneg h0]

theorem encSInt_rt {w : W} {i : Int} {b : Bytes} (r : Bytes) (h : encSInt w i = .ok b) :
    decSInt w (b ++ r) = .ok (i, r) := by
  unfold encSInt at h
  split at h
  · rename_i hc
    cases h
    have hn : (i % (2 : Int) ^ w.bits).toNat < 2 ^ w.bits := by
      cases w <;> simp only [W.bits] at hc ⊢ <;> omega
    unfold decSInt
    rw [rdN_leN w _ r hn]
    simp only []
    congr 2
    split
    · rename_i hh; cases w <;> simp only [W.bits] at hh hc ⊢ <;> omega
    · rename_i hh; cases w <;> simp only [W.bits] at hh hc ⊢ <;> omega
  · cases h

theorem encStr_rt {s b : Bytes} (r : Bytes) (h : encStr s = .ok b) : decStr (b ++ r) = .ok (some s, r) := by
  unfold encStr at h
  split at h
  · rename_i hc
    cases h
    unfold decStr
    rw [List.append_assoc, List.append_assoc, rdU16_u16le _ _ hc]
    simp only []
    rw [if_neg (by omega)]
    have : rd (s.length + 1) (s ++ ([0] ++ r)) = .ok (s ++ [0], r) := by
      have := rd_append (s ++ [0]) r
      simpa using this
    rw [this]
    simp
  · cases h

theorem encBuf_rt {d b : Bytes} (r : Bytes) (h : encBuf d = .ok b) : decBuf (b ++ r) = .ok (d, r) := by
  unfold encBuf at h
  split at h
  · rename_i hc; cases h
    unfold decBuf
    rw [List.append_assoc, rdU32_u32le _ _ hc]
    exact rd_append d r
  · cases h

theorem encQBuf_rt {d b : Bytes} (r : Bytes) (h : encQBuf d = .ok b) : decQBuf (b ++ r) = .ok (d, r) := by
  unfold encQBuf at h
  split at h
  · rename_i hc; cases h
    unfold decQBuf
    rw [List.append_assoc, rdU16_u16le _ _ hc]
    exact rd_append d r
  · cases h

theorem encVariant_rt {v : Val} {b : Bytes} (r : Bytes) (h : encVariant v = .ok b) :
    decVariant (b ++ r) = .ok (v, r) := by
  cases v <;> simp only [encVariant] at h
  case none => cases h; simp [decVariant, rdU8]
  case bool x => cases h; cases x <;> simp [decVariant, rdU8]
  case int i =>
    split at h
    · split at h
      · rename_i b' hb; cases h
        have := encSInt_rt r hb
        simp [decVariant, rdU8, this]
      · cases h
    · split at h
      · rename_i b' hb; cases h
        obtain ⟨h0, h1, rfl⟩ := encUInt_ok hb
        have hn : i.toNat < 18446744073709551616 := by simp only [W.bits] at h1; omega
        have := rdU64_u64le _ r hn
        simp only [leN]
        simp [decVariant, rdU8, this, Int.toNat_of_nonneg h0]
      · cases h
  case str s =>
    split at h
    · rename_i b' hb; cases h
      have := encStr_rt r hb
      simp [decVariant, rdU8, this]
    · cases h
  case dbl n =>
    split at h
    · rename_i hn; cases h
      have := rdU64_u64le _ r hn
      simp [decVariant, rdU8, this]
    · cases h
  case dt n =>
    split at h
    · rename_i hn; cases h
      have := rdU64_u64le _ r hn
      simp [decVariant, rdU8, this]
    · cases h
  all_goals cases h

/-! ## lists, maps -/

theorem encList_rt (f : Val → Except Err Bytes) (g : Bytes → Except Err (Val × Bytes)) (vis : Val → Val) :
    ∀ (vs : List Val) (b r : Bytes),
      (∀ v ∈ vs, ∀ b r, f v = .ok b → g (b ++ r) = .ok (vis v, r)) →
      encList f vs = .ok b → decList g vs.length (b ++ r) = .ok (vs.map vis, r)
  | [], b, r, _, h => by simp [encList] at h; subst h; simp [decList]
  | v :: vs, b, r, H, h => by
    simp only [encList] at h
    split at h
    · cases h
    · rename_i b1 hb1
      split at h
      · cases h
      · rename_i bs hbs
        cases h
        have h1 := H v (by simp) b1 (bs ++ r) hb1
        have h2 := encList_rt f g vis vs bs r (fun v hv => H v (by simp [hv])) hbs
        simp [decList, List.append_assoc, h1, h2]

theorem encPairs_rt (fk fv : Val → Except Err Bytes) (gk gv : Bytes → Except Err (Val × Bytes)) (visk visv : Val → Val) :
    ∀ (kvs : List (Val × Val)) (b r : Bytes),
      (∀ kv ∈ kvs, ∀ b r, fk kv.1 = .ok b → gk (b ++ r) = .ok (visk kv.1, r)) →
      (∀ kv ∈ kvs, ∀ b r, fv kv.2 = .ok b → gv (b ++ r) = .ok (visv kv.2, r)) →
      encPairs fk fv kvs = .ok b →
      decPairs gk gv kvs.length (b ++ r) = .ok (kvs.map (fun kv => (visk kv.1, visv kv.2)), r)
  | [], b, r, _, _, h => by simp [encPairs] at h; subst h; simp [decPairs]
  | (k, v) :: kvs, b, r, Hk, Hv, h => by
    simp only [encPairs] at h
    split at h
    · cases h
    · rename_i bk hbk
      split at h
      · cases h
      · rename_i bv hbv
        split at h
        · cases h
        · rename_i bs hbs
          cases h
          have h1 := Hk (k, v) (by simp) bk (bv ++ (bs ++ r)) hbk
          have h2 := Hv (k, v) (by simp) bv (bs ++ r) hbv
          have h3 := encPairs_rt fk fv gk gv visk visv kvs bs r
            (fun kv hkv => Hk kv (by simp [hkv])) (fun kv hkv => Hv kv (by simp [hkv])) hbs
          simp only [] at h1 h2
          simp [decPairs, List.append_assoc, h1, h2, h3]

/-! ## types -/

/-- what the interpreter needs from the hooks for nested structure instances -/
def HookRT (E : EncHook) (D : DecHook) (V : VisHook) : Prop :=
  ∀ n fs b r, E n fs = .ok b → D n (b ++ r) = .ok (V n fs, r)

theorem encTy_rt (env : Env) (cfg : Cfg) {E : EncHook} {D : DecHook} {V : VisHook} (H : HookRT E D V) :
    ∀ (ty : Ty) (v : Val) (b r : Bytes),
      encTy E env cfg ty v = .ok b → decTy D env cfg ty (b ++ r) = .ok (visTy V ty v, r) := by
  intro ty
  induction ty with
  | uint w =>
    intro v b r h
    cases v <;> simp only [encTy] at h <;> try (cases h; done)
    simp only [decTy, visTy]; exact encUInt_rt r h
  | sint w =>
    intro v b r h
    cases v <;> simp only [encTy] at h <;> try (cases h; done)
    simp only [decTy, visTy, encSInt_rt r h]
  | float =>
    intro v b r h
    cases v <;> simp only [encTy] at h <;> try (cases h; done)
    simp only [decTy, visTy]; exact encUInt_rt (w := .b4) r h
  | double =>
    intro v b r h
    cases v <;> simp only [encTy] at h <;> try (cases h; done)
    simp only [decTy, visTy]; exact encUInt_rt (w := .b8) r h
  | bool =>
    intro v b r h
    cases v <;> simp only [encTy] at h <;> try (cases h; done)
    rename_i x; cases h; cases x <;> simp [decTy, visTy, rdU8]
  | pid =>
    intro v b r h
    cases v <;> simp only [encTy] at h <;> try (cases h; done)
    simp only [decTy, visTy]
    split at h
    · rename_i hp; rw [if_pos hp]; exact encUInt_rt (w := .b8) r h
    · rename_i hp; rw [if_neg hp]; exact encUInt_rt (w := .b4) r h
  | result =>
    intro v b r h
    cases v <;> simp only [encTy] at h <;> try (cases h; done)
    simp only [decTy, visTy]; exact encUInt_rt (w := .b4) r h
  | datetime =>
    intro v b r h
    cases v <;> simp only [encTy] at h <;> try (cases h; done)
    simp only [decTy, visTy]; exact encUInt_rt (w := .b8) r h
  | string =>
    intro v b r h
    cases v <;> simp only [encTy] at h <;> try (cases h; done)
    · cases h; simp [decTy, visTy, decStr, rdU16, u16le]
    · simp only [decTy, visTy, encStr_rt r h]
  | stationurl =>
    intro v b r h
    cases v <;> simp only [encTy] at h <;> try (cases h; done)
    simp only [decTy, visTy, encStr_rt r h]
  | buffer =>
    intro v b r h
    cases v <;> simp only [encTy] at h <;> try (cases h; done)
    simp only [decTy, visTy, encBuf_rt r h]
  | qbuffer =>
    intro v b r h
    cases v <;> simp only [encTy] at h <;> try (cases h; done)
    simp only [decTy, visTy, encQBuf_rt r h]
  | variant =>
    intro v b r h
    simp only [encTy] at h
    have := encVariant_rt r h
    cases v <;> simp only [decTy, visTy, this]
  | list t ih =>
    intro v b r h
    cases v <;> simp only [encTy] at h <;> try (cases h; done)
    rename_i vs
    split at h
    · rename_i hl
      split at h
      · rename_i b' hb'
        cases h
        have h2 := encList_rt (encTy E env cfg t) (decTy D env cfg t) (visTy V t) vs b' r
          (fun v _ b r hv => ih v b r hv) hb'
        simp only [decTy, visTy, List.append_assoc, rdU32_u32le _ _ hl, h2]
      · cases h
    · cases h
  | map k v ihk ihv =>
    intro x b r h
    cases x <;> simp only [encTy] at h <;> try (cases h; done)
    rename_i kvs
    split at h
    · rename_i hl
      split at h
      · rename_i b' hb'
        cases h
        have h2 := encPairs_rt (encTy E env cfg k) (encTy E env cfg v) (decTy D env cfg k) (decTy D env cfg v)
          (visTy V k) (visTy V v) kvs b' r
          (fun kv _ b r hv => ihk kv.1 b r hv) (fun kv _ b r hv => ihv kv.2 b r hv) hb'
        simp only [decTy, visTy, List.append_assoc, rdU32_u32le _ _ hl, h2]
      · cases h
    · cases h
  | struct n =>
    intro v b r h
    cases v <;> simp only [encTy] at h <;> try (cases h; done)
    rename_i cls fs
    split at h
    · rename_i hc; subst hc
      simp only [decTy, visTy, H _ _ _ r h]
    · cases h
  | anydata =>
    intro v b r h
    cases v <;> simp only [encTy] at h <;> try (cases h; done)
    rename_i cls fs
    split at h
    · cases h
    · rename_i d hd
      split at h
      · cases h
      · rename_i hname
        have hname' : d.name = cls := by
          by_cases hh : d.name = cls
          · exact hh
          · exact absurd hh hname
        split at h
        · cases h
        · rename_i nm hnm
          split at h
          · cases h
          · rename_i body hbody
            split at h
            · rename_i hlen
              cases h
              have h1 := encStr_rt (u32le (body.length + 4) ++ (u32le body.length ++ (body ++ r))) hnm
              have h2 : decBuf (u32le (body.length + 4) ++ (u32le body.length ++ (body ++ r)))
                  = .ok (u32le body.length ++ body, r) := by
                unfold decBuf
                rw [rdU32_u32le _ _ hlen]
                have := rd_append (u32le body.length ++ body) r
                simpa [List.append_assoc, Nat.add_comm] using this
              have h3 : decBuf (u32le body.length ++ body) = .ok (body, []) := by
                unfold decBuf
                rw [rdU32_u32le _ _ (by omega)]
                have := rd_append body []
                simpa using this
              have h4 := H cls fs body [] hbody
              rw [List.append_nil] at h4
              simp only [decTy, visTy, List.append_assoc, h1, h2, h3, hd, hname', h4]
            · cases h

/-! ## structure bodies -/

theorem encItems_rt (env : Env) (cfg : Cfg) (ver : Nat) {E : EncHook} {D : DecHook} {V : VisHook} (H : HookRT E D V) :
    ∀ (it : Items) (vs : List Val) (b : Bytes) (vs' : List Val) (r : Bytes),
      encItems E env cfg ver it vs = .ok (b, vs') →
      decItems D env cfg ver it (b ++ r) = .ok ((visItems V cfg ver it vs).1, r)
        ∧ (visItems V cfg ver it vs).2 = vs' := by
  intro it
  induction it with
  | nil =>
    intro vs b vs' r h
    simp only [encItems] at h
    cases h
    simp [decItems, visItems]
  | field n ty dflt rest ih =>
    intro vs b vs' r h
    cases vs with
    | nil => simp only [encItems] at h; cases h
    | cons v vs =>
      simp only [encItems] at h
      split at h
      · cases h
      · rename_i b1 hb1
        split at h
        · cases h
        · rename_i bs vs'' hbs
          cases h
          have h1 := encTy_rt env cfg H ty v b1 (bs ++ r) hb1
          obtain ⟨h2, h3⟩ := ih vs bs vs' r hbs
          simp only [decItems, visItems, List.append_assoc, h1, h2, h3, and_self]
  | nex g body rest ihb ihr =>
    intro vs b vs' r h
    simp only [encItems] at h
    split at h
    · rename_i hg
      split at h
      · cases h
      · rename_i b1 vs1 hb1
        split at h
        · cases h
        · rename_i bs vs2 hbs
          cases h
          obtain ⟨h1, h1'⟩ := ihb vs b1 vs1 (bs ++ r) hb1
          obtain ⟨h2, h2'⟩ := ihr vs1 bs vs' r hbs
          simp only [decItems, visItems, if_pos hg, List.append_assoc, h1, h1', h2, h2', and_self]
    · rename_i hg
      obtain ⟨h2, h2'⟩ := ihr _ b vs' r h
      simp only [decItems, visItems, if_neg hg, h2, h2', and_self]
  | rev g body rest ihb ihr =>
    intro vs b vs' r h
    simp only [encItems] at h
    split at h
    · rename_i hg
      split at h
      · cases h
      · rename_i b1 vs1 hb1
        split at h
        · cases h
        · rename_i bs vs2 hbs
          cases h
          obtain ⟨h1, h1'⟩ := ihb vs b1 vs1 (bs ++ r) hb1
          obtain ⟨h2, h2'⟩ := ihr vs1 bs vs' r hbs
          simp only [decItems, visItems, if_pos hg, List.append_assoc, h1, h1', h2, h2', and_self]
    · rename_i hg
      obtain ⟨h2, h2'⟩ := ihr _ b vs' r h
      simp only [decItems, visItems, if_neg hg, h2, h2', and_self]

/-! ## one class of the hierarchy, whole instances -/

/-- shape of what one hierarchy level writes when structure headers are on -/
theorem encClass_header {E : EncHook} {env : Env} {cfg : Cfg} {ver : Nat} {leaf : Items × List Val} {d : StructDef}
    {vs vs' : List Val} {b : Bytes} (hh : cfg.structHeader = true)
    (h : encClass E env cfg ver leaf d vs = .ok (b, vs')) :
    ∃ body, encItems E env cfg ver d.items vs = .ok (body, vs') ∧ ver < 256 ∧ body.length < 4294967296
      ∧ b = u8 ver ++ u32le body.length ++ body := by
  unfold encClass at h
  rw [if_pos hh] at h
  split at h
  · cases h
  · split at h
    · cases h
    · rename_i body vs'' hbody
      split at h
      · cases h
      · rename_i hv
        split at h
        · cases h
        · rename_i hl
          cases h
          exact ⟨body, hbody, by omega, by omega, rfl⟩

theorem encClass_noheader {E : EncHook} {env : Env} {cfg : Cfg} {ver : Nat} {leaf : Items × List Val} {d : StructDef}
    {vs vs' : List Val} {b : Bytes} (hh : cfg.structHeader = false)
    (h : encClass E env cfg ver leaf d vs = .ok (b, vs')) :
    encItems E env cfg 0 d.items vs = .ok (b, vs') := by
  unfold encClass at h
  rw [if_neg (by simp [hh])] at h
  split at h
  · cases h
  · exact h

theorem decClass_header (D : DecHook) (env : Env) (cfg : Cfg) (d : StructDef) (hh : cfg.structHeader = true)
    (ver : Nat) (hv : ver < 256) (sub r : Bytes) (hl : sub.length < 4294967296) :
    decClass D env cfg d (u8 ver ++ u32le sub.length ++ sub ++ r) =
      (match decItems D env cfg ver d.items sub with
       | .error e => .error e
       | .ok (vs, _) => .ok (vs, r)) := by
  unfold decClass
  rw [if_pos hh]
  simp only [List.append_assoc]
  rw [rdU8_u8 _ _ hv]
  simp only []
  have : decBuf (u32le sub.length ++ (sub ++ r)) = .ok (sub, r) := by
    unfold decBuf
    rw [rdU32_u32le _ _ hl]
    exact rd_append sub r
  rw [this]
  rfl

theorem encClass_rt (env : Env) (cfg : Cfg) (ver : Nat) (leaf : Items × List Val) (d : StructDef)
    {E : EncHook} {D : DecHook} {V : VisHook} (H : HookRT E D V)
    (vs : List Val) (b : Bytes) (vs' : List Val) (r : Bytes)
    (h : encClass E env cfg ver leaf d vs = .ok (b, vs')) :
    decClass D env cfg d (b ++ r)
        = .ok ((visItems V cfg (if cfg.structHeader then ver else 0) d.items vs).1, r)
      ∧ (visItems V cfg (if cfg.structHeader then ver else 0) d.items vs).2 = vs' := by
  cases hh : cfg.structHeader with
  | true =>
    obtain ⟨body, hbody, hv, hl, rfl⟩ := encClass_header hh h
    obtain ⟨h1, h2⟩ := encItems_rt env cfg ver H d.items vs body vs' [] hbody
    rw [List.append_nil] at h1
    rw [decClass_header D env cfg d hh ver hv body r hl, h1]
    simp [h2]
  | false =>
    have hbody := encClass_noheader hh h
    obtain ⟨h1, h2⟩ := encItems_rt env cfg 0 H d.items vs b vs' r hbody
    unfold decClass
    simp [hh, h1, h2]

theorem encHook_ok {g : Name → List Val → Except Err (Bytes × List Val)} {n : Name} {fs : List Val} {b : Bytes}
    (h : encHook g n fs = .ok b) : g n fs = .ok (b, []) := by
  unfold encHook at h
  split at h
  · cases h
  · rename_i b' rest hg
    split at h
    · rename_i he
      cases h
      have : rest = [] := by simpa using he
      rw [hg, this]
    · cases h

theorem encGo_rt (env : Env) (cfg : Cfg) :
    ∀ (f : Nat) (leaf : Option (Items × List Val)) (c : Name) (vs : List Val) (b : Bytes) (vs' : List Val) (r : Bytes),
      encGo env cfg f leaf c vs = .ok (b, vs') →
      decObj env cfg f c (b ++ r) = .ok ((visObj env cfg f c vs).1, r) ∧ (visObj env cfg f c vs).2 = vs' := by
  intro f
  induction f with
  | zero => intro leaf c vs b vs' r h; simp [encGo] at h
  | succ f ih =>
    intro leaf c vs b vs' r h
    have H : HookRT (encHook (encGo env cfg f none)) (decObj env cfg f) (visHook (visObj env cfg f)) := by
      intro n fs b r hb
      have := ih none n fs b [] r (encHook_ok hb)
      simp only [visHook]
      exact this.1
    unfold encGo at h
    split at h
    · cases h
    · rename_i d hd
      cases hp : d.parent with
      | none =>
        simp only [hp] at h
        split at h
        · cases h
        · rename_i cb vs2 hcb
          cases h
          obtain ⟨h1, h2⟩ := encClass_rt env cfg _ _ d H vs cb vs' r hcb
          simp only [decObj, visObj, hd, hp, List.nil_append, h1, h2, and_self]
      | some p =>
        simp only [hp] at h
        split at h
        · cases h
        · rename_i pb vs1 hpb
          split at h
          · cases h
          · rename_i cb vs2 hcb
            cases h
            obtain ⟨h0, h0'⟩ := ih _ p vs pb vs1 (cb ++ r) hpb
            obtain ⟨h1, h2⟩ := encClass_rt env cfg _ _ d H vs1 cb vs' r hcb
            simp only [decObj, visObj, hd, hp, List.append_assoc, h0, h0', h1, h2, and_self]

/-- the hooks at every fuel level satisfy the round-trip contract -/
theorem hookRT_fuel (env : Env) (cfg : Cfg) (f : Nat) :
    HookRT (encHook (encObj env cfg f)) (decObj env cfg f) (visHook (visObj env cfg f)) := by
  intro n fs b r hb
  have := encGo_rt env cfg f none n fs b [] r (encHook_ok hb)
  simp only [visHook]
  exact this.1

/-- **generic schema round trip** -/
theorem encode_decode (env : Env) (cfg : Cfg) (fuel : Nat) (ty : Ty) (v : Val) (b r : Bytes)
    (h : encode env cfg fuel ty v = .ok b) :
    decode env cfg fuel ty (b ++ r) = .ok (visible env cfg fuel ty v, r) :=
  encTy_rt env cfg (hookRT_fuel env cfg fuel) ty v b r h

/-! ## method arguments / results -/

theorem encArgs_rt (env : Env) (cfg : Cfg) (fuel : Nat) :
    ∀ (ps : List (Name × Ty)) (vs : List Val) (b r : Bytes),
      encArgs env cfg fuel ps vs = .ok b →
      decArgs env cfg fuel ps (b ++ r) = .ok (visArgs env cfg fuel ps vs, r)
  | [], [], b, r, h => by simp [encArgs] at h; subst h; simp [decArgs, visArgs]
  | [], _ :: _, b, r, h => by simp [encArgs] at h
  | _ :: _, [], b, r, h => by simp [encArgs] at h
  | (n, ty) :: ps, v :: vs, b, r, h => by
    simp only [encArgs] at h
    split at h
    · cases h
    · rename_i b1 hb1
      split at h
      · cases h
      · rename_i bs hbs
        cases h
        have h1 := encode_decode env cfg fuel ty v b1 (bs ++ r) hb1
        have h2 := encArgs_rt env cfg fuel ps vs bs r hbs
        simp only [decArgs, visArgs, List.append_assoc, h1, h2]

theorem encArgs_cons (env : Env) (cfg : Cfg) (fuel : Nat) (n : Name) (ty : Ty) (ps : List (Name × Ty))
    (v : Val) (vs : List Val) (b : Bytes) :
    encArgs env cfg fuel ((n, ty) :: ps) (v :: vs) = .ok b ↔
      ∃ b1 b2, encode env cfg fuel ty v = .ok b1 ∧ encArgs env cfg fuel ps vs = .ok b2 ∧ b = b1 ++ b2 := by
  simp only [encArgs]
  constructor
  · intro h
    split at h
    · cases h
    · rename_i b1 hb1
      split at h
      · cases h
      · rename_i bs hbs
        cases h
        exact ⟨b1, bs, hb1, hbs, rfl⟩
  · rintro ⟨b1, b2, h1, h2, rfl⟩
    simp [h1, h2]

theorem clientRequest_ok {env : Env} {cfg : Cfg} {fuel : Nat} {p : ProtoDef} {m : MethodDef} {args : List Val}
    {pi mi : Nat} {body : Bytes} (h : clientRequest env cfg fuel p m args = .ok (pi, mi, body)) :
    pi = p.id ∧ mi = m.id ∧ encArgs env cfg fuel m.request args = .ok body := by
  unfold clientRequest at h
  split at h
  · cases h
  · rename_i b hb; cases h; exact ⟨rfl, rfl, hb⟩

theorem serverRequest_of_client {env : Env} {cfg : Cfg} {fuel : Nat} {m : MethodDef} {args : List Val} {body : Bytes}
    (h : encArgs env cfg fuel m.request args = .ok body) (extra : Bytes) :
    serverRequest env cfg fuel m (body ++ extra) = .ok (visArgs env cfg fuel m.request args) := by
  unfold serverRequest
  rw [encArgs_rt env cfg fuel m.request args body extra h]

theorem serverResponse_ok {env : Env} {cfg : Cfg} {fuel : Nat} {m : MethodDef} {res : List Val} {body : Bytes}
    (h : serverResponse env cfg fuel m res = .ok body) : encArgs env cfg fuel m.response res = .ok body := by
  unfold serverResponse at h
  split at h
  · split at h
    · exact h
    · cases h
  · exact h

theorem clientResponse_of_server {env : Env} {cfg : Cfg} {fuel : Nat} {m : MethodDef} {res : List Val} {body : Bytes}
    (h : encArgs env cfg fuel m.response res = .ok body) :
    clientResponse env cfg fuel m body = .ok (visArgs env cfg fuel m.response res) := by
  unfold clientResponse
  have := encArgs_rt env cfg fuel m.response res body [] h
  rw [List.append_nil] at this
  rw [this]; rfl

theorem clientResponse_trailing {env : Env} {cfg : Cfg} {fuel : Nat} {m : MethodDef} {res : List Val} {body : Bytes}
    (h : encArgs env cfg fuel m.response res = .ok body) (x : Bytes) (hx : x ≠ []) :
    clientResponse env cfg fuel m (body ++ x) = .error .value := by
  unfold clientResponse
  rw [encArgs_rt env cfg fuel m.response res body x h]
  cases x with
  | nil => exact absurd rfl hx
  | cons a t => rfl

/-! ## method tables -/

theorem nodupNat_not_mem : ∀ (l : List Nat) (a : Nat), nodupNat (a :: l) = true → a ∉ l := by
  intro l a h
  simp only [nodupNat, Bool.and_eq_true, Bool.not_eq_true', List.contains_eq_mem, decide_eq_false_iff_not] at h
  exact h.1

theorem find_of_nodup {α : Type} (f : α → Nat) :
    ∀ (l : List α) (m : α), nodupNat (l.map f) = true → m ∈ l → l.find? (fun x => f x == f m) = some m
  | [], m, _, hm => by cases hm
  | a :: l, m, hn, hm => by
    simp only [List.map] at hn
    have hnot := nodupNat_not_mem _ _ hn
    have hn' : nodupNat (l.map f) = true := by
      simp only [nodupNat, Bool.and_eq_true] at hn; exact hn.2
    simp only [List.find?]
    cases List.mem_cons.mp hm with
    | inl h => subst h; simp
    | inr h =>
      have : (f a == f m) = false := by
        apply beq_false_of_ne
        intro he
        exact hnot (he ▸ List.mem_map_of_mem h)
      rw [this]
      exact find_of_nodup f l m hn' h

theorem wfProto_ids {env : Env} {p : ProtoDef} (h : wfProto env p = true) :
    nodupNat (p.methods.map (·.id)) = true ∧ nodupNat (p.methods.map (·.name)) = true := by
  simp only [wfProto, Bool.and_eq_true] at h
  exact ⟨h.1.1.1, h.1.1.2⟩

/-- what the translator's kernel-checked obligations establish for a translated definition file:
    unique structure names, parents and structure-typed fields resolving to *earlier* definitions (acyclic),
    unique protocol names, per protocol unique method ids and names, every structure reference of a method
    resolving, `noresponse` protocols without results -/
def WFEnv (env : Env) : Prop := wfStructs env = true ∧ wfProtos env = true

theorem wfEnv_methods {env : Env} (h : WFEnv env) :
    ∀ p ∈ env.protos, ∀ m ∈ p.methods, findMethodById p m.id = some m ∧ findMethod p m.name = some m := by
  intro p hp m hm
  have hw : wfProto env p = true := by
    have := h.2
    simp only [wfProtos, Bool.and_eq_true, List.all_eq_true] at this
    exact this.2 p hp
  exact ⟨find_of_nodup MethodDef.id p.methods m (wfProto_ids hw).1 hm,
         find_of_nodup MethodDef.name p.methods m (wfProto_ids hw).2 hm⟩

/-! ## gates -/

/-- names of the attributes a `save`/`load` touches, in order -/
def Items.active (nex ver : Nat) : Items → List Name
  | .nil => []
  | .field n _ _ r => n :: r.active nex ver
  | .nex g b r => (if nex ≥ g then b.active nex ver else []) ++ r.active nex ver
  | .rev g b r => (if ver ≥ g then b.active nex ver else []) ++ r.active nex ver

theorem active_mono_nex (ver : Nat) {n1 n2 : Nat} (h : n1 ≤ n2) :
    ∀ it : Items, (it.active n1 ver).Sublist (it.active n2 ver) := by
  intro it
  induction it with
  | nil => exact List.Sublist.refl _
  | field n ty d r ih => exact List.Sublist.cons_cons _ ih
  | nex g b r ihb ihr =>
    simp only [Items.active]
    by_cases h1 : n1 ≥ g
    · have h2 : n2 ≥ g := by omega
      rw [if_pos h1, if_pos h2]; exact List.Sublist.append ihb ihr
    · rw [if_neg h1]
      by_cases h2 : n2 ≥ g
      · rw [if_pos h2]; exact List.Sublist.append (List.nil_sublist _) ihr
      · rw [if_neg h2]; exact List.Sublist.append (List.Sublist.refl _) ihr
  | rev g b r ihb ihr =>
    simp only [Items.active]
    by_cases h1 : ver ≥ g
    · simp only [if_pos h1]; exact List.Sublist.append ihb ihr
    · simp only [if_neg h1]; exact List.Sublist.append (List.Sublist.refl _) ihr

/-! ## revisions: `max_version` as the bound of every reachable revision block (C14) -/

def gatesAgree (n t : Nat) (it : Items) : Prop := ∀ g ∈ it.nexGates, (g ≤ n ↔ g ≤ t)

theorem maxVerGo_agree {n t : Nat} : ∀ (it : Items), gatesAgree n t it → ∀ v, maxVerGo n it v = maxVerGo t it v := by
  intro it
  induction it with
  | nil => intro _ v; rfl
  | field a ty d r ih => intro h v; simp only [maxVerGo]; exact ih h v
  | rev g b r ihb ihr =>
    intro h v
    simp only [maxVerGo]
    exact ihr (fun g' hg' => h g' (by simp [Items.nexGates, hg'])) g
  | nex g b r ihb ihr =>
    intro h v
    have hb : gatesAgree n t b := fun g' hg' => h g' (by simp [Items.nexGates, hg'])
    have hr : gatesAgree n t r := fun g' hg' => h g' (by simp [Items.nexGates, hg'])
    have hg : (g ≤ n ↔ g ≤ t) := h g (by simp [Items.nexGates])
    simp only [maxVerGo]
    by_cases h1 : n ≥ g
    · have h2 : t ≥ g := hg.mp h1
      simp only [if_pos h1, if_pos h2, ihb hb v, ihr hr]
    · have h2 : ¬ t ≥ g := fun h2 => h1 (hg.mpr h2)
      simp only [if_neg h1, if_neg h2, ihr hr]

theorem revsBelow_agree {n t : Nat} (m : Nat) : ∀ (it : Items), gatesAgree n t it → revsBelow m n it = revsBelow m t it := by
  intro it
  induction it with
  | nil => intro _; rfl
  | field a ty d r ih => intro h; simp only [revsBelow]; exact ih h
  | rev g b r ihb ihr =>
    intro h
    simp only [revsBelow]
    rw [ihb (fun g' hg' => h g' (by simp [Items.nexGates, hg'])), ihr (fun g' hg' => h g' (by simp [Items.nexGates, hg']))]
  | nex g b r ihb ihr =>
    intro h
    have hb : gatesAgree n t b := fun g' hg' => h g' (by simp [Items.nexGates, hg'])
    have hr : gatesAgree n t r := fun g' hg' => h g' (by simp [Items.nexGates, hg'])
    have hg : (g ≤ n ↔ g ≤ t) := h g (by simp [Items.nexGates])
    simp only [revsBelow]
    by_cases h1 : n ≥ g
    · have h2 : t ≥ g := hg.mp h1
      simp only [if_pos h1, if_pos h2, ihb hb, ihr hr]
    · have h2 : ¬ t ≥ g := fun h2 => h1 (hg.mpr h2)
      simp only [if_neg h1, if_neg h2, ihr hr]

/-- every `nex.version` behaves like one of the thresholds `0, g₁, g₂, …` -/
theorem exists_threshold (n : Nat) : ∀ gs : List Nat, ∃ t, t ∈ 0 :: gs ∧ t ≤ n ∧ ∀ g ∈ gs, (g ≤ n ↔ g ≤ t)
  | [] => ⟨0, by simp, Nat.zero_le _, by simp⟩
  | g :: gs => by
    obtain ⟨t, ht, htn, hall⟩ := exists_threshold n gs
    by_cases hg : g ≤ n
    · by_cases hgt : g ≤ t
      · refine ⟨t, ?_, htn, ?_⟩
        · cases List.mem_cons.mp ht with
          | inl h => simp [h]
          | inr h => simp [h]
        · intro g' hg'
          cases List.mem_cons.mp hg' with
          | inl h => subst h; exact ⟨fun _ => hgt, fun _ => hg⟩
          | inr h => exact hall g' h
      · refine ⟨g, by simp, hg, ?_⟩
        intro g' hg'
        cases List.mem_cons.mp hg' with
        | inl h => subst h; exact ⟨fun _ => Nat.le_refl _, fun _ => hg⟩
        | inr h =>
          constructor
          · intro h1; have := (hall g' h).mp h1; omega
          · intro h1; omega
    · refine ⟨t, ?_, htn, ?_⟩
      · cases List.mem_cons.mp ht with
        | inl h => simp [h]
        | inr h => simp [h]
      · intro g' hg'
        cases List.mem_cons.mp hg' with
        | inl h => subst h; exact ⟨fun h1 => absurd h1 hg, fun h1 => by omega⟩
        | inr h => exact hall g' h

theorem revAscending_sound {it : Items} (h : it.revAscending = true) (n : Nat) :
    revsBelow (maxVersion n it) n it = true ∧ maxVersion n it < 256 := by
  obtain ⟨t, ht, _, hall⟩ := exists_threshold n it.nexGates
  have hag : gatesAgree n t it := hall
  simp only [Items.revAscending, List.all_eq_true, Bool.and_eq_true, decide_eq_true_eq] at h
  obtain ⟨h1, h2⟩ := h t ht
  have hm : maxVersion n it = maxVersion t it := maxVerGo_agree it hag 0
  rw [hm, revsBelow_agree _ it hag]
  exact ⟨h1, h2⟩

theorem revsBelow_of_noRev (m n : Nat) : ∀ it : Items, it.hasRev = false → revsBelow m n it = true := by
  intro it
  induction it with
  | nil => intro _; rfl
  | field a ty d r ih => intro h; simp only [revsBelow]; exact ih (by simpa [Items.hasRev] using h)
  | rev g b r ihb ihr => intro h; simp [Items.hasRev] at h
  | nex g b r ihb ihr =>
    intro h
    simp only [Items.hasRev, Bool.or_eq_false_iff] at h
    simp only [revsBelow, ihb h.1, ihr h.2]
    simp

/-- a decoder told a higher revision than the one that bounds all reachable blocks reads the same fields -/
theorem decItems_ver (D : DecHook) (env : Env) (cfg : Cfg) {m v' : Nat} (hv : m ≤ v') :
    ∀ (it : Items) (b : Bytes), revsBelow m cfg.nexVersion it = true →
      decItems D env cfg v' it b = decItems D env cfg m it b := by
  intro it
  induction it with
  | nil => intro b _; rfl
  | field a ty d r ih =>
    intro b h
    simp only [revsBelow] at h
    simp only [decItems]
    split
    · rfl
    · rename_i v b1 _; rw [ih b1 h]
  | nex g body r ihb ihr =>
    intro b h
    simp only [revsBelow, Bool.and_eq_true] at h
    simp only [decItems]
    by_cases hg : cfg.nexVersion ≥ g
    · rw [if_pos hg] at h
      simp only [if_pos hg, ihb b h.1]
      split
      · rfl
      · rename_i vs1 b1 _; rw [ihr b1 h.2]
    · simp only [if_neg hg, ihr b h.2]
  | rev g body r ihb ihr =>
    intro b h
    simp only [revsBelow, Bool.and_eq_true, decide_eq_true_eq] at h
    have h1 : m ≥ g := h.1.1
    have h2 : v' ≥ g := by omega
    simp only [decItems, if_pos h1, if_pos h2, ihb b h.1.2]
    split
    · rfl
    · rename_i vs1 b1 _; rw [ihr b1 h.2]

/-- **forward compatibility, one hierarchy level.** With structure headers on, replace the version byte of what
    `encClass` wrote by any `v' ≥ ver` and append any bytes `x` *inside* the length-prefixed body: the decoder
    yields the same attributes and leaves the rest of the message untouched — provided `ver` bounds every
    reachable revision block (`revsBelow`, which `revAscending` gives for every `nex.version`). -/
theorem forward_compat_class (env : Env) (cfg : Cfg) (ver : Nat) (leaf : Items × List Val) (d : StructDef)
    {E : EncHook} {D : DecHook} {V : VisHook} (H : HookRT E D V) (hh : cfg.structHeader = true)
    (vs vs' : List Val) (b : Bytes) (henc : encClass E env cfg ver leaf d vs = .ok (b, vs'))
    (hb : revsBelow ver cfg.nexVersion d.items = true) :
    ∃ body, b = u8 ver ++ u32le body.length ++ body ∧
      ∀ (v' : Nat) (x r : Bytes), ver ≤ v' → v' < 256 → body.length + x.length < 4294967296 →
        decClass D env cfg d (u8 v' ++ u32le (body.length + x.length) ++ (body ++ x) ++ r)
          = .ok ((visItems V cfg ver d.items vs).1, r) := by
  obtain ⟨body, hbody, _, _, rfl⟩ := encClass_header hh henc
  refine ⟨body, rfl, ?_⟩
  intro v' x r hv hv' hl
  have hlen : (body ++ x).length = body.length + x.length := by simp
  have := decClass_header D env cfg d hh v' hv' (body ++ x) r (by omega)
  rw [hlen] at this
  rw [this, decItems_ver D env cfg hv d.items (body ++ x) hb]
  obtain ⟨h1, _⟩ := encItems_rt env cfg ver H d.items vs body vs' x hbody
  rw [h1]

theorem effMaxVersion_root {env : Env} {c : Name} {d : StructDef} (hl : lookup env c = some d) (hp : d.parent = none)
    (nex f : Nat) :
    effMaxVersion env nex (f + 1) c = if d.items.hasRev then maxVersion nex d.items else 0 := by
  simp only [effMaxVersion, hl, hp]

/-- **forward compatibility for an instance of a class without base class** (the versioned structures of the
    definitions are of this kind except `MatchmakeSession`, whose own level is covered by `forward_compat_class`) -/
theorem forward_compat_root (env : Env) (cfg : Cfg) (f : Nat) (c : Name) (d : StructDef)
    (hl : lookup env c = some d) (hp : d.parent = none) (hh : cfg.structHeader = true)
    (hasc : d.items.revAscending = true) (vs vs' : List Val) (b : Bytes)
    (henc : encObj env cfg (f + 1) c vs = .ok (b, vs')) :
    ∃ body, b = u8 (effMaxVersion env cfg.nexVersion (f + 1) c) ++ u32le body.length ++ body ∧
      ∀ (v' : Nat) (x r : Bytes), effMaxVersion env cfg.nexVersion (f + 1) c ≤ v' → v' < 256 →
        body.length + x.length < 4294967296 →
        decObj env cfg (f + 1) c (u8 v' ++ u32le (body.length + x.length) ++ (body ++ x) ++ r)
          = .ok ((visObj env cfg (f + 1) c vs).1, r) := by
  have H : HookRT (encHook (encGo env cfg f none)) (decObj env cfg f) (visHook (visObj env cfg f)) :=
    hookRT_fuel env cfg f
  have hb : revsBelow (effMaxVersion env cfg.nexVersion (f + 1) c) cfg.nexVersion d.items = true := by
    rw [effMaxVersion_root hl hp]
    cases hr : d.items.hasRev with
    | true => simp only [if_true]; exact (revAscending_sound hasc cfg.nexVersion).1
    | false => exact revsBelow_of_noRev _ _ _ hr
  simp only [encObj, encGo, hl, hp] at henc
  split at henc
  · cases henc
  · rename_i cb vs2 hcb
    cases henc
    obtain ⟨body, hbody, hfc⟩ := forward_compat_class env cfg _ _ d H hh vs vs' cb hcb hb
    refine ⟨body, by simpa using hbody, ?_⟩
    intro v' x r h1 h2 h3
    have := hfc v' x r h1 h2 h3
    simp only [decObj, visObj, hl, hp, hh, if_true, this, List.nil_append]

/-! ## dispatch -/

theorem dispatch_unknown {p : ProtoDef} {impl : Name → Bool} {id : Nat} (h : findMethodById p id = none) :
    dispatch p impl id = .notImplemented := by simp [dispatch, h]

theorem dispatch_unsupported {p : ProtoDef} {impl : Name → Bool} {id : Nat} {m : MethodDef}
    (h : findMethodById p id = some m) (hs : m.supported = false) : dispatch p impl id = .notImplemented := by
  simp [dispatch, h, hs]

theorem dispatch_unimplemented {p : ProtoDef} {impl : Name → Bool} {id : Nat} {m : MethodDef}
    (h : findMethodById p id = some m) (hi : impl m.name = false) : dispatch p impl id = .notImplemented := by
  simp [dispatch, h, hi]

theorem dispatch_run {p : ProtoDef} {impl : Name → Bool} {id : Nat} {m : MethodDef}
    (h : findMethodById p id = some m) (hs : m.supported = true) (hi : impl m.name = true) :
    dispatch p impl id = .run m := by
  simp [dispatch, h, hs, hi]

/-! ## RMC client settings -/

theorem rmcClientCfg_header (cfg : Cfg) (minor : Nat) (h : minor ≥ 3) : (rmcClientCfg cfg minor).structHeader = true := by
  simp [rmcClientCfg, h]

theorem rmcClientCfg_keep (cfg : Cfg) (minor : Nat) (h : minor < 3) : rmcClientCfg cfg minor = cfg := by
  simp [rmcClientCfg]; omega

theorem rmcClientCfg_other (cfg : Cfg) (minor : Nat) :
    (rmcClientCfg cfg minor).nexVersion = cfg.nexVersion ∧ (rmcClientCfg cfg minor).pidSize = cfg.pidSize := by
  unfold rmcClientCfg; split <;> simp

/-! ## a small environment for non-vacuity examples (shapes taken from the repository's definitions) -/
namespace Ex

/-- `struct Gathering { uint32 id; nex 30500 { string descr = ""; } }` -/
def gathering : StructDef :=
  { name := 71, parent := none, items := .field 1 (.uint .b4) false (.nex 30500 (.field 2 .string true .nil) .nil) }

/-- the shape of `MatchmakeSession : Gathering`: revisions 1 then 0 behind nex gates -/
def session : StructDef :=
  { name := 77, parent := some 71,
    items := .field 3 (.list (.uint .b1)) false
      (.nex 30600 (.rev 1 (.field 4 .datetime true .nil) .nil)
      (.nex 40000 (.rev 0 (.field 5 .string true .nil) .nil) .nil)) }

/-- the shape of `RVConnectionData`: `nex 30500 { revision 1 { datetime t } }` -/
def conn : StructDef :=
  { name := 82, parent := none,
    items := .field 6 .stationurl true (.nex 30500 (.rev 1 (.field 7 .datetime true .nil) .nil) .nil) }

def meth : MethodDef :=
  { id := 1, name := 90, supported := true,
    request := [(1, .struct 77), (2, .pid)], response := [(3, .anydata), (4, .bool)] }

def proto : ProtoDef :=
  { name := 80, id := 21, noresponse := false,
    methods := [meth, { id := 2, name := 91, supported := false, request := [], response := [] }] }

def env : Env := { structs := builtins ++ [gathering, session, conn], protos := [proto] }

def cfgOld : Cfg := { nexVersion := 30499, structHeader := false, pidSize := 4 }
def cfgNew : Cfg := { nexVersion := 40000, structHeader := true, pidSize := 8 }
def cfg36 : Cfg := { nexVersion := 30600, structHeader := true, pidSize := 8 }

def sessionVal : Val := .obj 77 [.int 7, .str [0x41], .list [.int 1, .int 255], .int 99, .str [0x42]]

end Ex

end Nx.Schema
