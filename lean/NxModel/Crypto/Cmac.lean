import NxModel.Crypto.Aes
/-!
# AES-CMAC (RFC 4493 / NIST SP 800-38B) — executable reference, validated against the RFC 4493 vectors
-/
namespace Nx.Crypto
open Nx

/-- shift a 16-byte string left by one bit -/
def shl1 (b : Bytes) : Bytes :=
  let n := bytesToNatBE b
  ctrBlock (2 * n % 2 ^ 128)

def cmacDbl (b : Bytes) : Bytes :=
  let s := shl1 b
  match b with
  | x :: _ => if x &&& 0x80 ≠ 0 then xorB s (List.replicate 15 0 ++ [0x87]) else s
  | [] => s

/-- `CMAC.new(key, ciphermod=AES).update(msg).digest()` -/
def aesCmac (key msg : Bytes) : Except Err Bytes :=
  match keyExpansion key with
  | none => .error .value
  | some w =>
    let l := encryptBlockW w (List.replicate 16 0)
    let k1 := cmacDbl l
    let k2 := cmacDbl k1
    let n := (msg.length + 15) / 16
    let complete := msg.length ≠ 0 ∧ msg.length % 16 = 0
    let nb := if n = 0 then 1 else n
    let headLen := 16 * (nb - 1)
    let lastRaw := msg.drop headLen
    let last := if complete then xorB lastRaw k1
                else xorB (lastRaw ++ [0x80] ++ List.replicate (15 - lastRaw.length) 0) k2
    let x := (blocks16 nb (msg.take headLen)).foldl (fun x blk => encryptBlockW w (xorB x blk)) (List.replicate 16 0)
    .ok (encryptBlockW w (xorB x last))

end Nx.Crypto
