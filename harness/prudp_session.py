"""Scripted PRUDP sessions over the simulated network (harness/sim.py), with the observation needed to
replay them through the Lean L2 channel model (C01) and, later, the L1 endpoint model.

A session = real client endpoint + real server endpoint (public transports), a fate function for every
datagram, an application script (phases of sends on both sides and substreams), checkpoints at quiescent
instants. Everything random derives from the session seed.
"""
import random, struct, hashlib, logging
import anyio
logging.disable(logging.CRITICAL)

from sim import Sim, lossy_fate, ticks, quant
from nintendo.nex import prudp, settings as nexsettings, kerberos, common

SERVER = ("10.0.0.1", 60000)

TYPE_SYN, TYPE_CONNECT, TYPE_DATA, TYPE_DISCONNECT, TYPE_PING = range(5)
F_ACK, F_REL, F_NEED, F_SIZE, F_MULTI = 1, 2, 4, 8, 0x200


def modify_key(key):
    """independent re-implementation of the substream key chain (wiki: 'modify key')"""
    k = list(key)
    add = len(k) // 2 + 1
    for i in range(len(k) // 2):
        k[i] = (k[i] + add - i) & 0xFF
    return bytes(k)


class Cfg:
    def __init__(self, **kw):
        self.transport = "udp"          # udp | lite
        self.version = 1                # 0 | 1 (client and server)
        self.v0 = (0, 1, 1)             # signature_version, flags_version, checksum_version (3ds defaults)
        self.fragment_size = 1300
        self.max_substream = 0
        self.resend_timeout = 1.0
        self.resend_limit = 3
        self.ping_timeout = 4.0
        self.compression = 0
        self.credentials = False
        self.pid_size = 4
        self.key_size = 32
        self.start = None               # preset (client_counter, server_counter) base ids for substream 0 wrap tests
        self.access_key = ""
        self.minor_version = None       # None = library default
        self.supported_functions = None
        self.ticket_version = None
        self.__dict__.update(kw)

    def settings(self):
        s = nexsettings.default()
        if self.transport == "lite":
            s["prudp.transport"] = s.TRANSPORT_WEBSOCKET
        s["prudp.version"] = self.version
        s["prudp_v0.signature_version"], s["prudp_v0.flags_version"], s["prudp_v0.checksum_version"] = self.v0
        s["prudp.fragment_size"] = self.fragment_size
        s["prudp.max_substream_id"] = self.max_substream
        s["prudp.resend_timeout"] = self.resend_timeout
        s["prudp.resend_limit"] = self.resend_limit
        s["prudp.ping_timeout"] = self.ping_timeout
        s["prudp.compression"] = self.compression
        s["nex.pid_size"] = self.pid_size
        s["kerberos.key_size"] = self.key_size
        if self.access_key:
            s["prudp.access_key"] = self.access_key
        if self.minor_version is not None:
            s["prudp.minor_version"] = self.minor_version
        if self.supported_functions is not None:
            s["prudp.supported_functions"] = self.supported_functions
        if self.ticket_version is not None:
            s["kerberos.ticket_version"] = self.ticket_version
        return s

    def describe(self):
        return {k: v for k, v in self.__dict__.items()}


def make_credentials(s, rng, key_size, pid=1000, server_key=b"server key"):
    sk = rng.randbytes(key_size)
    t = kerberos.ServerTicket()
    t.timestamp = common.DateTime.now()
    t.source = pid
    t.session_key = sk
    data = t.encrypt(server_key, s)
    ct = kerberos.ClientTicket()
    ct.session_key = sk
    ct.target = 1001
    ct.internal = data
    return kerberos.Credentials(ct, pid, 2000), sk


class Observer:
    """decodes the datagrams on the wire with the library's own decoder (observation only)"""

    def __init__(self, s, cfg):
        self.s, self.cfg = s, cfg
        self.sel = prudp.PRUDPMessageSelector(s)
        self.lite = {}

    def decode(self, data, stream_key=None):
        try:
            if self.cfg.transport == "lite":
                dec = self.lite.setdefault(stream_key, prudp.PRUDPLiteMessage(self.s))
                return dec.decode(data)
            return self.sel.decode(data)
        except Exception:
            return []


class Session:
    """result of one simulated session"""
    pass


import contextlib

@contextlib.asynccontextmanager
async def serve_and_watch(handler, settings, key, out, sim):
    """prudp.serve, spelled out so that the server stream's client table can be observed (white-box read only)"""
    out.table_max = 0
    out.table_end = None
    async with prudp.serve_transport(settings, SERVER[0], SERVER[1]) as transport:
        async with transport.serve(handler, 1, 10, key):
            stream = transport.ports.get(1, 10)
            def on_rx(tx):
                # sampled at every datagram arrival (before it is processed) and at the end
                out.table_max = max(out.table_max, len(stream.clients))
            sim.net.on_rx = on_rx
            try:
                yield
            finally:
                out.table_max = max(out.table_max, len(stream.clients))
                out.table_end = len(stream.clients)


def run_session(cfg, seed, script, fate_factory, phases_gap=None, yield_on_send=False, max_time=600.0, end_order="client-first",
                cfg_s=None, creds_fn=None, setup=None, server_key=b"server key"):
    """cfg_s: the server's configuration when it differs from the client's; creds_fn(settings, rng, sim) -> (credentials, session key)
    overrides the honest ticket; setup(sim, out) is called before the session starts (injection hooks: sim.net.on_tx / on_rx / inject)."""
    """script: list of phases; phase = list of (side 'c'|'s', substream, message bytes | ('u', bytes) for unreliable).
    fate_factory(sim, rng) -> fate function. Returns a Session with the trace."""
    rng = random.Random(seed)
    out = Session()
    out.cfg, out.seed, out.script = cfg, seed, script
    with Sim(seed) as sim:
        s = cfg.settings()
        ss = (cfg_s or cfg).settings()
        out.cfg_s = cfg_s or cfg
        out.settings_s = ss
        sim.install_factories()
        sim.net.fate = fate_factory(sim, random.Random(rng.random()))
        creds, session_key = (None, b"")
        if creds_fn is not None:
            creds, session_key = creds_fn(s, random.Random(rng.random()), sim)
        elif cfg.credentials:
            creds, session_key = make_credentials(s, random.Random(rng.random()), cfg.key_size)
        if setup is not None:
            setup(sim, out)
        out.session_key = session_key
        nsub = cfg.max_substream + 1
        got = {("c", k): [] for k in range(nsub)}      # delivered AT side
        got.update({("s", k): [] for k in range(nsub)})
        gotu = {"c": [], "s": []}
        ends = {}
        checkpoints = []
        errors = []
        ep = {}
        srv_ready = anyio.Event()
        srv_done = anyio.Event()

        async def reader(side, client, sub):
            try:
                if getattr(cfg, "read_delay", None) and cfg.read_delay.get(side):
                    await anyio.sleep(quant(cfg.read_delay[side]))      # an application that is busy before it starts reading
                while True:
                    d = await client.recv(sub)
                    got[(side, sub)].append(d)
                    sim.net.log.append(("deliver", sim.now(), side, sub, d))
            except anyio.EndOfStream:
                ends[(side, sub)] = sim.now()
                sim.net.log.append(("eof", sim.now(), side, sub))
            except Exception as e:
                errors.append(("reader", side, sub, repr(e)))

        async def ureader(side, client):
            try:
                while True:
                    gotu[side].append(await client.recv_unreliable())
            except anyio.EndOfStream:
                pass
            except Exception as e:
                errors.append(("ureader", side, repr(e)))

        def snapshot(tag):
            snap = {"tag": tag, "t": sim.now(), "logpos": len(sim.net.log), "ep": {}}
            for side, c in ep.items():
                snap["ep"][side] = {
                    "state": c.state,
                    "win": [(w.next, sorted(w.packets)) for w in c.sliding_windows],
                    "frag": [bytes(b) for b in c.fragment_buffers],
                    "got": [list(got[(side, k)]) for k in range(nsub)],
                    "gotu": list(gotu[side]),
                    "timers": sorted(c.ack_events.keys()),
                    "params": (c.minor_ver, c.max_substream_id, c.supported_functions),
                }
            checkpoints.append(snap)

        async def side_script(side, client, items):
            for sub, msg in items:
                try:
                    if isinstance(msg, tuple):
                        sim.net.log.append(("app", sim.now(), side, "sendu", 0, msg[1]))
                        await client.send_unreliable(msg[1])
                    else:
                        sim.net.log.append(("app", sim.now(), side, "send", sub, msg))
                        await client.send(msg, sub)
                    out.accepted.append((side, sub, msg))
                except Exception as e:
                    out.send_errors.append((side, sub, repr(e), sim.now()))
                    return

        async def handler(client):
            if "s" in ep:
                # a further connection (a third party, or a forged but valid CONNECT): idle until the script ends
                out.extra_handlers.append((client.remote_address(), client.remote_port))
                await srv_done.wait()
                return
            ep["s"] = client
            out.handler_started = True
            out.server_pid = client.pid()
            out.rnd["s"] = (client.sequence_mgr.initial_unreliable_id, client.connection_check, client.local_session_id)
            if cfg.start:
                client.sequence_mgr.counters[0].next_id = cfg.start[1]
                client.sliding_windows[0].next = cfg.start[0]
                sim.net.log.append(("app", sim.now(), "s", "preset", cfg.start[1], cfg.start[0]))
            async with anyio.create_task_group() as tg:
                for k in range(client.max_substream_id + 1):
                    tg.start_soon(reader, "s", client, k)
                tg.start_soon(ureader, "s", client)
                srv_ready.set()
                await srv_done.wait()
                tg.cancel_scope.cancel()
            out.server_pid_end = client.pid()
            sim.net.log.append(("app", sim.now(), "s", "done", 0, b""))

        out.accepted, out.send_errors = [], []
        out.connect_error = None
        out.rnd = {}
        out.server_pid = None
        out.server_pid_end = None
        out.handler_started = False
        out.extra_handlers = []
        out.creds = creds
        out.epoch = sim.epoch

        async def main():
            async with serve_and_watch(handler, ss, server_key if (cfg_s or cfg).credentials else None, out, sim):
                try:
                    sim.net.log.append(("app", sim.now(), "c", "connect", 0, b""))
                    async with prudp.connect(s, SERVER[0], SERVER[1], credentials=creds) as client:
                        ep["c"] = client
                        out.rnd["c"] = (client.sequence_mgr.initial_unreliable_id, client.connection_check, client.local_session_id)
                        sim.net.log.append(("app", sim.now(), "c", "connected", 0, b""))
                        client.transport.socket.yield_on_send = yield_on_send
                        with anyio.move_on_after(30):
                            await srv_ready.wait()
                        if "s" not in ep:
                            out.connect_error = "server handler never started"
                            return
                        if yield_on_send and hasattr(ep["s"].transport, "socket"):
                            ep["s"].transport.socket.yield_on_send = True
                        if cfg.start:
                            client.sequence_mgr.counters[0].next_id = cfg.start[0]
                            client.sliding_windows[0].next = cfg.start[1]
                            sim.net.log.append(("app", sim.now(), "c", "preset", cfg.start[0], cfg.start[1]))
                        out.local = {"c": (client.local_session_id,), "s": (ep["s"].local_session_id,)}
                        async with anyio.create_task_group() as tg:
                            for k in range(client.max_substream_id + 1):
                                tg.start_soon(reader, "c", client, k)
                            tg.start_soon(ureader, "c", client)
                            snapshot("connected")
                            for i, phase in enumerate(script):
                                async with anyio.create_task_group() as ph:
                                    ph.start_soon(side_script, "c", client, [(sub, m) for sd, sub, m in phase if sd == "c"])
                                    ph.start_soon(side_script, "s", ep["s"], [(sub, m) for sd, sub, m in phase if sd == "s"])
                                await anyio.sleep(quant((phases_gap or (cfg.resend_timeout * (cfg.resend_limit + 2))) + rng.random() * 1e-3))
                                snapshot("phase%d" % i)
                            out.final_state = (client.state, ep["s"].state)
                            tg.cancel_scope.cancel()
                        if end_order == "server-first":
                            srv_done.set()
                            await anyio.sleep(quant(cfg.resend_timeout * (cfg.resend_limit + 2)))
                        sim.net.log.append(("app", sim.now(), "c", "disconnect", 0, b""))
                    sim.net.log.append(("app", sim.now(), "c", "closed", 0, b""))
                    srv_done.set()
                    await anyio.sleep(quant(cfg.resend_timeout * (cfg.resend_limit + 2)))
                except BaseException as e:
                    if out.connect_error is None and "c" not in ep:
                        out.connect_error = repr(e)
                    elif not isinstance(e, (KeyboardInterrupt, SystemExit)):
                        errors.append(("main", repr(e)))
                    srv_done.set()

        async def guarded():
            with anyio.move_on_after(max_time) as scope:
                await main()
            out.timed_out = scope.cancelled_caught

        try:
            sim.run(guarded())
            out.crash = None
        except BaseException as e:
            out.crash = repr(e)
            out.timed_out = False
        out.netlog = sim.net.log
        # creation randomness of the PRUDPClient objects, in creation order (client first, then server-side connections)
        vals = [v for (_, _, v) in sim.prudp_rand.log]
        g = 3 if (cfg.transport == "udp" and cfg.version != 0) else 2
        groups = [vals[i:i + g] for i in range(0, len(vals), g)]
        def norm(gr):
            return (gr[0], gr[1], gr[2]) if g == 3 else (1, gr[0], gr[1])
        out.rnd_groups = [norm(gr) for gr in groups if len(gr) == g]
        if out.rnd_groups:
            out.rnd.setdefault("c", out.rnd_groups[0])
        if len(out.rnd_groups) > 1:
            out.rnd.setdefault("s", out.rnd_groups[1])
        out.got, out.gotu, out.ends = got, gotu, ends
        out.checkpoints = checkpoints
        out.errors = errors
        out.end_time = sim.now()
        out.settings = s
        out.nsub = nsub
        out.addr = {"s": SERVER}
        # the client's address is whatever the factory assigned
        for e in sim.net.log:
            if e[0] == "tx" and e[4] == SERVER:
                out.addr["c"] = e[3]; break
            if e[0] == "stx":
                if e[3] == SERVER: out.addr["c"] = e[2]; break
    return out


# ---- abstraction of a trace to L2 channel ops ---------------------------------------------

def rc4_keys(cfg, session_key):
    if cfg.transport == "lite":
        return [None] * (cfg.max_substream + 1)
    if not cfg.credentials:
        return [b"CD&ML"] * (cfg.max_substream + 1)
    keys = [session_key]
    for _ in range(cfg.max_substream):
        keys.append(modify_key(keys[-1]))
    return keys


def kind_of(p):
    return {TYPE_DATA: "data", TYPE_PING: "ping", TYPE_DISCONNECT: "disc"}[p.type]


def abstract(sess, late_acks=False):
    """late_acks: the endpoints' sockets take time to send (slow links): an acknowledgement leaves later than the datagram it answers
    arrived; arrivals are then matched to acknowledgements in order (the receive loop is serial) instead of by instant.
    Per direction ('c' = client→server, 's' = server→client) and substream: the sender's emission log
    (first transmission of each reliable packet), and the receiver's accepted arrivals as log indices,
    interleaved in processing order, with the checkpoints. Returns dict[(dir, sub)] -> list of events:
      ("emit", j, id, kind, frag, payload) | ("arrive", j) | ("check", snapshot index)"""
    cfg = sess.cfg
    obs = Observer(sess.settings, cfg)
    caddr, saddr = sess.addr.get("c"), sess.addr["s"]
    ev = {(d, k): [] for d in "cs" for k in range(sess.nsub)}
    nlog = {(d, k): 0 for d in "cs" for k in range(sess.nsub)}
    cur = {}            # (dir, sub, id) -> log index of the latest emission with that id
    txmap = {}          # tx number -> list of (dir, sub, j)
    cps = {c["logpos"]: i for i, c in enumerate(sess.checkpoints)}
    log = sess.netlog
    pending = {"c": [], "s": []}
    lite_seen = {}
    for pos, e in enumerate(log):
        if pos in cps:
            for key in ev:
                ev[key].append(("check", cps[pos]))
        if e[0] == "tx":
            _, n, t, src, dst, data, delays = e
            d = "c" if dst == saddr else "s"
            pkts = obs.decode(data)
            for p in pkts:
                if p.flags & F_ACK or p.flags & F_MULTI:
                    # an ack emitted by the receiver of direction `od` confirms the earliest pending arrival it matches
                    od = "s" if d == "c" else "c"
                    q = pending[od]
                    while q and (q[0][0] < t if not late_acks else len(q[0][2]) == len(q[0][1])):
                        q.pop(0)          # rx of an earlier instant that was not acknowledged: rejected by the endpoint
                    for ent in q:
                        hit = None
                        for item in ent[1]:
                            (pd, sub, j, pid, ptype) = item
                            if p.type == ptype and p.packet_id == pid and p.substream_id == sub and item not in ent[2]:
                                hit = item; break
                        if hit:
                            ent[2].append(hit)
                            ev[(hit[0], hit[1])].append(("arrive", hit[2]))
                            break
                    else:
                        pass
                    continue
                if not (p.flags & F_REL) or p.type not in (TYPE_DATA, TYPE_PING, TYPE_DISCONNECT):
                    continue
                sub = p.substream_id
                if (d, sub) not in ev:
                    continue
                key = (d, sub, p.packet_id)
                j = cur.get(key)
                payload = bytes(p.payload)
                if j is None or sess_emitted(ev[(d, sub)], j) != (p.packet_id, kind_of(p), p.fragment_id, payload):
                    j = nlog[(d, sub)]
                    nlog[(d, sub)] += 1
                    cur[key] = j
                    ev[(d, sub)].append(("emit", j, p.packet_id, kind_of(p), p.fragment_id, payload))
                txmap.setdefault(n, []).append((d, sub, j, p.packet_id, p.type))
        elif e[0] == "rx":
            _, n, t, src, dst, data, alive = e
            if n in txmap and alive:
                d = txmap[n][0][0]
                pending[d].append((t, txmap[n], []))
        elif e[0] == "stx":
            # stream transports: in-order, reliable byte stream; packets may span chunks
            _, t, src, dst, chunk = e
            d = "c" if dst == saddr else "s"
            od = "s" if d == "c" else "c"
            for p in obs.decode(chunk, (src, dst)):
                sub = 0     # lite carries no substream id
                if p.flags & F_ACK:
                    j = cur.get((od, sub, p.packet_id))
                    if j is not None and (od, j) not in lite_seen and sess_emitted(ev[(od, sub)], j)[1] == {TYPE_DATA: "data", TYPE_PING: "ping", TYPE_DISCONNECT: "disc"}.get(p.type):
                        lite_seen[(od, j)] = True
                        ev[(od, sub)].append(("arrive", j))
                    continue
                if p.flags & F_MULTI or not (p.flags & F_REL) or p.type not in (TYPE_DATA, TYPE_PING, TYPE_DISCONNECT):
                    continue
                if late_acks:
                    # over a slow stream the acknowledgements can be late enough for retransmissions: not new emissions
                    j0 = cur.get((d, sub, p.packet_id))
                    if j0 is not None and sess_emitted(ev[(d, sub)], j0) == (p.packet_id, kind_of(p), p.fragment_id, bytes(p.payload)):
                        continue
                j = nlog[(d, sub)]
                nlog[(d, sub)] += 1
                cur[(d, sub, p.packet_id)] = j
                ev[(d, sub)].append(("emit", j, p.packet_id, kind_of(p), p.fragment_id, bytes(p.payload)))
    if len(log) in cps:
        for key in ev:
            ev[key].append(("check", cps[len(log)]))
    return ev


def sess_emitted(events, j):
    for e in events:
        if e[0] == "emit" and e[1] == j:
            return (e[2], e[3], e[4], e[5])
    return None
