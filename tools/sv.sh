#!/bin/sh
# usage: sv.sh C15 13 14
id=$1; shift
cd /verif
for k in "$@"; do python3 tools/seed_verify.py $id $k; done > /var/tmp/sv_$id.log 2>&1
