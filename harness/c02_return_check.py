"""C02: job list, worker and reporting for harness/c02_return.py - a peer that returns from the same (address, port, type) while
the server still holds the record of its previous, already ended connection whose handler has not returned yet.

Axes: how the first session ends (graceful / client.close() / kicked by the handler / the client's block cancelled / silence) x what
keeps the old handler (lingering after end-of-stream / busy with a slow request) x the instant at which it returns (a grid over
-0.05 .. +4 s relative to the first new attempt: around the new handshake in steps of 5..10 ms, around each echo, every 10 ms around
the new session's end, after it; plus drawn instants) x how it ends (returns / raises) x when the peer comes back (0 .. 2.6 s after
the end: before the server has learnt of the end, inside the window, after it) and how often it retries x how the new session ends
(graceful / close / kicked / silence) x UDP v1 / v0 (one long-lived client transport, or a new transport bound to the same UDP source
port) and lite (one long-lived transport) x resend_limit 0..3 x credentials."""
import traceback
import prudp_session as ps
import c02_return as cr

HOW = ("harness/c02_return.py run(prudp_session.Cfg(**cfg), seed, spec, tcp) judged by c02_return.judge(cfg, spec, session); "
       "the server side replayed through the L1 model by c02_return.l1_compare(driver, session)")

END1 = ("graceful", "close", "kick", "cancel", "silence")
END2 = ("graceful", "close", "kick", "silence")
KINDS = ("eos", "busy")
GAPS = (0.0, 0.05, 0.3, 1.1, 2.6)
PAUSES = (0.0, 0.1, 0.7)
# offsets of the old handler's release relative to the start of the first new attempt: before it, through its handshake (SYN at 0,
# SYN/ACK back at 0.02, CONNECT at the server at 0.03, acknowledged at 0.04), the first echo, the second (0.36..0.38), the keep-alive
# of the idle phase, the third echo and the end of the session (about 1.65..1.78), and after the session
REL = ([-0.05, -0.01, 0.0, 0.005, 0.0125, 0.02, 0.025, 0.0325, 0.04, 0.045, 0.055, 0.07, 0.1, 0.2, 0.33, 0.35, 0.365, 0.38, 0.45, 0.7, 1.0, 1.06, 1.2, 1.4, 1.55]
       + [round(1.6 + 0.01 * i, 3) for i in range(22)] + [1.9, 2.1, 2.6, 3.2, 4.0])


def _tname(cfgd, tcp):
    return ("lite-tcp" if tcp else "lite-ws") if cfgd.get("transport") == "lite" else "udp-v%d" % cfgd["version"]


def jobs(ctx):
    quick = ctx.tier == "quick"
    rng = ctx.rng
    base = dict(fragment_size=16, resend_timeout=0.5, ping_timeout=1.0)
    transports = [(dict(base, transport="udp", version=1), False), (dict(base, transport="udp", version=0), False), (dict(base, transport="lite", version=1), False)]
    if not quick:
        transports.append((dict(base, transport="lite", version=1), True))
    out, n = [], 0
    for cfgd0, tcp in transports:
        udp = cfgd0["transport"] == "udp"
        for end1 in END1:
            for kind in KINDS:
                rels = list(REL) + [round(rng.uniform(-0.05, 4.0), 4) for _ in range(4 if quick else 40)]
                for j, rel in enumerate(rels):
                    combos = [None] if quick else [(e2, ex) for e2 in END2 for ex in ("return", "raise")]
                    for combo in combos:
                        gap = GAPS[(j + n) % len(GAPS)] if rng.random() < 0.7 else rng.choice(GAPS)
                        lim = rng.randrange(4)
                        bound = base["ping_timeout"] + (lim + 1) * base["resend_timeout"]
                        if not udp and end1 in ("cancel", "silence"):
                            # lite carries no session id: a peer that comes back on the same stream BEFORE the server has learnt that
                            # the connection the client gave up (cancelled / timed out) is gone talks to the OLD connection
                            # (harness/c02_lite_zombie_repro.py, reported separately); here the peer comes back after the server had its time
                            gap = gap + bound + 0.25
                        spec = dict(end1=end1, kind=kind, linger=round(max(0.0, gap + rel), 4), exit=combo[1] if combo else rng.choice(("return", "return", "raise")),
                                    gap=gap, pause=rng.choice(PAUSES), end2=combo[0] if combo else END2[(j + n) % len(END2)] if rng.random() < 0.6 else rng.choice(END2),
                                    newt=bool(udp and rng.random() < 0.3))
                        out.append((n, dict(cfgd0, resend_limit=lim, credentials=rng.random() < 0.35), 1 + n % 5, spec, tcp)); n += 1
    return out


def _replay(exe, trace, nhandlers):
    """the server transport through the compiled L1 model (in the worker: one driver process per session)"""
    import subprocess, l1_trace
    lines, kinds, real = trace
    p = subprocess.run([exe], input="\n".join(lines) + "\n", stdout=subprocess.PIPE, stderr=subprocess.PIPE, text=True, timeout=600)
    outs = p.stdout.split("\n")
    if outs and outs[-1] == "":
        outs.pop()
    if p.returncode != 0 or len(outs) != len(lines):
        return [{"kind": "driver", "line": "driver exited %d with %d lines for %d inputs" % (p.returncode, len(outs), len(lines)), "model": p.stderr[-300:]}]
    tx, other, errs = l1_trace.model_stream(lines, kinds, outs)
    diffs = [{"kind": "driver", "line": l[:160], "model": o} for l, o in errs if o != "no-conn"]
    r, m = real["s"], tx["s"]
    for i, (x, y) in enumerate(zip(r, m)):
        if x != y:
            diffs.append({"kind": "tx", "endpoint": "s", "index": i, "real": x, "model": y}); break
    else:
        if len(r) != len(m):
            diffs.append({"kind": "tx-count", "endpoint": "s", "real_n": len(r), "model_n": len(m), "first_extra": (r[len(m):] or m[len(r):])[0]})
    started = sum(1 for tk, rest in other["s"] if rest.startswith("started"))
    if not diffs and started != nhandlers:
        diffs.append({"kind": "handlers-started", "real": nhandlers, "model": started})
    return diffs


def work(args):
    idx, cfgd, seed, spec, tcp, exe = args
    try:
        cfg = ps.Cfg(**cfgd)
        se = cr.run(cfg, seed, spec, tcp)
        bad = cr.judge(cfg, spec, se)
        trace = cr.build_server_trace(se)
        diffs = _replay(exe, trace, len(se.handlers)) if trace is not None and exe else None
        summary = {"first": [se.first.get("ended"), se.first.get("t1")] if getattr(se, "first", None) else None,
                   "old_handler": [se.handlers[0]["t0"], se.handlers[0]["eos_at"], se.handlers[0]["t1"], se.handlers[0]["outcome"]] if se.handlers else None,
                   "attempts": [[r["i"], round(r["t0"], 4), r["connected"], [o[3] for o in r["ops"]], r["ended"], r["complete"]] for r in se.attempts],
                   "handlers": len(se.handlers), "table": [[e[0], round(e[1], 4)] for e in se.table_log][:24], "serve_error": se.serve_error}
        inside = sum(1 for r in se.attempts if not isinstance(r["i"], str) and r["connected"] and not r["complete"])
        tag = "return:%s:%s:%s:%s" % (_tname(cfgd, tcp), spec["end1"], spec["kind"], "half-open-attempts" if inside else "no-attempt-in-window")
        return idx, cfgd, seed, spec, tcp, bad, summary, diffs, tag, None
    except Exception:
        return idx, cfgd, seed, spec, tcp, [], None, None, None, traceback.format_exc()


def run_families(ctx, pool, drv):
    jl = [j + (drv.exe,) for j in jobs(ctx)]
    nsess = ndiff = nreplayed = 0
    first = None
    for idx, cfgd, seed, spec, tcp, bad, summary, diffs, tag, err in pool.imap_unordered(work, jl, chunksize=8):
        if err:
            ctx.corr_break("c02-session-harness", "session crashed in the harness", {"traceback": err, "family": "return", "cfg": cfgd, "spec": spec})
            continue
        nsess += 1
        seen = set()
        for key, what in bad:
            if key in seen:
                continue
            seen.add(key)
            ctx.violation("c02:return:%s:%s" % (key, _tname(cfgd, tcp)), what, {"family": "return", "cfg": cfgd, "spec": spec, "tcp": tcp, "seed": seed, "summary": summary, "how": HOW})
        if diffs is not None:
            nreplayed += 1
            ctx.traces_validated += 1
            ctx.tag("l1-server-replay:return")
            if diffs:
                ndiff += 1
                if first is None:
                    first = {"cfg": cfgd, "spec": spec, "seed": seed, "family": "return", "diff": diffs[0]}
        ctx.case(key=("return", str(sorted(cfgd.items())), str(sorted(spec.items())), tcp), nontrivial=True, tag=tag,
                 sample={"family": "return", "cfg": cfgd, "spec": spec, "summary": summary} if idx % 211 == 0 else None)
    ctx.extra["c02_return_sessions"] = {"sessions": nsess, "server_side_replayed_through_L1": nreplayed, "l1_diffs": ndiff}
    return ndiff, first
