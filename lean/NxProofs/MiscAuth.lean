import NxModel.Misc.Auth
/-! definitional facts about the calibration-data check and the Hpp response validation -/
namespace Nx.Misc
open Nx Nx.Crypto

/-- `ProdInfo.check(offset, size)` passes exactly when the two bytes at `offset+size-2` exist and hold, little
    endian, the CRC of `data[offset : offset+size-2]` -/
theorem prodCheck_ok_iff (data : Bytes) (offset size : Nat) (h2 : 2 ≤ offset + size) :
    prodCheck data offset size = .ok () ↔
      offset + size ≤ data.length ∧
      prodCrc16 ((data.take (offset + size - 2)).drop offset) = rdLE data (offset + size - 2) 2 := by
  unfold prodCheck
  rw [if_neg (by omega)]
  simp only []
  by_cases hl : data.length < offset + size - 2 + 2
  · rw [if_pos hl]; constructor
    · intro h; cases h
    · intro ⟨h, _⟩; omega
  · rw [if_neg hl]
    by_cases hc : prodCrc16 ((data.take (offset + size - 2)).drop offset) ≠ rdLE data (offset + size - 2) 2
    · rw [if_pos hc]; constructor
      · intro h; cases h
      · intro ⟨_, h⟩; exact absurd h hc
    · rw [if_neg hc]; constructor
      · intro _; exact ⟨by omega, by simpa using hc⟩
      · intro _; rfl

/-- a failed check is a ValueError (wrong CRC) or a struct.error (buffer too short), nothing else -/
theorem prodCheck_err (data : Bytes) (offset size : Nat) (e : Err) (h : prodCheck data offset size = .error e) :
    e = .value ∨ e = .struct := by
  unfold prodCheck at h
  split at h
  · cases h; right; rfl
  · simp only [] at h
    split at h
    · cases h; right; rfl
    · split at h
      · cases h; left; rfl
      · cases h

/-- an Hpp success response is accepted only with the request's call id and `method | 0x8000`, and then the
    returned body is exactly what follows the header -/
theorem hppValidate_body (callId method : Nat) (resp body : Bytes)
    (h : hppValidate callId method resp = .body body) :
    ∃ size s1 flag s2 s3 s4, rdU32 resp = .ok (size, s1) ∧ size = s1.length ∧ rdU8 s1 = .ok (flag, s2) ∧ flag ≠ 0 ∧
      rdU32 s2 = .ok (callId, s3) ∧ rdU32 s3 = .ok (method ||| 0x8000, s4) ∧ body = s4 := by
  unfold hppValidate at h
  split at h
  · cases h
  · rename_i size s1 h1
    split at h
    · cases h
    · rename_i hsz
      split at h
      · cases h
      · rename_i flag s2 hf
        split at h
        · -- failure branch never yields `.body`
          split at h
          · cases h
          · split at h
            · cases h
            · split at h
              · cases h
              · split at h <;> cases h
        · rename_i hflag
          split at h
          · cases h
          · rename_i cid s3 hc
            split at h
            · cases h
            · rename_i hcid
              split at h
              · cases h
              · rename_i mid s4 hm
                split at h
                · cases h
                · rename_i hmid
                  have hb : s4 = body := by injection h
                  refine ⟨size, s1, flag, s2, s3, s4, h1, by simpa using hsz, hf, hflag, ?_, ?_, hb.symm⟩
                  · have : callId = cid := by simpa using hcid
                    rw [this]; exact hc
                  · have : mid = method ||| 0x8000 := by simpa using hmid
                    rw [← this]; exact hm

end Nx.Misc
