import NxModel.Nex.Schema
/-!
# C14 over a real PRUDP connection: which codec configuration each end of the RMC connection uses

`rmc.connect` / `rmc.serve` build one `RMCClient` per end, each from its own `Settings` and from the minor version its
`PRUDPClient` reports after the handshake. What the two `PRUDPClient`s report is the handshake's business (C06: the
meet of both configurations, equal on both ends); PRUDP v0 packets have no option fields, the decoder leaves
`minor_version` at 0, so both ends of a v0 connection report 0 whatever `prudp.minor_version` says.
The C14 tie observes, on every simulated connection, the minor version and the `nex.struct_header` flag of BOTH real
`RMCClient` objects and compares them with `endCfgs` (driver line `conn`).
-/
namespace Nx.C14Wire
open Nx Nx.Schema

/-- the minor version both `PRUDPClient` objects report once the handshake is complete -/
def negotiatedMinor (v0 : Bool) (client server : Nat) : Nat := if v0 then 0 else min server client

/-- the codec configurations of the client's and of the server's `RMCClient` -/
def endCfgs (v0 : Bool) (cfgC cfgS : Cfg) (minorC minorS : Nat) : Cfg × Cfg :=
  (rmcClientCfg cfgC (negotiatedMinor v0 minorC minorS), rmcClientCfg cfgS (negotiatedMinor v0 minorC minorS))

def b01 (b : Bool) : String := if b then "1" else "0"

/-- `conn <v0 0|1> <client minor> <server minor> <client struct_header> <server struct_header>`
    -> `ok <negotiated minor> <client header> <server header>` -/
def stepConn : List String → String
  | [v0, mc, ms, hc, hs] =>
    match mc.toNat?, ms.toNat? with
    | some mc, some ms =>
      let c0 : Cfg := { nexVersion := 0, structHeader := hc == "1", pidSize := 4 }
      let s0 : Cfg := { nexVersion := 0, structHeader := hs == "1", pidSize := 4 }
      let r := endCfgs (v0 == "1") c0 s0 mc ms
      s!"ok {negotiatedMinor (v0 == "1") mc ms} {b01 r.1.structHeader} {b01 r.2.structHeader}"
    | _, _ => "bad-op"
  | _ => "bad-op"

end Nx.C14Wire
