import NxProofs.Silence
import NxProofs.Gating
/-! C02: the keep-alive timer armed by `serve` / `resumeHandshake` survives everything except `cleanup` — whatever is
received, sent or fired — so at every instant of an established connection a keep-alive is due within `ping_timeout`.
With `silence_bound` this gives the property's bound counted from ANY instant after which nothing is heard. -/
namespace Nx.L1
open Nx Nx.Prudp

/-- a timer that nothing but `cleanup` can remove: no acknowledgement entry points at its handle, and its handle is below
    the scheduler's next handle (so no later entry will) -/
def Wit (c : Conn) (t : Timer) : Prop :=
  t ∈ evs c ∧ (∀ e ∈ c.ackEvents, e.2 ≠ t.handle) ∧ (∀ s, c.sched = some s → t.handle < s.nextHandle)

/-- every handle stored in the acknowledgement table was handed out by the scheduler -/
def AWF (c : Conn) : Prop := ∀ s, c.sched = some s → ∀ e ∈ c.ackEvents, e.2 < s.nextHandle

/-- timer frame: what an operation may do to protected timers -/
structure TF (c c' : Conn) : Prop where
  pt : c'.pingTimeout = c.pingTimeout
  dead : c.Dead → c'.Dead
  keep : c'.Dead ∨ ∀ t, Wit c t → Wit c' t
  awf : AWF c → AWF c'

theorem TF.refl (c : Conn) : TF c c := ⟨rfl, id, Or.inr fun _ h => h, id⟩

theorem TF.trans {a b c : Conn} (h1 : TF a b) (h2 : TF b c) : TF a c := by
  refine ⟨h2.pt.trans h1.pt, fun h => h2.dead (h1.dead h), ?_, fun h => h2.awf (h1.awf h)⟩
  cases h1.keep with
  | inl d => exact Or.inl (h2.dead d)
  | inr k1 =>
    cases h2.keep with
    | inl d => exact Or.inl d
    | inr k2 => exact Or.inr fun t ht => k2 t (k1 t ht)

/-- an update that leaves the scheduler, the acknowledgement table, the keep-alive period and the four waiter fields alone -/
theorem tf_of_eq {c c' : Conn} (hs : c'.sched = c.sched) (ha : c'.ackEvents = c.ackEvents) (hp : c'.pingTimeout = c.pingTimeout)
    (hd : c.Dead → c'.Dead) : TF c c' := by
  refine ⟨hp, hd, Or.inr ?_, ?_⟩
  rotate_left
  · intro h s' hs' e he; rw [hs] at hs'; rw [ha] at he; exact h s' hs' e he
  intro t ⟨h1, h2, h3⟩
  refine ⟨?_, ?_, ?_⟩
  · simp only [evs, hs]; exact h1
  · rw [ha]; exact h2
  · rw [hs]; exact h3

theorem SameT.tf {c c' : Conn} (h : SameT c c') : TF c c' :=
  tf_of_eq h.sched h.acks h.pt (fun d => ⟨h.state.trans d.1, h.eof.trans d.2.1, h.hs.trans d.2.2.1, h.cl.trans d.2.2.2⟩)

theorem tf_cleanup (c : Conn) : TF c c.cleanup.c := by
  refine ⟨rfl, fun _ => cleanup_dead c, Or.inl (cleanup_dead c), ?_⟩
  intro h s' hs' e he
  simp only [Conn.cleanup, R.ok] at hs' he
  cases hs : c.sched with
  | none => rw [hs] at hs'; cases hs'
  | some s => rw [hs] at hs'; cases hs'; exact h s hs e he

theorem mem_ackSet (k : AckKey) (h : Nat) : ∀ (l : List (AckKey × Nat)) (e : AckKey × Nat), e ∈ ackSet k h l → e = (k, h) ∨ e ∈ l := by
  intro l
  induction l with
  | nil => intro e he; simp [ackSet] at he; exact Or.inl he
  | cons x xs ih =>
    intro e he
    obtain ⟨k', h'⟩ := x
    simp only [ackSet] at he
    split at he
    · cases List.mem_cons.mp he with
      | inl h1 => exact Or.inl h1
      | inr h1 => exact Or.inr (List.mem_cons_of_mem _ h1)
    · cases List.mem_cons.mp he with
      | inl h1 => exact Or.inr (by rw [h1]; exact List.mem_cons_self)
      | inr h1 =>
        cases ih e h1 with
        | inl h2 => exact Or.inl h2
        | inr h2 => exact Or.inr (List.mem_cons_of_mem _ h2)

theorem tf_arm (c : Conn) (now : Time) (p : Packet) (k : Nat) : TF c (c.arm now p k) := by
  unfold Conn.arm
  cases hs : c.sched with
  | none => simp only []; exact TF.refl c
  | some s =>
    simp only [Sched.schedule]
    refine ⟨rfl, fun h => h, Or.inr ?_, ?_⟩
    rotate_left
    · intro h s' hs' e he
      cases hs'
      simp only []
      cases mem_ackSet _ _ _ e he with
      | inl h1 => rw [h1]; simp only []; omega
      | inr h1 => have := h s hs e h1; omega
    intro t ⟨h1, h2, h3⟩
    have hlt := h3 s hs
    refine ⟨?_, ?_, ?_⟩
    · simp only [evs, hs] at h1 ⊢; exact List.mem_append_left _ h1
    · intro e he
      cases mem_ackSet _ _ _ e he with
      | inl h => rw [h]; simp only []; omega
      | inr h => exact h2 e h
    · intro s' hs'; cases hs'; simp only []; omega

theorem tf_transmit (env : Env) (now : Time) (c : Conn) (p : Packet) : TF c (c.transmit env now p).c := by
  rcases transmit_cases env now c p with h | h | h
  · rw [h]; exact tf_cleanup c
  · rw [h.2]; exact TF.refl c
  · rw [h.2]; split
    · exact tf_arm c now p 0
    · exact TF.refl c

theorem tf_sendPacket (env : Env) (now : Time) (c : Conn) (p : Packet) : TF c (c.sendPacket env now p).c := by
  unfold Conn.sendPacket
  simp only []
  generalize hA : Conn.assignIf c _ _ = ra
  cases ra with
  | error e => exact TF.refl c
  | ok v =>
    obtain ⟨pid, c1⟩ := v
    have h1 := (assignIf_sameT _ _ _ _ _ hA).tf
    simp only []
    generalize hE : Conn.encodeIf env c1 _ _ = re
    cases re with
    | error e => exact h1
    | ok w =>
      obtain ⟨payload, c2⟩ := w
      have h2 := (encodeIf_sameT _ _ _ _ _ _ hE).tf
      simp only []
      exact (h1.trans h2).trans (tf_transmit env now c2 _)

theorem tf_bind {c : Conn} (r : R) (f : Conn → R) (h1 : TF c r.c) (h2 : ∀ x, TF x (f x).c) : TF c (r.bind f).c := by
  unfold R.bind
  cases r.err with
  | some e => exact h1
  | none => exact h1.trans (h2 r.c)

theorem tf_sendAck (env : Env) (now : Time) (c : Conn) (p : Packet) : TF c (c.sendAck env now p).c := by
  unfold Conn.sendAck
  simp only []
  split
  · exact tf_bind _ _ (tf_bind _ _ (tf_sendPacket env now c _) (fun x => tf_sendPacket env now x _)) (fun x => tf_sendPacket env now x _)
  · exact tf_sendPacket env now c _

theorem decodePayload_sameT (env : Env) (c c' : Conn) (p : Packet) (d : Bytes) (h : c.decodePayload env p = .ok (d, c')) :
    SameT c c' := by
  unfold Conn.decodePayload at h
  split at h
  · split at h
    · split at h
      · cases h
      · simp only [] at h
        split at h
        · split at h <;> (cases h; exact ⟨rfl, rfl, rfl, rfl, rfl, rfl, rfl, rfl, rfl, rfl, rfl⟩)
        · cases h
    · split at h <;> simp only [] at h <;> split at h <;> first
        | (cases h; exact ⟨rfl, rfl, rfl, rfl, rfl, rfl, rfl, rfl, rfl, rfl, rfl⟩)
        | cases h
  · cases h; exact ⟨rfl, rfl, rfl, rfl, rfl, rfl, rfl, rfl, rfl, rfl, rfl⟩

theorem tf_consume (env : Env) (sub : Nat) : ∀ (ps : List Packet) (c : Conn), TF c (Conn.consume env sub ps c).c := by
  intro ps
  induction ps with
  | nil => intro c; exact TF.refl c
  | cons p ps ih =>
    intro c
    simp only [Conn.consume]
    split
    · generalize hd : c.decodePayload env p = r
      cases r with
      | error e => exact TF.refl c
      | ok v =>
        obtain ⟨data, c1⟩ := v
        have h1 := (decodePayload_sameT _ _ _ _ _ hd).tf
        simp only []
        split
        · split
          · exact h1.trans (tf_of_eq rfl rfl rfl (fun d => d))
          · exact tf_bind _ _ (h1.trans (tf_of_eq rfl rfl rfl (fun d => d))) (fun x => ih x)
        · refine h1.trans (TF.trans ?_ (ih _))
          exact tf_of_eq rfl rfl rfl (fun d => d)
    · split
      · exact tf_bind _ _ (tf_cleanup c) (fun x => ih x)
      · exact ih c

theorem tf_processReliable (env : Env) (c : Conn) (p : Packet) : TF c (c.processReliable env p).c := by
  unfold Conn.processReliable
  cases c.windows[p.substreamId]? with
  | none => exact TF.refl c
  | some w =>
    simp only []
    generalize w.update p.packetId p = u
    obtain ⟨w', rel⟩ := u
    simp only []
    refine TF.trans ?_ (tf_consume env _ _ _)
    exact tf_of_eq rfl rfl rfl (fun d => d)

theorem foldl_remove (gone : List Nat) : ∀ (s : Sched), (gone.foldl Sched.remove s).nextHandle = s.nextHandle ∧
    ∀ t ∈ s.events, t.handle ∉ gone → t ∈ (gone.foldl Sched.remove s).events := by
  induction gone with
  | nil => intro s; exact ⟨rfl, fun t h _ => h⟩
  | cons g gs ih =>
    intro s
    simp only [List.foldl_cons]
    have := ih (s.remove g)
    refine ⟨this.1, ?_⟩
    intro t ht hn
    apply this.2 t
    · simp only [Sched.remove, List.mem_filter]
      refine ⟨ht, ?_⟩
      have : t.handle ≠ g := fun h => hn (by rw [h]; exact List.mem_cons_self)
      simpa using this
    · exact fun h => hn (List.mem_cons_of_mem _ h)

/-- cancelling timers through acknowledgement entries never touches a protected timer -/
theorem tf_removeMany (c : Conn) (gone : List Nat) (a' : List (AckKey × Nat)) (hg : ∀ h ∈ gone, ∃ e ∈ c.ackEvents, e.2 = h)
    (ha : ∀ e ∈ a', e ∈ c.ackEvents) :
    TF c { c with ackEvents := a', sched := c.sched.map (fun s => gone.foldl Sched.remove s) } := by
  refine ⟨rfl, fun d => d, Or.inr ?_, ?_⟩
  rotate_left
  · intro h s' hs' e he
    cases hs : c.sched with
    | none => simp only [hs, Option.map] at hs'; cases hs'
    | some s =>
      simp only [hs, Option.map] at hs'
      cases hs'
      rw [(foldl_remove gone s).1]; exact h s hs e (ha e he)
  intro t ⟨h1, h2, h3⟩
  have hn : t.handle ∉ gone := by
    intro hin
    obtain ⟨e, he, heq⟩ := hg _ hin
    exact h2 e he heq
  cases hs : c.sched with
  | none => simp only [evs, hs] at h1; cases h1
  | some s =>
    have fr := foldl_remove gone s
    refine ⟨?_, fun e he => h2 e (ha e he), ?_⟩
    · simp only [evs, hs, Option.map] at h1 ⊢
      exact fr.2 t h1 hn
    · intro s' hs'
      simp only [Option.map] at hs'
      cases hs'
      rw [fr.1]; exact h3 s hs

theorem tf_aggr (c : Conn) (hit : AckKey × Nat → Bool) :
    TF c { c with ackEvents := c.ackEvents.filter (fun e => !hit e),
                  sched := c.sched.map (fun s => ((c.ackEvents.filter hit).map (·.2)).foldl Sched.remove s) } := by
  apply tf_removeMany
  · intro h hh
    obtain ⟨e, he, heq⟩ := List.mem_map.mp hh
    exact ⟨e, (List.mem_filter.mp he).1, heq⟩
  · intro e he; exact (List.mem_filter.mp he).1

theorem tf_handleAggregateAck (env : Env) (c : Conn) (p : Packet) : TF c (c.handleAggregateAck env p).c := by
  unfold Conn.handleAggregateAck
  split
  · exact TF.refl c
  · split
    · exact TF.refl c
    · split
      · exact TF.refl c
      · simp only []
        split
        · exact TF.refl c
        · split <;> exact tf_aggr c _

theorem tf_processOther (env : Env) (now : Time) (c : Conn) (p : Packet) : TF c (c.processOther env now p).c := by
  unfold Conn.processOther
  split
  · exact TF.refl c
  · split
    · exact tf_handleAggregateAck env c p
    · split
      · exact TF.refl c
      · split
        · exact TF.refl c
        · split
          · exact TF.refl c
          · simp only []
            apply tf_bind
            · split
              · exact tf_sendAck env now c p
              · exact TF.refl c
            · intro x
              split
              · exact tf_processReliable env x p
              · split
                · generalize hd : x.decodePayload env p = r
                  cases r with
                  | error e => exact TF.refl x
                  | ok v =>
                    obtain ⟨data, c1⟩ := v
                    have h1 := (decodePayload_sameT _ _ _ _ _ hd).tf
                    simp only []
                    split
                    · exact h1
                    · exact h1.trans (tf_of_eq rfl rfl rfl (fun d => d))
                · split
                  · exact tf_cleanup x
                  · exact TF.refl x

theorem tf_processConnect (env : Env) (c : Conn) (p : Packet) : TF c (c.processConnect env p).c := by
  unfold Conn.processConnect
  split
  · exact TF.refl c
  · split
    · exact TF.refl c
    · split
      · exact TF.refl c
      · split
        · exact TF.refl c
        · split
          · split
            · exact TF.refl c
            · exact tf_of_eq rfl rfl rfl (fun d => ⟨d.1, d.2.1, rfl, d.2.2.2⟩)
          · exact TF.refl c

/-- the frame without the `dead` clause (for steps that are only taken by a live connection) -/
structure TFk (c c' : Conn) : Prop where
  pt : c'.pingTimeout = c.pingTimeout
  keep : c'.Dead ∨ ∀ t, Wit c t → Wit c' t
  awf : AWF c → AWF c'

theorem TF.k {c c' : Conn} (h : TF c c') : TFk c c' := ⟨h.pt, h.keep, h.awf⟩

theorem TFk.then {a b c : Conn} (h1 : TFk a b) (h2 : TF b c) : TFk a c := by
  refine ⟨h2.pt.trans h1.pt, ?_, fun h => h2.awf (h1.awf h)⟩
  cases h1.keep with
  | inl d => exact Or.inl (h2.dead d)
  | inr k1 =>
    cases h2.keep with
    | inl d => exact Or.inl d
    | inr k2 => exact Or.inr fun t ht => k2 t (k1 t ht)

theorem tfk_of_eq {c c' : Conn} (hs : c'.sched = c.sched) (ha : c'.ackEvents = c.ackEvents) (hp : c'.pingTimeout = c.pingTimeout) :
    TFk c c' := by
  refine ⟨hp, Or.inr ?_, ?_⟩
  rotate_left
  · intro h s' hs' e he; rw [hs] at hs'; rw [ha] at he; exact h s' hs' e he
  intro t ⟨h1, h2, h3⟩
  refine ⟨?_, ?_, ?_⟩
  · simp only [evs, hs]; exact h1
  · rw [ha]; exact h2
  · rw [hs]; exact h3

theorem tfk_processSyn (env : Env) (now : Time) (c : Conn) (p : Packet) : TFk c (c.processSyn env now p).c := by
  unfold Conn.processSyn
  split
  · exact (TF.refl c).k
  · split
    · exact (TF.refl c).k
    · split
      · exact (TF.refl c).k
      · split
        · exact (TF.refl c).k
        · split
          · simp only [Conn.sendConnect]
            refine TFk.then ?_ (tf_sendPacket env now _ _)
            exact tfk_of_eq rfl rfl rfl
          · exact (TF.refl c).k

theorem ackLookup_mem (k : AckKey) (h : Nat) : ∀ (l : List (AckKey × Nat)), ackLookup k l = some h → ∃ e ∈ l, e.2 = h := by
  intro l
  induction l with
  | nil => intro hh; cases hh
  | cons x xs ih =>
    intro hh
    obtain ⟨k', h'⟩ := x
    simp only [ackLookup] at hh
    split at hh
    · cases hh; exact ⟨_, List.mem_cons_self, rfl⟩
    · obtain ⟨e, he, heq⟩ := ih hh
      exact ⟨e, List.mem_cons_of_mem _ he, heq⟩

/-- the tail of `handle`: an acknowledgement cancels the timer it names -/
theorem tf_ackTail (p : Packet) (c : Conn) :
    TF c (if hasAck p.flags then
        match ackLookup (ackKeyOf p) c.ackEvents with
        | some h =>
          let c := { c with ackEvents := ackErase (ackKeyOf p) c.ackEvents, sched := c.sched.map (·.remove h) }
          if p.type = TYPE_DISCONNECT then c.cleanup else R.ok c
        | none => R.ok c
      else R.ok c).c := by
  split
  · cases hl : ackLookup (ackKeyOf p) c.ackEvents with
    | none => exact TF.refl c
    | some h =>
      simp only []
      have h1 : TF c { c with ackEvents := ackErase (ackKeyOf p) c.ackEvents, sched := c.sched.map (·.remove h) } := by
        have := tf_removeMany c [h] (ackErase (ackKeyOf p) c.ackEvents)
          (by intro g hg; simp at hg; subst hg; exact ackLookup_mem _ _ _ hl)
          (by intro e he; exact (List.mem_filter.mp he).1)
        simpa using this
      split
      · exact h1.trans (tf_cleanup _)
      · exact h1
  · exact TF.refl c

theorem tfk_handle (env : Env) (now : Time) (c : Conn) (p : Packet) : TFk c (c.handle env now p).c := by
  unfold Conn.handle
  split
  · exact (TF.refl c).k
  · split
    · exact (TF.refl c).k
    · simp only []
      have hr : TFk c (if p.type = TYPE_SYN then c.processSyn env now p
          else if p.type = TYPE_CONNECT then c.processConnect env p else c.processOther env now p).c := by
        split
        · exact tfk_processSyn env now c p
        · split
          · exact (tf_processConnect env c p).k
          · exact (tf_processOther env now c p).k
      generalize (if p.type = TYPE_SYN then c.processSyn env now p
          else if p.type = TYPE_CONNECT then c.processConnect env p else c.processOther env now p) = r at hr
      unfold R.bind
      cases r.err with
      | some e => exact hr
      | none => exact hr.then (tf_ackTail p r.c)

/-! ### the keep-alive invariant -/

/-- dead, or a protected keep-alive timer is due by `P` -/
def Conn.KA (c : Conn) (P : Nat) : Prop :=
  c.Dead ∨ ∃ t, Wit c t ∧ t.act = .ping ∧ t.rep = some c.pingTimeout ∧ t.deadline ≤ P

theorem TFk.ka {c c' : Conn} (h : TFk c c') {P : Nat} (hk : ∃ t, Wit c t ∧ t.act = .ping ∧ t.rep = some c.pingTimeout ∧ t.deadline ≤ P) :
    c'.KA P := by
  obtain ⟨t, hw, ha, hr, hd⟩ := hk
  cases h.keep with
  | inl d => exact Or.inl d
  | inr k => exact Or.inr ⟨t, k t hw, ha, by rw [h.pt]; exact hr, hd⟩

theorem TF.ka {c c' : Conn} (h : TF c c') {P : Nat} (hk : c.KA P) : c'.KA P := by
  cases hk with
  | inl d => exact Or.inl (h.dead d)
  | inr w => exact h.k.ka w

/-- whatever datagram arrives, the keep-alive stays armed (or the connection is dead) -/
theorem ka_handle (env : Env) (now : Time) (c : Conn) (p : Packet) (P : Nat) (h : c.KA P) : (c.handle env now p).c.KA P := by
  cases h with
  | inl d => rw [(handle_disconnected env now c p d.1).1.1]; exact Or.inl d
  | inr w => exact (tfk_handle env now c p).ka w

theorem tf_sendFrags (env : Env) (now : Time) (sub : Nat) : ∀ (fs : List Chan.Frag) (c : Conn), TF c (Conn.sendFrags env now sub fs c).c := by
  intro fs
  induction fs with
  | nil => intro c; exact TF.refl c
  | cons f fs ih => intro c; exact tf_bind _ _ (tf_sendPacket env now c _) (fun x => ih x)

theorem tf_send (env : Env) (now : Time) (c : Conn) (data : Bytes) (sub : Nat) : TF c (c.send env now data sub).c := by
  unfold Conn.send
  split
  · exact TF.refl c
  · split
    · exact TF.refl c
    · exact tf_sendFrags env now sub _ c

theorem tf_sendUnreliable (env : Env) (now : Time) (c : Conn) (data : Bytes) : TF c (c.sendUnreliable env now data).c := by
  unfold Conn.sendUnreliable
  split
  · exact TF.refl c
  · exact tf_sendPacket env now c _

theorem tf_close (env : Env) (now : Time) (c : Conn) : TF c (c.close env now).c := by
  unfold Conn.close
  split
  · exact TF.refl c
  · exact tf_bind _ _ (tf_bind _ _ (tf_bind _ _ (tf_sendPacket env now c _) (fun x => tf_sendPacket env now x _))
      (fun x => tf_sendPacket env now x _)) (fun x => tf_cleanup x)

theorem ka_disconnect (env : Env) (now : Time) (c : Conn) (P : Nat) (h : c.KA P) : (c.disconnect env now).c.KA P := by
  unfold Conn.disconnect
  split
  · exact h
  · rename_i hst
    have hst : c.state = STATE_CONNECTED := Classical.not_not.mp hst
    cases h with
    | inl d => rw [d.1] at hst; cases hst
    | inr w =>
      refine (TFk.then ?_ (tf_sendPacket env now _ _)).ka w
      exact tfk_of_eq rfl rfl rfl

theorem ka_send (env : Env) (now : Time) (c : Conn) (data : Bytes) (sub : Nat) (P : Nat) (h : c.KA P) :
    (c.send env now data sub).c.KA P := (tf_send env now c data sub).ka h

theorem ka_sendUnreliable (env : Env) (now : Time) (c : Conn) (data : Bytes) (P : Nat) (h : c.KA P) :
    (c.sendUnreliable env now data).c.KA P := (tf_sendUnreliable env now c data).ka h

theorem ka_close (env : Env) (now : Time) (c : Conn) (P : Nat) (h : c.KA P) : (c.close env now).c.KA P :=
  (tf_close env now c).ka h

/-! ### timers firing -/

theorem tf_resendPacket (env : Env) (now : Time) (c : Conn) (p : Packet) (k : Nat) : TF c (c.resendPacket env now p k).c := by
  unfold Conn.resendPacket
  split
  · split
    · exact tf_cleanup c
    · exact tf_arm c now p (k + 1)
  · exact tf_cleanup c

theorem tf_fireOne (env : Env) (now : Time) (c : Conn) (a : Action) : TF c (c.fireOne env now a).c := by
  have hf : TF c (c.fire env now a).c := by
    cases a with
    | resend p k => exact tf_resendPacket env now c p k
    | ping => exact tf_sendPacket env now c _
  unfold Conn.fireOne
  simp only []
  cases (c.fire env now a).err with
  | none => exact hf
  | some e => exact hf.trans (tf_cleanup _)

theorem tf_fireAll (env : Env) (now : Time) : ∀ (as : List Action) (c : Conn), TF c (Conn.fireAll env now as c).c := by
  intro as
  induction as with
  | nil => intro c; exact TF.refl c
  | cons a as ih => intro c; exact (tf_fireOne env now c a).trans (ih _)

/-- one round of `advance` at instant `d ≤ T`: the keep-alive is either not yet due, or re-inserted one period later -/
theorem ka_round (env : Env) (c : Conn) (s : Sched) (d T P : Nat) (hs : c.sched = some s) (hdT : d ≤ T) (h : c.KA P) :
    (Conn.fireAll env d (s.takeDue d).2 { c with sched := some (s.takeDue d).1 }).c.KA (max P (T + c.pingTimeout)) := by
  have hf := tf_fireAll env d (s.takeDue d).2 { c with sched := some (s.takeDue d).1 }
  cases h with
  | inl dd => exact Or.inl (hf.dead dd)
  | inr w =>
    obtain ⟨t, ⟨h1, h2, h3⟩, ha, hr, hd⟩ := w
    simp only [evs, hs] at h1
    have hlt := h3 s hs
    by_cases hdue : t.deadline ≤ d
    · -- due: fired and re-inserted at deadline + period
      let t' : Timer := { t with deadline := t.deadline + c.pingTimeout }
      have hw : Wit ({ c with sched := some (s.takeDue d).1 } : Conn) t' := by
        refine ⟨?_, h2, ?_⟩
        · simp only [evs, Sched.takeDue]
          apply List.mem_append_right
          simp only [List.mem_filterMap, List.mem_filter]
          exact ⟨t, ⟨h1, by simpa using hdue⟩, by simp [hr, t']⟩
        · intro s' hs'; cases hs'; exact hlt
      have hle : t'.deadline ≤ max P (T + c.pingTimeout) := by
        have : t.deadline + c.pingTimeout ≤ T + c.pingTimeout := Nat.add_le_add_right (Nat.le_trans hdue hdT) _
        exact Nat.le_trans this (Nat.le_max_right _ _)
      exact hf.k.ka ⟨t', hw, ha, hr, hle⟩
    · have hw : Wit ({ c with sched := some (s.takeDue d).1 } : Conn) t := by
        refine ⟨?_, h2, ?_⟩
        · simp only [evs, Sched.takeDue]
          apply List.mem_append_left
          simp [h1, hdue]
        · intro s' hs'; cases hs'; exact hlt
      exact hf.k.ka ⟨t, hw, ha, hr, Nat.le_trans hd (Nat.le_max_left _ _)⟩

theorem advance_pt (env : Env) (T : Nat) : ∀ (fuel : Nat) (c : Conn), (Conn.advance env fuel T c).1.pingTimeout = c.pingTimeout := by
  intro fuel
  induction fuel with
  | zero => intro c; rfl
  | succ n ih =>
    intro c
    unfold Conn.advance
    cases hs : c.sched with
    | none => rfl
    | some s =>
      simp only []
      cases hd : s.nextDeadline with
      | none => rfl
      | some d =>
        simp only []
        by_cases hle : d ≤ T
        · rw [if_pos hle]; simp only []
          rw [ih]; exact (tf_fireAll env d _ _).pt
        · rw [if_neg hle]

/-- while time passes (to `T`), a keep-alive stays armed, due no later than `max P (T + ping_timeout)` -/
theorem ka_advance (env : Env) (T : Nat) : ∀ (fuel : Nat) (c : Conn) (P : Nat), c.KA P →
    (Conn.advance env fuel T c).1.KA (max P (T + c.pingTimeout)) := by
  intro fuel
  induction fuel with
  | zero => intro c P h; exact (TF.refl c).ka (by cases h with
      | inl d => exact Or.inl d
      | inr w => obtain ⟨t, hw, ha, hr, hd⟩ := w; exact Or.inr ⟨t, hw, ha, hr, Nat.le_trans hd (Nat.le_max_left _ _)⟩)
  | succ n ih =>
    intro c P h
    have weaken : c.KA (max P (T + c.pingTimeout)) := by
      cases h with
      | inl d => exact Or.inl d
      | inr w => obtain ⟨t, hw, ha, hr, hd⟩ := w; exact Or.inr ⟨t, hw, ha, hr, Nat.le_trans hd (Nat.le_max_left _ _)⟩
    unfold Conn.advance
    cases hs : c.sched with
    | none => exact weaken
    | some s =>
      simp only []
      cases hd : s.nextDeadline with
      | none => exact weaken
      | some d =>
        simp only []
        by_cases hle : d ≤ T
        · rw [if_pos hle]; simp only []
          have h1 := ka_round env c s d T P hs hle h
          have h2 := ih _ _ h1
          have hpt : (Conn.fireAll env d (s.takeDue d).2 { c with sched := some (s.takeDue d).1 }).c.pingTimeout = c.pingTimeout :=
            (tf_fireAll env d _ _).pt
          rw [hpt] at h2
          rw [Nat.max_assoc, Nat.max_self] at h2
          exact h2
        · rw [if_neg hle]; exact weaken

/-- an armed keep-alive dooms the connection: due by `P`, then the ping's retransmission chain -/
theorem ka_doomed (c : Conn) (P : Nat) (h : c.KA P) : c.Doomed (P + (c.resendLimit + 1) * c.resendTimeout) := by
  cases h with
  | inl d => exact Or.inl d
  | inr w =>
    obtain ⟨t, hw, ha, _, hd⟩ := w
    refine Or.inr ⟨t, hw.1, ?_⟩
    unfold tbound; rw [ha]
    exact Nat.add_le_add_right hd _

theorem serve_ka (c : Conn) (now : Time) (h : c.ackEvents = []) : (c.serve now).KA (now + c.pingTimeout) := by
  refine Or.inr ⟨⟨0, now + c.pingTimeout, some c.pingTimeout, .ping⟩, ⟨?_, ?_, ?_⟩, rfl, rfl, Nat.le_refl _⟩
  · simp [evs, Conn.serve, Sched.repeat]
  · intro e he; simp [Conn.serve, h] at he
  · intro s hs; simp [Conn.serve, Sched.repeat] at hs; rw [← hs]; simp

theorem resumeHandshake_ka (c : Conn) (now : Time) (h1 : c.waitingHandshake = true) (h2 : c.handshakeEvent = true)
    (h3 : c.state = STATE_CONNECTED) (h4 : c.sched.isSome) (hw : AWF c) :
    (c.resumeHandshake now).c.KA (now + c.pingTimeout) := by
  unfold Conn.resumeHandshake
  rw [if_pos ⟨h1, h2⟩, if_pos h3]
  cases hs : c.sched with
  | none => rw [hs] at h4; cases h4
  | some s =>
    refine Or.inr ⟨⟨s.nextHandle, now + c.pingTimeout, some c.pingTimeout, .ping⟩, ⟨?_, ?_, ?_⟩, rfl, rfl, Nat.le_refl _⟩
    · simp [evs, Sched.repeat, R.ok]
    · intro e he
      have := hw s hs e he
      simp only [R.ok]; omega
    · intro s' hs'; simp [Sched.repeat, R.ok] at hs'; rw [← hs']; simp

theorem handshake_awf (env : Env) (now : Time) (c : Conn) (creds : Option Creds) (h : c.ackEvents = []) :
    AWF (c.handshake env now creds).c := by
  unfold Conn.handshake Conn.sendSyn
  apply (tf_sendPacket env now _ _).awf
  intro s hs e he
  cases creds <;> simp [Conn.login, h] at he

end Nx.L1
