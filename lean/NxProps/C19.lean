import NxProofs.MiscMii
import NxProofs.MiscCrc
import NxProofs.MiscBase64
import NxProofs.MiscAuth
import NxProofs.MiscAuthClients
import NxProofs.MiscCtr
import NxProofs.MiscWire
import NxProofs.MiscCrcProd
/-!
# C19 — request authentication codes and auxiliary codecs

Models: `NxModel/Misc/Mii.lean` (MiiData build/parse over the 68-attribute layout, `swap_endian`),
`NxModel/Misc/BitStream.lean` (anynet bit streams), `NxModel/Crypto/Crc16.lean` (both CRCs),
`NxModel/Crypto/Base64.lean`, `NxModel/Misc/Auth.lean` (dauth MAC, aauth envelope, hpp, nnas, nasc, prodinfo),
`NxModel/Misc/AuthClients.lean` (HppClient / DAuthClient as objects driven through operation sequences).
Statements only; proofs in `NxProofs/Misc*.lean`.

What is a theorem here: the inverse pairs (every encoder is inverted by its decoder; a Mii built from any
in-range attribute values parses back to the same values with a valid checksum; a wrong checksum is rejected).
What is NOT a theorem: "the MAC / envelope / signatures / hash agree with an independent reference on every
input" — the Lean reference implementations (AES, CMAC, SHA-256, OAEP, HMAC-MD5) are compared with the library
differentially (sampled) by `harness/corr_C19.py`; a theorem cannot establish that about Python code.
-/
namespace Nx.C19
open Nx Nx.Misc Nx.Crypto

/-! ## bit streams -/

/-- `BitStreamIn.bits(w)` after `BitStreamOut.bits(v, w)` returns `v` for every value that fits `w` bits … -/
theorem bits_roundtrip (w v : Nat) (h : v < 2 ^ w) : bitsToNat (natToBits w v) = v :=
  bitsToNat_natToBits_of_lt w v h

/-- … and `v mod 2^w` in general (the writer truncates silently) -/
theorem bits_truncate (w v : Nat) : bitsToNat (natToBits w v) = v % 2 ^ w := bitsToNat_natToBits w v

/-- the bytes `BitStreamOut.get()` returns carry exactly the bits written (byte-aligned total) -/
theorem bitstream_get_lossless (bs : Bits) (h : bs.length % 8 = 0) : unpackBits (packBits bs) = bs :=
  unpack_pack bs h

/-- generic layout lemma: for ANY list of fields, reading the layout back from what was written for in-range
    values returns the values and leaves the rest of the stream untouched -/
theorem fields_roundtrip (L : List Field) (vals : List Val) (h : ValsInRange L vals) :
    ∃ bits, encFields L vals = .ok bits ∧ ∀ rest, decFields L (bits ++ rest) = .ok (vals, rest) := by
  obtain ⟨bits, h1, _, h3⟩ := Nx.Misc.fields_roundtrip L vals h
  exact ⟨bits, h1, h3⟩

/-! ## the Mii checksum -/

/-- the stored checksum validates: `crc16 (data ++ be16 (crc16 (data ++ [0,0]))) = 0` for ALL data -/
theorem mii_crc_valid (d : Bytes) : miiCrc16 (d ++ u16be (miiCrc16 (d ++ [0, 0]))) = 0 := miiCrc16_valid d

/-- … and it is the only 16-bit trailer that does: every other value is rejected -/
theorem mii_crc_unique (d : Bytes) (x : Nat) (hx : x < 65536) :
    miiCrc16 (d ++ u16be x) = 0 ↔ x = miiCrc16 (d ++ [0, 0]) := miiCrc16_trailer_zero_iff d x hx

/-- independent reference: what `build` stores is the textbook CRC-16/XMODEM of the 0x5E data bytes -/
theorem mii_crc_is_xmodem (d : Bytes) : miiCrc16 (d ++ [0, 0]) = xmodem d := miiCrc16_aug_eq_xmodem d

/-! ## swap_endian -/

/-- `swap_endian` undoes itself on every buffer it accepts -/
theorem swap_endian_involutive (d d' : Bytes) (h : swapEndian d = .ok d') : swapEndian d' = .ok d :=
  swapEndian_invol d d' h

/-! ## Mii build / parse -/

/-- **a Mii built from any in-range attribute values is 0x60 bytes with a valid checksum and parses back to
    exactly those values** (names: ≤ 10 UTF-16 code units 1..0xFFFF, i.e. arbitrary BMP characters without NUL) -/
theorem mii_parse_build (vals : List Val) (h : ValsInRange miiLayout vals) :
    ∃ b, miiBuild vals = .ok b ∧ b.length = 0x60 ∧ miiCrc16 b = 0 ∧ miiParse b = .ok vals :=
  Nx.Misc.mii_parse_build vals h

/-- a Mii whose checksum field was altered is rejected with ValueError -/
theorem mii_corrupted_checksum_rejected (D : Bytes) (x : Nat) (hD : D.length = 0x5E) (hx : x < 65536)
    (hne : x ≠ miiCrc16 (D ++ [0, 0])) : miiParse (D ++ u16be x) = .error .value :=
  miiParse_bad_crc D x hD hx hne

/-- names: up to `n` non-NUL code units survive the NUL padding and the `split("\0")[0]` -/
theorem mii_name_roundtrip (n : Nat) (cs : List Nat) (h : (Val.l cs).InRange (.wstr n)) :
    ∃ bs, encField (.wstr n) (.l cs) = .ok bs ∧ bs.length = 16 * n ∧ decField (.wstr n) bs = .l cs :=
  field_roundtrip (.wstr n) (.l cs) h

/-! ## base64 family -/

/-- `base64.b64decode(base64.b64encode(d)) == d` with CPython's *lenient* decoder, for every byte string -/
theorem b64_roundtrip (d : Bytes) : a2b (b2a d) = .ok d := a2b_b2a d

/-- url-safe alphabet (`-_`), padded -/
theorem b64url_roundtrip (d : Bytes) : b64urlDecode (b64urlEncode d) = .ok d := Nx.Crypto.b64url_roundtrip d

/-- url-safe **unpadded** form used for dauth `mac` / aauth `cert`, `cert_key`, `gvt`, decoded the way
    `device_token` decodes the challenge data (re-pad to a multiple of 4, lenient decode) -/
theorem b64url_unpadded_roundtrip (d : Bytes) : b64urlDecodeRepad (b64urlEncodeNoPad d) = .ok d :=
  b64url_nopad_roundtrip d

/-- the 3DS variant (`+/=` → `.-*`): `nasc.b64decode(nasc.b64encode(d)) == d` -/
theorem nasc_b64_roundtrip (d : Bytes) : nascDecode (nascEncode d) = .ok d := nascDecode_nascEncode d

/-- … whose output never contains `+`, `/`, `=` -/
theorem nasc_b64_form_safe (d : Bytes) : ∀ c ∈ nascEncode d, c ≠ 43 ∧ c ≠ 47 ∧ c ≠ 61 := nascEncode_safe d

/-- `nasc.decode_form(nasc.encode_form(f)) == f` for every form with byte-string values -/
theorem nasc_form_roundtrip (f : List (Bytes × Bytes)) : nascDecodeForm (nascEncodeForm f) = .ok f :=
  nascForm_roundtrip f

/-! ### every request of a call, not only the first (harness/aux_c19_wire.py)

The harness compares EVERY request a call puts on the wire with `nascEncodeForm` of the logical request. That this
comparison separates "coded once" from "coded again" for every non-empty value is a theorem: -/

/-- the 3DS coding strictly lengthens every non-empty value, so no non-empty value is its own coding … -/
theorem nasc_coding_has_no_fixed_point (d : Bytes) (h : d ≠ []) : nascEncode d ≠ d := nascEncode_ne_self d h

/-- … and a value coded twice (a request object whose form was already coded and is sent again) never equals the
    reference coding of the value -/
theorem nasc_coded_twice_differs (d : Bytes) (h : d ≠ []) : nascEncode (nascEncode d) ≠ nascEncode d :=
  nascEncode_twice_ne d h

/-- what the receiver of a twice-coded form recovers: the once-coded strings, not the values -/
theorem nasc_form_coded_twice_decodes_to_coded (f : List (Bytes × Bytes)) :
    nascDecodeForm (nascEncodeForm (nascEncodeForm f)) = .ok (nascEncodeForm f) :=
  nascForm_roundtrip (nascEncodeForm f)

example : nascEncode (nascEncode [0xFB, 0xFF]) = [76, 105, 48, 52, 75, 103, 42, 42] := by decide +kernel   -- ".-8*" -> "Li04Kg**"
example : nascEncode [] = [] := by decide      -- the empty value is the one fixed point (hypothesis `d ≠ []` is needed)

/-! ## calibration data, Hpp -/

/-- `ProdInfo.check` passes iff the region is present and its last two bytes are the little-endian CRC of the rest -/
theorem prodinfo_check_def (data : Bytes) (offset size : Nat) (h2 : 2 ≤ offset + size) :
    prodCheck data offset size = .ok () ↔
      offset + size ≤ data.length ∧
      prodCrc16 ((data.take (offset + size - 2)).drop offset) = rdLE data (offset + size - 2) 2 :=
  prodCheck_ok_iff data offset size h2

/-- a rejected region is a ValueError (bad CRC) or a struct.error (truncated file) -/
theorem prodinfo_check_errors (data : Bytes) (offset size : Nat) (e : Err)
    (h : prodCheck data offset size = .error e) : e = .value ∨ e = .struct := prodCheck_err data offset size e h

/-! ### the counter of the TLS-key unwrap (`get_tls_key`: AES-CTR, the stored 16-byte block is the whole counter)

`prodTlsD` decrypts with `aesCtr`, whose block `i` is the encryption of `ctrBlock ((iv + i) mod 2^128)`. The
theorems say what that block IS at the carry boundaries (they are about the reference; that the library agrees
with it at exactly these counter blocks is the differential part: `prod-bound:tlsd` lines of the harness). -/

theorem ctr_keystream_blocks (key iv data : Bytes) (w : Array Bytes) (hk : keyExpansion key = some w) (hiv : iv.length = 16) :
    aesCtr key iv data = .ok (xorB data ((List.range ((data.length + 15) / 16)).flatMap fun i =>
      encryptBlockW w (ctrBlock ((bytesToNatBE iv + i) % 2 ^ 128)))) := aesCtr_keystream key iv data w hk hiv

/-- a counter block is the 128-bit big-endian numeral, all sixteen bytes of it -/
theorem ctr_block_is_128_bit_numeral (n : Nat) : bytesToNatBE (ctrBlock n) = n % 2 ^ 128 := bytesToNatBE_ctrBlock n

/-- low 64 bits of the stored block `j` short of all ones: from block `j + 1` on the UPPER half is `hi + 1` (mod 2^64)
    and the lower half restarts at 0 — the carry is not lost at the 64-bit boundary -/
theorem ctr_carry_crosses_64_bit_boundary (hi j i : Nat) (hj : j < 2 ^ 64) (hji : j < i) (hi2 : i ≤ j + 2 ^ 64) :
    bytesToNatBE ((ctrBlock ((hi * 2 ^ 64 + (2 ^ 64 - 1 - j) + i) % 2 ^ 128)).take 8) = (hi + 1) % 2 ^ 64 ∧
    bytesToNatBE ((ctrBlock ((hi * 2 ^ 64 + (2 ^ 64 - 1 - j) + i) % 2 ^ 128)).drop 8) = i - j - 1 :=
  ctr_carry_into_high_half hi j i hj hji hi2

/-- … and up to block `j` the upper half is the stored one -/
theorem ctr_upper_half_before_carry (hi j i : Nat) (hhi : hi < 2 ^ 64) (hj : j < 2 ^ 64) (hij : i ≤ j) :
    bytesToNatBE ((ctrBlock ((hi * 2 ^ 64 + (2 ^ 64 - 1 - j) + i) % 2 ^ 128)).take 8) = hi :=
  ctr_no_carry_before hi j i hhi hj hij

-- stored block 00..05 | ff..f8: block 8 is 00..06 | 00..00 (a 64-bit counter behind a fixed prefix would give 00..05 | 00..00)
example : ctrBlock ((bytesToNatBE [0,0,0,0,0,0,0,5, 255,255,255,255,255,255,255,248] + 8) % 2 ^ 128)
    = [0,0,0,0,0,0,0,6, 0,0,0,0,0,0,0,0] := by decide +kernel
-- all ones wraps to all zero
example : ctrBlock ((bytesToNatBE (List.replicate 16 255) + 1) % 2 ^ 128) = List.replicate 16 0 := by decide +kernel
example : ctrBlock ((bytesToNatBE [0,0,0,0,0,0,0,0, 0,0,0,0,0,0,255,255] + 1) % 2 ^ 128)
    = [0,0,0,0,0,0,0,0, 0,0,0,0,0,1,0,0] := by decide +kernel

/-- an Hpp success response is accepted only if it carries the size of what follows, the call id of the request
    and `method | 0x8000`; the body handed back is what follows that header -/
theorem hpp_response_accepted (callId method : Nat) (resp body : Bytes)
    (h : hppValidate callId method resp = .body body) :
    ∃ size s1 flag s2 s3 s4, rdU32 resp = .ok (size, s1) ∧ size = s1.length ∧ rdU8 s1 = .ok (flag, s2) ∧ flag ≠ 0 ∧
      rdU32 s2 = .ok (callId, s3) ∧ rdU32 s3 = .ok (method ||| 0x8000, s4) ∧ body = s4 :=
  hppValidate_body callId method resp body h

/-! ## one client object, a sequence of operations

The authentication codes above are functions of their inputs; the library's clients are objects whose inputs are
knobs (the shared `Settings` object, `pid`, `password`, the `keys` dict, the system version, …) that may be turned
between two requests. The object models read every knob at request time, as `hpp.py` / `dauth.py` do; the harness
drives ONE real object and the model through the same sequence (`hpp-walk`, `dauth-walk`) and compares every request.
What the theorems add: in the model a request after ANY history is authenticated with the current values. -/

/-- the request issued after an arbitrary history of knob changes and earlier requests carries the signatures
    for the access key / password / pid the client has NOW, the current call id, and advances the counter mod 2^32 -/
theorem hpp_request_after_any_history (c : HppClient) (ops : List HppOp) (data : Bytes) :
    hppRun c (ops ++ [.request data]) =
      ({ (hppRun c ops).1 with callId := ((hppRun c ops).1.callId + 1) % 2 ^ 32 },
       (hppRun c ops).2 ++ [hppSend (hppRun c ops).1 data]) :=
  hppRun_then_request c ops data

/-- … which is exactly what a freshly constructed client with those values sends -/
theorem hpp_reused_client_eq_fresh (c : HppClient) (ops : List HppOp) (data : Bytes) :
    hppSend (hppRun c ops).1 data =
      hppSend { HppClient.fresh (hppRun c ops).1.accessKey (hppRun c ops).1.password (hppRun c ops).1.pid with
                callId := (hppRun c ops).1.callId } data :=
  hppSend_eq_fresh _ data

/-- the last write to a knob is the value in force (the other knobs keep theirs) -/
theorem hpp_last_write_wins (c : HppClient) (ops : List HppOp) (k p : Bytes) (n : Nat) :
    (hppRun c (ops ++ [.setAccessKey k])).1 = { (hppRun c ops).1 with accessKey := k } ∧
    (hppRun c (ops ++ [.setPassword p])).1 = { (hppRun c ops).1 with password := p } ∧
    (hppRun c (ops ++ [.setPid n])).1 = { (hppRun c ops).1 with pid := n } :=
  ⟨hppRun_setAccessKey c ops k, hppRun_setPassword c ops p, hppRun_setPid c ops n⟩

/-- `keys[name] = value` is seen by the next lookup of `name` and by no other lookup -/
theorem dict_last_write_wins (d : Dict) (k k' v : Bytes) :
    dictGet (dictSet d k v) k = .ok v ∧ (k' ≠ k → dictGet (dictSet d k v) k' = dictGet d k') :=
  ⟨dictGet_dictSet_same d k v, dictGet_dictSet_other d k k' v⟩

/-- a token request after an arbitrary history is answered from the current state of the DAuthClient -/
theorem dauth_token_after_any_history (c : DAuthClient) (ops : List DAuthOp) (e : Bool) (ch : Bytes)
    (dt : List Nat) (cid : Nat) (v : Bytes) :
    dauthRun c (ops ++ [.token e ch dt cid v]) =
      ((dauthRun c ops).1, (dauthRun c ops).2 ++ [.token ((dauthRun c ops).1.token e ch dt cid v)]) :=
  dauthRun_then_token c ops e ch dt cid v

/-- after `set_system_version` the MAC comes from the master key of the NEW key generation -/
theorem dauth_mac_follows_version_switch (c : DAuthClient) (g : Nat) (d : Bytes) (a : Bool) (form data kek mk : Bytes)
    (h1 : dictGet c.keys (ascii "aes_kek_generation_source") = .ok kek)
    (h2 : dictGet c.keys (masterKeyName g) = .ok mk) :
    (dauthRun c [.setVersion g d a, .mac form data]).2 = [.mac (dauthMac kek mk data form)] :=
  dauth_mac_after_setVersion c g d a form data kek mk h1 h2

/-- after the master key in use is replaced in the dict the MAC comes from the NEW key -/
theorem dauth_mac_follows_key_replacement (c : DAuthClient) (mk form data kek : Bytes)
    (h1 : dictGet c.keys (ascii "aes_kek_generation_source") = .ok kek) :
    (dauthRun c [.setKey (masterKeyName c.keygen) mk, .mac form data]).2 = [.mac (dauthMac kek mk data form)] :=
  dauth_mac_after_setKey_master c mk form data kek h1

example : (hppRun (HppClient.fresh [1] [2] 3) [.request [9], .setPid 7, .setCallId (2 ^ 32 - 1), .request [9]]).1
    = ⟨[1], [2], 7, 0⟩ := by decide
example : dictGet (dictSet [([1], [2]), ([3], [4])] [3] [5]) [3] = .ok [5] := by decide
example : dictGet (dictSet [([1], [2])] [3] [5]) [1] = .ok [2] := by decide
example : dictGet ([] : Dict) [1] = .error .key := by decide
example : dictGet [(ascii "aes_kek_generation_source", [7])] (ascii "aes_kek_generation_source") = .ok [7] := by decide +kernel

/-
NOT theorems (stated here so the gap is visible): "`dauthMac`, `aauthEnvelope`, `hppSignatures`, `nnasHash`,
`prodCrc16` agree with an independent reference on every input". In Lean these functions ARE the independent
reference implementations (AES/CMAC/SHA-256/OAEP written from FIPS-197, RFC 4493, FIPS 180-4, RFC 8017,
validated on the published vectors and on the three request snapshots of tests/switch/test_dauth.py in the
driver self-test); their agreement with the Python library is established differentially by
harness/corr_C19.py on generated inputs (sampled, not exhaustive). (`prodCrc16` is no longer in this list: see
`prod_crc_is_crc16_arc` below.)
-/

/-- **the calibration-data checksum is CRC-16/ARC, for every input.** The model of `nintendo.switch.crc16` (two 4-bit table
    steps per byte, the table entries of the register's low nibble and of the data nibble xored separately — tied to the
    code by the correspondence and by the ast-extracted table obligation) equals the bit-serial textbook definition
    (reflected polynomial 0xA001, start value 0x55AA) on every byte string: the bit step is GF(2)-linear and the table holds
    the four-step images of the sixteen nibbles. -/
theorem prod_crc_is_crc16_arc (d : Bytes) : prodCrc16 d = refCrc16Arc 0x55AA d := prodCrc16_eq_ref d

/-- one byte of the routine = eight bit steps on `register xor byte`, for every register value (not only 16-bit ones) -/
theorem prod_crc_byte_step (h : Nat) (b : UInt8) : prodStep h b = refByte h b := prodStep_eq_refByte h b

example : prodCrc16 [0x31, 0x32, 0x33, 0x34, 0x35, 0x36, 0x37, 0x38, 0x39] = refCrc16Arc 0x55AA [0x31, 0x32, 0x33, 0x34, 0x35, 0x36, 0x37, 0x38, 0x39] ∧
    refCrc16Arc 0 [0x31, 0x32, 0x33, 0x34, 0x35, 0x36, 0x37, 0x38, 0x39] = 0xBB3D := by decide +kernel   -- the CRC-16/ARC check value

/-! non-vacuity -/
example : a2b (b2a [0xFB, 0xFF]) = .ok [0xFB, 0xFF] := by decide +kernel
example : nascEncode [0xFB, 0xFF] = [46, 45, 56, 42] := by decide +kernel      -- ".-8*"
example : b64urlEncodeNoPad [0xFB, 0xFF] = [45, 95, 56] := by decide +kernel   -- "-_8"
example : prodCheck [1, 2, 3, 15, 209] 0 5 = .ok () := by decide +kernel
example : prodCheck [1, 2, 3, 15, 208] 0 5 = .error .value := by decide +kernel
example : ValsInRange [⟨"a", .bits 4⟩, ⟨"n", .wstr 3⟩, ⟨"f", .flagBits 5⟩] [.n 15, .l [0xFFFF, 0xD800], .n 1] := by decide
example : (Val.l [0x3042, 1, 0xFFFF]).InRange (.wstr 10) := by decide
example : ¬ (Val.l [65, 0, 66]).InRange (.wstr 10) := by decide
example : miiCrc16 ([1, 2, 3] ++ u16be (miiCrc16 ([1, 2, 3] ++ [0, 0]))) = 0 := by decide +kernel
example : miiCrc16 ([1, 2, 3] ++ [0, 0]) ≠ 0 := by decide +kernel

end Nx.C19
