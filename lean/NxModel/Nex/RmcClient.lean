import NxModel.Nex.Rmc
/-!
# RMC client call matching — mirrors `nintendo/nex/rmc.py` `RMCClient.request / start / cleanup`

Python object state: `call_id` (next id), `requests : dict call_id -> anyio.Event`,
`responses : dict call_id -> RMCMessage`, `closed`.
Modelling artefacts (runtime state that lives outside the object):
* every `request()` invocation is a *task* numbered in invocation order; the `anyio.Event` it
  creates is identified by the task number;
* `fired` = the events on which `.set()` has been called;
* `frames` = the suspended `request()` coroutines (task ↦ its local `call_id`).

`step` is one atomic section of the code (asyncio runs the code between two `await`s atomically):
`call` = `request()` from entry to `await self.client.send(...)`;
`recvResponse` / `recvRequest` = one iteration of the `start()` loop after `recv()` returned;
`eof` = `recv()` raised `anyio.EndOfStream` (→ `cleanup()`); `cleanup` = `cleanup()` called locally
(`close()`, `disconnect()`, `__aexit__`); `wake t` = task `t` resumes after `await event.wait()`.
That a task whose event is set does get resumed is trusted runtime (anyio); `wake` of a task whose
event is not set never happens (the model answers `notReady`).
-/
namespace Nx.RmcClient
open Nx Nx.Rmc

/-! ## Python `dict` with `Nat` keys as an association list with unique keys -/
def dlookup {α : Type} (k : Nat) : List (Nat × α) → Option α
  | [] => none
  | (k', v) :: r => if k' = k then some v else dlookup k r

def derase {α : Type} (k : Nat) : List (Nat × α) → List (Nat × α)
  | [] => []
  | (k', v) :: r => if k' = k then derase k r else (k', v) :: derase k r

/-- `d[k] = v` -/
def dset {α : Type} (k : Nat) (v : α) (d : List (Nat × α)) : List (Nat × α) := (k, v) :: derase k d

/-- what a `request()` invocation did -/
inductive Outcome where
  | body (b : Bytes)        -- returned `message.body`
  | rmcError (code : Nat)   -- raised `common.RMCError(message.error)`; `.code()` = error | 0x80000000
  | closed                  -- raised `RuntimeError("RMC connection is closed")`
  | none                    -- `noresponse=True`: returned `None` after sending
  | keyError                -- `self.responses.pop(call_id)` raised `KeyError`
  deriving DecidableEq, Repr

inductive Op where
  | call (noresp : Bool)
  | recvResponse (m : Msg)
  | recvRequest
  | eof
  | cleanup
  | wake (t : Nat)
  deriving DecidableEq, Repr

inductive Out where
  | sent (t id : Nat)            -- the request message of task `t` carries call id `id`
  | done (t : Nat) (o : Outcome) -- `request()` of task `t` completed
  | set (t : Nat)                -- the loop stored a response and set the event of task `t`
  | warnInvalidCallId (id : Nat) -- "RMC response has invalid call id": dropped
  | closing (ts : List Nat)      -- `cleanup()` ran: these events were set
  | notReady (t : Nat)           -- (never happens at run time) task's event is not set
  | noSuchTask (t : Nat)         -- (never happens at run time) not a suspended call
  deriving DecidableEq, Repr

structure State where
  nextId : Nat
  nextTask : Nat
  requests : List (Nat × Nat)    -- call id ↦ event (task number)
  responses : List (Nat × Msg)   -- call id ↦ message
  closed : Bool
  fired : List Nat
  frames : List (Nat × Nat)      -- task ↦ local `call_id`
  deriving DecidableEq, Repr

def init : State :=
  { nextId := 1, nextTask := 0, requests := [], responses := [], closed := false, fired := [], frames := [] }

/-- `common.RMCError(message.error).code()` = `message.error | 0x80000000`
    (`message.error` is a decoded u32, or -1 which never reaches this point). -/
def errCode (e : Int) : Nat :=
  let n := e.toNat
  if (n / 2147483648) % 2 = 1 then n else n + 2147483648

/-- the tail of `request()` after `responses.pop(call_id)` -/
def outcomeOf (m : Msg) : Outcome :=
  if m.error ≠ -1 then .rmcError (errCode m.error) else .body m.body

/-- `cleanup()` (also the `EndOfStream` branch of `start()`) -/
def doCleanup (s : State) : State × List Out :=
  if s.closed then (s, [])
  else ({ s with closed := true, fired := s.requests.map (·.2) ++ s.fired }, [.closing (s.requests.map (·.2))])

def step (s : State) : Op → State × List Out
  | .call noresp =>
    let t := s.nextTask
    if s.closed then ({ s with nextTask := t + 1 }, [.done t .closed])
    else
      let id := s.nextId
      let s1 := { s with nextTask := t + 1, nextId := (id + 1) % 4294967296 }
      if noresp then (s1, [.sent t id, .done t .none])
      else ({ s1 with requests := dset id t s1.requests, frames := (t, id) :: s1.frames }, [.sent t id])
  | .recvResponse m =>
    match dlookup m.callId s.requests with
    | some t =>
      ({ s with responses := dset m.callId m s.responses,
                requests := derase m.callId s.requests,
                fired := t :: s.fired }, [.set t])
    | none => (s, [.warnInvalidCallId m.callId])
  | .recvRequest => (s, [])
  | .eof => doCleanup s
  | .cleanup => doCleanup s
  | .wake t =>
    match dlookup t s.frames with
    | none => (s, [.noSuchTask t])
    | some id =>
      if t ∈ s.fired then
        let s1 := { s with frames := derase t s.frames }
        if s.closed then (s1, [.done t .closed])
        else
          match dlookup id s.responses with
          | none => (s1, [.done t .keyError])
          | some m => ({ s1 with responses := derase id s.responses }, [.done t (outcomeOf m)])
      else (s, [.notReady t])

def run (s : State) : List Op → State × List Out
  | [] => (s, [])
  | op :: ops =>
    let (s1, o1) := step s op
    let (s2, o2) := run s1 ops
    (s2, o1 ++ o2)

/-- what the `start()` loop does with one datagram: `RMCMessage.parse` then the mode test.
    `none` = `parse` raised (the loop terminates with that exception; not part of C10). -/
def opOfData (data : Bytes) : Option Op :=
  match decode data with
  | .error _ => none
  | .ok m => if m.mode = 0 then some .recvRequest else some (.recvResponse m)

/-! ## Specification: every call is answered by the first response that carries its id

The spec keeps, for every outstanding call, its task, its call id and the first response with
that id received since the call was registered. There are no shared maps: a response is handed
to *every* outstanding unanswered call with that id. -/
structure SCall where
  task : Nat
  id : Nat
  resp : Option Msg
  deriving DecidableEq, Repr

structure CallSpec where
  nextId : Nat
  nextTask : Nat
  closed : Bool
  calls : List SCall
  deriving DecidableEq, Repr

def CallSpec.init : CallSpec := { nextId := 1, nextTask := 0, closed := false, calls := [] }

def sfind (t : Nat) : List SCall → Option SCall
  | [] => none
  | c :: r => if c.task = t then some c else sfind t r

def CallSpec.step (a : CallSpec) : Op → CallSpec × List Out
  | .call noresp =>
    let t := a.nextTask
    if a.closed then ({ a with nextTask := t + 1 }, [.done t .closed])
    else
      let id := a.nextId
      let a1 := { a with nextTask := t + 1, nextId := (id + 1) % 4294967296 }
      if noresp then (a1, [.sent t id, .done t .none])
      else ({ a1 with calls := { task := t, id := id, resp := none } :: a1.calls }, [.sent t id])
  | .recvResponse m =>
    ({ a with calls := a.calls.map fun c =>
        if c.id = m.callId ∧ c.resp = none then { c with resp := some m } else c }, [])
  | .recvRequest => (a, [])
  | .eof => ({ a with closed := true }, [])
  | .cleanup => ({ a with closed := true }, [])
  | .wake t =>
    match sfind t a.calls with
    | none => (a, [.noSuchTask t])
    | some c =>
      if a.closed then ({ a with calls := a.calls.filter (·.task ≠ t) }, [.done t .closed])
      else match c.resp with
        | none => (a, [.notReady t])
        | some m => ({ a with calls := a.calls.filter (·.task ≠ t) }, [.done t (outcomeOf m)])

def CallSpec.run (a : CallSpec) : List Op → CallSpec × List Out
  | [] => (a, [])
  | op :: ops =>
    let (a1, o1) := CallSpec.step a op
    let (a2, o2) := CallSpec.run a1 ops
    (a2, o1 ++ o2)

/-- the outputs a caller / the peer can observe (the loop's internal notes are dropped) -/
def Out.observable : Out → Bool
  | .sent .. | .done .. | .notReady .. | .noSuchTask .. => true
  | _ => false

/-- hypothesis H-ids: whenever a call registers, its fresh id is not the id of a call that is
    still outstanding (true whenever fewer than 2^32 calls are made while one call is outstanding). -/
def distinctLive (s : State) : List Op → Bool
  | [] => true
  | op :: ops =>
    (match op with
     | .call false => s.closed || !(s.frames.map (·.2)).contains s.nextId
     | _ => true) && distinctLive (step s op).1 ops

end Nx.RmcClient
