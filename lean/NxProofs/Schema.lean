import NxModel.Nex.Schema
import NxProofs.Bytes
/-! proofs about the schema interpreter (C13, C14) -/
namespace Nx.Schema
open Nx

/-- struct names unique, parents and struct-typed fields refer to earlier definitions -/
def WFStructs (env : Env) : Prop := wfStructs env = true

theorem wfStructs_sound (env : Env) (h : wfStructs env = true) : WFStructs env := h

end Nx.Schema
