import NxProofs.Schema
import NxProofs.SchemaOrder
/-!
# C13 — generated structures and methods use exactly the layout their definitions state

Model: `NxModel/Nex/Schema.lean` — one generic interpreter (`encode`/`decode`/`visible`, request/response
layouts) over definitions given as data (`Ty`, `Items`, `StructDef`, `MethodDef`, `Env`), mirroring what
`generate_protocols.py` emits on top of `Structure.encode/decode`, `DataHolder` and the NEX streams. The
translator regenerates the data from `nintendo/files/proto/*.proto` on every run; the tie compares the
interpreter with every generated class and method. Recursion through structure references and polymorphic
payloads is tied by *fuel* (`encObj`/`decObj`, structural on the fuel; `Ty` and `Items` are traversed
structurally), because `anydata` may nest instances to a depth that only the value bounds.

Statements only; proofs in `NxProofs/Schema.lean`.

Full-strength form asked for: `WFEnv env → HasType env cfg ty v → decode env cfg ty (encode env cfg ty v ++ rest)
= ok (visible cfg v, rest)` with a total `encode`. What is proved is `schema_roundtrip` below: for **every**
environment (well-formed or not), configuration, type, value and fuel, *whenever the interpreter's encoder
accepts the value* the decoder inverts it exactly. This is the round-trip half at full generality (it needs no
well-formedness at all); the other half, totality (`WFEnv env → HasType … → ∃ fuel b, encode … = ok b`, i.e. an
independent typing judgement implies acceptance), is NOT proved — acceptance of every schema-directed value is
what the exhaustive tie observes instead. The encoder's acceptance condition is exactly: integers in the range
of their width, lengths fitting their prefix, required attributes not `None`, as many attributes as the
definition has, classes resolving, enough fuel.
-/
namespace Nx.C13
open Nx Nx.Schema

/-- **generic schema round trip**: one theorem for all definitions × values × configurations.
    `visible` erases exactly the attributes whose `nex`/`revision` gate is closed. -/
theorem schema_roundtrip (env : Env) (cfg : Cfg) (fuel : Nat) (ty : Ty) (v : Val) (b rest : Bytes)
    (h : encode env cfg fuel ty v = .ok b) :
    decode env cfg fuel ty (b ++ rest) = .ok (visible env cfg fuel ty v, rest) :=
  encode_decode env cfg fuel ty v b rest h

/-- the same for a whole structure instance of class `c` (hierarchy loop, optional `u8 version ‖ u32 len ‖ body`
    per class), also reporting that decoding consumed exactly the encoding -/
theorem struct_roundtrip (env : Env) (cfg : Cfg) (fuel : Nat) (c : Name) (attrs attrs' : List Val) (b rest : Bytes)
    (h : encObj env cfg fuel c attrs = .ok (b, attrs')) :
    decObj env cfg fuel c (b ++ rest) = .ok ((visObj env cfg fuel c attrs).1, rest)
      ∧ (visObj env cfg fuel c attrs).2 = attrs' :=
  encGo_rt env cfg fuel none c attrs b attrs' rest h

/-- structure-header framing of one hierarchy level: `u8 version ‖ u32 length ‖ body`, version = `max_version` -/
theorem struct_header_layout {E : EncHook} {env : Env} {cfg : Cfg} {ver : Nat} {leaf : Items × List Val}
    {d : StructDef} {vs vs' : List Val} {b : Bytes} (hh : cfg.structHeader = true)
    (h : encClass E env cfg ver leaf d vs = .ok (b, vs')) :
    ∃ body, encItems E env cfg ver d.items vs = .ok (body, vs') ∧ ver < 256 ∧ body.length < 4294967296
      ∧ b = u8 ver ++ u32le body.length ++ body :=
  encClass_header hh h

/-- without structure headers a level is just its fields, saved with version 0 -/
theorem struct_noheader_layout {E : EncHook} {env : Env} {cfg : Cfg} {ver : Nat} {leaf : Items × List Val}
    {d : StructDef} {vs vs' : List Val} {b : Bytes} (hh : cfg.structHeader = false)
    (h : encClass E env cfg ver leaf d vs = .ok (b, vs')) :
    encItems E env cfg 0 d.items vs = .ok (b, vs') :=
  encClass_noheader hh h

/-- raising `nex.version` only ever adds serialised attributes, in place (order preserved) -/
theorem gate_monotone (ver : Nat) {n1 n2 : Nat} (h : n1 ≤ n2) (it : Items) :
    (it.active n1 ver).Sublist (it.active n2 ver) :=
  active_mono_nex ver h it

/-- a gate `nex g { body }` opens exactly at `g`: at `g` the body is serialised, at `g - 1` it is not
    (an off-by-one in a generated `>=` changes the bytes at `nex.version = g`, which the tie always samples) -/
theorem gate_exact (g ver : Nat) (body rest : Items) (hg : 0 < g) :
    (Items.nex g body rest).active g ver = body.active g ver ++ rest.active g ver
      ∧ (Items.nex g body rest).active (g - 1) ver = rest.active (g - 1) ver := by
  constructor
  · simp [Items.active]
  · have : ¬ g - 1 ≥ g := by omega
    simp [Items.active, this]

/-- blocks stay where the definition puts them: two blocks under the same gate `g` separated by a block under another
    gate (`MatchmakeSession`: `nex 30500 {progress_score} nex 30000 {session_key} nex 30500 {option}`) are serialised
    around it in declaration order once both gates are open, and only the middle one while `g` is closed — the later
    block is not part of the earlier one (a reader merging them states another layout; examples below) -/
theorem gate_repeat_in_place (g h nex ver : Nat) (a b c rest : Items) (hh : nex ≥ h) :
    (nex ≥ g → (Items.nex g a (Items.nex h b (Items.nex g c rest))).active nex ver
        = a.active nex ver ++ (b.active nex ver ++ (c.active nex ver ++ rest.active nex ver)))
      ∧ (¬ nex ≥ g → (Items.nex g a (Items.nex h b (Items.nex g c rest))).active nex ver
        = b.active nex ver ++ rest.active nex ver) :=
  ⟨fun hg => active_repeat_in_place g h nex ver a b c rest hg hh, fun hg => active_repeat_closed g h nex ver a b c rest hg hh⟩

/-- request layout: the generated client hands (protocol id, method id, parameters encoded in declaration order)
    to the RMC layer, and the generated server decodes exactly the visible arguments from it (ignoring, as the
    code does, anything that follows) -/
theorem request_layout {env : Env} {cfg : Cfg} {fuel : Nat} {p : ProtoDef} {m : MethodDef} {args : List Val}
    {pi mi : Nat} {body : Bytes} (h : clientRequest env cfg fuel p m args = .ok (pi, mi, body)) (extra : Bytes) :
    pi = p.id ∧ mi = m.id ∧ encArgs env cfg fuel m.request args = .ok body
      ∧ serverRequest env cfg fuel m (body ++ extra) = .ok (visArgs env cfg fuel m.request args) :=
  let ⟨h1, h2, h3⟩ := clientRequest_ok h
  ⟨h1, h2, h3, serverRequest_of_client h3 extra⟩

/-- parameters (and results) are laid out one after the other in declaration order -/
theorem args_concat (env : Env) (cfg : Cfg) (fuel : Nat) (n : Name) (ty : Ty) (ps : List (Name × Ty))
    (v : Val) (vs : List Val) (b : Bytes) :
    encArgs env cfg fuel ((n, ty) :: ps) (v :: vs) = .ok b ↔
      ∃ b1 b2, encode env cfg fuel ty v = .ok b1 ∧ encArgs env cfg fuel ps vs = .ok b2 ∧ b = b1 ++ b2 :=
  encArgs_cons env cfg fuel n ty ps v vs b

/-- response layout: results in declaration order; the client decodes the visible results and rejects any
    trailing byte -/
theorem response_layout {env : Env} {cfg : Cfg} {fuel : Nat} {m : MethodDef} {res : List Val} {body : Bytes}
    (h : serverResponse env cfg fuel m res = .ok body) :
    encArgs env cfg fuel m.response res = .ok body
      ∧ clientResponse env cfg fuel m body = .ok (visArgs env cfg fuel m.response res)
      ∧ ∀ x, x ≠ [] → clientResponse env cfg fuel m (body ++ x) = .error .value :=
  ⟨serverResponse_ok h, clientResponse_of_server (serverResponse_ok h),
   fun x hx => clientResponse_trailing (serverResponse_ok h) x hx⟩

/-- method ids (and names) identify methods: in a protocol passing the generated obligation `wf_protos`
    a method is found again by its id and by its name -/
theorem method_ids {env : Env} {p : ProtoDef} (h : wfProto env p = true) {m : MethodDef} (hm : m ∈ p.methods) :
    findMethodById p m.id = some m ∧ findMethod p m.name = some m :=
  ⟨find_of_nodup MethodDef.id p.methods m (wfProto_ids h).1 hm, find_of_nodup MethodDef.name p.methods m (wfProto_ids h).2 hm⟩

/-! ## non-vacuity: hypotheses are satisfiable at non-trivial points (inheritance, gates, revisions, headers,
     polymorphic payloads); all by kernel evaluation -/

-- an inherited structure under an old version without headers: gated attributes consumed but not written
example : encode Ex.env Ex.cfgOld 8 (.struct 77) Ex.sessionVal = .ok [7, 0, 0, 0, 2, 0, 0, 0, 1, 255] := by decide
example : visible Ex.env Ex.cfgOld 8 (.struct 77) Ex.sessionVal
    = .obj 77 [.int 7, .absent, .list [.int 1, .int 255], .absent, .absent] := by rfl
-- the same value with headers at nex 3.6: `Gathering` level (version 0), own level (version 1)
example : encode Ex.env Ex.cfg36 8 (.struct 77) Ex.sessionVal
    = .ok [0, 8, 0, 0, 0, 7, 0, 0, 0, 2, 0, 0x41, 0,   1, 14, 0, 0, 0, 2, 0, 0, 0, 1, 255, 99, 0, 0, 0, 0, 0, 0, 0] := by decide
-- at nex 4.0 the *last* assignment `version = 0` wins: the revision-1 attribute is no longer written
example : encode Ex.env Ex.cfgNew 8 (.struct 77) Ex.sessionVal
    = .ok [0, 8, 0, 0, 0, 7, 0, 0, 0, 2, 0, 0x41, 0,   0, 10, 0, 0, 0, 2, 0, 0, 0, 1, 255, 2, 0, 0x42, 0] := by decide
example : decode Ex.env Ex.cfgNew 8 (.struct 77)
      ([0, 8, 0, 0, 0, 7, 0, 0, 0, 2, 0, 0x41, 0, 0, 10, 0, 0, 0, 2, 0, 0, 0, 1, 255, 2, 0, 0x42, 0] ++ [9, 9])
    = .ok (.obj 77 [.int 7, .str [0x41], .list [.int 1, .int 255], .absent, .str [0x42]], [9, 9]) := by rfl
-- a polymorphic payload: string name, u32 len+4, buffer
example : encode Ex.env Ex.cfgOld 8 .anydata (.obj nNullData [])
    = .ok [9, 0, 0x4E, 0x75, 0x6C, 0x6C, 0x44, 0x61, 0x74, 0x61, 0, 4, 0, 0, 0, 0, 0, 0, 0] := by decide
-- out-of-range values and missing required attributes are rejected like `struct.pack` / `check_required` do
example : encode Ex.env Ex.cfgOld 8 (.uint .b2) (.int 65536) = .error .struct := by decide
example : encode Ex.env Ex.cfgOld 8 (.uint .b1) (.int 256) = .error .value := by decide
example : encode Ex.env Ex.cfgOld 8 (.struct 71) (.obj 71 [.none, .str []]) = .error .value := by decide
-- requests: protocol id, method id, body
example : clientRequest Ex.env Ex.cfgOld 8 Ex.proto Ex.meth [Ex.sessionVal, .int 5]
    = .ok (21, 1, [7, 0, 0, 0, 2, 0, 0, 0, 1, 255, 5, 0, 0, 0]) := by decide
example : wfProtos Ex.env = true ∧ wfStructs Ex.env = true := by decide
example : (Items.nex 30500 (.field 2 .string true .nil) (.field 1 .pid false .nil)).active 30500 0 = [2, 1] := by decide
example : (Items.nex 30500 (.field 2 .string true .nil) (.field 1 .pid false .nil)).active 30499 0 = [1] := by decide
-- a repeated gate around another block: declaration order, NOT the order of a reader that merges the two blocks;
-- the two layouts differ as soon as `option ≠ 0` (or the key is not empty), and coincide below the repeated gate
example : ExOrder.asWritten.items.active 30500 0 = [1, 2, 3] ∧ ExOrder.merged.items.active 30500 0 = [1, 3, 2] := by decide
example : encode ExOrder.envW ExOrder.cfg305 8 (.struct 85) (.obj 85 [.int 100, .bytes [], .int 1])
    = .ok [100, 0, 0, 0, 0, 1, 0, 0, 0] := by decide
example : encode ExOrder.envM ExOrder.cfg305 8 (.struct 85) (.obj 85 [.int 100, .int 1, .bytes []])
    = .ok [100, 1, 0, 0, 0, 0, 0, 0, 0] := by decide
example : encode ExOrder.envW ExOrder.cfg304 8 (.struct 85) (.obj 85 [.int 100, .bytes [0xAA], .int 1])
    = .ok [1, 0, 0, 0, 0xAA] := by decide
example : encode ExOrder.envM ExOrder.cfg304 8 (.struct 85) (.obj 85 [.int 100, .int 1, .bytes [0xAA]])
    = .ok [1, 0, 0, 0, 0xAA] := by decide

end Nx.C13
