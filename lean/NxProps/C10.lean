import NxProofs.RmcClient
import NxProofs.RmcClientX
import NxProofs.RmcClientMulti
import NxProofs.RmcClientAbort
/-!
# C10 — each remote call gets its own response, whatever the interleaving

Model: `NxModel/Nex/RmcClient.lean` — `step` mirrors the atomic sections of `RMCClient.request`, the
`start` loop and `cleanup` (shared `requests` / `responses` dicts, 32-bit wrapping call id counter);
`CallSpec.step` is the specification: every outstanding call keeps *its own* slot holding the first
response that carried its call id since it registered; a resumed call returns that response, or raises
"closed" if the connection closed first. Ops are arbitrary interleavings of calls, received responses
(any ids: unknown, duplicate), received requests, peer EOF, local cleanup/close/disconnect, and task
resumptions — `List Op` covers every schedule, every crash point and every input at once.

Hypothesis H-ids (`distinctLive`): when a call registers, its fresh id is not the id of a call still
outstanding. It is forced: the counter wraps at 2^32 and `self.requests[call_id] = event` overwrites
(see `wrap_counterexample`). It holds whenever fewer than 2^32 − 1 calls are made on the connection
(`few_calls_distinct`).
Trusted runtime: a task whose `anyio.Event` is set is eventually resumed (`wake`), and never otherwise.
Statements only; proofs in `NxProofs/RmcClient.lean`.
-/
namespace Nx.C10
open Nx Nx.Rmc Nx.RmcClient

/-- every request id, every completion (returned body / RMC error code / "closed" / `None`) and every
    readiness of the implementation equals the specification's, on every op sequence with distinct live ids
    (`n` = initial value of the call id counter; the library starts at 1) -/
theorem C10_refines_spec (n : Nat) (ops : List Op) (hd : distinctLive { init with nextId := n } ops = true) :
    (run { init with nextId := n } ops).2.filter Out.observable
      = (CallSpec.run { CallSpec.init with nextId := n } ops).2 :=
  (run_refines (rel_init n) ops hd).2

/-- H-ids is satisfiable and holds for every run with fewer than 2^32 − 1 calls -/
theorem few_calls_distinct (ops : List Op) (h : nCalls ops < 4294967295) : distinctLive init ops = true :=
  distinctLive_of_small init ops (by simp [init]) (by simp [init]; omega)

/-- no cross-talk: a call that completes has either been told "closed", or was response-less, or returns
    exactly the outcome (body, or error code) of a received response whose call id is the id its own request carried -/
theorem no_cross_talk (ops : List Op) (hd : distinctLive init ops = true) (t : Nat) (o : Outcome)
    (h : Out.done t o ∈ (run init ops).2) :
    o = .closed ∨ o = .none ∨
      ∃ id m, Out.sent t id ∈ (run init ops).2 ∧ Op.recvResponse m ∈ ops ∧ m.callId = id ∧ o = outcomeOf m := by
  have href := (run_refines (rel_init 1) ops hd).2
  have hspec : Out.done t o ∈ (CallSpec.run CallSpec.init ops).2 := by
    have : Out.done t o ∈ obs (run init ops).2 := mem_obs.mpr ⟨h, rfl⟩
    exact href ▸ this
  rcases spec_run_hist CallSpec.init ops [] [] (by intro c hc; cases hc) t o hspec with e | e | ⟨id, m, s1, s2, s3, s4⟩
  · exact .inl e
  · exact .inr (.inl e)
  · refine .inr (.inr ⟨id, m, ?_, by simpa using s2, s3, s4⟩)
    have : Out.sent t id ∈ obs (run init ops).2 := by
      have h' : Out.sent t id ∈ (CallSpec.run CallSpec.init ops).2 := by simpa using s1
      exact href ▸ h'
    exact (mem_obs.mp this).1

/-- in particular `responses.pop(call_id)` never raises `KeyError` -/
theorem no_key_error (ops : List Op) (hd : distinctLive init ops = true) (t : Nat) :
    Out.done t .keyError ∉ (run init ops).2 := by
  intro h
  rcases no_cross_talk ops hd t _ h with e | e | ⟨_, m, _, _, _, e⟩
  · cases e
  · cases e
  · unfold outcomeOf at e; split at e <;> cases e

/-- the first response wins: once a call's slot holds a response, a later one with the same id does not replace it -/
theorem first_response_wins (m m' : Msg) (c : SCall) (h : c.id = m.callId) : upd m' (upd m c) = upd m c :=
  Nx.RmcClient.first_response_wins m m' c h

/-- unsolicited and duplicate responses are inert: in any reachable open state a response whose id is not the
    id of an outstanding unanswered call (never allocated, already answered, already completed) changes
    nothing at all — neither the implementation state nor any call's slot — and is dropped with the warning -/
theorem dup_unknown_inert (ops : List Op) (hd : distinctLive init ops = true) (m : Msg)
    (hopen : (run init ops).1.closed = false)
    (hno : ∀ c ∈ (CallSpec.run CallSpec.init ops).1.calls, c.id = m.callId → c.resp ≠ none) :
    step (run init ops).1 (.recvResponse m) = ((run init ops).1, [.warnInvalidCallId m.callId]) ∧
    (CallSpec.step (CallSpec.run CallSpec.init ops).1 (.recvResponse m)).1 = (CallSpec.run CallSpec.init ops).1 :=
  response_inert (run_refines (rel_init 1) ops hd).1 hopen m hno

/-- a call whose response has arrived (and whose connection is still open) resumes with exactly that response -/
theorem answered_call_returns_its_response (ops : List Op) (hd : distinctLive init ops = true)
    (hopen : (run init ops).1.closed = false) (c : SCall) (hc : c ∈ (CallSpec.run CallSpec.init ops).1.calls)
    (m : Msg) (hr : c.resp = some m) :
    (step (run init ops).1 (.wake c.task)).2 = [.done c.task (outcomeOf m)] :=
  wake_answered (run_refines (rel_init 1) ops hd).1 hopen c hc m hr

/-- closure at any moment (peer EOF or local cleanup/close/disconnect), followed by anything: the connection
    stays closed, every still-suspended call has its event set (none is left pending) and resuming it raises
    "closed" — it never reads a response, its own or another's -/
theorem close_wakes_all (ops : List Op) (hd : distinctLive init ops = true) (closeOp : Op)
    (hclose : closeOp = .eof ∨ closeOp = .cleanup) (later : List Op) :
    let s := (run (step (run init ops).1 closeOp).1 later).1
    s.closed = true ∧ ∀ p ∈ s.frames, p.1 ∈ s.fired ∧ (step s (.wake p.1)).2 = [.done p.1 .closed] := by
  intro s
  have hR := (run_refines (rel_init 1) ops hd).1
  have hf : FreshId (run init ops).1 closeOp := by rcases hclose with rfl | rfl <;> trivial
  have hR1 := (step_refines hR closeOp hf).1
  have hc1 : (step (run init ops).1 closeOp).1.closed = true := by
    rcases hclose with rfl | rfl <;> simp only [step, doCleanup] <;> split <;> simp_all
  obtain ⟨hR2, hc2, _⟩ := run_closed hR1 hc1 later
  exact ⟨hc2, fun p hp => closed_frames_ready hR2 hc2 p hp⟩

/-- a call made on a closed connection raises "closed" without sending anything -/
theorem call_after_close (s : State) (h : s.closed = true) (nr : Bool) :
    (step s (.call nr)).2 = [.done s.nextTask .closed] := by
  simp [step, h]

/-- without H-ids the property fails (2^32 calls while one is outstanding): the second call with id 5 overwrites
    the first one's event; the response wakes only the newer call and the older one hangs -/
theorem wrap_counterexample :
    let s0 : State := { init with nextId := 5, nextTask := 1, requests := [(5, 0)], frames := [(0, 5)] }
    let r : Msg := { mode := 1, protocol := 10, method := some 1, callId := 5, error := -1, body := [7] }
    distinctLive s0 [.call false] = false ∧
    (run s0 [.call false, .recvResponse r, .wake 1, .wake 0]).2
      = [.sent 1 5, .set 1, .done 1 (.body [7]), .notReady 0] := by
  decide

/-! ## one-way requests (`noresponse=True`) and requests in general: a call id names one request message -/

/-- every request message of a run — one-way requests included — carries a call id of its own while the counter
    does not wrap (fewer than 2^32 − 1 requests). So the answer a peer gives to a one-way request (or to any other
    request) echoes an id that no other request carries: by `dup_unknown_inert` it reaches no other caller. -/
theorem request_ids_distinct (ops : List Op) (h : nCalls ops < 4294967295) (t t' id : Nat)
    (h1 : Out.sent t id ∈ (run init ops).2) (h2 : Out.sent t' id ∈ (run init ops).2) : t = t' :=
  sent_ids_distinct init ops (by simp [init]; omega) t t' id h1 h2

/-- a one-way request consumes its call id exactly like a call that waits (the next request gets the next id),
    returns `None` at once and leaves nothing registered -/
theorem oneway_consumes_id (s : State) (hc : s.closed = false) :
    step s (.call true) = ({ s with nextTask := s.nextTask + 1, nextId := (s.nextId + 1) % 4294967296 },
      [.sent s.nextTask s.nextId, .done s.nextTask .none]) := by
  simp [step, hc]

/-! ## connections with protocol servers registered (`RMCClient.start(servers)`): `cleanup()` awaits every
    `server.logout(self)` after the atomic section that sets `closed` and the events. The extended machine
    (`NxModel/Nex/RmcClientX.lean`) adds the two ways a hook can end (`hookReturn`, `hookRaise`) to the ops; a
    hook that blocks for ever is the absence of both. -/

/-- the call-matching behaviour of a connection with `k` servers is that of the core machine on the core ops,
    whatever the logout hooks do and whenever they do it: every theorem above carries over -/
theorem servers_do_not_matter (k : Nat) (ops : List XOp) :
    (xrun (xinit 1 k) ops).1.core = (run init (coreOps ops)).1 ∧
      coreOuts (xrun (xinit 1 k) ops).2 = (run init (coreOps ops)).2 :=
  xrun_core (xinit 1 k) ops

/-- closure at any moment of a connection with any number of servers, followed by anything — including logout
    hooks that return late, raise, or never return (`later` then simply contains no `hookReturn`): every
    still-suspended call has its event set and resuming it raises "closed" -/
theorem close_wakes_all_with_servers (k : Nat) (ops : List XOp) (hd : distinctLive init (coreOps ops) = true)
    (closeOp : Op) (hclose : closeOp = .eof ∨ closeOp = .cleanup) (later : List XOp) :
    let x := (xrun (xstep (xrun (xinit 1 k) ops).1 (.core closeOp)).1 later).1
    x.core.closed = true ∧
      ∀ p ∈ x.core.frames, p.1 ∈ x.core.fired ∧ (xstep x (.core (.wake p.1))).2 = [.core (.done p.1 .closed)] := by
  intro x
  have e0 := (xrun_core (xinit 1 k) ops).1
  have e1 := (xstep_core (xrun (xinit 1 k) ops).1 (.core closeOp)).1
  have e2 := (xrun_core (xstep (xrun (xinit 1 k) ops).1 (.core closeOp)).1 later).1
  have hx : x.core = (run (step (run init (coreOps ops)).1 closeOp).1 (coreOps later)).1 := by
    show (xrun (xstep (xrun (xinit 1 k) ops).1 (.core closeOp)).1 later).1.core = _
    rw [e2, e1, e0]
    simp [coreOps, run]
    rfl
  obtain ⟨c1, c2⟩ := close_wakes_all (coreOps ops) hd closeOp hclose (coreOps later)
  rw [hx]
  refine ⟨c1, fun p hp => ?_⟩
  obtain ⟨f1, f2⟩ := c2 p hp
  refine ⟨f1, ?_⟩
  rw [xstep_wake_outs, hx, f2]; rfl

/-- a logout hook is entered (and `cleanup()` ends, normally or by a hook's exception) only when the connection is
    already closed and every suspended call already has its event set: waking the callers never depends on a hook -/
theorem hooks_run_after_wake (k : Nat) (ops : List XOp) (op : XOp)
    (hd : distinctLive init (coreOps (ops ++ [op])) = true) (o : XOut)
    (ho : o ∈ (xstep (xrun (xinit 1 k) ops).1 op).2)
    (hk : (∃ srv, o = .logout srv) ∨ o = .cleanupReturned ∨ o = .cleanupRaised) :
    let x := (xstep (xrun (xinit 1 k) ops).1 op).1
    x.core.closed = true ∧ ∀ p ∈ x.core.frames, p.1 ∈ x.core.fired := by
  intro x
  have hinv := xrun_inv (xinit 1 k) ops (by simp [xinit])
  have hc : x.core.closed = true := xstep_hook_closed _ op hinv o ho hk
  have hx : x.core = (run init (coreOps (ops ++ [op]))).1 := by
    have e := (xrun_core (xinit 1 k) (ops ++ [op])).1
    have : xrun (xinit 1 k) (ops ++ [op]) = ((xstep (xrun (xinit 1 k) ops).1 op).1,
        (xrun (xinit 1 k) ops).2 ++ (xstep (xrun (xinit 1 k) ops).1 op).2) := xrun_snoc _ _ _
    rw [this] at e
    exact e
  have hR := (run_refines (rel_init 1) (coreOps (ops ++ [op])) hd).1
  refine ⟨hc, fun p hp => ?_⟩
  rw [hx] at hp hc ⊢
  exact (closed_frames_ready hR hc p hp).1

/-! ## traffic in both directions on one connection: the peer sends requests of its own (to the servers registered
    with `start(servers)` / `rmc.connect(..., servers=[...])`, or to nobody) whose call ids come from the peer's own
    counter — both ends count from 1, so they regularly EQUAL the ids of our outstanding calls. `XOp.peerRequest r`
    = the receive loop got a REQUEST message `r` (any protocol, method, call id) and ran `handle_request` up to its
    first await; `XOp.handlerEnd ok` = the executing `server.handle` returned / raised and the answer was sent. -/

/-- a request of the peer is not a response: in ANY state, whatever its call id (in particular the id of an
    outstanding call), it leaves `requests`, `responses`, the events and the suspended calls exactly as they were
    and completes / wakes / warns nobody -/
theorem peer_request_is_not_a_response (x : XState) (r : PeerReq) :
    (xstep x (.peerRequest r)).1.core = x.core ∧ coreOuts (xstep x (.peerRequest r)).2 = [] :=
  xstep_peerRequest_core x r

/-- hence every request id, every completion and the whole call-matching state of a run with bidirectional traffic
    (and any logout hooks) are those of the core machine on the run from which every peer request has been removed:
    all theorems above (`C10_refines_spec`, `no_cross_talk`, `close_wakes_all`, ...) apply to it verbatim -/
theorem peer_requests_affect_no_caller (k : Nat) (ops : List XOp) :
    (xrun (xinit 1 k) ops).1.core = (run init ((coreOps ops).filter fun op => op != .recvRequest)).1 ∧
      coreOuts (xrun (xinit 1 k) ops).2 = (run init ((coreOps ops).filter fun op => op != .recvRequest)).2 := by
  have h := xrun_core (xinit 1 k) ops
  have e : (xinit 1 k).core = init := rfl
  rw [e, run_drop_requests] at h
  exact h

/-- every request of the peer is served exactly once, in the order received and under its own call id: it is handed
    to a registered server's `handle`, or refused at once with the NotImplemented answer — whatever calls of ours are
    outstanding under whatever ids, whatever the interleaving with responses, closures and hooks -/
theorem peer_requests_served_once (k : Nat) (ops : List XOp) :
    servedIds (xrun (xinit 1 k) ops).2 = (peerReqs ops).map (·.callId) :=
  xrun_served (xinit 1 k) ops

/-- which server: the one registered under the request's protocol id, if any; NotImplemented only if there is none -/
theorem peer_request_goes_to_its_protocol (x : XState) (r : PeerReq) :
    (∀ srv, serverFor x r.protocol = some srv →
        srv ∈ x.servers ∧ protoOf srv = r.protocol ∧ (xstep x (.peerRequest r)).2 = [.dispatch srv r.method r.callId]) ∧
    (serverFor x r.protocol = none →
        (∀ srv ∈ x.servers, protoOf srv ≠ r.protocol) ∧ (xstep x (.peerRequest r)).2 = [.notImplemented r.protocol r.callId]) := by
  refine ⟨fun srv h => ⟨List.mem_of_find?_eq_some h, by simpa using List.find?_some h, by simp [xstep, step, h]⟩, fun h => ⟨?_, by simp [xstep, step, h]⟩⟩
  intro srv hs
  have := List.find?_eq_none.mp h srv hs
  simpa using this

/-- the answer sent when a handler ends carries the call id (and protocol) of the request that handler was given, and
    every answer of a run carries the call id of a peer request dispatched before it -/
theorem handler_answer_carries_request_id (x : XState) (r : PeerReq) (ok : Bool) (h : x.handling = some r) :
    (xstep x (.handlerEnd ok)).2 = [.answer r.protocol r.callId ok] := by
  simp [xstep, h]

theorem answers_are_to_dispatched_requests (k : Nat) (ops : List XOp) :
    ∀ id ∈ answeredIds (xrun (xinit 1 k) ops).2, id ∈ servedIds (xrun (xinit 1 k) ops).2 := by
  have := xrun_answered (xinit 1 k) ops [] (by simp [xinit]) (by simp [answeredIds])
  simpa using this

/-! ## several connections in one process (`BackEndClient.login` holds the authentication and the secure connection;
    a server holds one `RMCClient` per peer): `__init__` gives every client object its own counter, `requests`,
    `responses`, `servers` and `closed`, and no method touches anything but `self` — so the process is the list of its
    connection states (`NxModel/Nex/RmcClientMulti.lean`) and an atomic section of connection `c` is `xstep` on the
    `c`-th element. All connections count their calls from 1: equal call ids are outstanding on several connections. -/

/-- every connection of a process behaves as if it were alone: in any interleaving of the atomic sections of any
    number of connections, the state and the outputs of connection `c` are those of the single-connection machine on
    `c`'s own sections. Every theorem above therefore holds for each connection of a process with many. -/
theorem connections_independent (ks : List Nat) (ops : List MOp) (c : Nat) (hc : c < ks.length) :
    (mrun (minit 1 ks) ops).1[c]? = some (xrun (xinit 1 ks[c]) (opsOf c ops)).1 ∧
      outsOf c (mrun (minit 1 ks) ops).2 = (xrun (xinit 1 ks[c]) (opsOf c ops)).2 :=
  mrun_conn _ ops c _ (minit_get 1 ks c hc)

/-- whatever another connection does — registers a call under an id outstanding here, receives a response, a stray
    or a request carrying such an id, is closed by its peer or locally, resumes a task, ends a hook or a handler —
    this connection's state is not touched and nothing is output on it -/
theorem other_connection_is_inert (ms : List XState) (o : MOp) (c : Nat) (h : o.conn ≠ c) :
    (mstep ms o).1[c]? = ms[c]? ∧ outsOf c (mstep ms o).2 = [] :=
  mstep_other ms o c h

/-- the request ids and completions of the calls of connection `c` are those of the core machine on `c`'s own core
    ops (its peer's requests removed): `C10_refines_spec`, `dup_unknown_inert`, ... apply to it verbatim -/
theorem calls_of_a_connection_see_only_it (ks : List Nat) (ops : List MOp) (c : Nat) (hc : c < ks.length) :
    coreOuts (outsOf c (mrun (minit 1 ks) ops).2)
      = (run init ((coreOps (opsOf c ops)).filter fun op => op != .recvRequest)).2 := by
  rw [(connections_independent ks ops c hc).2]
  exact (peer_requests_affect_no_caller ks[c] (opsOf c ops)).2

/-- no cross-talk between connections: a call that completes on connection `c` was told "closed", or was
    response-less, or returns exactly the outcome of a response that was received ON CONNECTION `c` and whose call id
    is the id its own request carried — never something received on another connection, whatever ids that one uses -/
theorem no_cross_talk_between_connections (ks : List Nat) (ops : List MOp) (c : Nat) (hc : c < ks.length)
    (hd : distinctLive init ((coreOps (opsOf c ops)).filter fun op => op != .recvRequest) = true) (t : Nat) (o : Outcome)
    (h : (c, XOut.core (.done t o)) ∈ (mrun (minit 1 ks) ops).2) :
    o = .closed ∨ o = .none ∨
      ∃ id m, (c, XOut.core (.sent t id)) ∈ (mrun (minit 1 ks) ops).2 ∧
        (⟨c, .core (.recvResponse m)⟩ : MOp) ∈ ops ∧ m.callId = id ∧ o = outcomeOf m := by
  have e := calls_of_a_connection_see_only_it ks ops c hc
  have h' : Out.done t o ∈ (run init ((coreOps (opsOf c ops)).filter fun op => op != .recvRequest)).2 := by
    rw [← e]; exact mem_coreOuts.mpr (mem_outsOf.mpr h)
  rcases no_cross_talk _ hd t o h' with a | a | ⟨id, m, s1, s2, s3, s4⟩
  · exact .inl a
  · exact .inr (.inl a)
  · refine .inr (.inr ⟨id, m, ?_, ?_, s3, s4⟩)
    · rw [← e] at s1; exact mem_outsOf.mp (mem_coreOuts.mp s1)
    · exact mem_opsOf_recvResponse c ops m (List.mem_filter.mp s2).1

/-- closing one connection at any moment — by its peer or locally — in a process with any number of others, followed
    by anything on any connection: every still-suspended call OF THAT CONNECTION has its event set and raises
    "closed" when resumed; by `other_connection_is_inert` the closure touches no call of any other connection -/
theorem close_wakes_all_of_that_connection (ks : List Nat) (ops : List MOp) (c : Nat) (hc : c < ks.length)
    (hd : distinctLive init (coreOps (opsOf c ops)) = true)
    (closeOp : Op) (hclose : closeOp = .eof ∨ closeOp = .cleanup) (later : List MOp) :
    ∃ x, (mrun (minit 1 ks) (ops ++ ⟨c, .core closeOp⟩ :: later)).1[c]? = some x ∧ x.core.closed = true ∧
      ∀ p ∈ x.core.frames, p.1 ∈ x.core.fired ∧ (xstep x (.core (.wake p.1))).2 = [.core (.done p.1 .closed)] := by
  refine ⟨_, (connections_independent ks _ c hc).1, ?_⟩
  have hx : (xrun (xinit 1 ks[c]) (opsOf c (ops ++ ⟨c, .core closeOp⟩ :: later))).1
      = (xrun (xstep (xrun (xinit 1 ks[c]) (opsOf c ops)).1 (.core closeOp)).1 (opsOf c later)).1 := by
    rw [opsOf_append, xrun_append]
    simp [opsOf, xrun]
  rw [hx]
  exact close_wakes_all_with_servers ks[c] (opsOf c ops) hd closeOp hclose (opsOf c later)

/-! ## callers that end while suspended: `await self.client.send(...)` raises, or the task is cancelled inside `send`
    (back pressure, the transport's send lock) or while waiting for its response (`NxModel/Nex/RmcClientAbort.lean`).
    `request()` has no handler around either await: the frame is discarded, the object is not touched (`abort t`). -/

/-- the abandoned call leaves the id counter, both maps, `closed`, the set events, the servers / hooks / handler in progress
    and the frame of every other suspended call exactly as they were -/
theorem abort_touches_only_its_frame (x : XState) (t : Nat) :
    (astep x (.abort t)).1.core.nextId = x.core.nextId ∧ (astep x (.abort t)).1.core.nextTask = x.core.nextTask ∧
    (astep x (.abort t)).1.core.requests = x.core.requests ∧ (astep x (.abort t)).1.core.responses = x.core.responses ∧
    (astep x (.abort t)).1.core.closed = x.core.closed ∧ (astep x (.abort t)).1.core.fired = x.core.fired ∧
    (astep x (.abort t)).1.servers = x.servers ∧ (astep x (.abort t)).1.pending = x.pending ∧
    (astep x (.abort t)).1.status = x.status ∧ (astep x (.abort t)).1.handling = x.handling ∧
    ∀ t', t' ≠ t → dlookup t' (astep x (.abort t)).1.core.frames = dlookup t' x.core.frames :=
  abort_frame_only x t

/-- every other suspended call (B, C: registered before or after the failing one) completes exactly as it would have:
    with the response stored under its id, or "closed" -/
theorem abort_affects_no_other_caller (x : XState) (t t' : Nat) (h : t' ≠ t) :
    (xstep (astep x (.abort t)).1 (.core (.wake t'))).2 = (xstep x (.core (.wake t'))).2 :=
  abort_other_wake x t t' h

/-- the request messages of a run — which task sent which call id — are those of the same run with the failures /
    cancellations left out: calls made after a failure (D, E) take the ids they would have taken anyway -/
theorem aborts_do_not_change_ids (x : XState) (ops : List AOp) :
    sentOf (arun x ops).2 = sentOf (arun x (dropAborts ops)).2 :=
  aborts_keep_sent x ops

/-- all request messages of a run in which any callers fail or are cancelled at any moments carry pairwise distinct call
    ids below 2^32 − 1 requests: a later call never takes the id of an outstanding call, nor the id of an abandoned one
    (whose request may have reached the peer) -/
theorem request_ids_distinct_with_aborts (k : Nat) (ops : List AOp) (h : nCalls (coreOps (xopsOf ops)) < 4294967295)
    (t t' id : Nat) (h1 : (t, id) ∈ sentOf (arun (xinit 1 k) ops).2) (h2 : (t', id) ∈ sentOf (arun (xinit 1 k) ops).2) :
    t = t' :=
  sent_ids_distinct_with_aborts k ops h t t' id h1 h2

/-! non-vacuity -/
-- A (task 0) fails inside send while B, C (tasks 1, 2) are outstanding; D (task 3) is called afterwards; the peer answers
-- C, then the abandoned request of A (stored, nobody reads it), then D and B
example : (arun (xinit 1 0) [.x (.core (.call false)), .x (.core (.call false)), .x (.core (.call false)), .abort 0, .x (.core (.call false)),
    .x (.core (.recvResponse { mode := 1, protocol := 10, method := some 1, callId := 3, error := -1, body := [3] })),
    .x (.core (.recvResponse { mode := 1, protocol := 10, method := some 1, callId := 1, error := -1, body := [1] })),
    .x (.core (.recvResponse { mode := 1, protocol := 10, method := some 1, callId := 4, error := -1, body := [4] })),
    .x (.core (.recvResponse { mode := 1, protocol := 10, method := some 1, callId := 2, error := -1, body := [2] })),
    .x (.core (.wake 2)), .x (.core (.wake 3)), .x (.core (.wake 1)), .x (.core (.wake 0)), .abort 0]).2
    = [.x (.core (.sent 0 1)), .x (.core (.sent 1 2)), .x (.core (.sent 2 3)), .aborted 0, .x (.core (.sent 3 4)),
       .x (.core (.set 2)), .x (.core (.set 0)), .x (.core (.set 3)), .x (.core (.set 1)),
       .x (.core (.done 2 (.body [3]))), .x (.core (.done 3 (.body [4]))), .x (.core (.done 1 (.body [2]))),
       .x (.core (.noSuchTask 0)), .noSuchCall 0] := by decide
example : nCalls (coreOps (xopsOf [.x (.core (.call false)), .abort 0, .x (.core (.call false))])) < 4294967295 := by decide
example : sentOf (arun (xinit 1 0) [.x (.core (.call false)), .abort 0, .x (.core (.call false))]).2 = [(0, 1), (1, 2)] := by decide
example : (xrun (xinit 1 1) [.core (.call false), .core (.call false), .peerRequest ⟨80, 7, 1⟩, .handlerEnd true,
    .peerRequest ⟨10, 7, 2⟩, .core (.recvResponse { mode := 1, protocol := 10, method := some 1, callId := 2, error := -1, body := [4] }),
    .core (.recvResponse { mode := 1, protocol := 10, method := some 1, callId := 1, error := -1, body := [5] }),
    .core (.wake 0), .core (.wake 1)]).2
    = [.core (.sent 0 1), .core (.sent 1 2), .dispatch 0 7 1, .answer 80 1 true, .notImplemented 10 2, .core (.set 1), .core (.set 0),
       .core (.done 0 (.body [5])), .core (.done 1 (.body [4]))] := by decide
example : serverFor (xinit 1 2) 81 = some 1 ∧ serverFor (xinit 1 2) 10 = none := by decide
example : peerReqs [.core (.call false), .peerRequest ⟨80, 7, 1⟩, .handlerEnd true, .peerRequest ⟨10, 7, 2⟩] = [⟨80, 7, 1⟩, ⟨10, 7, 2⟩] := by decide
example : distinctLive init [.call false, .call false, .recvResponse { mode := 1, protocol := 10, method := some 1, callId := 2, error := -1, body := [1] },
    .wake 1, .cleanup, .wake 0] = true := by decide
example : (run init [.call false, .call false, .recvResponse { mode := 1, protocol := 10, method := some 1, callId := 2, error := -1, body := [1] },
    .recvResponse { mode := 1, protocol := 10, method := some 1, callId := 2, error := -1, body := [9] },
    .recvResponse { mode := 1, protocol := 10, method := none, callId := 1, error := 0x80010005, body := [] },
    .wake 1, .wake 0]).2
    = [.sent 0 1, .sent 1 2, .set 1, .warnInvalidCallId 2, .set 0, .done 1 (.body [1]), .done 0 (.rmcError 0x80010005)] := by decide
example : nCalls [.call false, .eof, .call true] < 4294967295 := by decide
example : (run init [.call false, .eof, .wake 0]).2 = [.sent 0 1, .closing [0], .done 0 .closed] := by decide
example : (xrun (xinit 1 2) [.core (.call false), .core (.call true), .core (.call false), .core .cleanup, .core (.wake 0), .hookReturn,
    .hookRaise, .core (.wake 2)]).2
    = [.core (.sent 0 1), .core (.sent 1 2), .core (.done 1 .none), .core (.sent 2 3), .core (.closing [2, 0]), .logout 0,
       .core (.done 0 .closed), .logout 1, .cleanupRaised, .core (.done 2 .closed)] := by decide
example : (xrun (xinit 1 0) [.core (.call false), .core .eof]).2 = [.core (.sent 0 1), .core (.closing [0]), .cleanupReturned] := by decide
example : distinctLive init (coreOps [.core (.call false), .core .cleanup, .hookReturn]) = true := by decide
example : (mrun (minit 1 [0, 0]) [⟨0, .core (.call false)⟩, ⟨1, .core (.call false)⟩,
    ⟨1, .core (.recvResponse { mode := 1, protocol := 10, method := some 1, callId := 1, error := -1, body := [9] })⟩, ⟨1, .core (.wake 0)⟩,
    ⟨1, .core .eof⟩, ⟨0, .core (.recvResponse { mode := 1, protocol := 10, method := some 1, callId := 1, error := -1, body := [4] })⟩,
    ⟨0, .core (.wake 0)⟩]).2
    = [(0, .core (.sent 0 1)), (1, .core (.sent 0 1)), (1, .core (.set 0)), (1, .core (.done 0 (.body [9]))), (1, .core (.closing [])),
       (1, .cleanupReturned), (0, .core (.set 0)), (0, .core (.done 0 (.body [4])))] := by decide
example : opsOf 1 [⟨0, .core (.call false)⟩, ⟨1, .core .eof⟩, ⟨1, .hookReturn⟩] = [.core .eof, .hookReturn] := by decide

end Nx.C10
