"""Schema-directed values for the C13/C14 ties: generation, conversion to real Python objects of a
generated module, to the driver's value syntax, and canonicalisation of what the real code hands back.

A *tree* is the neutral form: ("none",) ("int",i) ("bool",b) ("str",s) ("url",s) ("bytes",b) ("f32",bits) ("f64",bits)
("list",[t..]) ("map",[(k,v)..]) ("obj",clsname,[field trees, base classes first]) ("dbl",bits) ("dt",value)
"""
import struct
from schema_proto2lean import BASIC, code, uncode

BOUND_STR = ["", "a", "Nintendo", "héllo wörld ☃ \U0001d11e", "\x01\x7f tab\t", "x" * 300]
URLS = ["prudp:/", "prudp:/address=192.168.1.20;port=60000;sid=1;stream=10;type=2",
        "udp:/PID=1234;CID=7;natm=0;natf=0", "prudps:/address=example.com;port=443;Rsa=ab"]


class Gen:
    """type-directed generator over one SchemaEnv"""

    def __init__(self, env, rng):
        self.env = env
        self.rng = rng
        self.registered = ["NullData"] + [s["name"] for s in env.order if s["parent"]]
        self.any_i = 0
        self.var_i = 0

    # ---- schema helpers
    def struct_def(self, name):
        if name == "Data": return {"name": "Data", "parent": None, "items": []}
        if name == "NullData": return {"name": "NullData", "parent": "Data", "items": []}
        if name == "ResultRange":
            if "ResultRange" not in self.env.structs:
                return {"name": "ResultRange", "parent": None, "items": [
                    {"var": {"type": {"name": "uint32", "template": None}, "name": "offset", "default": 0}},
                    {"var": {"type": {"name": "uint32", "template": None}, "name": "size", "default": 10}}]}
        return self.env.resolve(name)

    def chain(self, name):
        out = []
        while name is not None:
            d = self.struct_def(name)
            if d is None: raise KeyError(name)
            out.append(d)
            name = d["parent"]
        return out[::-1]

    def fields(self, name):
        """all attributes in hierarchy / declaration order: (var, required)"""
        out = []
        def walk(items):
            for it in items:
                if "var" in it:
                    v = it["var"]
                    t = v["type"]["name"]
                    is_struct = t not in BASIC and t not in ("list", "map")
                    out.append((v, v["default"] is None and not is_struct))
                else:
                    walk(it["items"])
        for d in self.chain(name):
            walk(d["items"])
        return out

    def own_start(self, name):
        """index of the first attribute declared by `name` itself"""
        d = self.struct_def(name)
        return len(self.fields(d["parent"])) if d["parent"] else 0

    # ---- generation
    def uint(self, bits):
        r = self.rng
        return r.choice([0, 1, (1 << bits) - 1, 1 << (bits - 1), (1 << bits) - 2, r.randrange(1 << bits), r.randrange(1 << bits)])

    def sint(self, bits):
        r = self.rng
        lo, hi = -(1 << (bits - 1)), (1 << (bits - 1)) - 1
        return r.choice([0, -1, 1, lo, hi, r.randint(lo, hi), r.randint(lo, hi)])

    def string(self):
        r = self.rng
        if r.random() < 0.6: return r.choice(BOUND_STR)
        return "".join(r.choice("abcXYZ019 _-ä中") for _ in range(r.randint(1, 24)))

    def fbits(self, fmt, n):
        while True:
            b = self.rng.randbytes(n)
            v = struct.unpack("<" + fmt, b)[0]
            if v == v and v not in (float("inf"), float("-inf")):
                return int.from_bytes(b, "little")

    def gen(self, t, cfg, depth=0, required=False):
        r = self.rng
        n = t["name"]
        if n in ("uint8", "uint16", "uint32", "uint64"): return ("int", self.uint(int(n[4:])))
        if n in ("sint8", "sint16", "sint32", "sint64"): return ("int", self.sint(int(n[4:])))
        if n == "pid": return ("int", self.uint(64 if cfg[2] == 8 else 32))
        if n == "result": return ("int", r.choice([0x10001, 0x80010002, 0, 0xFFFFFFFF, 0x8068000B, r.randrange(1 << 32)]))
        if n == "datetime": return ("int", r.choice([0, 671076024059, (1 << 64) - 1, 135271087238, r.randrange(1 << 40)]))
        if n == "bool": return ("bool", r.random() < 0.5)
        if n == "float":
            return ("f32", r.choice([0, 0x3FC00000, 0xC0100000, 0x7F7FFFFF, 0x00000001, 0x80000000, self.fbits("f", 4)]))
        if n == "double":
            return ("f64", r.choice([0, 0x3FF8000000000000, 0x7FEFFFFFFFFFFFFF, 1, 1 << 63, self.fbits("d", 8)]))
        if n == "string":
            if not required and r.random() < 0.12: return ("none",)
            return ("str", self.string())
        if n == "stationurl": return ("url", r.choice(URLS))
        if n == "buffer": return ("bytes", r.choice([b"", b"\0", r.randbytes(r.randint(1, 40)), r.randbytes(300)]))
        if n == "qbuffer": return ("bytes", r.choice([b"", b"\xff", r.randbytes(r.randint(1, 40)), r.randbytes(260)]))
        if n == "variant":
            self.var_i += 1
            k = self.var_i % 7
            if k == 0 and required: k = 1
            return [("none",), ("int", -self.rng.randrange(1, 1 << 63)), ("int", self.uint(64)), ("dbl", self.fbits("d", 8)),
                    ("bool", r.random() < 0.5), ("str", self.string()), ("dt", self.uint(64))][k]
        if n == "anydata":
            self.any_i += 1
            cls = "NullData" if depth >= 3 else self.registered[self.any_i % len(self.registered)]
            return self.obj(cls, cfg, depth + 1)
        if n == "list":
            k = r.choice([0, 1, 2, 3]) if depth < 3 else r.choice([0, 1])
            return ("list", [self.gen(t["template"][0], cfg, depth + 1, True) for _ in range(k)])
        if n == "map":
            k = r.choice([0, 1, 2, 3])
            out, seen = [], set()
            for _ in range(k):
                key = self.gen(t["template"][0], cfg, depth + 1, True)
                if key in seen: continue
                seen.add(key)
                out.append((key, self.gen(t["template"][1], cfg, depth + 1, True)))
            return ("map", out)
        return self.obj(n, cfg, depth + 1)

    def obj(self, name, cfg, depth=0):
        return ("obj", name, [self.gen(v["type"], cfg, depth, req) for v, req in self.fields(name)])


# ---- tree -> driver syntax

def hx(b): return b.hex() if b else "-"

def to_val(t):
    k = t[0]
    if k == "none": return "n"
    if k in ("int", "f32", "f64"): return "i%d" % t[1]
    if k == "bool": return "t" if t[1] else "f"
    if k in ("str", "url"): return "s" + hx(t[1].encode("utf8"))
    if k == "bytes": return "b" + hx(t[1])
    if k == "dbl": return "d%d" % t[1]
    if k == "dt": return "D%d" % t[1]
    if k == "list": return "l " + vals(t[1])
    if k == "map": return "m [" + "".join(" %s %s" % (to_val(a), to_val(b)) for a, b in t[1]) + " ]"
    if k == "obj": return "o %d %s" % (code(t[1]), vals(t[2]))
    raise ValueError(k)

def vals(ts): return "[" + "".join(" " + to_val(x) for x in ts) + " ]"


# ---- tree -> real python objects

class Real:
    def __init__(self, gen, module, common, notification):
        self.g, self.m, self.common, self.notification = gen, module, common, notification

    def cls(self, name):
        if name in ("Data", "NullData"): return getattr(self.common, name)
        c = getattr(self.m, name, None)
        if c is not None and name in self.g.env.structs: return c
        if name == "ResultRange": return self.common.ResultRange
        if name == "NotificationEvent": return self.notification.NotificationEvent
        return c

    def build(self, t):
        k = t[0]
        if k == "none": return None
        if k in ("int", "bool", "str", "bytes"): return t[1]
        if k == "f32": return struct.unpack("<f", struct.pack("<I", t[1]))[0]
        if k in ("f64", "dbl"): return struct.unpack("<d", struct.pack("<Q", t[1]))[0]
        if k == "url": return self.common.StationURL.parse(t[1])
        if k == "dt": return self.common.DateTime(t[1])
        if k == "list": return [self.build(x) for x in t[1]]
        if k == "map": return {self.build(a): self.build(b) for a, b in t[1]}
        if k == "obj":
            o = self.cls(t[1])()
            for (v, _), ft in zip(self.g.fields(t[1]), t[2]):
                setattr(o, v["name"], self.build_typed(v["type"], ft))
            return o
        raise ValueError(k)

    def build_typed(self, ty, t):
        n = ty["name"]
        if t[0] == "int" and n == "result": return self.common.Result(t[1])
        if t[0] == "int" and n == "datetime": return self.common.DateTime(t[1])
        if n == "list" and t[0] == "list": return [self.build_typed(ty["template"][0], x) for x in t[1]]
        if n == "map" and t[0] == "map":
            return {self.build_typed(ty["template"][0], a): self.build_typed(ty["template"][1], b) for a, b in t[1]}
        return self.build(t)

    # ---- what the real code handed back -> driver syntax (mask = parsed model value, for `a`)
    def canon(self, ty, v, mask=None):
        n = ty["name"]
        try:
            if n in BASIC and n not in ("anydata", "variant"):
                b = BASIC[n]
                if b in ("bool",): return ("t" if v else "f") if isinstance(v, bool) else "?bool:%r" % (v,)
                if b == "string": return "n" if v is None else "s" + hx(v.encode("utf8"))
                if b == "stationurl": return "s" + hx(str(v).encode("utf8"))
                if b in ("buffer", "qbuffer"): return "b" + hx(bytes(v))
                if b == "result": return "i%d" % v.code()
                if b == "datetime": return "i%d" % v.value()
                if b == "f32": return "i%d" % struct.unpack("<I", struct.pack("<f", v))[0]
                if b == "f64": return "i%d" % struct.unpack("<Q", struct.pack("<d", v))[0]
                if isinstance(v, bool) or not isinstance(v, int): return "?int:%r" % (v,)
                return "i%d" % v
            if n == "variant":
                if v is None: return "n"
                if isinstance(v, bool): return "t" if v else "f"
                if isinstance(v, int): return "i%d" % v
                if isinstance(v, float): return "d%d" % struct.unpack("<Q", struct.pack("<d", v))[0]
                if isinstance(v, str): return "s" + hx(v.encode("utf8"))
                if isinstance(v, self.common.DateTime): return "D%d" % v.value()
                return "?variant:%r" % (v,)
            if n == "list":
                ms = mask[1] if mask and mask[0] == "l" and len(mask[1]) == len(v) else [None] * len(v)
                return "l [" + "".join(" " + self.canon(ty["template"][0], x, m) for x, m in zip(v, ms)) + " ]"
            if n == "map":
                items = list(v.items())
                ms = mask[1] if mask and mask[0] == "m" and len(mask[1]) == len(items) else [(None, None)] * len(items)
                return "m [" + "".join(" %s %s" % (self.canon(ty["template"][0], a, mk), self.canon(ty["template"][1], b, mv))
                                       for (a, b), (mk, mv) in zip(items, ms)) + " ]"
            if n == "anydata":
                return self.canon_obj(type(v).__name__, v, mask)
            return self.canon_obj(n, v, mask, exact=self.cls(n))
        except Exception as e:
            return "?exc:%s:%r" % (n, e)

    def canon_obj(self, name, o, mask, exact=None):
        if exact is not None and type(o) is not exact: return "?class:%s" % type(o).__name__
        flds = self.g.fields(name)
        ms = mask[2] if mask and mask[0] == "o" and len(mask[2]) == len(flds) else [None] * len(flds)
        out = []
        fresh = None
        for (v, _), m in zip(flds, ms):
            val = getattr(o, v["name"])
            if m is not None and m[0] == "a":
                # attribute the model says no `load` touched: must still hold the fresh instance's default
                if fresh is None: fresh = type(o)()
                d = getattr(fresh, v["name"])
                same = self.canon(v["type"], val) == self.canon(v["type"], d) if d is not None and val is not None else (val is d)
                out.append("a" if same else "?touched:" + v["name"])
            else:
                out.append(self.canon(v["type"], val, m))
        return "o %d [%s ]" % (code(name), "".join(" " + x for x in out))


def parse_val(s):
    """driver value syntax -> nested tuples ('a',), ('n',), ('x', token), ('l',[..]), ('m',[(k,v)..]), ('o',cls,[..])"""
    toks = s.split()
    pos = 0
    def one():
        nonlocal pos
        t = toks[pos]; pos += 1
        if t == "a": return ("a",)
        if t == "n": return ("n",)
        if t == "l":
            pos += 1
            return ("l", many())
        if t == "m":
            pos += 1
            xs = many()
            return ("m", [(xs[i], xs[i + 1]) for i in range(0, len(xs) - 1, 2)])
        if t == "o":
            c = toks[pos]; pos += 2
            return ("o", c, many())
        return ("x", t)
    def many():
        nonlocal pos
        out = []
        while toks[pos] != "]":
            out.append(one())
        pos += 1
        return out
    if toks and toks[0] == "[":
        pos = 1
        return many()
    return one()
