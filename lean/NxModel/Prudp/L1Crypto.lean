import NxModel.Prudp.Endpoint
import NxModel.Nex.Kerberos
import NxModel.Nex.DateTime
/-!
# concrete `Env` for the L1 endpoint model: signatures (prudp.py 140-178, 277-294, 399-408),
Kerberos connection request / login (prudp.py 946-973, 1344-1369)

Written from the code and the protocol description; used by the L1 driver. (The C08 reference in
`Sig.lean`/`Payload.lean` is compared against the same real functions independently.)
-/
namespace Nx.L1
open Nx Nx.Prudp Nx.Crypto

/-- `socket.inet_aton("a.b.c.d")` (only dotted quads occur in the harness) -/
def inetAton (s : String) : Bytes :=
  (s.splitOn ".").map (fun t => b8 (t.toNat?.getD 0))

def addrBytes (a : Addr) : Bytes := inetAton a.1 ++ u16be a.2

def sumBytes (b : Bytes) : Nat := b.foldl (fun a x => a + x.toNat) 0

/-- `PRUDPMessageV0.calc_data_signature` -/
def v0DataSig (c : V0Cfg) (p : Packet) (sessionKey : Bytes) : Bytes :=
  let data := if c.signatureVersion = 0 then sessionKey ++ u16le p.packetId ++ u8 p.fragmentId ++ p.payload else p.payload
  if data.isEmpty then u32le 0x12345678
  else (hmacMd5 (md5 c.accessKey) data).take 4

/-- `PRUDPMessageV0.calc_packet_signature` -/
def v0PacketSig (c : V0Cfg) (p : Packet) (sessionKey connSig : Bytes) : Bytes :=
  if p.type = TYPE_DATA then v0DataSig c p sessionKey
  else if p.type = TYPE_DISCONNECT ∧ c.signatureVersion = 0 then v0DataSig c p sessionKey
  else if !connSig.isEmpty then connSig
  else [0, 0, 0, 0]

/-- `PRUDPMessageV0.calc_connection_signature`: `md5(data).digest()[3::-1]` -/
def v0ConnSig (a : Addr) : Bytes := ((md5 (addrBytes a)).take 4).reverse

/-- `PRUDPMessageV1.calc_packet_signature` -/
def v1PacketSig (accessKey : Bytes) (p : Packet) (sessionKey connSig : Bytes) : Bytes :=
  let options := v1EncodeOptions p
  let header := v1EncodeHeader p options.length
  hmacMd5 (md5 accessKey)
    (header.drop 4 ++ sessionKey ++ u32le (sumBytes accessKey) ++ connSig ++ options ++ p.payload)

def connSigKey : Bytes := [0x26, 0xc3, 0x1f, 0x38, 0x1e, 0x46, 0xd6, 0xeb, 0x38, 0xe1, 0xaf, 0x6a, 0xb7, 0x0d, 0x11]

/-- `PRUDPMessageV1/PRUDPLiteMessage.calc_connection_signature` -/
def v1ConnSig (a : Addr) : Bytes := hmacMd5 connSigKey (addrBytes a)

/-- `PRUDPLiteMessage.calc_packet_signature` -/
def litePacketSig (accessKey : Bytes) (p : Packet) (connSig : Bytes) : Option Bytes :=
  if p.type = TYPE_CONNECT ∧ hasNeedAck p.flags then
    let key := md5 accessKey
    some (hmacMd5 key (key ++ connSig))
  else none

def packetSigFn (v0 : V0Cfg) (codec : Codec) (p : Packet) (sessionKey connSig : Bytes) : Option Bytes :=
  match codec with
  | .v0 => some (v0PacketSig v0 p sessionKey connSig)
  | .v1 => some (v1PacketSig v0.accessKey p sessionKey connSig)
  | .lite => litePacketSig v0.accessKey p connSig

def connSigFn (codec : Codec) (a : Addr) : Bytes :=
  match codec with
  | .v0 => v0ConnSig a
  | _ => v1ConnSig a

/-- `process_login_request` up to `client.login`. `nowUnix` = `time.time()` floored to seconds is not enough:
    the comparison is `timestamp < time.time() - 120` on a float, so the harness passes the clock in ticks of 2^-30 s
    and the epoch in seconds; `tzOff` = seconds east of UTC of the process time zone. -/
def loginRequestFn (kc : Nex.Kerberos.Cfg) (epoch : Nat) (tzOff : Int) (data key : Bytes) (now : Time) :
    Except Err (Nat × Nat × Bytes × Bytes) := do
  let (ticketData, r) ← Nex.rBuffer data
  let (requestData, _) ← Nex.rBuffer r
  let ticket ← Nex.Kerberos.ServerTicket.decrypt kc key ticketData
  let ts ← Nex.DateTime.timestamp tzOff ticket.timestamp
  -- ts < epoch + now/2^30 - 120  ⟺  (ts + 120 - epoch) * 2^30 < now
  if (ts + 120 - (epoch : Int)) * 1073741824 < (now : Int) then throw .value
  let decrypted ← Nex.Kerberos.decrypt ticket.sessionKey requestData
  if decrypted.length ≠ kc.pidSize + 8 then throw .value
  let (pid, r) ← Nex.rPid kc.pidSize decrypted
  if pid ≠ ticket.source then throw .value
  let (cid, r) ← rdU32 r
  let (check, _) ← rdU32 r
  pure (ticket.source, cid, ticket.sessionKey, u32le 4 ++ u32le ((check + 1) % 4294967296))

def kerbEncryptFn (key data : Bytes) : Bytes :=
  let e := rc4 key data
  e ++ hmacMd5 key e

/-- the environment of an endpoint with compression off -/
def mkEnv (s : Settings) (cfg : Prudp.Cfg) (kc : Nex.Kerberos.Cfg) (epoch : Nat) (tzOff : Int) : Env :=
  { s, cfg,
    packetSig := packetSigFn cfg.v0,
    connSig := connSigFn,
    kerbEncrypt := kerbEncryptFn,
    loginRequest := loginRequestFn kc epoch tzOff,
    compress := id,
    decompress := fun b => .ok b }

end Nx.L1
