"""C19 — ONE client object (and the objects it shares with its caller), EVERY public knob turned between requests.

The per-call cases of corr_C19 build a fresh object with its final configuration and make one request. The
property quantifies over configurations, and a configuration of these clients is not fixed at construction:
the `Settings` object an HppClient keeps is the caller's (it is usually configured after it was handed over, or
switched to another game), `pid` / `password` / `call_id` are plain attributes, a NASCClient is configured
through a dozen setters. Here single objects are constructed, used, re-configured through every public knob,
and used again. After every request three things are demanded:
  * the request is authenticated / encoded for the CURRENT values (Lean reference: per walk one `hpp-walk`
    line through the stateful object model, for nasc the reference form encoding of the expected fields),
  * it equals, field for field, the request a FRESHLY constructed client with the current values sends,
  * values that do not take part (environment, versions, failed responses in between) leave it alone.
Nothing here re-implements the library: the expected values are the knob values the harness wrote itself.
"""
import base64, struct
import aux_c19_real as R
from aux_c19_real import hx, cps

HEX = "0123456789abcdef"
ALPH = "ABCDEFGHIJKLMNOPQRSTUVWXYZabcdefghijklmnopqrstuvwxyz0123456789"


def _callid_of(data, protocol):
    return struct.unpack_from("<I", data, 5 if protocol < 0x7F else 7)[0]


# =============================================================================================== hpp
def hpp_walks(ctx, rng, C, oracle_fail, quick):
    from nintendo.nex import settings as nexsettings

    def rand_ak():
        return "".join(rng.choice(HEX) for _ in range(2 * rng.choice([0, 1, 4, 7, 8, 8, 8, 9, 16])))
    def rand_pw():
        return "".join(rng.choice(ALPH + "!#é") for _ in range(rng.randint(0, 16)))
    def rand_pid(cur=None):
        r = rng.random()
        if cur is not None and r < 0.3: return (cur + 1024 * rng.randint(1, 4000)) % (1 << 32)   # same number of MD5 rounds, another pid
        if cur is not None and r < 0.5: return (cur + rng.choice([1, -1, 1023])) % (1 << 32)
        return rng.choice([0, 1, 1023, 1024, (1 << 32) - 1, rng.randrange(1 << 32), rng.randrange(1 << 32)])

    scenarios = ["configured-first", "configured-after-construction", "two-clients-one-settings", "settings-replaced"]
    nwalks = 4 if quick else 28
    nreq = 7 if quick else 12
    for w in range(nwalks):
        scen = scenarios[w % len(scenarios)]
        s0 = nexsettings.default()
        history = []                                   # everything done, in order (the replay)
        def note(who, text): history.append({"on": who, "do": text})
        if scen != "configured-after-construction":
            ak = rand_ak(); s0["prudp.access_key"] = ak
            note("settings", "settings = nex.settings.default(); settings['prudp.access_key'] = %r" % ak)
        else:
            note("settings", "settings = nex.settings.default()   # not configured yet")
        nclients = 2 if scen == "two-clients-one-settings" else 1
        cl = []                                        # per client: dict of the harness's own view
        for ci in range(nclients):
            pid, pw = rand_pid(), rand_pw()
            gsid, nexver = rng.randrange(1 << 32), rng.choice(["3.10.0", "2.4.1", "4.0.0"])
            obj = R.hpp_client(s0, pid, pw, gsid, nexver)
            note("client%d" % ci, "HppClient(settings, %#x, %r, %d, %r)" % (gsid, nexver, pid, pw))
            cl.append({"obj": obj, "S": s0, "pid": pid, "pw": pw, "gsid": gsid, "nexver": nexver, "env": "L1", "call": 1,
                       "init": (s0["prudp.access_key"], pw, pid), "ops": [], "reals": [], "nreq": 0})

        def settings_changed(S):
            for c in cl:
                if c["S"] is S: c["ops"].append("ak=" + hx(bytes.fromhex(S["prudp.access_key"])))

        def knob(ci, name):
            c = cl[ci]; obj = c["obj"]; S = c["S"]; who = "client%d" % ci
            if name == "settings[access_key]":
                ak = rand_ak(); S["prudp.access_key"] = ak
                note("settings", "settings['prudp.access_key'] = %r" % ak); settings_changed(S)
            elif name == "settings.configure":
                ak = rand_ak(); ver = rng.choice([20000, 30500, 31000, 40000, 40400])
                S.configure(ak, ver, 3 if ver >= 40400 else None)
                note("settings", "settings.configure(%r, %d, %r)" % (ak, ver, 3 if ver >= 40400 else None)); settings_changed(S)
            elif name == "settings.reset+load":
                S.reset(); S.load(rng.choice(["friends", "3ds", "switch", "default"]))
                note("settings", "settings.reset(); settings.load(...)   # access key is '' again"); settings_changed(S)
            elif name == "client.settings=":
                S2 = nexsettings.default(); ak = rand_ak(); S2["prudp.access_key"] = ak
                obj.settings = S2; c["S"] = S2
                note(who, "client.settings = nex.settings.default() with access key %r" % ak)
                c["ops"].append("ak=" + hx(bytes.fromhex(ak)))
            elif name == "client.password=":
                c["pw"] = rand_pw(); obj.password = c["pw"]
                note(who, "client.password = %r" % c["pw"]); c["ops"].append("pw=" + hx(c["pw"].encode()))
            elif name == "client.pid=":
                c["pid"] = rand_pid(c["pid"]); obj.pid = c["pid"]
                note(who, "client.pid = %d" % c["pid"]); c["ops"].append("pid=%d" % c["pid"])
            elif name == "client.call_id=":
                c["call"] = rng.choice([1, 0xFFFFFFFF, 0xFFFFFFFE, rng.randrange(1 << 32)]); obj.call_id = c["call"]
                note(who, "client.call_id = %d" % c["call"]); c["ops"].append("cid=%d" % c["call"])
            elif name == "set_environment":
                c["env"] = rng.choice(["L1", "D1", "T1", "S1"]); obj.set_environment(c["env"])
                note(who, "client.set_environment(%r)" % c["env"]); c["ops"].append("nop")
            elif name == "client.nex_version=":
                c["nexver"] = rng.choice(["3.10.0", "2.4.1", "4.0.0", "1.0.0"]); obj.nex_version = c["nexver"]
                note(who, "client.nex_version = %r" % c["nexver"]); c["ops"].append("nop")
            elif name == "client.game_server_id=":
                c["gsid"] = rng.randrange(1 << 32); obj.game_server_id = c["gsid"]
                note(who, "client.game_server_id = %#x" % c["gsid"]); c["ops"].append("nop")

        AUTH_KNOBS = ["settings[access_key]", "settings.configure", "client.password=", "client.pid=", "settings.reset+load"]
        OTHER_KNOBS = ["client.call_id=", "set_environment", "client.nex_version=", "client.game_server_id="]
        if scen == "settings-replaced": AUTH_KNOBS = AUTH_KNOBS + ["client.settings="]
        cycle = list(AUTH_KNOBS); rng.shuffle(cycle)

        for step in range(nreq):
            ci = rng.randrange(nclients)
            # knobs turned before this request: none before the very first one (except "configured after construction"),
            # afterwards at least one that takes part in the authentication, cycling through all of them
            if step == 0 and scen == "configured-after-construction":
                knob(ci, rng.choice(["settings.configure", "settings[access_key]"]))
            elif step > 0:
                if rng.random() < 0.85: knob(ci, cycle[step % len(cycle)])
                for _ in range(rng.choice([0, 0, 1, 2])): knob(rng.randrange(nclients), rng.choice(AUTH_KNOBS + OTHER_KNOBS))
            c = cl[ci]; obj = c["obj"]; who = "client%d" % ci
            proto, meth, body = rng.choice([1, 0x7E, 0x7F, 200]), rng.randrange(1, 0x7FFF), rng.randbytes(rng.randint(0, 24))
            expect_call = c["call"]
            kind = rng.choice(["ok", "ok", "ok", "stale-call-id", "err", "http", "short"])
            cid2 = expect_call if kind != "stale-call-id" else (expect_call - 1) & 0xFFFFFFFF
            rb = rng.randbytes(rng.randint(0, 12))
            pl = (b"\x00" + struct.pack("<II", 0x00010001, cid2)) if kind == "err" else (b"\x01" + struct.pack("<II", cid2, meth | 0x8000) + rb)
            resp = struct.pack("<I", len(pl)) + pl
            if kind == "short": resp = resp[: rng.randint(0, len(resp) - 1)]
            status = 500 if kind == "http" else 200
            note(who, "await client.request(%d, %d, bytes.fromhex(%r))   # scripted response: HTTP %d %s" % (proto, meth, body.hex(), status, resp.hex()))
            c["nreq"] += 1
            replay = {"scenario": scen, "sequence": list(history), "wrong": "the LAST request of the sequence (request %d of %s)" % (c["nreq"], who),
                      "current_values": {"access_key": c["S"]["prudp.access_key"], "pid": c["pid"], "password": c["pw"]},
                      "how": "replace nintendo.nex.hpp.http.request by a coroutine that records the HTTPRequest and returns the scripted response; "
                             "run the sequence; compare headers signature1 / signature2 / pid of the last request with HMAC-MD5 under the CURRENT "
                             "access key and the key derived from the CURRENT password and pid (65000 + pid % 1024 rounds of MD5)"}
            cap, val = R.hpp_request_full(obj, proto, meth, body, status, resp)
            c["call"] = (expect_call + 1) & 0xFFFFFFFF
            if cap is None:
                oracle_fail.append(("hpp-stateful", "request %d on a re-configured HppClient was not sent at all: %s" % (c["nreq"], val), replay))
                break
            host, req = cap
            data = req.files["file"]
            s1, s2, pidh = req.headers["signature1"], req.headers["signature2"], req.headers["pid"]
            c["ops"].append("req=" + hx(data))
            try: sent_call = _callid_of(data, proto)
            except Exception: sent_call = -1
            c["reals"].append("%d:%s:%s:%s" % (sent_call, hx(pidh.encode()), hx(s1.encode()), hx(s2.encode())))
            if status == 200:
                C.add("hpp-val %d %d %s" % (expect_call, meth, hx(resp)), val, "hpp-knobs:val:" + kind, replay)
            # (a) observable facts that need no reference at all
            if pidh != str(c["pid"]):
                oracle_fail.append(("hpp-stateful", "pid header %r after client.pid = %d" % (pidh, c["pid"]), replay))
            if sent_call != expect_call or obj.call_id != c["call"]:
                oracle_fail.append(("hpp-stateful", "request %d carries call id %d, expected %d (counter now %r)" % (c["nreq"], sent_call, expect_call, obj.call_id), replay))
            # (b) the same request from a freshly constructed client with the current values
            fresh = R.hpp_client(c["S"], c["pid"], c["pw"], c["gsid"], c["nexver"])
            fresh.set_environment(c["env"]); fresh.call_id = expect_call
            fcap, fval = R.hpp_request_full(fresh, proto, meth, body, status, resp)
            def view(cp):
                if cp is None: return None
                h, r = cp
                return {"host": h, "file": r.files["file"].hex(), "signature1": r.headers["signature1"], "signature2": r.headers["signature2"],
                        "pid": r.headers["pid"], "version": r.headers["version"], "Host": r.headers["Host"], "token": r.headers["token"]}
            a, b = view(cap), view(fcap)
            if a != b or val != fval:
                bad = sorted(k for k in a if b is None or a[k] != b[k]) if a else ["(nothing sent)"]
                oracle_fail.append(("hpp-stateful", "request %d on a re-configured HppClient differs from the same request on a fresh HppClient built from the "
                                    "current values (access key %r, pid %d, password %r) in %s: reused %s, fresh %s"
                                    % (c["nreq"], c["S"]["prudp.access_key"], c["pid"], c["pw"], bad or ["the result"],
                                       {k: a[k] for k in bad if a and k in a} or val, ({k: b[k] for k in bad if k in b} if b else None) or fval), replay))
        for ci, c in enumerate(cl):
            if not c["reals"]: continue
            ak0, pw0, pid0 = c["init"]
            C.add("hpp-walk %s %s %d %s" % (hx(bytes.fromhex(ak0)), hx(pw0.encode()), pid0, " ".join(c["ops"])), " ".join(["ok"] + c["reals"]),
                  "hpp-knobs:walk:" + scen,
                  {"scenario": scen, "sequence": list(history), "client": "client%d" % ci,
                   "record_format": "one record per request of this client: callid:pid header:signature1:signature2 (hex of the ASCII text)",
                   "how": "ONE HppClient driven through the sequence (hpp.http.request replaced); every request must be signed with the access key / "
                          "password / pid in force when it is issued"}, reference=True)


# =============================================================================================== nasc
def _ref3ds(b):
    """the 3DS alphabet, written down once more independently of nintendo.nasc (only used to script server responses)"""
    return base64.b64encode(b).decode().translate({43: 46, 47: 45, 61: 42})


NASC_KNOB_ATTRS = ["sdk_version_major", "sdk_version_minor", "title_id", "title_version", "product_code", "maker_code", "media_type", "rom_id",
              "serial_number", "mac_address", "fcd_cert", "device_name", "unit_code", "bss_id", "ap_info", "region", "language",
              "pid", "pid_hmac", "password", "fpd_version", "environment", "url"]


def nasc_expected_form(cur, gsid, nick):
    f = [("gameid", "%08X" % gsid), ("sdkver", "%03i%03i" % (cur["sdk_version_major"], cur["sdk_version_minor"])),
         ("titleid", "%016X" % cur["title_id"]), ("gamecd", cur["product_code"]), ("gamever", "%04X" % cur["title_version"]),
         ("mediatype", str(cur["media_type"]))]
    if cur["media_type"] == 2: f.append(("romid", cur["rom_id"]))
    f += [("makercd", cur["maker_code"]), ("unitcd", cur["unit_code"]), ("macadr", cur["mac_address"]), ("bssid", cur["bss_id"]),
          ("apinfo", cur["ap_info"]), ("fcdcert", cur["fcd_cert"]), ("devname", cur["device_name"].encode("utf-16-le")),
          ("servertype", cur["environment"]), ("fpdver", "%04X" % cur["fpd_version"]), ("lang", "%02X" % cur["language"]),
          ("region", "%02X" % cur["region"]), ("csnum", cur["serial_number"])]
    if cur["pid_hmac"] is not None: f += [("uidhmac", cur["pid_hmac"]), ("userid", str(cur["pid"]))]
    else: f.append(("passwd", cur["password"]))
    f += [("action", "LOGIN"), ("ingamesn", nick)]
    return [(k, v.encode() if isinstance(v, str) else bytes(v)) for k, v in f]

def nasc_configure_fresh(cur):
    from nintendo import nasc
    c = nasc.NASCClient()
    c.set_url(cur["url"]); c.set_sdk_version(cur["sdk_version_major"], cur["sdk_version_minor"])
    c.set_title(cur["title_id"], cur["title_version"], cur["product_code"], cur["maker_code"], cur["media_type"], cur["rom_id"])
    c.set_device(cur["serial_number"], cur["mac_address"], cur["fcd_cert"], cur["device_name"], cur["unit_code"])
    c.set_network(cur["bss_id"], cur["ap_info"]); c.set_locale(cur["region"], cur["language"])
    if cur["pid_hmac"] is not None: c.set_user(cur["pid"], cur["pid_hmac"])
    else: c.set_password(cur["password"])
    c.set_fpd_version(cur["fpd_version"]); c.set_environment(cur["environment"])
    return c


def nasc_walks(ctx, rng, C, oracle_fail, quick):
    KNOB_ATTRS = NASC_KNOB_ATTRS
    from nintendo import nasc
    import datetime
    EDGE = "éあＡ€"
    def rtext(n, pool=ALPH): return "".join(rng.choice(pool) for _ in range(rng.randint(0, n)))
    def b(v): return v.encode() if isinstance(v, str) else bytes(v)


    expected_form, configure_fresh = nasc_expected_form, nasc_configure_fresh

    for w in range(2 if quick else 16):
        client = nasc.NASCClient()
        cur = {a: getattr(client, a) for a in KNOB_ATTRS}      # the object's own initial values; from here on only what the harness writes
        history = [{"do": "client = nasc.NASCClient()"}]
        def note(t): history.append({"do": t})

        def knob(name):
            if name == "set_title":
                mt = rng.choice([0, 1, 2, 2]); rom = rtext(16, HEX) if mt == 2 or rng.random() < 0.3 else None
                a = (rng.randrange(1 << 64), rng.randrange(1 << 16), rtext(4, ALPH + "-") or "----", rtext(2, HEX) or "00", mt, rom)
                client.set_title(*a); note("client.set_title%r" % (a,))
                cur["title_id"], cur["title_version"], cur["product_code"], cur["maker_code"], cur["media_type"], cur["rom_id"] = a
            elif name == "set_device":
                cert = rng.randbytes(rng.choice([0, 1, 2, 3, 16, 0x40, 0x180]))
                a = (rtext(11), rtext(12, HEX), cert, rtext(10, ALPH + EDGE + " "), rng.choice(["0", "1", "2"]))
                client.set_device(*a); note("client.set_device(%r, %r, bytes.fromhex(%r), %r, %r)" % (a[0], a[1], cert.hex(), a[3], a[4]))
                cur["serial_number"], cur["mac_address"], cur["fcd_cert"], cur["device_name"], cur["unit_code"] = a
            elif name == "set_network":
                a = (rtext(12, HEX), "01:" + rtext(10, HEX)); client.set_network(*a); note("client.set_network%r" % (a,))
                cur["bss_id"], cur["ap_info"] = a
            elif name == "set_locale":
                a = (rng.randrange(256), rng.randrange(256)); client.set_locale(*a); note("client.set_locale%r" % (a,))
                cur["region"], cur["language"] = a
            elif name == "set_user":
                a = (rng.randrange(1 << 32), rtext(8, HEX)); client.set_user(*a); note("client.set_user%r" % (a,))
                cur["pid"], cur["pid_hmac"], cur["password"] = a[0], a[1], None
            elif name == "set_password":
                pw = rtext(16, ALPH + "!~>?" + EDGE); client.set_password(pw); note("client.set_password(%r)" % pw)
                cur["pid"], cur["pid_hmac"], cur["password"] = None, None, pw
            elif name == "set_fpd_version":
                v = rng.choice([0, 15, 16, 0xFFFF, rng.randrange(1 << 16)]); client.set_fpd_version(v); note("client.set_fpd_version(%d)" % v); cur["fpd_version"] = v
            elif name == "set_environment":
                v = rng.choice(["L1", "D1", "T1"]); client.set_environment(v); note("client.set_environment(%r)" % v); cur["environment"] = v
            elif name == "set_sdk_version":
                a = (rng.randrange(1000), rng.randrange(1000)); client.set_sdk_version(*a); note("client.set_sdk_version%r" % (a,))
                cur["sdk_version_major"], cur["sdk_version_minor"] = a
            elif name == "set_url":
                v = rng.choice(["nasc.nintendowifi.net", "nasc.example.org"]); client.set_url(v); note("client.set_url(%r)" % v); cur["url"] = v
            elif name == "client.device_name=":
                v = rtext(10, ALPH + EDGE); client.device_name = v; note("client.device_name = %r" % v); cur["device_name"] = v
            elif name == "client.fcd_cert=":
                v = rng.randbytes(rng.randint(0, 48)); client.fcd_cert = v; note("client.fcd_cert = bytes.fromhex(%r)" % v.hex()); cur["fcd_cert"] = v

        KNOBS = ["set_title", "set_device", "set_network", "set_locale", "set_user", "set_password", "set_fpd_version", "set_environment",
                 "set_sdk_version", "set_url", "client.device_name=", "client.fcd_cert="]
        for k in ("set_title", "set_device", rng.choice(["set_user", "set_password"])): knob(k)      # the minimum login() asks for
        cycle = list(KNOBS); rng.shuffle(cycle)
        for step in range(8 if quick else 14):
            if step > 0:
                knob(cycle[step % len(cycle)])
                for _ in range(rng.choice([0, 1, 2, 3])): knob(rng.choice(KNOBS))
            gsid, nick = rng.randrange(1 << 32), rtext(8, ALPH + EDGE)
            # scripted server answer (3DS form coding written independently above)
            token = rng.randbytes(rng.choice([0, 1, 2, 3, 32, 57]))
            port = rng.randrange(1, 65536)
            good = rng.random() < 0.75
            rform = {"returncd": b"001" if good else rng.choice([b"110", b"null", b"122"]), "retry": b"0", "datetime": b"20240229235958",
                     "locator": ("h%d.example:%d" % (step, port)).encode(), "token": token}
            text = "&".join("%s=%s" % (k, _ref3ds(v)) for k, v in rform.items())
            note("await client.login(%#x, %r)   # scripted response body: %s" % (gsid, nick, text))
            replay = {"sequence_on_one_client": list(history), "wrong": "the LAST login of the sequence",
                      "how": "replace nintendo.nasc.http.request by a coroutine that records the HTTPRequest and returns an object with "
                             ".status_code=200 and .text=<the scripted body>; compare req.form of the last login with the 3DS form coding "
                             "(base64 with + / = replaced by . - *) of the values set last"}
            cap, res = R.nasc_login(client, gsid, nick, 200, text)
            if cap is None:
                oracle_fail.append(("nasc-stateful", "login %d on a re-configured NASCClient was not sent: %r" % (step + 1, res), replay)); break
            host, req = cap
            form = dict(req.form)
            devtime = form.pop("devtime", None)
            exp = expected_form(cur, gsid, nick)
            # reference: the Lean 3DS form encoder applied to the values the harness set last
            C.add("nasc-form-enc " + " ".join(hx(k.encode()) + " " + hx(v) for k, v in exp), "ok " + R.form_pairs(form), "nasc-knobs:login-form",
                  dict(replay, expected_plain_form={k: v.hex() for k, v in exp}), reference=True)
            try: ok_time = len(base64.b64decode(devtime.translate({46: 43, 45: 47, 42: 61}))) == 12
            except Exception: ok_time = False
            if not ok_time: oracle_fail.append(("nasc-stateful", "devtime field %r is not the 3DS coding of a 12 digit time" % (devtime,), replay))
            hdr = {"host": host, "Host": req.headers["Host"], "X-GameId": req.headers["X-GameId"], "User-Agent": req.headers["User-Agent"]}
            if hdr != {"host": cur["url"], "Host": cur["url"], "X-GameId": "%08X" % gsid, "User-Agent": "CTR FPD/%04X" % cur["fpd_version"]}:
                oracle_fail.append(("nasc-stateful", "login %d: headers %r do not follow the values set last" % (step + 1, hdr), replay))
            # the same login from a freshly constructed and configured client
            fcap, fres = R.nasc_login(configure_fresh(cur), gsid, nick, 200, text)
            fform = dict(fcap[1].form) if fcap else None
            if fform is not None: fform.pop("devtime", None)
            if fform != form:
                bad = sorted(k for k in set(form) | set(fform or {}) if (fform or {}).get(k) != form.get(k))
                oracle_fail.append(("nasc-stateful", "login %d on a re-configured NASCClient sends other form fields than a fresh client configured with the "
                                    "current values: %s" % (step + 1, [(k, form.get(k), (fform or {}).get(k)) for k in bad][:4]), replay))
            # response side: the login result belongs to THIS response
            if good:
                if isinstance(res, Exception):
                    oracle_fail.append(("nasc-stateful", "login %d: a well-formed success response raised %r" % (step + 1, res), replay))
                else:
                    got = (res.host, res.port, res.token, res.datetime)
                    want = ("h%d.example" % step, port, _ref3ds(token), datetime.datetime(2024, 2, 29, 23, 59, 58))
                    if got != want:
                        oracle_fail.append(("nasc-stateful", "login %d: LoginResponse %r, the response said %r" % (step + 1, got, want), replay))
                    C.add("nasc-enc " + hx(token), "ok " + hx(res.token.encode()), "nasc-knobs:token", dict(replay, token=token.hex()), reference=True)
            elif not isinstance(res, nasc.NASCError):
                oracle_fail.append(("nasc-stateful", "login %d: an error response (returncd %r) gave %r instead of NASCError" % (step + 1, rform["returncd"], res), replay))


# =============================================================================================== nnas
def nnas_grid(ctx, rng, C, oracle_fail, quick):
    """a PURE helper called repeatedly: every (pid, password) pair of a small grid, in random order, twice — the result may depend
    on nothing but the two arguments of THIS call (a memo keyed by one of them shows up here)"""
    from nintendo import nnas
    pids = [0, 1, 1024, (1 << 32) - 1] + [rng.randrange(1 << 32) for _ in range(2 if quick else 8)]
    pws = ["", "a", "password", "Passw0rd!~"] + ["".join(rng.choice(ALPH) for _ in range(rng.randint(1, 20))) for _ in range(2 if quick else 8)]
    grid = [(p, w) for p in pids for w in pws] * 2
    rng.shuffle(grid)
    calls = []
    for pid, pw in grid:
        try: real = "ok " + hx(nnas.calc_password_hash(pid, pw).encode())
        except Exception as e: real = "err " + R.exc_name(e)
        calls.append([pid, pw])
        C.add("nnas %d %s" % (pid, cps(pw)), real, "nnas:grid",
              {"pid": pid, "password": pw, "calls_before_in_this_process": list(calls[-12:]), "how": "nnas.calc_password_hash(pid, password) after the listed calls"}, reference=True)
