import NxModel.Api.Inventory
/-!
# C20 — lifting lemmas for the generated API-inventory obligations

The generated files prove `covers documented actual = true` and `namesAgree documented actual = true`
by kernel evaluation; the lemmas here turn those Booleans into the quantified statements, once and
for all tables.
-/
namespace Nx.Api

theorem natBeq_iff (a b : Nat) : Nat.beq a b = true ↔ a = b :=
  ⟨Nat.eq_of_beq_eq_true, fun h => h ▸ Nat.beq_refl a⟩

/-- `nameEq` is equality -/
theorem nameEq_iff (a b : Name) : nameEq a b = true ↔ a = b := by
  induction a generalizing b with
  | nil => cases b <;> simp [nameEq]
  | cons x xs ih =>
    cases b with
    | nil => simp [nameEq]
    | cons y ys => simp [nameEq, ih]

theorem sameKey_iff (d a : Sig) :
    sameKey d a = true ↔ a.module = d.module ∧ a.cls = d.cls ∧ a.name = d.name := by
  simp only [sameKey, Bool.and_eq_true, nameEq_iff]
  constructor
  · rintro ⟨⟨h1, h2⟩, h3⟩; exact ⟨h3.symm, h2.symm, h1.symm⟩
  · rintro ⟨h1, h2, h3⟩; exact ⟨⟨h3.symm, h2.symm⟩, h1.symm⟩

/-- what a match means, field by field -/
theorem sigMatches_iff (d a : Sig) :
    sigMatches d a = true ↔
      (a.module = d.module ∧ a.cls = d.cls ∧ a.name = d.name) ∧ a.kind = d.kind ∧
      (d.kind = kindClass ∨ callOk d a = true) := by
  simp only [sigMatches, Bool.and_eq_true, Bool.or_eq_true, natBeq_iff, sameKey_iff]
  constructor
  · rintro ⟨⟨h1, h2⟩, h3⟩; exact ⟨h1, h2.symm, h3⟩
  · rintro ⟨h1, h2, h3⟩; exact ⟨⟨h1, h2.symm⟩, h3⟩

theorem covers_iff (D : List Sig) (A : List ASig) :
    covers D A = true ↔ ∀ d ∈ D, ∃ a ∈ A, sigMatches d a = true := by
  simp [covers, List.all_eq_true, List.any_eq_true]

/-- lifting lemma for the generated obligation `covers_ok` -/
theorem covers_sound {D : List Sig} {A : List ASig} (h : covers D A = true) :
    ∀ d ∈ D, ∃ a ∈ A, sigMatches d a = true := (covers_iff D A).mp h

/-- the same, unfolded: every documented entry exists under its module / class / name with the documented
kind, and (unless it is a class entry) accepts the documented call shape -/
theorem covers_exists {D : List Sig} {A : List ASig} (h : covers D A = true) :
    ∀ d ∈ D, ∃ a ∈ A, a.module = d.module ∧ a.cls = d.cls ∧ a.name = d.name ∧ a.kind = d.kind ∧
      (d.kind = kindClass ∨ callOk d a = true) := by
  intro d hd
  obtain ⟨a, ha, hm⟩ := covers_sound h d hd
  obtain ⟨⟨h1, h2, h3⟩, h4, h5⟩ := (sigMatches_iff d a).mp hm
  exact ⟨a, ha, h1, h2, h3, h4, h5⟩

/-- `namesOk ds as va`: the two name lists agree on their common length, and the documented one is longer
only when `*args` takes the rest -/
theorem namesOk_iff (ds as : List Name) (va : Bool) :
    namesOk ds as va = true ↔ ds.take as.length = as.take ds.length ∧ (ds.length ≤ as.length ∨ va = true) := by
  induction ds generalizing as with
  | nil => simp [namesOk]
  | cons d ds ih =>
    cases as with
    | nil => simp [namesOk]
    | cons a as =>
      simp only [namesOk, Bool.and_eq_true, nameEq_iff, ih, List.length_cons, List.take_succ_cons,
        List.cons.injEq, Nat.add_le_add_iff_right]
      constructor
      · rintro ⟨h1, h2, h3⟩; exact ⟨⟨h1, h2⟩, h3⟩
      · rintro ⟨⟨h1, h2⟩, h3⟩; exact ⟨h1, h2, h3⟩

theorem namesMatch_iff (d a : Sig) :
    namesMatch d a = true ↔
      (a.module = d.module ∧ a.cls = d.cls ∧ a.name = d.name) ∧
      (posNames d).take (posNames a).length = (posNames a).take (posNames d).length ∧
      ((posNames d).length ≤ (posNames a).length ∨ a.varArgs = true) := by
  simp only [namesMatch, Bool.and_eq_true, sameKey_iff, namesOk_iff]

theorem namesAgree_iff (D : List Sig) (A : List ASig) :
    namesAgree D A = true ↔ ∀ d ∈ D, ∃ a ∈ A, namesMatch d a = true := by
  simp [namesAgree, List.all_eq_true, List.any_eq_true]

/-- lifting lemma for the generated obligation `names_ok`: position by position the documented positional
parameter names are the code's (documented parameters beyond the code's named ones exist only under `*args`) -/
theorem namesAgree_sound {D : List Sig} {A : List ASig} (h : namesAgree D A = true) :
    ∀ d ∈ D, ∃ a ∈ A, a.module = d.module ∧ a.cls = d.cls ∧ a.name = d.name ∧
      (posNames d).take (posNames a).length = (posNames a).take (posNames d).length ∧
      ((posNames d).length ≤ (posNames a).length ∨ a.varArgs = true) := by
  intro d hd
  obtain ⟨a, ha, hm⟩ := (namesAgree_iff D A).mp h d hd
  obtain ⟨⟨h1, h2, h3⟩, h4, h5⟩ := (namesMatch_iff d a).mp hm
  exact ⟨a, ha, h1, h2, h3, h4, h5⟩

/-- when the code has no `*args`, that is: the documented names are exactly the first names of the code -/
theorem namesAgree_sound_prefix {D : List Sig} {A : List ASig} (h : namesAgree D A = true) :
    ∀ d ∈ D, ∃ a ∈ A, a.module = d.module ∧ a.cls = d.cls ∧ a.name = d.name ∧
      (a.varArgs = false → posNames d = (posNames a).take (posNames d).length) := by
  intro d hd
  obtain ⟨a, ha, h1, h2, h3, h4, h5⟩ := namesAgree_sound h d hd
  refine ⟨a, ha, h1, h2, h3, fun hva => ?_⟩
  have hle : (posNames d).length ≤ (posNames a).length := by
    rcases h5 with h5 | h5
    · exact h5
    · rw [hva] at h5; exact absurd h5 (by decide)
  rw [← h4, List.take_of_length_le hle]

/-- the linear pass implies the quadratic statement, whatever the order of the tables -/
theorem mergeAll_sound (p : Sig → ASig → Bool) (n : Nat) (D : List Sig) (A : List ASig)
    (h : mergeAll p n D A = true) : ∀ d ∈ D, ∃ a ∈ A, p d a = true := by
  induction n generalizing D A with
  | zero =>
    cases D with
    | nil => intro d hd; cases hd
    | cons d ds => simp [mergeAll] at h
  | succ n ih =>
    cases D with
    | nil => intro d hd; cases hd
    | cons d ds =>
      cases A with
      | nil => simp [mergeAll] at h
      | cons a as =>
        simp only [mergeAll] at h
        by_cases hp : p d a = true
        · rw [if_pos hp] at h
          intro x hx
          rcases List.mem_cons.mp hx with rfl | hx
          · exact ⟨a, List.mem_cons_self, hp⟩
          · exact ih ds (a :: as) h x hx
        · rw [if_neg hp] at h
          intro x hx
          obtain ⟨b, hb, hpb⟩ := ih (d :: ds) as h x hx
          exact ⟨b, List.mem_cons_of_mem _ hb, hpb⟩

/-- lifting lemma for the kernel obligation `covers_m` of the generated files -/
theorem coversM_covers {D : List Sig} {A : List ASig} (h : coversM D A = true) : covers D A = true :=
  (covers_iff D A).mpr (mergeAll_sound _ _ D A h)

/-- lifting lemma for the kernel obligation `names_m` of the generated files -/
theorem namesAgreeM_namesAgree {D : List Sig} {A : List ASig} (h : namesAgreeM D A = true) : namesAgree D A = true :=
  (namesAgree_iff D A).mpr (mergeAll_sound _ _ D A h)

/-- what the generated obligation `covers_ok` means (statement used by the generated files) -/
def CoversSpec (D : List Sig) (A : List ASig) : Prop :=
  ∀ d ∈ D, ∃ a ∈ A, a.module = d.module ∧ a.cls = d.cls ∧ a.name = d.name ∧ a.kind = d.kind ∧
    (d.kind = kindClass ∨ callOk d a = true)

/-- what the generated obligation `names_ok` means -/
def NamesSpec (D : List Sig) (A : List ASig) : Prop :=
  ∀ d ∈ D, ∃ a ∈ A, a.module = d.module ∧ a.cls = d.cls ∧ a.name = d.name ∧
    (posNames d).take (posNames a).length = (posNames a).take (posNames d).length ∧
    ((posNames d).length ≤ (posNames a).length ∨ a.varArgs = true)

theorem covers_spec {D : List Sig} {A : List ASig} (h : covers D A = true) : CoversSpec D A := covers_exists h
theorem names_spec {D : List Sig} {A : List ASig} (h : namesAgree D A = true) : NamesSpec D A := namesAgree_sound h

theorem firstUncovered_none_iff (D : List Sig) (A : List ASig) :
    firstUncovered D A = none ↔ covers D A = true := by
  simp [firstUncovered, covers, List.find?_eq_none, List.all_eq_true]

/-- a reported `firstUncovered` really is a documented entry that nothing realises -/
theorem firstUncovered_some {D : List Sig} {A : List ASig} {d : Sig} (h : firstUncovered D A = some d) :
    d ∈ D ∧ ∀ a ∈ A, sigMatches d a = false := by
  have h1 := List.mem_of_find?_eq_some h
  have h2 := List.find?_some h
  refine ⟨h1, fun a ha => ?_⟩
  simp only [Bool.not_eq_true', List.any_eq_false] at h2
  simpa using h2 a ha

theorem firstNameMismatch_none_iff (D : List Sig) (A : List ASig) :
    firstNameMismatch D A = none ↔ namesAgree D A = true := by
  simp [firstNameMismatch, namesAgree, List.find?_eq_none, List.all_eq_true]

theorem firstNameMismatch_some {D : List Sig} {A : List ASig} {d : Sig} (h : firstNameMismatch D A = some d) :
    d ∈ D ∧ ∀ a ∈ A, namesMatch d a = false := by
  have h1 := List.mem_of_find?_eq_some h
  have h2 := List.find?_some h
  refine ⟨h1, fun a ha => ?_⟩
  simp only [Bool.not_eq_true', List.any_eq_false] at h2
  simpa using h2 a ha

/-- `posOk` against the specification of Python's argument binding: every positional call shape the
*documented* parameter list admits (k positional arguments, the rest of the documented positional parameters
defaulted) is admitted by the actual one when the documented keyword names `kws` are passed along. -/
theorem posOk_admits (ds as : List Param) (va : Bool) (kws : List Name) (k : Nat)
    (h : posOk ds as va kws = true) (hd : admitsPos ds false [] k = true) :
    admitsPos as va kws k = true := by
  induction ds generalizing as k with
  | nil =>
    simp only [posOk] at h
    simp only [admitsPos, List.length_nil, Nat.le_zero_eq, Bool.or_false, Bool.and_eq_true,
      decide_eq_true_eq] at hd
    obtain ⟨hk, -⟩ := hd
    subst hk
    simp only [admitsPos, Nat.zero_le, decide_true, Bool.true_or, List.drop_zero, Bool.true_and]
    exact h
  | cons d ds ih =>
    cases as with
    | nil =>
      simp only [posOk] at h
      simp [admitsPos, h]
    | cons a as =>
      simp only [posOk, Bool.and_eq_true, Bool.or_eq_true, Bool.not_eq_true'] at h
      obtain ⟨hda, hrest⟩ := h
      cases k with
      | zero =>
        simp only [admitsPos, Nat.zero_le, decide_true, Bool.true_or, List.drop_zero, Bool.true_and,
          List.all_cons, Bool.and_eq_true, List.any_nil, Bool.or_false] at hd ⊢
        obtain ⟨hd0, hdrest⟩ := hd
        have hds : admitsPos ds false [] 0 = true := by
          simp only [admitsPos, Nat.zero_le, decide_true, List.drop_zero, Bool.true_and,
            List.any_nil, Bool.or_false]
          exact hdrest
        have := ih as 0 hrest hds
        simp only [admitsPos, Nat.zero_le, decide_true, Bool.true_or, List.drop_zero, Bool.true_and] at this
        refine ⟨?_, this⟩
        rcases hda with hda | hda
        · rw [hda] at hd0; exact absurd hd0 (by decide)
        · rw [hda]; rfl
      | succ k =>
        have hd' : admitsPos ds false [] k = true := by
          simpa [admitsPos, Nat.succ_le_succ_iff] using hd
        have := ih as k hrest hd'
        simpa [admitsPos, Nat.succ_le_succ_iff] using this

/-! ## The checker on the interesting cases -/
section Examples

private def m : Name := [109]                 -- "m"
private def C : Name := [67]                  -- "C"
private def f : Name := [102]                 -- "f"
private def g : Name := [103]                 -- "g"
private def x : Name := [120]
private def y : Name := [121]
private def z : Name := [122]
private def P (n : Name) (dflt : Bool := false) (kw : Bool := false) : Param := ⟨n, dflt, kw⟩
private def S (kind : Nat) (name : Name) (ps : List Param) (va := false) (vk := false) (onc := false) : Sig :=
  ⟨m, C, kind, name, onc, ps, va, vk⟩

-- identical signature
example : sigMatches (S kindDef f [P x, P y true]) (S kindDef f [P x, P y true]) = true := by decide
-- harmless: the code gained a new optional parameter at the end / a keyword-only optional one
example : sigMatches (S kindDef f [P x]) (S kindDef f [P x, P y true]) = true := by decide
example : sigMatches (S kindDef f [P x]) (S kindDef f [P x, P y true true]) = true := by decide
-- the code's parameter lost its default (documented `y = …`): rejected
example : sigMatches (S kindDef f [P x, P y true]) (S kindDef f [P x, P y]) = false := by decide
-- the code gained a default the documentation does not mention: still callable as documented
example : sigMatches (S kindDef f [P x, P y]) (S kindDef f [P x, P y true]) = true := by decide
-- a new *required* parameter: rejected
example : sigMatches (S kindDef f [P x]) (S kindDef f [P x, P y]) = false := by decide
-- fewer parameters in the code: rejected, unless `*args`
example : sigMatches (S kindDef f [P x, P y]) (S kindDef f [P x]) = false := by decide
example : sigMatches (S kindDef f [P x, P y]) (S kindDef f [P x] (va := true)) = true := by decide
-- async mismatch, both directions; `async with` is neither
example : sigMatches (S kindAsyncDef f [P x]) (S kindDef f [P x]) = false := by decide
example : sigMatches (S kindDef f [P x]) (S kindAsyncDef f [P x]) = false := by decide
example : sigMatches (S kindAsyncWith f [P x]) (S kindAsyncDef f [P x]) = false := by decide
-- renamed method: nothing under the documented name
example : covers [S kindDef f [P x]] [S kindDef g [P x]] = false := by decide
example : firstUncovered [S kindDef g [], S kindDef f [P x]] [S kindDef g []] = some (S kindDef f [P x]) := by decide
-- a property is not callable as a documented `def`
example : sigMatches (S kindDef f []) (S kindProperty f []) = false := by decide
-- documented `@classmethod`, defined as a plain method: rejected; static vs class method: accepted
example : sigMatches (S kindDef f [P x] (onc := true)) (S kindDef f [P x]) = false := by decide
example : sigMatches (S kindDef f [P x] (onc := true)) (S kindDef f [P x] (onc := true)) = true := by decide
-- keyword-only: must exist by name (or `**kwargs`); may have become positional-or-keyword
example : sigMatches (S kindDef f [P x, P y true true]) (S kindDef f [P x, P y true true]) = true := by decide
example : sigMatches (S kindDef f [P x, P y true true]) (S kindDef f [P x, P z true true]) = false := by decide
example : sigMatches (S kindDef f [P x, P y true true]) (S kindDef f [P x] (vk := true)) = true := by decide
example : sigMatches (S kindDef f [P x, P y true true]) (S kindDef f [P x, P y true]) = true := by decide
example : sigMatches (S kindDef f [P x, P y false true]) (S kindDef f [P x, P y]) = true := by decide
-- an undocumented required keyword-only parameter: rejected
example : sigMatches (S kindDef f [P x]) (S kindDef f [P x, P y false true]) = false := by decide
-- overloads documented twice are satisfied by one callable
example : covers [S kindDef f [P x true], S kindDef f [P x true]] [S kindDef f [P x true]] = true := by decide
-- positional compatibility does not look at names; `namesAgree` does
example : sigMatches (S kindDef f [P x]) (S kindDef f [P y]) = true := by decide
example : namesAgree [S kindDef f [P x]] [S kindDef f [P y]] = false := by decide
example : namesAgree [S kindDef f [P x]] [S kindDef f [P x, P y true]] = true := by decide
-- a stub taking `*args` has no names to disagree with
example : namesAgree [S kindDef f [P x, P y]] [S kindDef f [] (va := true)] = true := by decide
example : namesAgree [S kindDef f [P x, P y]] [S kindDef f [P x]] = false := by decide
-- class entries only need the class
example : sigMatches ⟨m, [], kindClass, C, false, [], false, false⟩ ⟨m, [], kindClass, C, false, [P x], false, false⟩ = true := by decide
example : sigMatches ⟨m, [], kindClass, C, false, [], false, false⟩ ⟨m, [], kindDef, C, false, [], false, false⟩ = false := by decide
-- the binding specification at a non-trivial point: documented (x, y=…) admits 1 or 2 positional arguments, not 0 or 3
example : (List.range 4).map (admitsPos [P x, P y true] false []) = [false, true, true, false] := by decide

-- the linear pass on sorted tables: overloads share the actual entry; an unmatched entry makes it fail
example : coversM [S kindDef f [P x true], S kindDef f [P x true], S kindDef g []]
    [S kindDef f [P x true], S kindDef g [], S kindDef x []] = true := by decide
example : coversM [S kindDef f [P x], S kindDef g []] [S kindDef g [], S kindDef x []] = false := by decide

end Examples

end Nx.Api
