"""C02 — nothing hangs. Crash-point enumeration in virtual time, which doubles as correspondence:
for every k the link (both directions / each direction alone) dies after the k-th datagram of a reference session
(handshake, data both ways, idle past a keep-alive, graceful disconnect); every blocking operation of both
applications is outstanding in some run; the instant at which each returns or raises is recorded and checked against
the property's bounds, the server's client table must empty, the same address must be able to connect again, and the
whole run is replayed through the Lean L1 model, which must predict every datagram at the same virtual instant
(retransmissions, keep-alives, the tear-down)."""
import multiprocessing, os, traceback
import prudp_session as ps
import crash_session as cs
import l1_corr
import l1_stream
import c02_ended_check
import c02_more_check
import c02_return_check

LEVEL = "proof"
MARGIN = 0.06      # two one-way delays + slack


def work(args):
    idx, cfgd, seed, kill = args
    rmc = cfgd.get("rmc", False)
    try:
        cfg = ps.Cfg(**{k: v for k, v in cfgd.items() if k != "rmc"})
        se = cs.run(cfg, seed, kill, rmc=rmc)
        bad = []
        if se.crash:
            bad.append(("crash", "session ended abnormally: %s" % se.crash))
        if se.timed_out:
            bad.append(("hang", "the session did not finish: some operation blocked beyond every bound"))
        bound = se.bound
        rt, lim = cfg.resend_timeout, cfg.resend_limit
        dead = se.dead_at
        for name, t0, t1, outcome in se.ops:
            if t1 is None and kill is not None and kill[1] == "break" and se.errors and (name.endswith("@c") or name in ("disconnect", "async-with-exit")):
                continue        # the stream broke under the client: its whole `async with` block was ended by the transport's exception (ops cancelled at once)
            if t1 is None:
                bad.append(("hang", "%s started at %.3f never returned (link died at %s)" % (name, t0, dead)))
                continue
            if dead is not None and name != "reconnect":
                limit_t = max(dead + bound, t0) + MARGIN
                if t1 > limit_t:
                    bad.append(("late", "%s started at %.3f returned at %.3f, later than silence(%.3f)+ping_timeout+(resend_limit+1)*resend_timeout=%.3f"
                                % (name, t0, t1, dead, dead + bound)))
        conn = [o for o in se.ops if o[0] == "connect"][0]
        if kill is not None and kill[0] == 0 and kill[1] in ("both", "c2s"):
            want = (lim + 1) * rt
            if conn[3] != "failed" or conn[2] is None or abs(conn[2] - want) > 1e-3:
                bad.append(("connect-bound", "connect to a silent peer: outcome %s at %s, expected failure at (resend_limit+1)*resend_timeout=%.3f" % (conn[3], conn[2], want)))
        if kill is not None and kill[1] == "break" and se.errors and not all(e[0] == "client" and ("ClosedResourceError" in e[1] or "BrokenResourceError" in e[1] or "EndOfStream" in e[1]) for e in se.errors):
            bad.append(("break-error", "after the stream broke the client's block ended with something else than the stream's own error: %r" % (se.errors[:2],)))
        if conn[3] == "ok":
            late = [o for o in se.ops if o[0].startswith("send@") and o is not None and o[1] >= (se.ops[-1][1] if False else 0)]
            # the two 'late' sends are the last send@c / send@s of the run
            for side in "cs":
                if side == "c" and kill is not None and kill[1] == "break" and se.errors:
                    continue        # the client's block was ended by the transport's exception before its late send
                sends = [o for o in se.ops if o[0] == "send@" + side]
                if sends and sends[-1][3] not in ("closed",) and se.handler_started:
                    bad.append(("closed-send", "send on the ended connection at %s returned %r instead of raising the closed-connection error" % (side, sends[-1][3])))
                su = [o for o in se.ops if o[0] == "sendu@" + side]
                if su and su[-1][3] not in ("closed",) and se.handler_started:
                    bad.append(("closed-send", "send_unreliable on the ended connection at %s returned %r instead of raising the closed-connection error" % (side, su[-1][3])))
        if getattr(se, "server_table", 0) != 0:
            bad.append(("server-forgets", "the server still holds %d client entries after the connection ended" % se.server_table))
        rec = [o for o in se.ops if o[0] == "reconnect"]
        if rec and rec[0][3] != "ok":
            bad.append(("reconnect", "the same address could not connect again: %s" % rec[0][3]))
        if rmc:
            calls = {o[0]: o for o in se.ops if o[0].startswith("call")}
            if kill is None:
                if calls.get("call-answered", [0, 0, 0, ""])[3] != "ok:2a000000":
                    bad.append(("reference", "the answered remote call did not return its response: %r" % (calls.get("call-answered"),)))
            for name, o in calls.items():
                if name != "call-answered" and o[2] is not None and o[3] != "closed":
                    bad.append(("pending-call", "remote call %s ended with %r instead of raising the closed-connection error" % (name, o[3])))
        elif kill is None:
            if se.got[("s", 0)] != [b"hello " * 5, b"x", b"after idle"] or se.got[("c", 0)] != [b"welcome " * 3]:
                bad.append(("reference", "the fault-free reference session did not deliver its messages"))
        stats = {"n": se.n_datagrams, "ops": len(se.ops), "connect": conn[3]}
        return idx, cfgd, seed, kill, bad, se, stats, None
    except Exception:
        return idx, cfgd, seed, kill, [], None, {}, traceback.format_exc()


def work_special(args):
    idx, cfgd, seed, scenario = args
    try:
        cfg = ps.Cfg(**cfgd)
        se = cs.run_special(cfg, seed, scenario)
        bad = []
        if se.crash:
            bad.append(("crash", "session ended abnormally: %s" % se.crash))
        if se.timed_out:
            bad.append(("hang", "the session did not finish: some operation blocked beyond every bound"))
        rt, lim = cfg.resend_timeout, cfg.resend_limit
        ops = {}
        for o in se.ops:
            ops.setdefault(o[0], []).append(o)
        for name, t0, t1, outcome in se.ops:
            if t1 is None:
                bad.append(("hang", "%s started at %.3f never returned (%s)" % (name, t0, scenario)))
            elif outcome == "BLOCKED":
                bad.append(("hang", "%s on the ended connection blocked instead of raising end-of-stream (%s)" % (name, scenario)))
        if scenario.startswith("local-close"):
            side = scenario[-1]
            other = "s" if side == "c" else "c"
            tc = se.closed_at.get(side)
            if tc is None:
                bad.append(("reference", "the scripted close() was never reached"))
            else:
                for name in ("recv@", "recv_unreliable@"):
                    for sd, slack in ((side, 1e-6), (other, 0.01 + MARGIN)):
                        last = (ops.get(name + sd) or [[None, None, None, None]])[-1]
                        if last[3] != "eof" or last[2] is None or last[2] > tc + slack:
                            bad.append(("close-releases", "%s%s was %s at %s after the local close() at %.4f on side %s" % (name, sd, last[3], last[2], tc, side)))
                for sd in "cs":
                    snd = ops.get("send@" + sd, [])
                    if snd and snd[-1][3] != "closed":
                        bad.append(("closed-send", "send on the closed connection at %s returned %r" % (sd, snd[-1][3])))
        elif scenario.startswith("cancelled-exit"):
            tc = se.closed_at.get("c")
            if tc is None:
                bad.append(("reference", "the scripted cancellation was never reached: %r" % (se.errors[:2],)))
            else:
                for name in ("recv@c", "recv_unreliable@c"):
                    last = (ops.get(name) or [[None, None, None, None]])[-1]
                    if last[3] != "eof" or last[2] is None or last[2] > tc + 1e-6:
                        bad.append(("cancel-releases", "%s (a task outside the connection block) was %s at %s after the block was left by cancellation at %.4f: every pending recv must be released when the connection ends for any reason" % (name, last[3], last[2], tc)))
                snd = ops.get("send@c", [])
                if snd and snd[-1][3] != "closed":
                    bad.append(("closed-send", "send on the connection whose block was left by cancellation returned %r instead of raising the closed-connection error" % (snd[-1][3],)))
                h = (ops.get("handler") or [[None, None, None, None]])[0]
                if h[2] is None or h[2] > tc + se.bound + MARGIN:
                    bad.append(("late", "the server's handler returned at %s; the client fell silent at %.3f (bound %.3f)" % (h[2], tc, tc + se.bound)))
            if se.errors:
                bad.append(("cancel-error", "leaving the block by cancellation raised %r" % (se.errors[:2],)))
        elif scenario.startswith("unread-unreliable"):
            recv_side = "s" if scenario.endswith(":c") else "c"
            if b"after the burst" not in se.got.get((recv_side, 0), []):
                bad.append(("blocked", "after 150 unreliable datagrams that the application at %s never reads, the reliable message sent next was not delivered there" % recv_side))
        elif scenario.startswith("extra-substreams"):
            who = scenario[-1]
            for k in (1, 2):
                o = (ops.get("recv(%d)@%s" % (k, who)) or [[None, None, None, None]])[-1]
                if o[3] != "eof":
                    bad.append(("hang", "recv(%d) at %s (configured with 3 substreams, 1 negotiated) was %r when the connection ended: a pending recv on every substream the application may read must be released" % (k, who, o[3])))
        elif scenario.startswith("handler-raises"):
            # the client learns of the end at the latest through its keep-alive: silence + ping_timeout + (resend_limit+1)*resend_timeout
            t_end = (ops.get("handler") or [[None, None, None, None]])[0][2]
            last = (ops.get("recv@c") or [[None, None, None, None]])[-1]
            if t_end is None:
                bad.append(("reference", "the scripted handler never ended"))
            elif last[3] != "eof" or last[2] is None or last[2] > t_end + se.bound + MARGIN:
                bad.append(("late", "recv@c was %s at %s after the server's handler raised at %.3f (bound %.3f)" % (last[3], last[2], t_end, t_end + se.bound)))
        else:
            conn = ops["connect"][0]
            want = 0.02 + (lim + 1) * rt
            if conn[3] != "failed" or abs(conn[2] - want) > 1e-3:
                bad.append(("connect-bound", "connect to a peer that cannot be connected to (%s): outcome %s at %s, expected failure at SYN round trip + (resend_limit+1)*resend_timeout = %.3f" % (scenario, conn[3], conn[2], want)))
        if getattr(se, "server_table", 0) != 0:
            bad.append(("server-forgets", "the server still holds %d client entries after the connection ended (%s)" % (se.server_table, scenario)))
        rec = ops.get("reconnect", [])
        if not rec or rec[0][3] != "ok":
            bad.append(("reconnect", "after %s the same address could not establish a working connection again: %s" % (scenario, rec[0][3] if rec else None)))
        return idx, cfgd, seed, ("special", scenario), bad, se, {"n": se.n_datagrams, "ops": len(se.ops), "connect": ops["connect"][0][3]}, None
    except Exception:
        return idx, cfgd, seed, ("special", scenario), [], None, {}, traceback.format_exc()


def work_two(args):
    idx, cfgd, seed, how = args
    try:
        cfg = ps.Cfg(**cfgd)
        se = cs.run_two_clients(cfg, seed, how)
        bad = []
        if se.crash:
            bad.append(("crash", "session ended abnormally: %s" % se.crash))
        if se.timed_out:
            bad.append(("hang", "the two-client session did not finish: some operation blocked beyond every bound"))
        hb = [o for o in se.ops if o[0] == "handler@B"]
        if se.b_dead_at is None or not hb:
            bad.append(("reference", "the scripted two-client session did not reach the point where B's link dies"))
        elif hb[0][2] is None or hb[0][2] > se.b_dead_at + se.bound + MARGIN:
            bad.append(("late", "client A's connection ended (%s) while B was connected; when B's link died at %.3f the server released B's handler at %s, "
                        "later than silence + ping_timeout + (resend_limit+1)*resend_timeout = %.3f" % (how, se.b_dead_at, hb[0][2], se.b_dead_at + se.bound)))
        if getattr(se, "server_table", 0) != 0:
            bad.append(("server-forgets", "the server still holds %d client entries after both connections ended (A: %s, then B's link died)" % (se.server_table, how)))
        return idx, cfgd, seed, ("two-clients", how), bad, se, {"n": se.n_datagrams, "ops": len(se.ops), "connect": "ok"}, None
    except Exception:
        return idx, cfgd, seed, ("two-clients", how), [], None, {}, traceback.format_exc()


def run(ctx):
    quick = ctx.tier == "quick"
    ctx.rule = ("crash-point enumeration: reference session per configuration (encoding v0 / v1 / lite x credentials x resend_limit), then for every k "
                "the link dies after the k-th datagram (lite: the byte stream becomes a black hole after the k-th write, or breaks at it) in mode both / client->server / server->client; every blocking call (connect, recv "
                "on both sides, recv_unreliable, send, disconnect, async-with exit, the server handler) is outstanding in some run; oracle: "
                "each returns/raises within silence + ping_timeout + (resend_limit+1)*resend_timeout, connect to a silent peer fails at "
                "exactly (resend_limit+1)*resend_timeout, late sends raise closed, server table empties, the address reconnects; each run is "
                "replayed through the Lean L1 model tick-exactly; plus a forceful local close() on either side while recv / recv_unreliable are pending in other tasks "
                "(released at once locally, within one delay at the peer; later recv raises end-of-stream), and a keyed server refusing the login (wrong key, "
                "expired, garbage ticket), an incompatible peer that answers SYN and CONNECT at packet level (ticket presented to a keyless port; no credentials at a keyed port), and a server handler that ends with an exception (end-of-stream escaping its receive loop, a rejected request), the client's connection block left by cancellation (a time-out scope) while tasks outside the block are blocked on the connection ; 150 unreliable datagrams nobody reads followed by ordinary traffic; a recv pending on every configured substream when fewer were negotiated; two clients on one port where one connection ends (gracefully, by silence, kicked) before the other's link dies — each followed by a new working connection from the same address; "
                "big transfers: a message / RMC request body / RMC response body of 65..255 fragments sent by either side, all at one instant or through a congested socket (fragments still to send), "
                "the link dying after the k-th datagram of the transfer in mode both / c2s / s2c: send and the remote call return or raise within the bound, a second sender on the substream is not left behind the send lock, "
                "controls to a live peer (also with one fragment lost once) delivered intact; "
                "ended-without-the-peer-learning: a local close() whose three DISCONNECTs fall into a burst loss, or an outage (either direction / both) during which the side with the smaller budget gives up, "
                "while the ended connection object stays registered (application inside its async-with block / handler busy) and the link works again: the survivor's recv, recv_unreliable, pending remote call "
                "are released, the handler returns and the server's table is empty within ping_timeout+(resend_limit+1)*resend_timeout of that instant; resend_limit 0..4 x v0/v1; "
                "closing phase over stream transports (lite over WebSocket / TCP): the closing phase started by disconnect() / leaving transport.connect() / RMCClient.disconnect() / the server's handler returning, "
                "with the stream a black hole from closing write 0 / 1 or healthy, and the j-th closing write of the client / the server / either raising a stream error (seen by the writer only, or by both ends) for every j, "
                "or the client's stream closed from outside, resend_limit 0..3: every call returns within the bound, the server's table loses the entry within the bound, later sends raise closed, the address reconnects over a new stream; "
                "transport reuse: ONE client transport used for 20..40 connections one after the other ending by a failed handshake (unserved port, SYN lost, CONNECT lost), silence (EndOfStream leaves the block), a kick, "
                "an application exception, cancellation - homogeneous histories longer than the port table (16 / 32) and mixed ones, UDP v0 / v1 and lite: every later session connects and echoes; "
                "ONE server transport on which transport.serve(handler, 1, 10) is left 20+ times by an exception / cancellation (client connected, handler busy, idle): the port is served again, the orphaned client is released within the bound; "
                "a peer that returns from the same (address, PRUDP port, type) while the server still holds the record of its previous, already ended connection whose handler lingers / is busy: "
                "first session ended gracefully / by close() / kicked / by cancellation / by silence, new attempts before / inside / after the window over ONE long-lived client transport or a new one on the same UDP source port, "
                "the old handler returning or raising at every moment of the new session (grid of ~50 instants from before its SYN to after its end), the new session ending gracefully / forcefully / kicked / by silence: "
                "every call returns within its bound, the serve() block survives, a session the server accepted works until its own end, the same and another address connect afterwards, no record stays; server side replayed through L1; "
                "distinct non-trivial = distinct (configuration, k, mode) / (configuration, scenario parameters)")
    base = dict(fragment_size=16, resend_timeout=0.5, ping_timeout=1.0)
    cfgs = []
    if quick:
        cfgs = [dict(base, version=1, credentials=False, resend_limit=2), dict(base, version=1, credentials=True, resend_limit=1),
                dict(base, version=0, credentials=False, resend_limit=0), dict(base, version=0, credentials=True, resend_limit=3)]
    else:
        for version in (1, 0):
            for creds in (False, True):
                for lim in range(5):
                    cfgs.append(dict(base, version=version, credentials=creds, resend_limit=lim))
    # the same enumeration with the RMC layer on top: an answered call, two pending calls, and (rmc = "slow") a call whose
    # send is still in progress when the connection ends
    cfgs.append(dict(base, version=1, credentials=False, resend_limit=2, rmc=True))
    cfgs.append(dict(base, version=1, credentials=False, resend_limit=1, rmc="slow"))
    # the third encoding: lite over a byte stream that becomes a black hole (both / either direction) after the k-th write, or breaks at it
    ncore = len(cfgs)
    cfgs.append(dict(base, transport="lite", version=1, credentials=False, resend_limit=2))
    if not quick:
        cfgs += [dict(base, transport="lite", version=1, credentials=True, resend_limit=1), dict(base, transport="lite", version=1, credentials=False, resend_limit=0),
                 dict(base, transport="lite", version=1, credentials=False, resend_limit=4)]
    jobs = []
    n = 0
    for ci, cfgd in enumerate(cfgs):
        ref = cs.run(ps.Cfg(**{k: v for k, v in cfgd.items() if k != "rmc"}), 1, None, rmc=cfgd.get("rmc", False))
        N = ref.n_datagrams
        jobs.append((n, cfgd, 1, None)); n += 1
        ks = range(0, N + 1)
        if quick and ci > 0:
            ks = sorted(set(ctx.rng.sample(range(0, N + 1), 8)) | {0, 1, 4})
        for k in ks:
            for mode in ("both", "c2s", "s2c") + (("break",) if cfgd.get("transport") == "lite" else ()):
                jobs.append((n, cfgd, 1, (k, mode))); n += 1
    # other ways a connection ends: a forceful local close() while other tasks are blocked on the connection (either side), and a
    # keyed server refusing the login — followed by a new connection from the same address
    sjobs = []
    for version in (1, 0):
        for lim in ((2,) if quick else (0, 1, 3)):
            for sc in ("local-close:c", "local-close:s"):
                for creds in (False, True):
                    sjobs.append((n, dict(base, version=version, credentials=creds, resend_limit=lim), 1, sc)); n += 1
            for sc in ("refused:wrong-key", "refused:expired", "refused:garbage"):
                sjobs.append((n, dict(base, version=version, credentials=True, resend_limit=lim), 1, sc)); n += 1
            for sc in ("handler-raises:eof", "handler-raises:reject", "incompatible:creds-vs-keyless", "incompatible:keyless-vs-keyed",
                       "unread-unreliable:c", "unread-unreliable:s", "cancelled-exit:0.4375", "cancelled-exit:1.3125") + (("extra-substreams:c", "extra-substreams:s") if version == 1 else ()):
                sjobs.append((n, dict(base, version=version, credentials=False, resend_limit=lim), 1, sc)); n += 1
    # two clients on one server port: one connection ends (gracefully, by silence, kicked by the server), later the other one's link dies
    tjobs = []
    for version in (1, 0):
        for lim in ((2,) if quick else (0, 1, 3)):
            for how in ("disconnect", "dies", "kicked"):
                tjobs.append((n, dict(base, version=version, credentials=False, resend_limit=lim), 1, how)); n += 1
    drv = ctx.driver("C02")
    ndiff, first = 0, None
    with multiprocessing.Pool(min(16, os.cpu_count() or 4)) as pool:
        import itertools
        for idx, cfgd, seed, kill, bad, se, stats, err in itertools.chain(pool.imap_unordered(work, jobs, chunksize=4), pool.imap_unordered(work_special, sjobs, chunksize=1),
                                                                          pool.imap_unordered(work_two, tjobs, chunksize=1)):
            if err:
                ctx.corr_break("c02-session-harness", "session crashed in the harness", {"traceback": err, "cfg": cfgd, "kill": kill})
                continue
            for key, what in bad:
                ctx.violation("c02:%s:%s" % (key, "lite" if cfgd.get("transport") == "lite" else "v%d" % cfgd["version"]), what, {"cfg": cfgd, "kill": kill, "seed": seed,
                              "ops": [[o[0], o[1], o[2], o[3]] for o in se.ops] if se else None,
                              "how": "harness/corr_C02.py work((0, cfg, seed, kill)) / harness/crash_session.run(cfg, seed, kill); kill = ('special', s): run_special(cfg, seed, s); ('two-clients', how): run_two_clients(cfg, seed, how)"})
            if se is not None and cfgd.get("transport") == "lite" and cfgd.get("rmc") != "slow":
                # stream transports: replayed through L1 from the reads / writes of the simulated streams (harness/l1_stream.py)
                r = l1_stream.compare(drv, se, "x")
                if not r.get("skipped"):
                    ctx.tag("l1-stream-replay")
                    if r.get("prefix"):
                        ctx.tag("l1-stream-replay:prefix-only")
            else:
                r = l1_corr.compare(drv, se, "x") if se is not None and cfgd.get("rmc") != "slow" and not getattr(se, "skip_l1", False) else {"ok": True, "diffs": [], "skipped": True}
            if not r["ok"]:
                ndiff += 1
                if first is None:
                    first = {"cfg": cfgd, "kill": kill, "diff": r["diffs"][0]}
            ctx.traces_validated += 0 if r.get("skipped") else 1
            ctx.case(key=(str(cfgd), str(kill)), nontrivial=True,
                     tag="%s%s:%s:connect-%s" % ("lite" if cfgd.get("transport") == "lite" else "v%d" % cfgd["version"], ":rmc" if cfgd.get("rmc") else "", kill[1] if kill else "reference", stats.get("connect")),
                     sample={"cfg": cfgd, "kill": kill, "ops": [[o[0], round(o[1], 3), None if o[2] is None else round(o[2], 3), o[3]] for o in se.ops][:12],
                             "model_lines": r.get("lines")} if idx % 97 == 0 else None)
        # big transfers in flight when the peer dies; one side's connection ended without the other learning of it (harness/c02_ended*.py)
        nd2, first2 = c02_ended_check.run_families(ctx, pool, drv.exe)
        ndiff += nd2
        if first is None:
            first = first2
        # stream writes that raise in the graceful-disconnect phase; one long-lived transport used for many connections that end abnormally
        # (harness/c02_closing.py, c02_reuse.py, c02_more_check.py) - judged on the real code
        c02_more_check.run_families(ctx, pool)
        # a peer that returns from the same (address, port, type) while the record of its previous, already ended connection is still
        # held because its handler has not returned yet (harness/c02_return.py, c02_return_check.py); server side replayed through L1
        nd3, first3 = c02_return_check.run_families(ctx, pool, drv)
        ndiff += nd3
        if first is None:
            first = first3
    # directed reproduction of the open finding D20 (known_findings.d/C02.json): lite, a connection given up without a DISCONNECT
    # and an immediate reconnect over the same transport
    import c02_lite_zombie_repro
    z = c02_lite_zombie_repro.main(wait=20.0)
    ctx.case(key="lite-reconnect-zombie", nontrivial=True, tag="directed:lite-reconnect-zombie:%s" % ("blocked" if z.get("recv_blocked") else "ok"))
    if z.get("recv_blocked"):
        ctx.violation("c02:lite-reconnect-zombie",
                      "lite: a client gives a connection up without a DISCONNECT (its block is cancelled at t=%.2f) and connects again at once over the same transport (same local port); "
                      "connect() returns, the message it sends is acknowledged, but its recv() neither returns nor raises for %.1f s (bound 2.0 s); the server started %d handler(s), "
                      "still holds %d record(s): the OLD server connection answers the new client (no session id on lite)" % (
                          z["cancelled_at"], z["recv_until"] - z["connected_at"], len(z["handlers"]), z["server_table"]),
                      {"scenario": "harness/c02_lite_zombie_repro.py", "observed": {k: (v if not isinstance(v, list) else str(v)) for k, v in z.items()}})
    ctx.exhaustive = not quick
    ctx.extra["l1_session_diffs"] = ndiff
    if ndiff and not ctx.violations:
        ctx.corr_break("l1-endpoint-correspondence", "real endpoints and the Lean L1 model disagree in %d crash-point sessions" % ndiff,
                       dict(first, theorems_no_longer_tied=["Nx.C02.connect_bound", "Nx.C02.cleanup_releases", "Nx.C02.closed_send"]))
    elif ndiff:
        ctx.extra["first_l1_diff"] = first
