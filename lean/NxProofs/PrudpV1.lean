import NxProofs.PrudpOptions
/-! v1 codec: decode ∘ encode, concatenation, progress -/
set_option linter.unusedSimpArgs false
namespace Nx.Prudp
open Nx

theorem v1_type_cases (t : Nat) : t = 0 ∨ t = 1 ∨ t = 2 ∨ (t ≠ 0 ∧ t ≠ 1 ∧ t ≠ 2) := by omega

theorem support_lt {m s : Nat} (hm : m < 256) (hs : s < 16777216) : pyOr m s 8 < 4294967296 := by
  rw [pyOr8 s hm]; omega

theorem v1Options_wf (p : Packet) (h : V1WF p) : OptsWF (v1Options p) := by
  obtain ⟨-, -, -, -, -, -, -, -, -, -, -, -, hsc, hc, hd⟩ := h
  rcases v1_type_cases p.type with ht | ht | ht | ⟨h0, h1, h2⟩
  · simp only [ht, isSynOrConnect] at hsc hc hd ⊢
    simp at hsc
    obtain ⟨hm, hs, hcs, hms⟩ := hsc
    obtain ⟨x, hx, hxl⟩ := optLen_some hcs
    simp [v1Options, ht, isSynOrConnect, OptsWF, Opts.keys, OPTION_SUPPORT, OPTION_CONNECTION_SIG,
      OPTION_MAX_SUBSTREAM_ID, OptEntryWF, hx, optBytesVal, hxl, hms, support_lt hm hs]
  · simp only [ht, isSynOrConnect] at hsc hc hd ⊢
    simp at hsc hc
    obtain ⟨hm, hs, hcs, hms⟩ := hsc
    obtain ⟨x, hx, hxl⟩ := optLen_some hcs
    simp [v1Options, ht, isSynOrConnect, OptsWF, Opts.keys, OPTION_SUPPORT, OPTION_CONNECTION_SIG,
      OPTION_MAX_SUBSTREAM_ID, OPTION_UNRELIABLE_SEQ_ID, OptEntryWF, hx, optBytesVal, hxl, hms, hc, support_lt hm hs]
  · simp only [ht, isSynOrConnect] at hsc hc hd ⊢
    simp at hd
    simp [v1Options, ht, isSynOrConnect, OptsWF, Opts.keys, OPTION_FRAGMENT_ID, OptEntryWF, hd]
  · simp [v1Options, h0, h1, h2, isSynOrConnect, OptsWF, Opts.keys]


theorem v1EncodeOptions_length (p : Packet) (h : V1WF p) : (v1EncodeOptions p).length < 256 := by
  obtain ⟨-, -, -, -, -, -, -, -, -, -, -, -, hsc, hc, hd⟩ := h
  unfold v1EncodeOptions
  rcases v1_type_cases p.type with ht | ht | ht | ⟨h0, h1, h2⟩
  · simp only [ht, isSynOrConnect] at hsc
    simp at hsc
    obtain ⟨x, hx, hxl⟩ := optLen_some hsc.2.2.1
    simp [v1Options, ht, isSynOrConnect, encodeOptions, encodeOption, OPTION_SUPPORT, OPTION_CONNECTION_SIG,
      OPTION_MAX_SUBSTREAM_ID, optInfo, hx, optBytesVal, pad16_of_length hxl, hxl]
  · simp only [ht, isSynOrConnect] at hsc
    simp at hsc
    obtain ⟨x, hx, hxl⟩ := optLen_some hsc.2.2.1
    simp [v1Options, ht, isSynOrConnect, encodeOptions, encodeOption, OPTION_SUPPORT, OPTION_CONNECTION_SIG,
      OPTION_MAX_SUBSTREAM_ID, OPTION_UNRELIABLE_SEQ_ID, optInfo, hx, optBytesVal, pad16_of_length hxl, hxl]
  · simp [v1Options, ht, isSynOrConnect, encodeOptions, encodeOption, OPTION_FRAGMENT_ID, optInfo]
  · simp [v1Options, h0, h1, h2, isSynOrConnect, encodeOptions]

theorem v1Verify_enc (p : Packet) : v1VerifyOptions p.type (v1Options p) = true := by
  rcases v1_type_cases p.type with ht | ht | ht | ⟨h0, h1, h2⟩
  · simp [v1VerifyOptions, v1Options, ht, isSynOrConnect, Opts.keysEq, Opts.keys, OPTION_SUPPORT, OPTION_CONNECTION_SIG,
      OPTION_MAX_SUBSTREAM_ID]
  · simp [v1VerifyOptions, v1Options, ht, isSynOrConnect, Opts.keysEq, Opts.keys, OPTION_SUPPORT, OPTION_CONNECTION_SIG,
      OPTION_MAX_SUBSTREAM_ID, OPTION_UNRELIABLE_SEQ_ID]
  · simp [v1VerifyOptions, v1Options, ht, isSynOrConnect, Opts.keysEq, Opts.keys, OPTION_FRAGMENT_ID]
  · simp [v1VerifyOptions, v1Options, h0, h1, h2, isSynOrConnect, Opts.keysEq, Opts.keys]

theorem v1OptFields_enc (p : Packet) (h : V1WF p) :
    v1OptFields p.type (v1Options p) = .ok {
      minorVersion := p.minorVersion, supportedFunctions := p.supportedFunctions,
      connectionSignature := p.connectionSignature, maxSubstreamId := p.maxSubstreamId,
      initialUnreliableId := p.initialUnreliableId, fragmentId := p.fragmentId } := by
  obtain ⟨-, -, -, -, -, -, -, -, -, -, -, -, hsc, hc, hd⟩ := h
  rcases v1_type_cases p.type with ht | ht | ht | ⟨h0, h1, h2⟩
  · simp only [ht, isSynOrConnect] at hsc hc hd
    simp at hsc hc hd
    obtain ⟨hm, hs, hcs, hms⟩ := hsc
    obtain ⟨x, hx, hxl⟩ := optLen_some hcs
    simp [v1OptFields, v1Options, ht, isSynOrConnect, Opts.getInt, Opts.getBytes, Opts.get, List.lookup,
      OPTION_SUPPORT, OPTION_CONNECTION_SIG, OPTION_MAX_SUBSTREAM_ID, OPTION_UNRELIABLE_SEQ_ID, OPTION_FRAGMENT_ID,
      hx, optBytesVal, bind, Except.bind, pure, Except.pure, pyOr8 _ hm, hc, hd]
    omega
  · simp only [ht, isSynOrConnect] at hsc hc hd
    simp at hsc hc hd
    obtain ⟨hm, hs, hcs, hms⟩ := hsc
    obtain ⟨x, hx, hxl⟩ := optLen_some hcs
    simp [v1OptFields, v1Options, ht, isSynOrConnect, Opts.getInt, Opts.getBytes, Opts.get, List.lookup,
      OPTION_SUPPORT, OPTION_CONNECTION_SIG, OPTION_MAX_SUBSTREAM_ID, OPTION_UNRELIABLE_SEQ_ID, OPTION_FRAGMENT_ID,
      hx, optBytesVal, bind, Except.bind, pure, Except.pure, pyOr8 _ hm, hd]
    omega
  · simp only [ht, isSynOrConnect] at hsc hc hd
    simp at hsc hc hd
    obtain ⟨hm, hs, hcs, hms⟩ := hsc
    simp [v1OptFields, v1Options, ht, isSynOrConnect, Opts.getInt, Opts.getBytes, Opts.get, List.lookup,
      OPTION_FRAGMENT_ID, bind, Except.bind, pure, Except.pure, hm, hs, hcs, hms, hc]
  · simp only [h0, h1, h2, isSynOrConnect] at hsc hc hd
    simp [h0, h1, h2] at hsc hc hd
    obtain ⟨hm, hs, hcs, hms⟩ := hsc
    simp [v1OptFields, v1Options, h0, h1, h2, isSynOrConnect, bind, Except.bind, pure, Except.pure, hm, hs, hcs, hms, hc, hd]


theorem v1RdHeader_enc (p : Packet) (os : Nat) (rest : Bytes) (hos : os < 256)
    (hpl : p.payload.length < 65536) (hst : p.sourceType < 16) (hsp : p.sourcePort < 16)
    (hdt : p.destType < 16) (hdp : p.destPort < 16) (hty : p.type < 16) (hfl : p.flags < 4096)
    (hse : p.sessionId < 256) (hsub : p.substreamId < 256) (hpid : p.packetId < 65536) :
    v1RdHeader ([0xEA, 0xD0] ++ v1EncodeHeader p os ++ rest) =
      .ok ({ optionSize := os, payloadSize := p.payload.length, source := p.sourcePort + p.sourceType * 16,
             dest := p.destPort + p.destType * 16, typeFlags := p.type + p.flags * 16,
             session := p.sessionId, substream := p.substreamId, packetId := p.packetId }, rest) := by
  have h1 : p.sourcePort + p.sourceType * 16 < 256 := by omega
  have h2 : p.destPort + p.destType * 16 < 256 := by omega
  have h3 : p.type + p.flags * 16 < 65536 := by omega
  simp only [v1RdHeader, v1EncodeHeader, pyOr4 _ hsp, pyOr4 _ hdp, pyOr4 _ hty, List.append_assoc]
  have hm : rd 2 ([0xEA, 0xD0] ++ (u8 1 ++ (u8 os ++ (u16le p.payload.length ++ (u8 (p.sourcePort + p.sourceType * 16) ++
      (u8 (p.destPort + p.destType * 16) ++ (u16le (p.type + p.flags * 16) ++ (u8 p.sessionId ++ (u8 p.substreamId ++
      (u16le p.packetId ++ rest)))))))))) = .ok ([0xEA, 0xD0], _) := rd_append' _ _ rfl
  rw [hm]
  simp only [ne_eq, not_true_eq_false, if_false]
  rw [if_neg (by simp; omega)]
  rw [rdU8_u8 _ _ (by omega)]
  simp only [ne_eq, not_true_eq_false, if_false]
  rw [rdU8_u8 _ _ hos]; simp only []
  rw [rdU16_u16le _ _ hpl]; simp only []
  rw [rdU8_u8 _ _ h1]; simp only []
  rw [rdU8_u8 _ _ h2]; simp only []
  rw [rdU16_u16le _ _ h3]; simp only []
  rw [rdU8_u8 _ _ hse]; simp only []
  rw [rdU8_u8 _ _ hsub]; simp only []
  rw [rdU16_u16le _ _ hpid]

theorem v1DecodeOne_encode (p : Packet) (h : V1WF p) (rest : Bytes) :
    v1DecodeOne (v1Encode p ++ rest) = .ok (p, rest) := by
  have hol := v1EncodeOptions_length p h
  have hdo : decodeOptions (v1EncodeOptions p) = .ok (v1Options p) := options_roundtrip _ (v1Options_wf p h)
  have hof := v1OptFields_enc p h
  obtain ⟨hver, hst, hsp, hdt, hdp, hty, hfl, hse, hsub, hpid, hsig, hpl, -, -, -⟩ := h
  obtain ⟨sg, hsg, hsgl⟩ := optLen_some hsig
  unfold v1DecodeOne v1Encode
  simp only [List.append_assoc]
  have := v1RdHeader_enc p (v1EncodeOptions p).length
    (sg ++ (v1EncodeOptions p ++ (p.payload ++ rest))) hol hpl hst hsp hdt hdp hty hfl hse hsub hpid
  simp only [List.append_assoc] at this
  simp only [hsg, Option.getD_some]
  rw [this]
  simp only []
  rw [rd_append' _ _ hsgl]; simp only []
  rw [rd_append]; simp only []
  rw [hdo]; simp only []
  have e1 : (p.type + p.flags * 16) % 16 = p.type := by omega
  have e2 : (p.type + p.flags * 16) / 16 = p.flags := by omega
  rw [e1, e2, v1Verify_enc, hof]
  simp only [Bool.not_true, Bool.false_eq_true, if_false]
  rw [rd_append]
  simp only [Except.ok.injEq, Prod.mk.injEq, and_true]
  have e3 : (p.sourcePort + p.sourceType * 16) / 16 = p.sourceType := by omega
  have e4 : (p.sourcePort + p.sourceType * 16) % 16 = p.sourcePort := by omega
  have e5 : (p.destPort + p.destType * 16) / 16 = p.destType := by omega
  have e6 : (p.destPort + p.destType * 16) % 16 = p.destPort := by omega
  rw [e3, e4, e5, e6, ← hver, ← hsg]


theorem v1Encode_append_isEmpty (p : Packet) (x : Bytes) : (v1Encode p ++ x).isEmpty = false := by
  simp [v1Encode]

/-- several packets in one datagram decode to the same sequence -/
theorem v1Loop_concat (ps : List Packet) (hwf : ∀ p ∈ ps, V1WF p) :
    ∀ fuel, (ps.flatMap v1Encode).length < fuel → v1Loop fuel (ps.flatMap v1Encode) = .ok ps := by
  induction ps with
  | nil =>
    intro fuel hf
    cases fuel with
    | zero => simp at hf
    | succ f => simp [v1Loop]
  | cons p ps ih =>
    intro fuel hf
    cases fuel with
    | zero => simp at hf
    | succ f =>
      simp only [List.flatMap_cons] at hf ⊢
      unfold v1Loop
      rw [v1Encode_append_isEmpty]
      simp only [Bool.false_eq_true, if_false]
      rw [v1DecodeOne_encode p (hwf p (by simp))]
      simp only []
      have hpos : 0 < (v1Encode p).length := by simp [v1Encode]
      rw [ih (fun q hq => hwf q (by simp [hq])) f (by simp only [List.length_append] at hf; omega)]

theorem v1Decode_concat (ps : List Packet) (hwf : ∀ p ∈ ps, V1WF p) : v1Decode (ps.flatMap v1Encode) = .ok ps :=
  v1Loop_concat ps hwf _ (by omega)

theorem v1Decode_encode (p : Packet) (h : V1WF p) : v1Decode (v1Encode p) = .ok [p] := by
  have := v1Decode_concat [p] (by simpa using h)
  simpa using this

/-! ### progress -/

theorem rdU8_len {b r : Bytes} {n : Nat} (h : rdU8 b = .ok (n, r)) : b.length = r.length + 1 := by
  obtain ⟨rfl, -⟩ := rdU8_inv h; simp; omega
theorem rdU16_len {b r : Bytes} {n : Nat} (h : rdU16 b = .ok (n, r)) : b.length = r.length + 2 := by
  obtain ⟨rfl, -⟩ := rdU16_inv h; simp; omega
theorem rdU32_len {b r : Bytes} {n : Nat} (h : rdU32 b = .ok (n, r)) : b.length = r.length + 4 := by
  obtain ⟨rfl, -⟩ := rdU32_inv h; simp; omega
theorem rd_len {n : Nat} {b x r : Bytes} (h : rd n b = .ok (x, r)) : b.length = r.length + n := by
  obtain ⟨rfl, rfl⟩ := rd_inv h; simp; omega

theorem v1RdHeader_len {d r : Bytes} {h : V1Hdr} (hh : v1RdHeader d = .ok (h, r)) : d.length = r.length + 14 := by
  unfold v1RdHeader at hh
  split at hh; · cases hh
  rename_i magic r0 h0
  split at hh; · cases hh
  split at hh; · cases hh
  split at hh; · cases hh
  rename_i v r1 h1
  split at hh; · cases hh
  split at hh; · cases hh
  rename_i _ r2 h2
  split at hh; · cases hh
  rename_i _ r3 h3
  split at hh; · cases hh
  rename_i _ r4 h4
  split at hh; · cases hh
  rename_i _ r5 h5
  split at hh; · cases hh
  rename_i _ r6 h6
  split at hh; · cases hh
  rename_i _ r7 h7
  split at hh; · cases hh
  rename_i _ r8 h8
  split at hh; · cases hh
  rename_i _ r9 h9
  simp only [Except.ok.injEq, Prod.mk.injEq] at hh
  obtain ⟨-, rfl⟩ := hh
  have := rd_len h0; have := rdU8_len h1; have := rdU8_len h2; have := rdU16_len h3; have := rdU8_len h4
  have := rdU8_len h5; have := rdU16_len h6; have := rdU8_len h7; have := rdU8_len h8; have := rdU16_len h9
  omega

/-- every successful iteration of the v1 loop consumes at least 30 bytes (magic, header, signature) -/
theorem v1DecodeOne_progress {d r : Bytes} {p : Packet} (h : v1DecodeOne d = .ok (p, r)) :
    r.length + 30 ≤ d.length := by
  unfold v1DecodeOne at h
  simp only [] at h
  repeat' split at h
  all_goals first | (cases h; done) | skip
  simp only [Except.ok.injEq, Prod.mk.injEq] at h
  obtain ⟨-, rfl⟩ := h
  have := v1RdHeader_len ‹v1RdHeader d = _›
  have := rd_len ‹rd 16 _ = _›
  have := rd_len ‹rd (V1Hdr.optionSize _) _ = _›
  have := rd_len ‹rd (V1Hdr.payloadSize _) _ = _›
  omega

/-- the fuel bound of the loop is never what decides the result -/
theorem v1Loop_fuel : ∀ (f1 f2 : Nat) (d : Bytes), d.length < f1 → d.length < f2 → v1Loop f1 d = v1Loop f2 d := by
  intro f1
  induction f1 with
  | zero => intro f2 d h; omega
  | succ f ih =>
    intro f2 d h1 h2
    cases f2 with
    | zero => omega
    | succ g =>
      unfold v1Loop
      split
      · rfl
      · cases hd : v1DecodeOne d with
        | error e => rfl
        | ok v =>
          obtain ⟨p, r⟩ := v
          have := v1DecodeOne_progress hd
          simp only []
          rw [ih g r (by omega) (by omega)]

end Nx.Prudp
