"""C17 — SEVERAL back-ends in ONE process.

The property quantifies over every login a process performs, and a process may talk to more than one deployment: two or
three authentication servers (different hosts and / or ports), each with its own secure server(s), its own accounts and its
own BackEndClient, all alive in the same interpreter.  What one deployment answers must never leak into a login through
another one — also when the answers are BYTE-IDENTICAL on the wire: every deployment that co-hosts its secure server
advertises the very same placeholder url (address 0.0.0.1, port 1, same PID / CID / sid), several front-ends of one game
advertise the same real url, and user names / pids are only unique within a deployment.

run_multi(sess) runs such a process in the deterministic simulation (harness/sim.py), with the real backend.connect /
BackEndClient.login, one real generated Authentication(NX)Server per deployment (scripted like backend_sim's: it answers a
call only with the data of the account that call names, and only if that account is ITS account), and real keyed
rmc.serve secure servers:

    deployment j:  authentication server at (host_j, port_j), stream 1; its co-hosted secure server on the same transport,
                   stream 2, key K_j (what the placeholder url 0.0.0.1:1 sid 2 means for THIS deployment); its own secure
                   host (OWN_HOST_j), stream 1, key K_j
    shared:        one secure server at SHARED_HOST, stream 1, key K_shared, advertised with the identical real url by every
                   deployment (front-ends of one game)

    station of a step: 'placeholder' | 'shared' | 'own'.  The placeholder and the shared url are byte-identical across the
    deployments of a session (the CID is the session's).  K_j are different keys, or (same_key) one key for all: a login that
    strays to another deployment's server is then refused (silence) resp. admitted THERE — both are judged.

    schedules: 'seq' (one login after the other), 'hold' (earlier secure connections stay open), 'conc' (all in flight);
    BackEndClients: connected 'upfront' (all before the first login), 'lazy' (right before the deployment's first login) or
    'fresh' (a new one for every login, closed afterwards; 'seq' only).

    accounts: distinct, or — across deployments — the same user name under another pid (with another or the same password),
    the same pid under another name, the same name and pid with another password, or the very same name / pid / password (the guest account is that by nature).

Oracle (judge): a protocol-following login yields exactly one admission, at ITS deployment's server for the advertised
station, as the issued pid; the handler there and the client see that pid; every authentication call of the login arrived
at ITS authentication server; request_ticket iff needed.  A failure script raises, admits nobody anywhere and never enters
the login body.  Anything that belongs to no login (an admission nobody asked for, a call at the wrong authentication server)
fails the session.  Every login is also compared with the Lean `Backend.plan` of ITS deployment (settings, authentication
host and port: theorem `placeholder` resolves 0.0.0.1 to the host / port of the client that logs in), and every recorded
process_login_request of every keyed server is replayed into `Backend.serve` under that server's key.
"""
import contextlib, itertools, struct
import anyio
import backend_sim as B
from backend_sim import _STEP

HOSTS = ["10.0.1.1", "10.0.2.1", "10.0.3.1"]
OWN_HOSTS = ["10.0.1.9", "10.0.2.9", "10.0.3.9"]
OWN_PORT = 60010
SHARED_HOST, SHARED_PORT = "10.0.9.9", 60010
KEYS = [b"secure-key-of-deployment-A", b"secure-key-of-deployment-B", b"secure-key-of-deployment-C"]
SHARED_KEY = b"secure-key-of-the-shared-server"
ONE_KEY = B.SECURE_KEY
LAYOUTS = {"hosts": lambda j: (HOSTS[j], 60000), "ports": lambda j: (HOSTS[0], 60000 + 100 * j), "both": lambda j: (HOSTS[j], 60000 + 100 * j)}
NAMES = "ABC"
STATIONS = ["placeholder", "shared", "own"]
RELATIONS = ["same-username", "same-login", "same-pid", "same-both", "same-all"]


# bound on event-loop turns per simulated session (a login session takes a few thousand; see sim.VLoop.max_turns)
MAX_TURNS = 2_000_000

def key_of(sess, j, station):
    if sess.get("same_key"): return ONE_KEY
    return SHARED_KEY if station == "shared" else KEYS[j]


def advertised(sess, j, station):
    """(address, port, sid) of the url deployment j hands out for this kind of station"""
    if station == "placeholder": return "0.0.0.1", 1, 2
    if station == "shared": return SHARED_HOST, SHARED_PORT, 1
    return OWN_HOSTS[j], OWN_PORT, 1


def server_label(sess, j, station):
    return "shared" if station == "shared" else "%s-%s" % (NAMES[j], "cohosted" if station == "placeholder" else "own")


def expected_address(sess, j, station):
    d = sess["deploys"][j]
    if station == "placeholder": return (d["host"], d["port"]), 2
    if station == "shared": return (SHARED_HOST, SHARED_PORT), 1
    return (OWN_HOSTS[j], OWN_PORT), 1


def step_case(sess, k):
    st = sess["steps"][k]
    d = sess["deploys"][st["deploy"]]
    c = {key: sess[key] for key in ("key_size", "ticket_version", "pid_size", "transport", "seed")}
    c.update(version=d["version"], client_version=d["client_version"], kd=d["kd"], cid=sess["cid"])
    c.update(st)
    c["placeholder"] = st["station"] == "placeholder"
    return c


def run_multi(sess):
    n = len(sess["steps"])
    mode, conn = sess["mode"], sess["connect"]
    nd = len(sess["deploys"])
    out = {"steps": [dict(B.new_obs(), handlers=[], entered=False) for _ in range(n)], "stray": dict(B.new_obs(), handlers=[]), "error": None,
           "admissions": [], "presentations": []}
    cases = [step_case(sess, k) for k in range(n)]
    with B.Sim(sess.get("seed", 0)) as sim:
        sim.install_factories()
        if sess.get("shared_settings"):
            one = B.make_settings(cases[0])
            settings = [one] * nd
        else:
            settings = [B.make_settings(dict(cases[0], version=d["version"], client_version=d["client_version"], kd=d["kd"])) for d in sess["deploys"]]
        recs = [None] * n
        current = [None]
        labels = {}                                  # (host, port, stream) -> server label

        def issue(k):
            c = cases[k]
            j = c["deploy"]
            first, second = B.build_tickets(c, settings[j], sim.rng, sim.clock.time(), secure_key=key_of(sess, j, c["station"]))
            out["steps"][k]["tickets"] = (first.hex(), second.hex())
            addr, port, sid = advertised(sess, j, c["station"])
            station = B.common.StationURL(address=addr, port=port, PID=B.SECURE_PID, CID=sess["cid"], sid=sid, stream=10, type=2)
            out["steps"][k]["url"] = str(station)
            recs[k] = B._Rec(c, out["steps"][k], first, second, station)

        def resolver(j):
            def resolve(username=None, pid=None):
                who = "user=%r" % username if username is not None else "pid=%r" % pid
                if mode != "conc":
                    k = current[0]
                    if k is None or recs[k] is None:
                        out["stray"]["calls"].append("authentication server %s: call for %s while no login runs" % (NAMES[j], who)); return None
                    c = cases[k]
                    if c["deploy"] != j:
                        out["stray"]["calls"].append("authentication server %s: call for %s while login #%d runs through deployment %s" % (NAMES[j], who, k, NAMES[c["deploy"]])); return None
                    if (username is not None and username != c["username"]) or (pid is not None and pid != c["pid"]):
                        out["stray"]["calls"].append("authentication server %s: call for %s while login #%d (%r, pid %r) runs" % (NAMES[j], who, k, c["username"], c["pid"])); return None
                    return recs[k]
                for k, c in enumerate(cases):
                    if c["deploy"] == j and recs[k] is not None and ((username is not None and c["username"] == username) or (pid is not None and c["pid"] == pid)):
                        return recs[k]
                out["stray"]["calls"].append("authentication server %s: call for %s, not an account of a login running through it" % (NAMES[j], who))
                return None
            return resolve

        class LabelProbe:
            PROTOCOL_ID = B.PROBE_PROTOCOL
            def __init__(self, label): self.label = label
            async def logout(self, client): pass
            async def handle(self, client, method_id, input, output):
                k = input.u32()
                (out["steps"][k] if k < n else out["stray"])["handlers"].append([self.label, client.pid()])
                output.u64(client.pid() if client.pid() is not None else 0xFFFFFFFFFFFFFFFF)

        # every admission of every keyed server: process_login_request(login=True) that returned
        orig_plr = B.prudp.PRUDPServerStream.process_login_request
        def plr_rec(self, data, client, login=True):
            if self.key is None: return orig_plr(self, data, client, login)
            where = "%s:%s/%s" % (tuple(self.addr) + (self.port,)) if isinstance(self.addr, (tuple, list)) else "%s/%s" % (self.addr, self.port)
            rec = {"server": where, "key": bytes(self.key).hex(), "data": bytes(data).hex(), "now": B.ticks(sim.now()), "login": bool(login),
                   "step": current[0] if mode != "conc" else None}
            out["presentations"].append(rec)
            try:
                r = orig_plr(self, data, client, login)
            except Exception as e:
                name = B.exc_name(e)
                rec["result"] = "err " + (name[4:] if name.startswith("exc ") else name)
                raise
            rec["result"] = ("accept %d %d %s" % (client.user_pid, client.user_cid, bytes(r).hex())) if login else ("again " + bytes(r).hex())
            return r

        saved = []
        for cls in (B.prudp.PRUDPDatagramTransport, B.prudp.PRUDPSocketTransport):
            orig = cls.serve
            def wrapped(self, handler, port, type=10, key=None, _orig=orig, **kw):
                async def h(client):
                    if key is not None:
                        la = self.local_address() if hasattr(self, "local_address") else None
                        where = (tuple(la) + (port,)) if la else (None, None, port)
                        out["admissions"].append({"server": labels.get(where, "%s:%s/%s" % where), "pid": client.pid(), "step": current[0] if mode != "conc" else None, "at": sim.now()})
                    await handler(client)
                return _orig(self, h, port, type, key, **kw)
            saved.append((cls, orig)); cls.serve = wrapped
        orig_connect = B.backend.rmc.connect
        def connect_rec(settings, host, port, vport=1, context=None, credentials=None, servers=[]):
            if credentials is not None:
                k = _STEP.get()
                (out["steps"][k] if k is not None else out["stray"])["attempts"].append(
                    (host, port, vport, credentials.pid, credentials.cid, credentials.ticket.session_key.hex(), credentials.ticket.internal.hex()))
            return orig_connect(settings, host, port, vport, context, credentials, servers)
        orig_decrypt = B.kerberos.ClientTicket.decrypt.__func__
        def decrypt_rec(cls, data, key, settings):
            k = _STEP.get()
            (out["steps"][k] if k is not None else out["stray"])["keys"].append(bytes(key).hex())
            return orig_decrypt(cls, data, key, settings)

        def login_cm(be, c):
            if c.get("guest"): return be.login_guest()
            kwargs = {}
            if c.get("password") is not None: kwargs["password"] = c["password"]
            if c["extra"]:
                info = B.authentication.AuthenticationInfo()
                info.token = "tok"; info.ngs_version = 3; info.token_type = 1; info.server_version = 0
                kwargs["auth_info"] = info
            return be.login(c["username"], **kwargs)

        clients = [None] * nd
        client_stack = [None]

        async def client_for(j, stack):
            d = sess["deploys"][j]
            return await stack.enter_async_context(B.backend.connect(settings[j], d["host"], d["port"]))

        async def one_step(k, held=None, gate=None):
            c, o = cases[k], out["steps"][k]
            j = c["deploy"]
            async with contextlib.AsyncExitStack() as own:
                try:
                    if conn == "fresh": be = await client_for(j, own)
                    else:
                        if clients[j] is None: clients[j] = await client_for(j, client_stack[0])
                        be = clients[j]
                    _STEP.set(k)
                    if mode != "conc": current[0] = k
                    issue(k)
                    if held is not None:
                        sc = await held.enter_async_context(login_cm(be, c))
                        o["entered"] = True
                        o["client_pid"] = sc.pid()
                        o["probe"] = struct.unpack("<Q", await sc.request(B.PROBE_PROTOCOL, 1, struct.pack("<I", k)))[0]
                    else:
                        async with login_cm(be, c) as sc:
                            o["entered"] = True
                            o["client_pid"] = sc.pid()
                            o["probe"] = struct.unpack("<Q", await sc.request(B.PROBE_PROTOCOL, 1, struct.pack("<I", k)))[0]
                            if gate is not None: await gate()
                except Exception as e:
                    o["error"] = B.exc_name(e)
                    o["error_text"] = B.exc_text(e)
                finally:
                    _STEP.set(None)

        async def main():
            async with contextlib.AsyncExitStack() as stack:
                async def secure(label, s, host, port, key, transport=None, sid=1):
                    labels[(host, port, sid)] = label
                    if transport is not None: await stack.enter_async_context(B.rmc.serve_on_transport(s, [LabelProbe(label)], transport, sid, key=key))
                    else: await stack.enter_async_context(B.rmc.serve(s, [LabelProbe(label)], host, port, vport=sid, key=key))
                for j, d in enumerate(sess["deploys"]):
                    auth = B.make_auth_server_dyn(d["version"], resolver(j))
                    transport = await stack.enter_async_context(B.prudp.serve_transport(settings[j], d["host"], d["port"]))
                    await stack.enter_async_context(B.rmc.serve_on_transport(settings[j], [auth], transport, 1))
                    await secure(server_label(sess, j, "placeholder"), settings[j], d["host"], d["port"], key_of(sess, j, "placeholder"), transport, 2)
                    await secure(server_label(sess, j, "own"), settings[j], OWN_HOSTS[j], OWN_PORT, key_of(sess, j, "own"))
                await secure("shared", settings[0], SHARED_HOST, SHARED_PORT, key_of(sess, 0, "shared"))
                client_stack[0] = await stack.enter_async_context(contextlib.AsyncExitStack())
                if conn == "upfront":
                    for j in range(nd): clients[j] = await client_for(j, client_stack[0])
                if mode == "seq":
                    for k in range(n): await one_step(k)
                elif mode == "hold":
                    async with contextlib.AsyncExitStack() as held:
                        client_stack[0] = held       # lazily connected BackEndClients and held connections are closed in reverse order of creation
                        for k in range(n): await one_step(k, held=held)
                else:
                    if conn == "lazy":           # connected one after the other, then all logins start together
                        for j in sorted({c["deploy"] for c in cases}, key=lambda j: [c["deploy"] for c in cases].index(j)):
                            clients[j] = await client_for(j, client_stack[0])
                    waiting = [0]; pending = [n]; ev = anyio.Event()
                    def settle():
                        if waiting[0] >= pending[0]: ev.set()
                    async def gate():
                        waiting[0] += 1; settle()
                        await ev.wait()
                    async def task(k):
                        await one_step(k, gate=gate)
                        if out["steps"][k]["probe"] is None:
                            pending[0] -= 1; settle()
                    async with anyio.create_task_group() as tg:
                        for k in range(n): tg.start_soon(task, k)
                current[0] = None

        B.backend.rmc.connect = connect_rec
        B.kerberos.ClientTicket.decrypt = classmethod(decrypt_rec)
        B.prudp.PRUDPServerStream.process_login_request = plr_rec
        try:
            (setattr(sim.loop, "max_turns", MAX_TURNS), sim.run(main()))[1]
        except BaseException as e:
            if isinstance(e, (KeyboardInterrupt, SystemExit)): raise
            out["error"] = B.exc_name(e)
            out["error_text"] = B.exc_text(e)
        finally:
            B.backend.rmc.connect = orig_connect
            B.kerberos.ClientTicket.decrypt = classmethod(orig_decrypt)
            B.prudp.PRUDPServerStream.process_login_request = orig_plr
            for cls, orig in saved: cls.serve = orig
        out["vtime"] = sim.now()
    # attribute the admissions to the logins: sequential schedules by the login that was running, concurrent ones by (server, pid)
    for a in out["admissions"]:
        k = a["step"]
        if mode == "conc":
            k = None
            cands = [i for i, c in enumerate(cases) if c["pid"] == a["pid"] and not out["steps"][i]["accepts"]]
            right = [i for i in cands if server_label(sess, cases[i]["deploy"], cases[i]["station"]) == a["server"]]
            due = [i for i in right if cases[i]["kind"] == "matrix"]          # a login that is entitled to this admission first
            if cands: k = (due or right or cands)[0]
        (out["steps"][k] if k is not None else out["stray"])["accepts"].append([a["server"], a["pid"]])
    return out


def worker(sess):
    try:
        return run_multi(sess)
    except BaseException as e:
        return {"crash": repr(e)}


def run_fresh(multis, nproc=16):
    """every process of the family in an operating-system process of its own (forked from a parent that has not run the library):
    what the interpreter has seen before a login is exactly the earlier logins of ITS scenario, so a report replays as it is"""
    import multiprocessing, os
    if not multis: return []
    with multiprocessing.get_context("fork").Pool(min(nproc, os.cpu_count() or 4, len(multis)), maxtasksperchild=1) as pool:
        return pool.map(worker, multis, chunksize=1)


# ---------------------------------------------------------------------------------------------------------------
# the property

def judge(sess, k, o):
    c = step_case(sess, k)
    j = c["deploy"]
    label = server_label(sess, j, c["station"])
    if c["kind"] == "matrix":
        (host, port), sid = expected_address(sess, j, c["station"])
        if o["error"] is not None: return "login through a protocol-following authentication server failed: %s%s" % (o["error"], " (%s)" % o["error_text"] if o.get("error_text") else "")
        if len(o["accepts"]) != 1: return "expected exactly one admission (at %s as pid %r), saw %r" % (label, c["pid"], o["accepts"])
        if o["accepts"][0][0] != label: return "admitted at secure server %r, but the station its authentication server advertised is %r" % (o["accepts"][0][0], label)
        if o["accepts"][0][1] != c["pid"]: return "secure server authenticated pid %r, issued %r" % (o["accepts"][0][1], c["pid"])
        if o["handlers"] != [[label, c["pid"]]] or o["probe"] != c["pid"]: return "the handlers that served this login's probe call: %r, expected [[%r, %r]]" % (o["handlers"], label, c["pid"])
        if o["client_pid"] != c["pid"]: return "client-side pid() is %r, issued %r" % (o["client_pid"], c["pid"])
        if not o["attempts"] or tuple(o["attempts"][0][:3]) != (host, port, sid): return "asked rmc.connect for %r, expected %r" % ([a[:3] for a in o["attempts"]], (host, port, sid))
        if any(x.startswith("requestTicket") for x in o["calls"]) != (not c["first_for_secure"]): return "request_ticket issued=%r but first ticket for secure server=%r" % (o["calls"], c["first_for_secure"])
        if not c["first_for_secure"] and "requestTicket %d %d" % (c["pid"], B.SECURE_PID) not in o["calls"]: return "request_ticket called with %r" % (o["calls"],)
        return None
    if o["error"] is None or o["accepts"] or o["handlers"] or o.get("entered"):
        return "failure script '%s' still produced a connection: error=%r admissions=%r%s" % (c["kind"], o["error"], o["accepts"], ", login() yielded a client" if o.get("entered") else "")
    return None


def judge_whole(sess, o):
    if o["error"] is not None: return "the process as a whole ended with %s (%s)" % (o["error"], o.get("error_text"))
    st = o["stray"]
    bad = {f: st[f] for f in ("calls", "accepts", "attempts", "keys", "handlers") if st[f]}
    if bad: return "activity that belongs to no login of the process: %r" % (bad,)
    return None


def describe(sess, k, o=None):
    c = step_case(sess, k)
    d = sess["deploys"][c["deploy"]]
    who = "login_guest()" if c.get("guest") else "login(%r, password=%r%s)" % (c["username"], c.get("password"), ", auth_info=<AuthenticationInfo>" if c["extra"] else "")
    addr, port, sid = advertised(sess, c["deploy"], c["station"])
    txt = "#%d deployment %s (authentication server %s:%d, nex.version %d, key derivation %d) %s [issued pid %d%s], advertised station address=%s;port=%d;sid=%d;PID=%d;CID=%d = secure server %s" % (
        k, NAMES[c["deploy"]], d["host"], d["port"], d["version"], d["kd"], who, c["pid"], "" if c["kind"] == "matrix" else ", server script: " + c["kind"][5:],
        addr, port, sid, B.SECURE_PID, sess["cid"], server_label(sess, c["deploy"], c["station"]))
    if o is not None:
        so = o["steps"][k]
        txt += " -> %s" % (so["error"] or "connected; admitted at %r" % (so["accepts"],))
    return txt


# ---------------------------------------------------------------------------------------------------------------
# the Lean side

def plan_line(sess, k, o):
    from nintendo.nex import common
    c = step_case(sess, k)
    d = sess["deploys"][c["deploy"]]
    tickets = o["steps"][k].get("tickets")
    if tickets is None: return None
    first_ticket, second_ticket = (bytes.fromhex(t) for t in tickets)
    err = lambda name: common.Result.error(name).code()
    fault = c.get("fault")
    addr, port, sid = advertised(sess, c["deploy"], c["station"])
    if fault == "first-rmc-error": first = "fail %d" % err("Authentication::UnderMaintenance")
    elif fault == "first-error-result" and c["version"] >= 40400: first = "fail %d" % err("Authentication::ValidationFailed")
    else:
        res = err("Authentication::ValidationFailed") if fault == "first-error-result" else 0x00010001
        first = "resp %d %d %s %s %s %d %d %d %d" % (res, c["pid"], first_ticket.hex(), c["source_key_text"] or "~", addr, port, B.SECURE_PID, sess["cid"], sid)
    if fault == "second-rmc-error": second = "fail %d" % err("Authentication::TokenExpired")
    else: second = "resp %d %s" % (err("Authentication::InvalidParam") if fault == "second-error-result" else 0x00010001, second_ticket.hex())
    pw = "none" if c.get("password") is None else (c["password"].encode().hex() or "-")
    return "plan %d %d %d %d %d %s %d %s %s %d %s %s" % (c["version"], c["client_version"], c["kd"], c["key_size"], c["pid_size"],
                                                       d["host"], d["port"], c["username"], pw, 1 if c["extra"] else 0, first, second)


def serve_jobs(sess, o):
    from l1_trace import tz_offset
    tz = tz_offset()
    servers = {}
    for r in o.get("presentations") or []: servers.setdefault((r["server"], r["key"]), []).append(r)
    jobs = []
    for (server, key), recs in sorted(servers.items()):
        head = "serve %d %d %d %d %d %s" % (sess["key_size"], sess["pid_size"], sess["ticket_version"], 1_700_000_000, tz, key)
        jobs.append((" ;; ".join([head] + ["%s %d" % (r["data"] or "-", r["now"]) for r in recs]), server, recs))
    return jobs


# ---------------------------------------------------------------------------------------------------------------
# generator

def make_multi(rng, seed, order, mode, conn, stations, nd=None, relation=None, kinds=None, uniform=None, layout=None, transport=None, same_key=None):
    import corr_C17 as M
    nd = nd or (max(order) + 1)
    layout = layout or rng.choice(list(LAYOUTS))
    uniform = rng.random() < 0.5 if uniform is None else uniform
    base = dict(version=rng.choice(M.BANDS), client_version=3 + seed % 5, kd=rng.choice([0] + [1] * 11))
    deploys = []
    for j in range(nd):
        host, port = LAYOUTS[layout](j)
        d = dict(base) if uniform else dict(version=rng.choice(M.BANDS + [0, 39999, 40399, 40401]), client_version=3 + (seed + j) % 5, kd=rng.choice([0] + [1] * 11))
        d.update(host=host, port=port)
        deploys.append(d)
    sess = dict(multi=True, seed=seed, key_size=rng.choice([16, 32]), ticket_version=rng.choice([0, 1]), pid_size=rng.choice([4, 8]),
                transport=transport or rng.choice(["v0", "v1", "lite"]), cid=rng.randrange(3), mode=mode, connect=conn, layout=layout,
                same_key=(rng.random() < 0.4 if same_key is None else same_key), shared_settings=uniform and rng.random() < 0.5, deploys=deploys, steps=[])
    last = {}                 # deployment -> its last step
    for idx, j in enumerate(order):
        kind = kinds[idx] if kinds else rng.choice(M.OK_KINDS * 3 + list(M.FAIL_FAMILIES))
        if mode == "conc" and kind == "guest" and any(s.get("guest") and s["deploy"] == j for s in sess["steps"]): kind = "user"
        pseudo = dict(version=deploys[j]["version"], seed=seed, pid_size=sess["pid_size"], key_size=sess["key_size"], nclients=1)
        other = [s for s in sess["steps"] if s["deploy"] != j and not s.get("guest")]
        rel = relation[idx] if relation else rng.choice([None, None] + RELATIONS)
        prev = rng.choice(other) if (other and rel in ("same-both", "same-all") and kind != "guest") else None
        st = M.make_step(rng, pseudo, idx, kind, prev, {"same-both": "password-changed", "same-all": "again"}.get(rel) if prev else None)
        if other and not st.get("guest") and rel in ("same-username", "same-login", "same-pid"):
            src = rng.choice(other)
            if rel == "same-pid": st["pid"] = src["pid"]
            else: st["username"] = src["username"]
            if rel == "same-login":          # the same name and password at another service, which knows the user under another pid
                old = st["server_password"]
                st["server_password"] = src["server_password"]
                if st.get("password") == old: st["password"] = src["server_password"]
                elif st.get("password") == old + "x": st["password"] = src["server_password"] + "x"
        # within a deployment, accounts in flight at the same time are distinct
        if mode == "conc" and any(s["deploy"] == j and (s["username"] == st["username"] or s["pid"] == st["pid"]) for s in sess["steps"]):
            st = M.make_step(rng, pseudo, idx, "user", None)
        st["deploy"] = j
        st["station"] = stations[idx] if isinstance(stations, (list, tuple)) else (rng.choice(STATIONS) if stations == "mixed" else stations)
        st["relation"] = rel if (prev or rel in ("same-username", "same-login", "same-pid")) and other and not st.get("guest") else None
        st.pop("placeholder", None); st.pop("client", None); st.pop("cid", None)
        sess["steps"].append(st)
    return sess


def build(rng, quick, first_seed):
    multis, seed = [], first_seed
    def add(*a, **kw):
        nonlocal seed
        seed += 1
        multis.append(make_multi(rng, seed, *a, **kw))
    two = [(0, 1), (0, 1, 0), (0, 0, 1), (0, 1, 1), (0, 1, 0, 1), (0, 1, 1, 0), (0, 0, 1, 0)]
    three = [(0, 1, 2), (0, 1, 2, 0), (0, 1, 0, 2), (0, 2, 1, 0)]
    # protocol-following logins only: every order x schedule x client connection x identical-url station kind
    for _ in range(1 if quick else 4):
        for order, mode, conn, station in itertools.product(two + three, ["seq", "hold", "conc"], ["upfront", "lazy", "fresh"], ["placeholder", "shared", "mixed"]):
            if conn == "fresh" and mode != "seq": continue
            if quick and len(order) == 4 and rng.random() < 0.5: continue
            add(order, mode, conn, station, kinds=[rng.choice(["user", "user", "user-extra", "user-src", "guest"]) for _ in order])
        # identical accounts on the deployments: every relation x schedule x station kind
        for rel, mode, station, order in itertools.product(RELATIONS + ["guest"], ["seq", "hold", "conc"], ["placeholder", "shared", "own"], [(0, 1), (0, 1, 0)]):
            kinds = ["guest"] * len(order) if rel == "guest" else [rng.choice(["user", "user-extra", "user-src"]) for _ in order]
            if rel == "guest" and mode == "conc": kinds = ["guest", "guest", "user"][:len(order)]
            add(order, mode, rng.choice(["upfront", "lazy"] + (["fresh"] if mode == "seq" else [])), station,
                relation=[None] + [rel if rel != "guest" else None] * (len(order) - 1), kinds=kinds)
    # random processes: failures mixed in, 2..3 deployments, 2..6 logins
    for _ in range(60 if quick else 700):
        nd = rng.choice([2, 2, 3])
        order = [rng.randrange(nd) for _ in range(rng.randint(2, 6))]
        if len(set(order)) < 2: order[-1] = (order[0] + 1) % nd
        mode = rng.choice(["seq", "seq", "hold", "conc"])
        add(tuple(order), mode, rng.choice(["upfront", "lazy"] + (["fresh"] if mode == "seq" else [])), rng.choice(["placeholder", "shared", "own", "mixed", "mixed"]), nd=nd)
    return multis, seed


# ---------------------------------------------------------------------------------------------------------------
# evaluation (called from corr_C17.run)

def jsonable(sess):
    d = {k: v for k, v in sess.items() if k != "steps"}
    d["steps"] = [{k: (v.hex() if isinstance(v, bytes) else v) for k, v in st.items()} for st in sess["steps"]]
    return d


def unjson(d):
    for st in d["steps"]:
        for k in ("session_key", "source_key"):
            if isinstance(st.get(k), str): st[k] = bytes.fromhex(st[k])
    d["deploys"] = [dict(x) for x in d["deploys"]]
    return d


def evaluate(ctx, batch, multis, outs):
    """judge every login of every multi-deployment process and compare it with the Lean model; `batch(lines) -> outputs`"""
    import corr_C17 as M
    crashes = [(x, o) for x, o in zip(multis, outs) if "crash" in o]
    if crashes:
        ctx.corr_break("simulation-crash", "the multi-deployment harness crashed on %d processes: %s" % (len(crashes), crashes[0][1]["crash"]), {"multi": jsonable(crashes[0][0])})
        return
    plan_jobs, sjobs = [], []
    for x, o in zip(multis, outs):
        for k in range(len(x["steps"])):
            plan_jobs.append((plan_line(x, k, o) or "plan-not-run", x, o, k))
        for line, server, recs in serve_jobs(x, o): sjobs.append((line, x, server, recs))
    models = batch([j[0] for j in plan_jobs] + [j[0] for j in sjobs])
    plan_models, serve_models = models[:len(plan_jobs)], models[len(plan_jobs):]
    fails, diffs = [], []
    for x, o in zip(multis, outs):
        whole = judge_whole(x, o)
        if whole: fails.append((x, o, None, whole))
    for (line, x, o, k), model in zip(plan_jobs, plan_models):
        so = o["steps"][k]
        mc, oc = M.canon_model(model), M.canon_obs(so)
        st = x["steps"][k]
        earlier = [s for s in x["steps"][:k] if s["deploy"] != st["deploy"]] if x["mode"] != "conc" else [s for s in x["steps"] if s["deploy"] != st["deploy"]]
        ctx.case(key=("multi", x["seed"], k), nontrivial=True,
                 tag="multi:%s:%s:%s:%s:%s:%s" % (x["mode"], x["connect"], st["station"], "after-other-deployment" if earlier else "first-deployment",
                                                  "same-url-seen" if any(s["station"] == st["station"] and st["station"] != "own" for s in earlier) else "url-new",
                                                  st.get("relation") or ("guest" if st.get("guest") else "distinct")) + ":" + (mc[2].split(" ")[0] if mc else "bad-op"),
                 sample={"multi": jsonable(x), "step": k, "model": model[:200], "observed": list(oc)} if ctx.evaluations % 211 == 0 else None)
        if mc != oc: diffs.append((x, k, model, oc))
        why = judge(x, k, so)
        if why: fails.append((x, o, k, why))
    sdiffs, n_pres = [], 0
    for (line, x, server, recs), model in zip(sjobs, serve_models):
        verdicts = model.split(" ;; ") if model not in ("bad-op", "") else []
        n_pres += len(recs)
        for i, r in enumerate(recs):
            m = verdicts[i] if i < len(verdicts) and len(verdicts) == len(recs) else "bad-op"
            real = r.get("result", "none")
            if real.startswith("again ") and m.startswith("accept "): m = "again " + m.split(" ")[3]
            if m != real: sdiffs.append((x, server, i, r, m))
    ctx.extra["multi_processes"] = len(multis)
    ctx.extra["multi_logins"] = len(plan_jobs)
    ctx.extra["multi_modes"] = {m: sum(1 for x in multis if x["mode"] == m) for m in ("seq", "hold", "conc")}
    ctx.extra["multi_three_deployments"] = sum(1 for x in multis if len(x["deploys"]) == 3)
    ctx.extra["multi_logins_identical_url_after_other_deployment"] = sum(
        1 for x in multis for k, st in enumerate(x["steps"]) if st["station"] != "own" and any(s["deploy"] != st["deploy"] and s["station"] == st["station"] for s in (x["steps"] if x["mode"] == "conc" else x["steps"][:k])))
    ctx.extra["multi_logins_identical_account_on_other_deployment"] = sum(1 for x in multis for st in x["steps"] if st.get("relation"))
    ctx.extra["multi_oracle_failures"] = len(fails)
    ctx.extra["multi_plan_diffs"] = len(diffs)
    ctx.extra["multi_server_presentations_vs_model"] = n_pres
    ctx.extra["multi_server_presentation_diffs"] = len(sdiffs)
    # the shortest failing processes first, one report per (schedule, station kind, what)
    fails.sort(key=lambda f: (len(f[0]["steps"]), len(f[0]["deploys"]), f[0]["mode"] != "seq", f[2] if f[2] is not None else 99))
    seen = set()
    reported = 0
    for x, o, k, why in fails:
        sig = (x["mode"], x["steps"][k]["station"] if k is not None else None, why[:50])
        if sig in seen or reported >= 8: continue
        seen.add(sig); reported += 1
        order = "".join(NAMES[s["deploy"]] for s in x["steps"])
        if k is None:
            key = "backend-multi:%s:%s:%s" % (x["mode"], x["connect"], order)
            text = "one process, %d deployments, logins %s (schedule '%s', BackEndClients connected '%s', %s): %s. The logins: %s" % (
                len(x["deploys"]), order, x["mode"], x["connect"], x["transport"], why, "; ".join(describe(x, i, o) for i in range(len(x["steps"]))))
        else:
            st = x["steps"][k]
            alone = dict(x, steps=[st], mode="seq", connect="upfront")
            ao = run_fresh([alone])[0]
            alone_why = ("crash " + ao["crash"]) if "crash" in ao else (judge_whole(alone, ao) or judge(alone, 0, ao["steps"][0]))
            key = "backend-multi:%s:%s:%s:step%d:%s" % (x["mode"], x["connect"], order, k, st["station"])
            others = [i for i in range(len(x["steps"])) if i != k and (i < k or x["mode"] == "conc")]
            text = ("one process talking to %d deployments (authentication servers %s; schedule '%s', BackEndClients connected '%s', %s, secure servers keyed %s): login %s -- %s. "
                    "%s: %s. The same login alone in a process of its own (same deployments running, nobody else logging in): %s") % (
                len(x["deploys"]), ", ".join("%s=%s:%d" % (NAMES[j], d["host"], d["port"]) for j, d in enumerate(x["deploys"])), x["mode"], x["connect"], x["transport"],
                "alike" if x["same_key"] else "differently", describe(x, k), why,
                "Other logins in flight" if x["mode"] == "conc" else "Earlier logins of the process", "; ".join(describe(x, i, o) for i in others) or "none",
                "behaves as the property demands" if alone_why is None else alone_why)
        ctx.violation(key, text, {"multi": jsonable(x), "step": k, "observed": {"steps": o["steps"], "stray": o["stray"], "error": o["error"], "admissions": o["admissions"]},
                                  "how": "harness/c17_multi.run_multi(multi) (./check C17 --replay <this file>)"})
    if diffs and not ctx.violations and not ctx.known_hits:
        x, k, model, oc = diffs[0]
        ctx.corr_break("backend-multi-plan-correspondence", "logins of a process that talks to several deployments and the Lean plan of the login's own deployment disagree on %d of %d logins" % (len(diffs), len(plan_jobs)),
                       {"multi": jsonable(x), "step": k, "model": model, "observed": list(oc), "theorems_no_longer_tied": ["Nx.C17.placeholder", "Nx.C17.login_history_independent", "Nx.C17.connect_credentials"]})
    if sdiffs and not ctx.violations and not ctx.known_hits:
        x, server, i, r, m = sdiffs[0]
        ctx.corr_break("backend-multi-serve-correspondence", "process_login_request of the secure servers of several deployments and Lean Backend.serve disagree on %d of %d recorded calls (first: server %s, call %d: real %r, model %r)" % (
                           len(sdiffs), n_pres, server, i, r.get("result"), m),
                       {"multi": jsonable(x), "server": server, "call": i, "record": r, "model": m, "theorems_no_longer_tied": ["Nx.C17.admission_history_independent"]})


def replay(multi):
    x = unjson(multi)
    o = run_multi(x)
    for k in range(len(x["steps"])):
        so = o["steps"][k]
        print(describe(x, k, o))
        print("   ", {f: so.get(f) for f in ("calls", "attempts", "accepts", "handlers", "client_pid", "probe", "error", "error_text")})
        print("    property verdict:", judge(x, k, so) or "holds")
    print("admissions:", o["admissions"])
    print("stray:", {f: v for f, v in o["stray"].items() if v}, "error:", o["error"], "->", judge_whole(x, o) or "nothing stray")
    return o
