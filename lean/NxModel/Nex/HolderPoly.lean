import NxModel.Nex.Common
/-!
# Polymorphic data holders over a class hierarchy and a registry (`nintendo/nex/common.py`)

`DataHolder.encode` announces `self.data.__class__.__name__` — the name of the object's OWN class — and
`DataHolder.decode` instantiates `object_map[name]`; `DataHolder.register(cls, name)` is a dict store (a later
registration of the same name replaces the earlier one, registration order is otherwise irrelevant).
`Structure.encode/decode` walk `get_hierarchy()`: the class, its first base, … up to `Structure`, base class first.

The model of the Python world:
* a class table (`ClassDef`: `__name__`, index of the first base class or `none` for a direct subclass of `Structure`,
  and the number of bytes its own `load` reads — the classes of the correspondence harness are made that way);
* a registry: the `DataHolder.register` calls in order, as `(name, class index)`;
* an object: its class and what each class of its hierarchy saved, base first, as `(version, body)`.

Nothing in `wHolder` looks at the registry and nothing in `rHolder` looks at anything but the name: whether an
ancestor of the object's class is registered too, and in which order, cannot matter — `holder_poly_roundtrip`.
-/
namespace Nx.Nex.HolderPoly
open Nx Nx.Nex

structure ClassDef where
  name : String
  parent : Option Nat
  size : Nat

abbrev ClassTable := List ClassDef
/-- the `DataHolder.register(cls, name)` calls in the order they were made -/
abbrev Registry := List (String × Nat)

structure Obj where
  cls : Nat
  levels : List (Nat × Bytes)
deriving DecidableEq

/-- `get_hierarchy()` before the reversal: the class, its base, the base's base, … (fuel: a class table is finite) -/
def hierUp (tbl : ClassTable) : Nat → Nat → List Nat
  | 0, _ => []
  | fuel + 1, c =>
    match tbl[c]? with
    | none => []
    | some d => c :: (match d.parent with
      | none => []
      | some p => hierUp tbl fuel p)

/-- `get_hierarchy()`: base class first -/
def hierarchy (tbl : ClassTable) (c : Nat) : List Nat := (hierUp tbl tbl.length c).reverse

def sizeOf (tbl : ClassTable) (c : Nat) : Nat := (tbl[c]?.map (·.size)).getD 0

/-- `object_map[name]` after the registrations `reg`: the LAST registration of the name -/
def lookupLast (name : String) : Registry → Option Nat
  | [] => none
  | (n, c) :: r =>
    match lookupLast name r with
    | some c' => some c'
    | none => if n = name then some c else none

/-- `load` of a class whose own level is `k` raw bytes: remembers the version it was handed and the bytes -/
def sizeLoader (k : Nat) : Nat → Bytes → Except Err ((Nat × Bytes) × Bytes) := fun ver bs =>
  match rd k bs with
  | .ok (x, r) => .ok ((ver, x), r)
  | .error e => .error e

/-- `StreamOut.anydata(obj)`: the object's own class name, then the framed encoding of its hierarchy.
(The code writes the name before it encodes the payload; the two can only fail together for a class name longer than
65534 bytes AND a level that does not fit its header, and both are `struct.error` then.) -/
def wHolder (tbl : ClassTable) (header : Bool) (o : Obj) : Except Err Bytes :=
  match tbl[o.cls]? with
  | none => .error .key
  | some d => do
    let payload ← wStruct header o.levels
    wAnyData (some d.name) payload

/-- decode an object of class `c`: one loader per class of its hierarchy, base first -/
def rObject (tbl : ClassTable) (header : Bool) (c : Nat) (b : Bytes) : Except Err (Obj × Bytes) := do
  let (lv, r) ← rStruct header ((hierarchy tbl c).map (fun i => sizeLoader (sizeOf tbl i))) b
  pure (⟨c, lv⟩, r)

/-- `StreamIn.anydata()` with the registry `reg`: `rDataHolder` of Common.lean with `object_map[name]` as the registry
function (an absent name is a `KeyError` like any unregistered one) -/
def rHolder (tbl : ClassTable) (reg : Registry) (header : Bool) (b : Bytes) : Except Err (Obj × Bytes) := do
  let ((_, o), r) ← rDataHolder (fun name => (name.bind (lookupLast · reg)).map (rObject tbl header)) b
  pure (o, r)

/-- the versions a reader sees: the written ones with `nex.struct_header`, 0 without -/
def seenLevels (header : Bool) (lv : List (Nat × Bytes)) : List (Nat × Bytes) :=
  lv.map (fun p => (if header then p.1 else 0, p.2))

/-- the object as the reader must return it -/
def Obj.seen (header : Bool) (o : Obj) : Obj := ⟨o.cls, seenLevels header o.levels⟩

/-- an object of class `c` has one level per class of `c`'s hierarchy, each as long as that class reads -/
def Obj.WellFormed (tbl : ClassTable) (o : Obj) : Prop :=
  o.levels.map (fun p => p.2.length) = (hierarchy tbl o.cls).map (sizeOf tbl)

/-- every registered name is the `__name__` of the class it is registered for (what `register(cls, cls.__name__)` does) -/
def Registry.OwnNames (tbl : ClassTable) (reg : Registry) : Prop :=
  ∀ p ∈ reg, (tbl[p.2]?.map (·.name)) = some p.1

end Nx.Nex.HolderPoly
