import NxModel.Bytes
/-! driver stub for C14 (replaced when the property's model lands) -/
def main : IO Unit := IO.println "stub C14"
