import NxModel.Nex.Kerberos
import NxModel.DriverUtil
/-! line-protocol driver for the Kerberos model (C16); bytes as hex (`-` = empty)
  kd.old <base> <pidcount> <password> <pid>      kd.new <base> <pidcount> <password> <pid>
  enc <key> <data>      dec <key> <buffer>      chk <key> <buffer>
  ct.enc <keysize> <pidsize> <key> <sessionkey> <target> <internal>     ct.dec <keysize> <pidsize> <key> <data>
  st.enc <keysize> <pidsize> <version> <key> <ticketkey> <datetime> <source> <sessionkey>
  st.dec <keysize> <pidsize> <version> <key> <data>
  selftest
-/
open Nx Nx.Nex Nx.Nex.Kerberos

def showRes (r : Except Err String) : String :=
  match r with
  | .ok s => "ok " ++ s
  | .error e => "err " ++ e.name

def ascii (s : String) : Bytes := s.toUTF8.toList

def selftest : Bool :=
  (deriveOld 65000 1024 (ascii "password") 123456).map toHex == .ok "bd9d83b0d4102b72de3e14f44938c989" &&
  (deriveOld 5 10 (ascii "password") 123456).map toHex == .ok "6ba537f0cc7e0d25813f2ea010eb2115" &&
  (deriveNew 1 1 (ascii "password") 123456).map toHex == .ok "591b45defe20abcd6ec412b63fbacff5" &&
  (deriveNew 5 10 (ascii "password") 123456).map toHex == .ok "09409830bf949ab56fae81bd028fe18d" &&
  (Kerberos.encrypt (ascii "key") (ascii "test message")).map toHex == .ok "7f09479904e21e393b2a6f1ed5b96acc69a869dce66679d0cedb242d" &&
  toHex (Crypto.md5 []) == "d41d8cd98f00b204e9800998ecf8427e" &&
  toHex (Crypto.hmacMd5 (ascii "Jefe") (ascii "what do ya want for nothing?")) == "750c783e6ab0b503eaa86e310a5db738" &&
  toHex (Crypto.rc4 (ascii "Key") (ascii "Plaintext")) == "bbf316e8d940af0ad3"

def step (line : String) : String :=
  match words line with
  | ["kd.old", b, p, pw, pid] => (match b.toNat?, p.toNat?, fromHex pw, pid.toNat? with
    | some b, some p, some pw, some pid => showRes ((deriveOld b p pw pid).map hexOut)
    | _, _, _, _ => "bad-op")
  | ["kd.new", b, p, pw, pid] => (match b.toNat?, p.toNat?, fromHex pw, pid.toNat? with
    | some b, some p, some pw, some pid => showRes ((deriveNew b p pw pid).map hexOut)
    | _, _, _, _ => "bad-op")
  | ["enc", k, d] => (match fromHex k, fromHex d with
    | some k, some d => showRes ((Kerberos.encrypt k d).map hexOut)
    | _, _ => "bad-op")
  | ["dec", k, d] => (match fromHex k, fromHex d with
    | some k, some d => showRes ((Kerberos.decrypt k d).map hexOut)
    | _, _ => "bad-op")
  | ["chk", k, d] => (match fromHex k, fromHex d with
    | some k, some d => if check k d then "ok T" else "ok F"
    | _, _ => "bad-op")
  | ["ct.enc", ks, ps, k, sk, target, internal] =>
    (match ks.toNat?, ps.toNat?, fromHex k, fromHex sk, target.toNat?, fromHex internal with
    | some ks, some ps, some k, some sk, some target, some internal =>
      showRes ((ClientTicket.encrypt ⟨ks, ps, 0⟩ k ⟨sk, target, internal⟩).map hexOut)
    | _, _, _, _, _, _ => "bad-op")
  | ["ct.dec", ks, ps, k, d] => (match ks.toNat?, ps.toNat?, fromHex k, fromHex d with
    | some ks, some ps, some k, some d =>
      showRes ((ClientTicket.decrypt ⟨ks, ps, 0⟩ k d).map (fun t => s!"{hexOut t.sessionKey} {t.target} {hexOut t.internal}"))
    | _, _, _, _ => "bad-op")
  | ["st.enc", ks, ps, ver, k, tk, ts, source, sk] =>
    (match ks.toNat?, ps.toNat?, ver.toNat?, fromHex k, fromHex tk, ts.toNat?, source.toNat?, fromHex sk with
    | some ks, some ps, some ver, some k, some tk, some ts, some source, some sk =>
      showRes ((ServerTicket.encrypt ⟨ks, ps, ver⟩ k tk ⟨ts, source, sk⟩).map hexOut)
    | _, _, _, _, _, _, _, _ => "bad-op")
  | ["st.dec", ks, ps, ver, k, d] => (match ks.toNat?, ps.toNat?, ver.toNat?, fromHex k, fromHex d with
    | some ks, some ps, some ver, some k, some d =>
      showRes ((ServerTicket.decrypt ⟨ks, ps, ver⟩ k d).map (fun t => s!"{t.timestamp} {t.source} {hexOut t.sessionKey}"))
    | _, _, _, _, _ => "bad-op")
  | ["selftest"] => if selftest then "ok T" else "ok F"
  | _ => "bad-op"

def main : IO Unit := runLines step
