import NxProofs.RmcServer
namespace Nx.C11
open Nx Nx.Rmc Nx.RmcServer

theorem unknown_protocol_not_implemented (servers : Registry) (req : Msg) (h : HandleResult)
    (hp : regLookup req.protocol servers = none) :
    react servers req h = sendMsg (responseMsg req (errorResult coreNotImplemented) []) :=
  react_unknown_protocol servers req h hp

end Nx.C11
