"""C20 helper: the shipped settings files are loaded whatever the working directory contains.

`Settings(name)` / `settings.load(name)` / `Settings.load(name)` / `reset()` / `copy()` / `settings.default()` for the four shipped
names are executed in fresh interpreters whose working directory holds entries that could be taken for the files:

  real directories of the tree under test   <repo>, <repo>/examples (has `3ds/`, `switch/`), <repo>/nintendo (has `switch/`, `files/`),
                                            <repo>/nintendo/files, <repo>/nintendo/files/config, <repo>/examples/switch, <repo>/docs, /
  synthetic directories (layouts below)     the four names as directories; as stray files with other (valid) contents; as stray files
                                            with contents that are not a configuration; `<name>.cfg`, `files/config/<name>.cfg`,
                                            `config/<name>.cfg`, `nintendo/files/config/<name>.cfg` with other contents; `<name>.cfg` as
                                            directories; the mixture (directory `3ds`, `switch`; stray file `default`, `friends`); an
                                            empty directory (control)

in three modes: the process is started in that directory (import happens there); the package is imported (and one object created)
elsewhere and the process changes into the directory before the sequence; the process changes directory in the middle of the sequence.
The script is run from a file, so the working directory is not on sys.path (a `nintendo/` entry cannot shadow the package).

Oracle (property): after every step every object holds exactly the typed values the shipped files of the tree under test describe
(independent parser: api_objseq.reference over tools/api_settings.extract) — the working directory is not an input of any documented call.
Model: the same sequences go through the Lean heap model (driver op `objseq`), which has no notion of a working directory.
"""
import json, os, subprocess
import api_objseq

PY = "/venv/bin/python"
NAMES4 = ["default", "3ds", "friends", "switch"]

RUNNER = r'''
import sys, json, os
spec = json.loads(open(sys.argv[1]).read())
sys.path.insert(0, spec["repo"])
names = spec["names"]; ops = spec["ops"]
if spec["early"]: os.chdir(spec["early"])
from nintendo.nex import settings
def hx(s): return s.encode().hex() if s else "-"
def dump(s):
    out = []
    for n in names:
        try: v = s[n]
        except KeyError: out.append("unset"); continue
        if isinstance(v, bool): out.append("bool:%r" % v)
        elif isinstance(v, int): out.append("int:%d" % v)
        elif isinstance(v, float): out.append("float:%r" % v)
        elif isinstance(v, str): out.append("str:" + hx(v))
        else: out.append("other:%r" % (v,))
    return ",".join(out)
def en(e):
    for c in (KeyError, ValueError, TypeError):
        if isinstance(e, c) and not isinstance(e, UnicodeError): return c.__name__
    return "Other"
objs, res = [], []
for op in ops:
    detail = ""
    if op[0] == "chdir":
        os.chdir(op[1]); continue
    try:
        if op[0] == "new": objs.append(settings.Settings() if op[1] == "-" else settings.load(op[1]))
        elif op[0] == "ctor": objs.append(settings.Settings(op[1]))
        elif op[0] == "default": objs.append(settings.default())
        elif op[0] == "set": objs[op[1]][op[2]] = op[3]
        elif op[0] == "copy": objs.append(objs[op[1]].copy())
        elif op[0] == "load": objs[op[1]].load(op[2])
        elif op[0] == "reset": objs[op[1]].reset()
        elif op[0] == "configure": objs[op[1]].configure(op[2], op[3], op[4])
        st = "ok"
    except Exception as e:
        st = "err " + en(e); detail = repr(e)[:300]
    res.append([st, [dump(o) for o in objs], detail])
print(json.dumps(res))
'''

OTHER_VALID = "nex.version = 12345\nprudp.access_key = stray-file\nprudp.fragment_size = 777\nprudp.version = 0\nnex.pid_size = 8\nprudp.resend_timeout = 9.75\n"
OTHER_VALID2 = "prudp.transport = 2\nkerberos.key_size = 16\nprudp.max_substream_id = 3\nnex.struct_header = 1\n"
GARBAGE = "this is not a configuration file\n\x01\x02 = = =\nprudp.bogus = 1\n"


def layouts():
    """label -> {relative path: contents (str) | None for a directory}"""
    L = {}
    L["empty"] = {}
    L["names-as-directories"] = {n: None for n in NAMES4}
    L["names-as-directories"].update({"%s/%s.cfg" % (n, n): OTHER_VALID for n in NAMES4})
    L["names-as-files-other-values"] = {n: (OTHER_VALID if i % 2 == 0 else OTHER_VALID2) for i, n in enumerate(NAMES4)}
    L["names-as-files-not-a-config"] = {n: GARBAGE for n in NAMES4}
    L["names-as-empty-files"] = {n: "" for n in NAMES4}
    L["mixture-dirs-and-stray-files"] = {"3ds": None, "switch": None, "3ds/example.py": "print('x')\n", "default": OTHER_VALID, "friends": GARBAGE}
    d = {}
    for n in NAMES4:
        d["%s.cfg" % n] = OTHER_VALID
        d["files/config/%s.cfg" % n] = OTHER_VALID2
        d["config/%s.cfg" % n] = OTHER_VALID
        d["nintendo/files/config/%s.cfg" % n] = OTHER_VALID2
    L["cfg-files-other-values"] = d
    L["cfg-files-not-a-config"] = {k: GARBAGE for k in d}
    L["cfg-names-as-directories"] = {"%s.cfg" % n: None for n in NAMES4}
    L["cfg-names-as-directories"].update({"files/config/%s.cfg" % n: None for n in NAMES4})
    return L


def materialise(root, layout):
    os.makedirs(root, exist_ok=True)
    for rel, content in sorted(layout.items()):
        p = os.path.join(root, rel)
        if content is None:
            os.makedirs(p, exist_ok=True)
        else:
            os.makedirs(os.path.dirname(p), exist_ok=True)
            with open(p, "w", encoding="utf-8") as f:
                f.write(content)


def real_dirs(repo):
    cands = [".", "examples", "nintendo", "nintendo/files", "nintendo/files/config", "examples/switch", "examples/3ds", "nintendo/switch", "docs", "tests"]
    out = []
    for c in cands:
        p = os.path.normpath(os.path.join(repo, c))
        if os.path.isdir(p):
            out.append(("<repo>/" + c if c != "." else "<repo>", p))
    out.append(("/", "/"))
    return out


FIXED = [("new", "-"), ("new", "default"), ("ctor", "3ds"), ("new", "friends"), ("ctor", "switch"), ("default",),
         ("set", 0, "nex.version", 31337), ("set", 0, "prudp.access_key", "mine"), ("reset", 0), ("copy", 2), ("load", 0, "switch"),
         ("load", 5, "friends"), ("reset", 2), ("copy", 0), ("load", 1, "3ds"), ("set", 6, "prudp.fragment_size", 900), ("copy", 6),
         ("load", 3, "default"), ("ctor", "friends"), ("new", "3ds"), ("ctor", "default"), ("reset", 4)]


def run_real(scratch, idx, repo, names, ops, start_cwd, early, timeout=120):
    spec = os.path.join(scratch, "c20cwd_spec_%d.json" % idx)
    script = os.path.join(scratch, "c20cwd_runner.py")
    with open(spec, "w") as f:
        json.dump({"repo": repo, "names": names, "ops": ops, "early": early}, f)
    env = {k: v for k, v in os.environ.items() if k not in ("PYTHONPATH", "PYTHONSTARTUP", "PYTHONHOME")}
    p = subprocess.run([PY, script, spec], stdout=subprocess.PIPE, stderr=subprocess.PIPE, text=True, timeout=timeout, cwd=start_cwd, env=env)
    if p.returncode != 0:
        return None, p.stderr[-800:]
    try:
        return json.loads(p.stdout.strip().splitlines()[-1]), None
    except Exception as e:
        return None, "unreadable runner output: %r / %s" % (e, p.stdout[-300:])


def run(ctx, data, drv, repo, hx, canon_model_dump, cfg_names):
    from concurrent.futures import ThreadPoolExecutor
    names = [k for k, _ in data["fields"]]
    scratch = ctx.scratch
    with open(os.path.join(scratch, "c20cwd_runner.py"), "w") as f:
        f.write(RUNNER)
    neutral = os.path.join(scratch, "c20cwd_neutral"); os.makedirs(neutral, exist_ok=True)
    lay = layouts()
    dirs = []
    for label, layout in lay.items():
        root = os.path.join(scratch, "c20cwd_" + label)
        materialise(root, layout)
        dirs.append((label, root, layout))
    for label, p in real_dirs(repo):
        dirs.append((label, p, None))
    fixed = [list(o) for o in FIXED]
    jobs = []
    for label, path, layout in dirs:
        seeded = api_objseq.scenarios(ctx.rng, names, 1)[-1]
        # every "new" of the seeded scenario alternates between settings.load(name) and Settings(name)
        seeded = [(["ctor", o[1]] if o[0] == "new" and o[1] != "-" and i % 2 else o) for i, o in enumerate(seeded)]
        # mode 1: started (and imported) in the directory
        jobs.append((label, path, layout, "started-in-directory", fixed, path, None))
        # mode 2: imported elsewhere, one object created there, then chdir
        jobs.append((label, path, layout, "chdir-after-import", [["new", "-"], ["chdir", path]] + [_shift(o, 1) for o in (fixed if ctx.tier != "quick" else seeded)], neutral, None))
        # mode 3: chdir in the middle of the sequence (and chdir before the import, from a neutral start directory)
        half = len(seeded) // 2
        jobs.append((label, path, layout, "chdir-mid-sequence", seeded[:half] + [["chdir", path]] + seeded[half:], neutral, None))
        if ctx.tier != "quick":
            jobs.append((label, path, layout, "chdir-before-import", seeded, neutral, path))
    with ThreadPoolExecutor(12) as ex:
        reals = list(ex.map(lambda ij: run_real(scratch, ij[0], repo, names, ij[1][4], ij[1][5], ij[1][6]), list(enumerate(jobs))))
    prefix = ["cfg %s %s" % (n, ",".join(hx(l) for l in data["cfgs"].get(n, [])) or "-") for n in cfg_names]
    plain = []
    for j in jobs:
        ops = [(["new", o[1]] if o[0] == "ctor" else o) for o in j[4] if o[0] != "chdir"]
        plain.append(ops)
    mtoks = [api_objseq.model_ops(ops) for ops in plain]
    outs = drv.batch(prefix + ["objseq " + " ".join(t) for t, _ in mtoks])[len(prefix):]
    diffs = []
    for (label, path, layout, mode, ops, start, early), pops, (real, err), (toks, last), mout in zip(jobs, plain, reals, mtoks, outs):
        ctx.case(key="cwd/%s/%s/%s" % (label, mode, json.dumps(ops)[:40]), nontrivial=label != "empty", tag="settings:cwd:" + mode, n=len(pops),
                 sample={"directory": label, "mode": mode, "ops": ops[:5]} if label == "mixture-dirs-and-stray-files" and mode == "started-in-directory" else None)
        replay = {"working_directory": label, "directory_layout": layout if layout is not None else "existing directory " + path, "mode": mode, "ops": ops,
                  "how": "harness/c20_cwd.py RUNNER (a script file, not -c) in a fresh /venv/bin/python; start cwd = %s"
                         % ("the directory" if start == path else "an empty directory, os.chdir at the `chdir` op")}
        if real is None:
            ctx.violation("settings-cwd:crash", "Settings sequence crashed in a fresh interpreter with working directory %s (%s): %s" % (label, mode, err),
                          dict(replay, stderr=err)); continue
        ref = api_objseq.reference(pops, data["cfgs"], data["fields"])
        for i, (op, r, e) in enumerate(zip([o for o in ops if o[0] != "chdir"], real, ref)):
            if [r[0], r[1]] != e:
                detail = "status %r (%s), expected %r" % (r[0], r[2], e[0])
                for oi, (a, b) in enumerate(zip(r[1], e[1])):
                    if a != b:
                        fa, fb = a.split(","), b.split(",")
                        jx = next((jx for jx in range(min(len(fa), len(fb))) if fa[jx] != fb[jx]), 0)
                        detail = "object #%d: %s is %s, the shipped file says %s" % (oi, names[jx], fa[jx], fb[jx]); break
                a1 = op[1] if len(op) > 1 else None
                call = {"new": "settings.load(%r)" % a1 if a1 != "-" else "Settings()", "ctor": "Settings(%r)" % a1, "default": "settings.default()",
                        "load": "obj.load(%r)" % (op[2] if len(op) > 2 else None), "reset": "obj.reset()", "copy": "obj.copy()"}.get(op[0], repr(op))
                ctx.violation("settings-cwd:%s" % op[0],
                              "the shipped settings files are not what %s loads when the working directory is %s (%s): step %d, %s"
                              % (call, label, mode, i, detail),
                              dict(replay, failing_step=i, failing_call=call, detail=detail, real_after_step=r, expected_after_step=e))
                break
        mg = mout.split(";") if mout != "bad-op" else []
        for i, (op, r) in enumerate(zip(pops, real)):
            if last[i] >= len(mg):
                diffs.append(("cwd", "objseq " + " ".join(toks), "step %d" % i, mout[:200])); break
            st, _, dumps = mg[last[i]].partition("#")
            md = [canon_model_dump(x) for x in dumps.split("|")] if dumps else []
            if md != r[1] or (op[0] != "configure" and st != r[0]):
                diffs.append(("cwd", "objseq " + " ".join(toks), "step %d %r: %r" % (i, op, r[:2]), "%s#%s" % (st, md))); break
    ctx.extra["c20_cwd_directories"] = [d[0] for d in dirs]
    ctx.extra["c20_cwd_runs"] = len(jobs)
    return diffs


def _shift(op, k):
    """object indices of a sequence that now has k objects created before it"""
    op = list(op)
    if op[0] in ("set", "copy", "load", "reset", "configure"):
        op[1] += k
    return op
