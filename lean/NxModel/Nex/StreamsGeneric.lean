import NxModel.Nex.Streams
/-!
# typed generic values over the stream primitives (used by the C15 driver to exercise nested
lists / maps through the very `wList`/`rList`/`wMap`/`rMap` of `Streams.lean`)
-/
namespace Nx.Nex
open Nx

inductive Ty where
  | u8 | u16 | u32 | u64 | s8 | s16 | s32 | s64 | bool | double | float
  | string | buffer | qbuffer | pid | result | datetime | variant
  | list (t : Ty)
  | map (k v : Ty)
  deriving Repr, BEq

inductive Val where
  | nat (n : Nat)
  | int (v : Int)
  | bool (b : Bool)
  | str (s : Option String)
  | bytes (b : Bytes)
  | variant (v : Variant)
  | list (l : List Val)
  | map (m : List (Val × Val))
  deriving Repr, BEq

def wVal (pidSize : Nat) : Ty → Val → Except Err Bytes
  | .u8, .nat n => wU8 n
  | .u16, .nat n => wU16 n
  | .u32, .nat n => wU32 n
  | .u64, .nat n => wU64 n
  | .s8, .int v => wS8 v
  | .s16, .int v => wS16 v
  | .s32, .int v => wS32 v
  | .s64, .int v => wS64 v
  | .bool, .bool b => wBool b
  | .double, .nat n => wDouble n
  | .float, .nat n => wFloat n
  | .string, .str s => wString s
  | .buffer, .bytes b => wBuffer b
  | .qbuffer, .bytes b => wQBuffer b
  | .pid, .nat n => wPid pidSize n
  | .result, .nat n => wResult n
  | .datetime, .nat n => wDateTime n
  | .variant, .variant v => wVariant v
  | .list t, .list l => wList (wVal pidSize t) l
  | .map k v, .map m => wMap (wVal pidSize k) (wVal pidSize v) m
  | _, _ => .error .type

def liftR {α : Type} (f : α → Val) (r : Bytes → Except Err (α × Bytes)) (b : Bytes) : Except Err (Val × Bytes) :=
  match r b with
  | .ok (x, rest) => .ok (f x, rest)
  | .error e => .error e

def rVal (pidSize : Nat) : Ty → Bytes → Except Err (Val × Bytes)
  | .u8 => liftR .nat rdU8
  | .u16 => liftR .nat rdU16
  | .u32 => liftR .nat rdU32
  | .u64 => liftR .nat rdU64
  | .s8 => liftR .int rS8
  | .s16 => liftR .int rS16
  | .s32 => liftR .int rS32
  | .s64 => liftR .int rS64
  | .bool => liftR .bool rBool
  | .double => liftR .nat rDouble
  | .float => liftR .nat rFloat
  | .string => liftR .str rString
  | .buffer => liftR .bytes rBuffer
  | .qbuffer => liftR .bytes rQBuffer
  | .pid => liftR .nat (rPid pidSize)
  | .result => liftR .nat rResult
  | .datetime => liftR .nat rDateTime
  | .variant => liftR .variant rVariant
  | .list t => liftR .list (rList (rVal pidSize t))
  | .map k v => liftR .map (rMap (rVal pidSize k) (rVal pidSize v))

end Nx.Nex
