import NxModel.Api.Legacy
/-! C20 — setter sequences on one client object: a later call of a setter replaces everything an earlier call of the SAME setter
configured (optional arguments that were given earlier and are omitted later included: the omitted argument is its default, which
is what the `NnasSet` / `NascSet` constructors carry). The check (harness/c20_optseq.py) asks the real clients the same question for
every spelling of the calls and replays the sequences through this fold. -/
namespace Nx.Api
open Nx Nx.Http

/-- the attribute group a nasc setter writes (`set_user` and `set_password` write the same group) -/
def NascSet.kind : NascSet → Nat
  | .url _ => 0 | .sdkVersion .. => 1 | .title .. => 2 | .device .. => 3 | .network .. => 4 | .locale .. => 5
  | .user .. => 6 | .password _ => 6 | .fpdVersion _ => 7 | .environment _ => 8

theorem nnas_last_call_wins (s : Nnas) (st st' : NnasSet) (h : st.kind = st'.kind) :
    (s.apply st).apply st' = s.apply st' := by
  cases st <;> cases st' <;> simp [NnasSet.kind] at h <;> rfl

theorem nasc_last_call_wins (s s₁ : Nasc) (st st' : NascSet) (h : st.kind = st'.kind) (h₁ : s.apply st = .ok s₁) :
    s₁.apply st' = s.apply st' := by
  cases st <;> cases st' <;> simp [NascSet.kind] at h <;> simp only [Nasc.apply] at h₁ ⊢ <;>
    (try split at h₁) <;> (try cases h₁) <;> (try injection h₁ with h₁; subst h₁) <;> rfl

end Nx.Api
