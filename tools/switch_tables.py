"""Translator for C18: the per-version tables of the seven Switch clients, read with `ast`
(a duplicated dict key would already have collapsed in the imported module) and emitted as Nat-coded
Lean data plus the obligations over them.

extract(repo) -> dict with
  tables:   name -> list of (key, value) pairs in source order (duplicates preserved)
  latest:   module -> LATEST_VERSION
  languages: list of str (implicit concatenation of adjacent literals already applied, as Python does)
  errors:   module -> {ClassName: {CONST: int}}
  doc_range: (min, max) from the "All system versions from `a.b.c` up to `x.y.z` are supported" sentences
  doc_errors: module -> {CONST: int} from the reference pages
"""
import ast, os, re

MODULES = ["common", "dauth", "aauth", "baas", "dragons", "five", "sun", "atumn"]
CLIENTS = ["dauth", "aauth", "baas", "dragons", "five", "sun", "atumn"]

# (lean/driver table name, module, python name, value kind)
TABLES = [
    ("fw", "common", "FIRMWARE_VERSIONS", "str"),
    ("dauthUA", "dauth", "USER_AGENT", "str"),
    ("digest", "dauth", "SYSTEM_VERSION_DIGEST", "str"),
    ("keygen", "dauth", "KEY_GENERATION", "int"),
    ("dauthApi", "dauth", "API_VERSION", "int"),
    ("aauthUA", "aauth", "USER_AGENT", "str"),
    ("aauthApi", "aauth", "API_VERSION", "int"),
    ("baasUA", "baas", "USER_AGENT", "str"),
    ("fiveUA", "five", "USER_AGENT", "str"),
]


class TranslateError(Exception):
    pass


def _const(node):
    if isinstance(node, ast.Constant):
        return node.value
    if isinstance(node, ast.UnaryOp) and isinstance(node.op, ast.USub) and isinstance(node.operand, ast.Constant):
        return -node.operand.value
    raise TranslateError("not a literal at line %d" % getattr(node, "lineno", -1))


def parse_module(path):
    tree = ast.parse(open(path, encoding="utf-8").read(), path)
    out = {"dicts": {}, "consts": {}, "lists": {}, "classes": {}}
    for node in tree.body:
        if isinstance(node, ast.Assign) and len(node.targets) == 1 and isinstance(node.targets[0], ast.Name):
            name = node.targets[0].id
            v = node.value
            if isinstance(v, ast.Dict):
                try:
                    out["dicts"][name] = [(_const(k), _const(x)) for k, x in zip(v.keys, v.values)]
                except TranslateError:
                    pass
            elif isinstance(v, ast.List):
                try:
                    out["lists"][name] = [_const(x) for x in v.elts]
                except TranslateError:
                    pass
            else:
                try:
                    out["consts"][name] = _const(v)
                except TranslateError:
                    pass
        elif isinstance(node, ast.ClassDef):
            consts = {}
            for st in node.body:
                if isinstance(st, ast.Assign) and len(st.targets) == 1 and isinstance(st.targets[0], ast.Name):
                    try:
                        consts[st.targets[0].id] = _const(st.value)
                    except TranslateError:
                        pass
            out["classes"][node.name] = consts
    return out


def ver_of(text):
    a, b, c = (int(x) for x in text.split("."))
    return a * 100 + b * 10 + c


def extract(repo):
    mods = {m: parse_module(os.path.join(repo, "nintendo", "switch", m + ".py")) for m in MODULES}
    res = {"tables": {}, "latest": {}, "errors": {}, "doc_errors": {}}
    for name, mod, pyname, kind in TABLES:
        if pyname not in mods[mod]["dicts"]:
            raise TranslateError("%s.%s is not a dict literal any more" % (mod, pyname))
        pairs = mods[mod]["dicts"][pyname]
        for k, v in pairs:
            if not isinstance(k, int) or isinstance(k, bool) or k < 0:
                raise TranslateError("%s.%s has a non-natural key %r" % (mod, pyname, k))
            if kind == "str" and not isinstance(v, str):
                raise TranslateError("%s.%s[%r] is not a string" % (mod, pyname, k))
            if kind == "int" and (not isinstance(v, int) or isinstance(v, bool) or v < 0):
                raise TranslateError("%s.%s[%r] is not a natural number" % (mod, pyname, k))
        res["tables"][name] = pairs
    for m in CLIENTS:
        if "LATEST_VERSION" not in mods[m]["consts"]:
            raise TranslateError("%s.LATEST_VERSION is not a literal" % m)
        res["latest"][m] = mods[m]["consts"]["LATEST_VERSION"]
    res["languages"] = list(mods["five"]["lists"].get("LANGUAGES", []))
    for m in CLIENTS:
        res["errors"][m] = {c: {k: v for k, v in d.items() if isinstance(v, int)} for c, d in mods[m]["classes"].items() if c.endswith("Error")}
    # documented range and documented error constants
    lo, hi = set(), set()
    for m in CLIENTS:
        p = os.path.join(repo, "docs", "reference", "switch", m + ".md")
        text = open(p, encoding="utf-8").read() if os.path.exists(p) else ""
        for a, b in re.findall(r"All system versions from `(\d+\.\d+\.\d+)` up to `(\d+\.\d+\.\d+)` are supported", text):
            lo.add(ver_of(a)); hi.add(ver_of(b))
        res["doc_errors"][m] = {k: int(v, 0) for k, v in re.findall(r"^`([A-Z_0-9]+): int = ([0-9xa-fA-F]+)`", text, re.M)}
    res["doc_range"] = (sorted(lo), sorted(hi))
    return res


def crosscheck_import(data, switch_pkg):
    """second reader: the imported modules' evaluated objects. Returns a list of discrepancies
    (a duplicate key is *expected* to show up here as a pair list longer than the dict)."""
    problems = []
    import importlib
    for name, mod, pyname, kind in TABLES:
        m = importlib.import_module(switch_pkg + "." + mod)
        real = getattr(m, pyname)
        eff = {}
        for k, v in data["tables"][name]:
            eff[k] = v
        if eff != real:
            problems.append("%s.%s: ast reading differs from the imported dict" % (mod, pyname))
    for c in CLIENTS:
        m = importlib.import_module(switch_pkg + "." + c)
        if getattr(m, "LATEST_VERSION") != data["latest"][c]:
            problems.append("%s.LATEST_VERSION: ast %r vs imported %r" % (c, data["latest"][c], m.LATEST_VERSION))
    five = importlib.import_module(switch_pkg + ".five")
    if list(five.LANGUAGES) != data["languages"]:
        problems.append("five.LANGUAGES: ast %r vs imported %r" % (data["languages"], five.LANGUAGES))
    return problems


# ---------------------------------------------------------------- Lean emission

def lean_str(s):
    return "[" + ", ".join(str(ord(c)) for c in s) + "]"


def lean_dict(pairs, kind):
    if kind == "str":
        return "[" + ",\n    ".join("(%d, %s)" % (k, lean_str(v)) for k, v in pairs) + "]"
    return "[" + ", ".join("(%d, %d)" % (k, v) for k, v in pairs) + "]"


OBLIGATIONS = [
    # (theorem name, statement over `coded`, human description)
    ("no_duplicate_keys", "coded.keys.noDuplicates = true", "no dict literal repeats a key"),
    ("same_key_sets", "coded.keys.sameSets = true", "every per-version table has exactly the key set of FIRMWARE_VERSIONS"),
    ("ascending_keys", "coded.keys.ascending = true", "tables are written in ascending version order"),
    ("count_41", "coded.countOk = true", "41 supported system versions"),
    ("latest_is_max", "coded.latestOk = true", "LATEST_VERSION of all seven modules = largest key = documented upper end; smallest key = documented lower end"),
    ("api_era_constant", "coded.apiEraOk = true", "dauth/aauth API version constant between the boundaries 13.0.0/15.0.0/18.0.0/19.0.0"),
    ("api_steps_documented", "coded.apiStepsDocumented = true", "dauth API steps only at 13.0.0, aauth API only at 15.0.0 and 19.0.0"),
    ("columns_monotone", "coded.monotoneOk = true", "key generation and both API versions non-decreasing in the version"),
    ("sdk_consistent", "coded.sdkOk = true", "user-agent SDK major = version/100 and the same SDK string in dauth/aauth/baas/five (SDK and Add-on)"),
    ("sdk_monotone", "coded.sdkMonotone = true", "SDK major non-decreasing in the version"),
    ("baas_templates", "coded.baasTemplatesOk = true", "baas user-agent templates have exactly one %s"),
    ("firmware_spelling", "coded.firmwareOk = true", "firmware string spells the version or repeats the previous entry"),
    ("digest_spelling", "coded.digestOk = true", "digest is well-formed and embeds the version, or repeats the previous entry"),
    ("aliases_agree", "coded.aliasesAgree = true", "a version is an alias in the firmware table iff in the digest table"),
    ("languages_documented", "coded.languagesOk = true", "invitation LANGUAGES equals the documented tag list, every tag well-formed"),
]


def emit_lean(data):
    t = data["tables"]
    kinds = {name: kind for name, _, _, kind in TABLES}
    lo, hi = data["doc_range"]
    doc_min = lo[0] if len(lo) == 1 else 0
    doc_max = hi[0] if len(hi) == 1 else 0
    L = []
    L.append("import NxProps.C18")
    L.append("/-! generated by tools/switch_tables.py from the working tree — do not edit -/")
    L.append("namespace Nx.C18.Gen")
    L.append("open Nx Nx.Switch")
    L.append("set_option maxRecDepth 100000")
    for name, _, _, kind in TABLES:
        L.append("def %s : Dict %s :=\n   %s" % (name, "CStr" if kind == "str" else "Nat", lean_dict(t[name], kind)))
    L.append("def coded : Coded :=")
    L.append("  { " + ", ".join("%s := %s" % (n, n) for n, _, _, _ in TABLES) + ",")
    L.append("    latest := [%s]," % ", ".join(str(data["latest"][c]) for c in CLIENTS))
    L.append("    languages := [%s]," % ", ".join(lean_str(s) for s in data["languages"]))
    L.append("    docMin := %d, docMax := %d }" % (doc_min, doc_max))
    for name, stmt, _ in OBLIGATIONS:
        L.append("theorem %s : %s := by decide +kernel" % (name, stmt))
    # the obligations transferred to the decoded tables, and the property theorems instantiated there
    L.append("theorem hyp_keys : coded.decode.keys.sameSets = true := by rw [Coded.decode_keys]; exact same_key_sets")
    L.append("theorem hyp_dauth_api : eraConstant coded.decode.dauthApi = true := (apiEra_of_coded coded api_era_constant).1")
    L.append("theorem hyp_aauth_api : eraConstant coded.decode.aauthApi = true := (apiEra_of_coded coded api_era_constant).2")
    L.append("theorem hyp_templates : TemplatesOk coded.decode := templatesOk_of_coded coded baas_templates")
    L.append("theorem hyp_languages : coded.decode.languages = documentedLanguages := languages_of_coded coded languages_documented")
    L.append("theorem atomic_actual : True := by have := Nx.C18.set_version_atomic coded.decode hyp_keys; trivial")
    L.append("theorem shape_actual : True := by have := Nx.C18.shape_changes_only_at_boundaries coded.decode hyp_keys hyp_dauth_api hyp_aauth_api hyp_templates; trivial")
    L.append("theorem validation_actual : True := by have := Nx.C18.send_invitation_accepts_documented coded.decode hyp_languages; trivial")
    L.append("end Nx.C18.Gen")
    return "\n".join(L) + "\n"


def driver_lines(data):
    """the same tables as input lines of nxdrv_C18"""
    lines = ["reset"]
    for name, _, _, kind in TABLES:
        for k, v in data["tables"][name]:
            lines.append("tbl %s %d %s" % (name, k, (v.encode().hex() or "-") if kind == "str" else str(v)))
    for c in CLIENTS:
        lines.append("latest %s %d" % (c, data["latest"][c]))
    for s in data["languages"]:
        lines.append("lang %s" % (s.encode().hex() or "-"))
    return lines


if __name__ == "__main__":
    import sys, json
    d = extract(sys.argv[1] if len(sys.argv) > 1 else os.environ.get("NX_REPO", "/repo"))
    print(json.dumps({k: (v if k != "tables" else {n: len(p) for n, p in v.items()}) for k, v in d.items()}, indent=1))
