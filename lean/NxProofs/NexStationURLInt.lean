import NxModel.Nex.StationURL
/-! `int(str(n)) = n` for the modelled `int()` / `str()` of Python -/
namespace Nx.Nex.StationURL
open Nx

theorem digit_bounds {c : Char} (h : c.isDigit = true) : 48 ≤ c.toNat ∧ c.toNat ≤ 57 := by
  simp only [Char.isDigit, Bool.and_eq_true, decide_eq_true_eq] at h
  have h1 := UInt32.le_iff_toNat_le.mp h.1
  have h2 := UInt32.le_iff_toNat_le.mp h.2
  exact ⟨h1, h2⟩

theorem digit_not_space {c : Char} (h : c.isDigit = true) : isPySpace c = false := by
  have ⟨a, b⟩ := digit_bounds h
  unfold isPySpace
  simp only []
  generalize c.toNat = n at *
  simp only [Bool.or_eq_false_iff, Bool.and_eq_false_iff, decide_eq_false_iff_not, beq_eq_false_iff_ne]
  omega

theorem digitsUS_true (l : Str) (h : ∀ c ∈ l, c.isDigit = true) : digitsUS true l = some l := by
  induction l with
  | nil => rfl
  | cons c r ih =>
    have hc := h c (by simp)
    simp only [digitsUS, hc, if_true, ih (fun x hx => h x (by simp [hx])), Option.map_some]

theorem digitsUS_false (l : Str) (hne : l ≠ []) (h : ∀ c ∈ l, c.isDigit = true) : digitsUS false l = some l := by
  cases l with
  | nil => exact absurd rfl hne
  | cons c r =>
    have hc := h c (by simp)
    simp only [digitsUS, hc, if_true, digitsUS_true r (fun x hx => h x (by simp [hx])), Option.map_some]

theorem trim_id (p : Char → Bool) (l : Str) (hh : ∀ c, l.head? = some c → p c = false)
    (hl : ∀ c, l.getLast? = some c → p c = false) : ((l.dropWhile p).reverse.dropWhile p).reverse = l := by
  have d1 : ∀ m : Str, (∀ c, m.head? = some c → p c = false) → m.dropWhile p = m := by
    intro m hm
    cases m with
    | nil => rfl
    | cons c r => simp [List.dropWhile, hm c rfl]
  rw [d1 l hh, d1 l.reverse (by simpa [List.head?_reverse] using hl), List.reverse_reverse]

theorem natDigits_digits (n : Nat) : ∀ c ∈ natDigits n, c.isDigit = true :=
  fun _ hc => Nat.isDigit_of_mem_toDigits (by omega) (by omega) hc

theorem natDigits_ne_nil (n : Nat) : natDigits n ≠ [] := Nat.toDigits_ne_nil

/-- `int(str(n)) = n` for every natural number -/
theorem pyInt_natDigits (n : Nat) : pyInt (natDigits n) = some (n : Int) := by
  have hd := natDigits_digits n
  have hne := natDigits_ne_nil n
  have hval : Nat.ofDigitChars 10 (natDigits n) 0 = n := Nat.ofDigitChars_ten_toDigits
  generalize natDigits n = l at *
  unfold pyInt
  have ht : ((l.dropWhile isPySpace).reverse.dropWhile isPySpace).reverse = l := by
    apply trim_id
    · intro c hc; exact digit_not_space (hd c (List.mem_of_mem_head? hc))
    · intro c hc; exact digit_not_space (hd c (List.mem_of_mem_getLast? hc))
  simp only [ht]
  cases l with
  | nil => exact absurd rfl hne
  | cons c r =>
    have hc := hd c (by simp)
    have ⟨b1, b2⟩ := digit_bounds hc
    have n1 : c ≠ '-' := by intro e; subst e; revert b1; decide
    have n2 : c ≠ '+' := by intro e; subst e; revert b1; decide
    have hs : signSplit (c :: r) = (false, c :: r) := by
      unfold signSplit
      split
      · rename_i heq; injection heq with e _; exact absurd e n1
      · rename_i heq; injection heq with e _; exact absurd e n2
      · rfl
    simp only [hs, digitsUS_false _ hne hd, hval]
    rfl

/-- `int(str(v)) = v` for every integer -/
theorem pyInt_intStr (v : Int) : pyInt (intStr v) = some v := by
  unfold intStr
  split
  · rename_i hneg
    have hd := natDigits_digits (-v).toNat
    have hne := natDigits_ne_nil (-v).toNat
    have hval : Nat.ofDigitChars 10 (natDigits (-v).toNat) 0 = (-v).toNat := Nat.ofDigitChars_ten_toDigits
    generalize natDigits (-v).toNat = l at *
    unfold pyInt
    have ht : ((('-' :: l).dropWhile isPySpace).reverse.dropWhile isPySpace).reverse = '-' :: l := by
      apply trim_id
      · intro c hc; simp at hc; subst hc; decide
      · intro c hc
        rw [List.getLast?_cons_of_ne_nil hne] at hc
        exact digit_not_space (hd c (List.mem_of_mem_getLast? hc))
    have hs : signSplit ('-' :: l) = (true, l) := rfl
    simp only [ht, hs, digitsUS_false _ hne hd, hval]
    show some (-(((-v).toNat : Nat) : Int)) = some v
    congr 1; omega
  · rename_i hpos
    rw [pyInt_natDigits]
    congr 1; omega

/-! ## typed access after the text round trip -/

theorem dictGet_strVals (k : Str) (ps : List (Str × PVal)) :
    dictGet k (ps.map fun p => (p.1, PVal.s p.2.render)) = (dictGet k ps).map fun v => PVal.s v.render := by
  induction ps with
  | nil => rfl
  | cons p r ih =>
    obtain ⟨k', v⟩ := p
    simp only [List.map, dictGet]
    split
    · rfl
    · exact ih

/-- `u[field]` is the same on a URL and on the URL with every value rendered to text (what `parse (repr u)` holds):
string parameters, int parameters held as ints (`int(str(v)) = v`) or as text, absent ones, unknown names -/
theorem getitem_strVals (u : URL) (field : Str) : getitem (strVals u) field = getitem u field := by
  unfold getitem strVals
  simp only [dictGet_strVals]
  split
  · cases dictGet field u.params with
    | none => rfl
    | some v => cases v <;> rfl
  · split
    · cases dictGet field u.params with
      | none => rfl
      | some v =>
        cases v with
        | s v => rfl
        | i v => simp only [Option.map_some, PVal.render, pyInt_intStr]
    · rfl

end Nx.Nex.StationURL
