import NxModel.Nex.RmcClientX
/-!
# Several RMC connections in one process

`RMCClient.__init__` creates, for every client object, its own `call_id` counter, its own `requests` and
`responses` dicts, its own `servers` dict and its own `closed` flag:

```
def __init__(self, settings, client):
    self.settings = settings.copy()
    ...
    self.call_id = 1
    self.servers = {}
    self.requests = {}
    self.responses = {}
    self.closed = False
```
and every method (`request`, `start`, `cleanup`, `close`, `disconnect`, `handle_request`) touches `self.…` only:
nothing in the class body or in the module is written at run time. A process that holds several live connections
(`BackEndClient.login`: the authentication connection and the secure connection; a server with one `RMCClient` per
connected peer; a proxy) is therefore the *list of its connection states*, and an atomic section executed on
connection `c` (a call, a datagram its receive loop took from its transport, its peer's EOF, a local closure, a task
of it resuming, a hook / handler of it ending) is `xstep` applied to the `c`-th element — the other elements are
not read and not written. Connections usually number their calls alike (every counter starts at 1), so equal call
ids are outstanding on different connections all the time.

`lift` is that construction for any step function (the line-protocol driver lifts its own per-connection step with
it, so the compiled model that the real multi-connection runs are compared with is literally this function);
`mstep`/`mrun` instantiate it with the extended machine.
-/
namespace Nx.RmcClient
open Nx Nx.Rmc

/-- apply a per-object step to the `c`-th object of a process (no such object: nothing happens) -/
def lift {σ α β : Type} (f : σ → α → σ × β) (ss : List σ) (c : Nat) (a : α) : List σ × Option β :=
  match ss[c]? with
  | none => (ss, none)
  | some s => ((ss.set c (f s a).1), some (f s a).2)

/-- an atomic section of connection `conn` -/
structure MOp where
  conn : Nat
  op : XOp
  deriving DecidableEq, Repr

/-- one atomic section of a process with several connections; outputs are tagged with the connection -/
def mstep (ms : List XState) (o : MOp) : List XState × List (Nat × XOut) :=
  match lift xstep ms o.conn o.op with
  | (ms', some outs) => (ms', outs.map fun x => (o.conn, x))
  | (ms', none) => (ms', [])

def mrun (ms : List XState) : List MOp → List XState × List (Nat × XOut)
  | [] => (ms, [])
  | o :: ops =>
    let (m1, o1) := mstep ms o
    let (m2, o2) := mrun m1 ops
    (m2, o1 ++ o2)

/-- a process whose `i`-th connection was started with `ks[i]` protocol servers; every call id counter starts at `n` -/
def minit (n : Nat) (ks : List Nat) : List XState := ks.map (xinit n)

/-- the atomic sections of connection `c`, in order -/
def opsOf (c : Nat) : List MOp → List XOp
  | [] => []
  | o :: r => if o.conn = c then o.op :: opsOf c r else opsOf c r

/-- the outputs of connection `c`, in order -/
def outsOf (c : Nat) : List (Nat × XOut) → List XOut
  | [] => []
  | (c', x) :: r => if c' = c then x :: outsOf c r else outsOf c r

end Nx.RmcClient
