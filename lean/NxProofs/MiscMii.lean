import NxModel.Misc.Mii
import NxProofs.MiscBits
import NxProofs.MiscCrc
/-! `MiiData.parse (MiiData.build m) = m` for all in-range attribute values, with a valid checksum -/
namespace Nx.Misc
open Nx Nx.Crypto

/-! ### lists of fixed-width items -/

theorem encList_ok (f : Nat → Except Err Bits) (g : Nat → Bits) (vs : List Nat)
    (h : ∀ x ∈ vs, f x = .ok (g x)) : encList f vs = .ok (vs.flatMap g) := by
  induction vs with
  | nil => rfl
  | cons v r ih =>
    simp only [encList, h v (List.mem_cons_self), ih (fun x hx => h x (List.mem_cons_of_mem _ hx)), List.flatMap_cons]

theorem encList_u8 (vs : List Nat) (h : ∀ x ∈ vs, x < 256) : encList encU8 vs = .ok (vs.flatMap (natToBits 8)) :=
  encList_ok _ _ _ (fun x hx => by simp [encU8, h x hx])

theorem encList_u16 (vs : List Nat) (h : ∀ x ∈ vs, x < 65536) : encList encU16 vs = .ok (vs.flatMap (natToBits 16)) :=
  encList_ok _ _ _ (fun x hx => by simp [encU16, h x hx])

theorem flatMap_natToBits_length (k : Nat) (vs : List Nat) : (vs.flatMap (natToBits k)).length = k * vs.length := by
  induction vs with
  | nil => rfl
  | cons v r ih => simp only [List.flatMap_cons, List.length_append, natToBits_length, ih, List.length_cons]; ring

theorem chunk_flatMap (k : Nat) (vs : List Nat) (h : ∀ x ∈ vs, x < 2 ^ k) :
    (chunkBits k vs.length (vs.flatMap (natToBits k))).map bitsToNat = vs := by
  induction vs with
  | nil => rfl
  | cons v r ih =>
    simp only [List.length_cons, chunkBits, List.flatMap_cons, List.map_cons]
    rw [List.take_left' (natToBits_length k v), List.drop_left' (natToBits_length k v),
      ih (fun x hx => h x (List.mem_cons_of_mem _ hx)), bitsToNat_natToBits_of_lt k v (h v List.mem_cons_self)]

theorem chunk_flatMap' (k n : Nat) (vs : List Nat) (hn : vs.length = n) (h : ∀ x ∈ vs, x < 2 ^ k) :
    (chunkBits k n (vs.flatMap (natToBits k))).map bitsToNat = vs := by
  subst hn; exact chunk_flatMap k vs h

theorem takeWhile_ne_zero_pad (cs : List Nat) (m : Nat) (h : ∀ c ∈ cs, c ≠ 0) :
    (cs ++ List.replicate m 0).takeWhile (· ≠ 0) = cs := by
  induction cs with
  | nil => cases m <;> simp [List.replicate]
  | cons c r ih =>
    have hc : c ≠ 0 := h c List.mem_cons_self
    rw [List.cons_append, List.takeWhile_cons, if_pos (by simpa using hc),
      ih (fun x hx => h x (List.mem_cons_of_mem _ hx))]

/-! ### one attribute -/

theorem field_roundtrip (k : Kind) (v : Val) (h : v.InRange k) :
    ∃ bs, encField k v = .ok bs ∧ bs.length = k.width ∧ decField k bs = v := by
  cases k <;> cases v <;> simp only [Val.InRange] at h
  case bits.n w v =>
    exact ⟨_, rfl, natToBits_length w v, by simp [decField, bitsToNat_natToBits_of_lt w v h]⟩
  case bit.n v =>
    refine ⟨_, rfl, rfl, ?_⟩
    have : v = 0 ∨ v = 1 := by omega
    rcases this with rfl | rfl <;> simp [decField, bitsToNat]
  case flag.n v =>
    refine ⟨_, rfl, rfl, ?_⟩
    have : v = 0 ∨ v = 1 := by omega
    rcases this with rfl | rfl <;> simp [decField, bitsToNat, toFlag]
  case flagBits.n w v =>
    refine ⟨_, rfl, natToBits_length w v, ?_⟩
    have h2 : (2 : Nat) ^ 1 ≤ 2 ^ w := Nat.pow_le_pow_right (by decide) h.2
    have hv : v < 2 ^ w := by omega
    have : v = 0 ∨ v = 1 := by omega
    simp only [decField, bitsToNat_natToBits_of_lt w v hv]
    rcases this with rfl | rfl <;> simp [toFlag]
  case u8.n v =>
    exact ⟨natToBits 8 v, by simp [encField, encU8, h], natToBits_length 8 v,
      by simp [decField, bitsToNat_natToBits_of_lt 8 v (by simpa using h)]⟩
  case u8s.l n vs =>
    obtain ⟨hl, hr⟩ := h
    refine ⟨_, by simp only [encField]; exact encList_u8 vs hr, ?_, ?_⟩
    · rw [flatMap_natToBits_length, hl]; rfl
    · simp only [decField]; rw [chunk_flatMap' 8 n vs hl (fun x hx => by have := hr x hx; omega)]
  case raw.l n vs =>
    obtain ⟨hl, hr⟩ := h
    refine ⟨_, by simp only [encField]; exact encList_u8 vs hr, ?_, ?_⟩
    · rw [flatMap_natToBits_length, hl]; rfl
    · simp only [decField]; rw [chunk_flatMap' 8 n vs hl (fun x hx => by have := hr x hx; omega)]
  case wstr.l n cs =>
    obtain ⟨hl, hr⟩ := h
    have hall : ∀ x ∈ cs ++ List.replicate (n - cs.length) 0, x < 65536 := by
      intro x hx
      rcases List.mem_append.mp hx with hx | hx
      · exact (hr x hx).1
      · rw [List.mem_replicate] at hx; omega
    have hlen : (cs ++ List.replicate (n - cs.length) 0).length = n := by simp; omega
    refine ⟨_, by simp only [encField]; exact encList_u16 _ hall, ?_, ?_⟩
    · rw [flatMap_natToBits_length, hlen]; rfl
    · simp only [decField]
      rw [chunk_flatMap' 16 n _ hlen (fun x hx => by have := hall x hx; omega),
        takeWhile_ne_zero_pad _ _ (fun c hc => (hr c hc).2)]

/-! ### all attributes -/

def widthSum : List Field → Nat
  | [] => 0
  | f :: fs => f.kind.width + widthSum fs

theorem fields_roundtrip (L : List Field) (vals : List Val) (h : ValsInRange L vals) :
    ∃ bits, encFields L vals = .ok bits ∧ bits.length = widthSum L ∧
      ∀ rest, decFields L (bits ++ rest) = .ok (vals, rest) := by
  induction L generalizing vals with
  | nil =>
    cases vals with
    | nil => exact ⟨[], rfl, rfl, fun _ => rfl⟩
    | cons _ _ => simp [ValsInRange] at h
  | cons f fs ih =>
    cases vals with
    | nil => simp [ValsInRange] at h
    | cons v vs =>
      obtain ⟨hv, hvs⟩ := h
      obtain ⟨b, hb, hbl, hbd⟩ := field_roundtrip f.kind v hv
      obtain ⟨br, hbr, hbrl, hbrd⟩ := ih vs hvs
      refine ⟨b ++ br, by simp [encFields, hb, hbr], by simp [widthSum, hbl, hbrl], ?_⟩
      intro rest
      simp only [decFields, List.length_append, List.append_assoc]
      rw [if_neg (by omega), List.drop_left' hbl, List.take_left' hbl, hbrd rest, hbd]

/-! ### `swap_endian` is an involution that leaves everything from 0x5E on alone -/

theorem revEach_length (k cnt : Nat) (d : Bytes) : (revEach k cnt d).length = d.length := by
  induction cnt generalizing d with
  | zero => rfl
  | succ n ih => simp [revEach, ih]; omega

theorem revEach_invol (k cnt : Nat) (d : Bytes) (h : d.length = k * cnt) :
    revEach k cnt (revEach k cnt d) = d := by
  induction cnt generalizing d with
  | zero => rfl
  | succ n ih =>
    have hk : k ≤ d.length := by rw [h, Nat.mul_succ]; omega
    have hA : (d.take k).reverse.length = k := by simp; omega
    simp only [revEach]
    rw [List.take_left' hA, List.drop_left' hA, List.reverse_reverse,
      ih (d.drop k) (by simp [h, Nat.mul_succ]), List.take_append_drop]

theorem swapRegions_length (rs : List (Nat × Nat)) (d : Bytes) : (swapRegions rs d).length = d.length := by
  induction rs generalizing d with
  | nil => rfl
  | cons r rs ih => obtain ⟨k, cnt⟩ := r; simp [swapRegions, revEach_length, ih]; omega

theorem swapRegions_invol (rs : List (Nat × Nat)) (d : Bytes) (h : regionsSize rs ≤ d.length) :
    swapRegions rs (swapRegions rs d) = d := by
  induction rs generalizing d with
  | nil => rfl
  | cons r rs ih =>
    obtain ⟨k, cnt⟩ := r
    simp only [regionsSize] at h
    have hA : (revEach k cnt (d.take (k * cnt))).length = k * cnt := by rw [revEach_length]; simp; omega
    simp only [swapRegions]
    rw [List.take_left' hA, List.drop_left' hA, revEach_invol _ _ _ (by simp; omega),
      ih _ (by simp; omega), List.take_append_drop]

theorem swapRegions_append (rs : List (Nat × Nat)) (x t : Bytes) (h : regionsSize rs ≤ x.length) :
    swapRegions rs (x ++ t) = swapRegions rs x ++ t := by
  induction rs generalizing x with
  | nil => rfl
  | cons r rs ih =>
    obtain ⟨k, cnt⟩ := r
    simp only [regionsSize] at h
    simp only [swapRegions]
    rw [List.take_append_of_le_length (by omega), List.drop_append_of_le_length (by omega),
      ih _ (by simp; omega), List.append_assoc]

theorem swapEndian_invol (d d' : Bytes) (h : swapEndian d = .ok d') : swapEndian d' = .ok d := by
  unfold swapEndian at h ⊢
  split at h
  · cases h
  · rename_i hl
    cases h
    rw [if_neg (by rw [swapRegions_length]; exact hl), swapRegions_invol _ _ (by omega)]

/-! ### build then parse -/

theorem miiLayout_width : widthSum miiLayout = 752 := by decide

theorem mii_parse_build (vals : List Val) (h : ValsInRange miiLayout vals) :
    ∃ b, miiBuild vals = .ok b ∧ b.length = 0x60 ∧ miiCrc16 b = 0 ∧ miiParse b = .ok vals := by
  obtain ⟨bits, he, hl, hd⟩ := fields_roundtrip miiLayout vals h
  rw [miiLayout_width] at hl
  have hp8 : bits.length % 8 = 0 := by rw [hl]
  have hpl : (packBits bits).length = 94 := by have := pack_length bits hp8; omega
  have hR : regionsSize miiRegions = 94 := by decide
  have hsw : swapEndian (packBits bits) = .ok (swapRegions miiRegions (packBits bits)) := by
    unfold swapEndian; rw [if_neg (by rw [hR, hpl]; decide)]
  generalize hD : swapRegions miiRegions (packBits bits) = D at hsw
  have hDl : D.length = 94 := by rw [← hD, swapRegions_length, hpl]
  have hcrc : miiCrc16 (D ++ u16be (miiCrc16 (D ++ [0, 0]))) = 0 := miiCrc16_valid D
  generalize hc : miiCrc16 (D ++ [0, 0]) = c at hcrc
  have hbl : (D ++ u16be c).length = 96 := by simp [hDl, u16be]
  refine ⟨D ++ u16be c, by simp only [miiBuild, he, hsw, hc], hbl, hcrc, ?_⟩
  have hrd : rd 0x60 (D ++ u16be c) = .ok (D ++ u16be c, []) := by
    unfold rd; rw [if_pos (by omega)]
    rw [List.take_of_length_le (by omega), List.drop_of_length_le (by omega)]
  have hsw2 : swapEndian (D ++ u16be c) = .ok (packBits bits ++ u16be c) := by
    unfold swapEndian
    rw [if_neg (by rw [hR, hbl]; decide), swapRegions_append _ _ _ (by rw [hR, hDl]), ← hD,
      swapRegions_invol _ _ (by rw [hR, hpl])]
  simp only [miiParse, hrd, hsw2, unpackBits_append, unpack_pack bits hp8, hd]
  rw [if_neg (by rw [unpackBits_length]; simp [u16be]), if_neg (by simpa using hcrc)]

/-- a wrong checksum field is rejected: for the same 0x5E data bytes only one trailer passes -/
theorem miiParse_bad_crc (D : Bytes) (x : Nat) (hD : D.length = 0x5E) (hx : x < 65536)
    (hne : x ≠ miiCrc16 (D ++ [0, 0])) : miiParse (D ++ u16be x) = .error .value := by
  have hbl : (D ++ u16be x).length = 96 := by simp [hD, u16be]
  have hrd : rd 0x60 (D ++ u16be x) = .ok (D ++ u16be x, []) := by
    unfold rd; rw [if_pos (by omega)]
    rw [List.take_of_length_le (by omega), List.drop_of_length_le (by omega)]
  have hcrc : miiCrc16 (D ++ u16be x) ≠ 0 := fun h0 => hne ((miiCrc16_trailer_zero_iff D x hx).mp h0)
  have hR : regionsSize miiRegions = 94 := by decide
  simp only [miiParse, hrd]
  have hsw : swapEndian (D ++ u16be x) = .ok (swapRegions miiRegions (D ++ u16be x)) := by
    unfold swapEndian; rw [if_neg (by rw [hR, hbl]; decide)]
  rw [hsw]
  simp only []
  have hlen : (unpackBits (swapRegions miiRegions (D ++ u16be x))).length = 752 + 16 := by
    rw [unpackBits_length, swapRegions_length, hbl]
  -- decFields cannot fail on 768 bits and leaves 16
  have key : ∀ (L : List Field) (bs : Bits), widthSum L ≤ bs.length →
      ∃ vs rest, decFields L bs = .ok (vs, rest) ∧ rest.length = bs.length - widthSum L := by
    intro L
    induction L with
    | nil => intro bs _; exact ⟨[], bs, rfl, by simp [widthSum]⟩
    | cons f fs ih =>
      intro bs hb
      simp only [widthSum] at hb
      obtain ⟨vs, rest, h1, h2⟩ := ih (bs.drop f.kind.width) (by simp; omega)
      refine ⟨_, rest, by simp only [decFields]; rw [if_neg (by omega), h1], ?_⟩
      rw [h2]; simp [widthSum]; omega
  obtain ⟨vs, rest, h1, h2⟩ := key miiLayout _ (by rw [hlen, miiLayout_width]; decide)
  rw [h1]
  simp only []
  rw [if_neg (by rw [h2, hlen, miiLayout_width]; decide), if_pos hcrc]

end Nx.Misc
