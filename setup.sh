#!/bin/sh
# builds the Lean development and the model drivers from files on disk only (offline)
set -e
cd "$(dirname "$0")/lean"
lake build NxModel NxProofs NxProps
for i in 01 02 03 04 05 06 07 08 09 10 11 12 13 14 15 16 17 18 19 20; do
  lake build nxdrv_C$i
done
