import NxModel.Nex.RmcServer
import NxProofs.Rmc
/-! proofs about the RMC server model (`handle_request` + generated dispatch) -/
namespace Nx.RmcServer
open Nx Nx.Rmc

/-- the request fields as `RMCMessage.decode` produces them -/
structure ReqWF (req : Msg) (m : Nat) : Prop where
  proto : req.protocol < 65536
  call : req.callId < 4294967296
  meth : req.method = some m

/-- what the property quantifies over: a handler result that `handle_request` is meant to answer -/
def Answerable (m : Nat) : HandleResult → Prop
  | .returned out => m < 32768 ∧ out.length + 12 < 4294967296
  | .raised (.rmcError c) => 2147483648 ≤ c ∧ c < 4294967296
  | .raised .base => False
  | .raised _ => True

theorem bit31_of_nat (e : Nat) (h1 : 2147483648 ≤ e) (h2 : e < 4294967296) : bit31 (e : Int) = true := by
  unfold bit31
  have : (0 : Int) ≤ (e : Int) := by omega
  simp [this]
  omega

theorem bit31_errorResult (c : Nat) (h : c < 2147483648) : bit31 (errorResult c) = true := by
  unfold errorResult
  exact bit31_of_nat _ (by omega) (by omega)

/-- the error form of `RMCMessage.encode` never looks at the `method` field -/
theorem encode_failure (p c e : Nat) (mm : Option Nat) (hp : p < 65536) (hc : c < 4294967296)
    (he1 : 2147483648 ≤ e) (he2 : e < 4294967296) :
    encode { mode := 1, protocol := p, method := mm, callId := c, error := (e : Int), body := [] }
      = .ok (specEncode (.failure p c e)) := by
  have hlen : (specProto false p).length ≤ 3 := by rw [specProto_length]; split <;> omega
  have hbit : hasErrorBit (e : Int) = true := by
    unfold hasErrorBit
    have : (e : Int) ≠ -1 := by omega
    simp [this]
    omega
  have h1 : ¬ ((1 : Nat) = 0) := by omega
  simp only [encode, h1, if_false, encProtocol_resp p hp, bind, Except.bind, pure, Except.pure,
    specEncode, specFrame, List.append_assoc, hbit]
  have he0 : (0 : Int) ≤ e := by omega
  have he3 : (e : Int) < 4294967296 := by omega
  rw [if_pos trivial, if_pos ⟨he0, he3, hc⟩, if_pos (by simp <;> omega)]
  simp [u8, b8]

theorem send_failure (req : Msg) (m e : Nat) (w : ReqWF req m) (he1 : 2147483648 ≤ e) (he2 : e < 4294967296) :
    sendMsg (responseMsg req (e : Int) out) = .sends (specEncode (.failure req.protocol req.callId e)) := by
  unfold sendMsg responseMsg
  simp only [bit31_of_nat e he1 he2, Bool.not_true, Bool.false_eq_true, if_false]
  rw [encode_failure _ _ _ _ w.proto w.call he1 he2]

theorem send_success (req : Msg) (m : Nat) (w : ReqWF req m) (out : Bytes) (hm : m < 32768)
    (hb : out.length + 12 < 4294967296) :
    sendMsg (responseMsg req 0x10001 out) = .sends (specEncode (.success req.protocol req.callId m out)) := by
  unfold sendMsg responseMsg
  have hb31 : bit31 (0x10001 : Int) = false := by decide
  simp only [hb31, Bool.not_false, if_true]
  have := encode_ofSpec (.success req.protocol req.callId m out) ⟨w.proto, w.call, hm, hb⟩
  simp only [ofSpec] at this
  rw [w.meth, this]

/-! ### `handle_request`, row by row -/
section rows
variable {servers : Registry} {req : Msg} {m : Nat}

theorem react_unregistered (w : ReqWF req m) (hp : regLookup req.protocol servers = none) (h : HandleResult) :
    react servers req h = .sends (specEncode (.failure req.protocol req.callId 0x80010002)) := by
  simp only [react, hp]
  exact send_failure req m _ w (by decide) (by decide)

theorem react_returned (w : ReqWF req m) (hp : regLookup req.protocol servers = some false) (out : Bytes)
    (hm : m < 32768) (hb : out.length + 12 < 4294967296) :
    react servers req (.returned out) = .sends (specEncode (.success req.protocol req.callId m out)) := by
  simp only [react, hp, resultCode]
  exact send_success req m w out hm hb

theorem react_rmcError (w : ReqWF req m) (hp : regLookup req.protocol servers = some false) (code : Nat)
    (h1 : 2147483648 ≤ code) (h2 : code < 4294967296) :
    react servers req (.raised (.rmcError code)) = .sends (specEncode (.failure req.protocol req.callId code)) := by
  simp only [react, hp, resultCode]
  exact send_failure req m _ w h1 h2

theorem react_py (w : ReqWF req m) (hp : regLookup req.protocol servers = some false) :
    react servers req (.raised .typeError) = .sends (specEncode (.failure req.protocol req.callId 0x80040002)) ∧
    react servers req (.raised .indexError) = .sends (specEncode (.failure req.protocol req.callId 0x80040003)) ∧
    react servers req (.raised .memoryError) = .sends (specEncode (.failure req.protocol req.callId 0x80040006)) ∧
    react servers req (.raised .keyError) = .sends (specEncode (.failure req.protocol req.callId 0x80040007)) ∧
    react servers req (.raised .other) = .sends (specEncode (.failure req.protocol req.callId 0x80040001)) := by
  refine ⟨?_, ?_, ?_, ?_, ?_⟩ <;> simp only [react, hp, resultCode] <;>
    exact send_failure req m _ w (by decide) (by decide)

theorem react_noresponse (hp : regLookup req.protocol servers = some true) (h : HandleResult)
    (hb : h ≠ .raised .base) : react servers req h = .silent := by
  unfold react
  simp only [hp]
  cases h with
  | returned o => simp [resultCode]
  | raised e => cases e <;> simp_all [resultCode]

theorem react_base (nr : Bool) (hp : regLookup req.protocol servers = some nr) :
    react servers req (.raised .base) = .propagates := by
  simp [react, hp, resultCode]

end rows

/-- the error code the property assigns to each kind of failure (`none`: not an answerable failure) -/
def tableCode : Exc → Option Nat
  | .rmcError c => if 2147483648 ≤ c ∧ c < 4294967296 then some c.toNat else none
  | .typeError => some 0x80040002
  | .indexError => some 0x80040003
  | .memoryError => some 0x80040006
  | .keyError => some 0x80040007
  | .other => some 0x80040001
  | .base => none

theorem react_raised {servers : Registry} {req : Msg} {m : Nat} (w : ReqWF req m)
    (hp : regLookup req.protocol servers = some false) (e : Exc) (code : Nat) (hc : tableCode e = some code) :
    react servers req (.raised e) = .sends (specEncode (.failure req.protocol req.callId code)) := by
  obtain ⟨h1, h2, h3, h4, h5⟩ := react_py w hp
  cases e with
  | rmcError c =>
    simp only [tableCode] at hc
    split at hc
    · rename_i hr
      cases hc
      have hc0 : (0 : Int) ≤ c := by omega
      have := react_rmcError w hp c.toNat (by omega) (by omega)
      rwa [Int.toNat_of_nonneg hc0] at this
    · cases hc
  | typeError => cases hc; exact h1
  | indexError => cases hc; exact h2
  | memoryError => cases hc; exact h3
  | keyError => cases hc; exact h4
  | other => cases hc; exact h5
  | base => cases hc

/-- exactly one well-formed response carrying the request's protocol and call id, or silence for NORESPONSE -/
theorem react_answer {servers : Registry} {req : Msg} {m : Nat} (w : ReqWF req m) (h : HandleResult)
    (ha : Answerable m h) :
    (regLookup req.protocol servers = some true ∧ react servers req h = .silent) ∨
    (regLookup req.protocol servers ≠ some true ∧
      ∃ s : Spec, s.WF ∧ react servers req h = .sends (specEncode s) ∧
        (ofSpec s).mode = 1 ∧ (ofSpec s).protocol = req.protocol ∧ (ofSpec s).callId = req.callId) := by
  cases hp : regLookup req.protocol servers with
  | none =>
    right
    refine ⟨by simp, .failure req.protocol req.callId 0x80010002, ⟨w.proto, w.call, by decide, by decide⟩,
      react_unregistered w hp h, rfl, rfl, rfl⟩
  | some nr =>
    cases nr with
    | true =>
      left
      refine ⟨rfl, react_noresponse hp h ?_⟩
      intro e; subst e; exact ha
    | false =>
      right
      refine ⟨by simp, ?_⟩
      cases h with
      | returned out =>
        obtain ⟨hm, hb⟩ := ha
        exact ⟨.success req.protocol req.callId m out, ⟨w.proto, w.call, hm, hb⟩, react_returned w hp out hm hb, rfl, rfl, rfl⟩
      | raised e =>
        cases e with
        | rmcError c =>
          obtain ⟨h1, h2⟩ := ha
          have hc0 : (0 : Int) ≤ c := by omega
          have := react_rmcError w hp c.toNat (by omega) (by omega)
          rw [Int.toNat_of_nonneg hc0] at this
          exact ⟨.failure req.protocol req.callId c.toNat, ⟨w.proto, w.call, by omega, by omega⟩, this, rfl, rfl, rfl⟩
        | base => exact absurd ha (by simp [Answerable])
        | typeError => exact ⟨.failure req.protocol req.callId 0x80040002, ⟨w.proto, w.call, by decide, by decide⟩, (react_py w hp).1, rfl, rfl, rfl⟩
        | indexError => exact ⟨.failure req.protocol req.callId 0x80040003, ⟨w.proto, w.call, by decide, by decide⟩, (react_py w hp).2.1, rfl, rfl, rfl⟩
        | memoryError => exact ⟨.failure req.protocol req.callId 0x80040006, ⟨w.proto, w.call, by decide, by decide⟩, (react_py w hp).2.2.1, rfl, rfl, rfl⟩
        | keyError => exact ⟨.failure req.protocol req.callId 0x80040007, ⟨w.proto, w.call, by decide, by decide⟩, (react_py w hp).2.2.2.1, rfl, rfl, rfl⟩
        | other => exact ⟨.failure req.protocol req.callId 0x80040001, ⟨w.proto, w.call, by decide, by decide⟩, (react_py w hp).2.2.2.2, rfl, rfl, rfl⟩

theorem react_ne_propagates {servers : Registry} {req : Msg} {m : Nat} (w : ReqWF req m) (h : HandleResult)
    (ha : Answerable m h) : react servers req h ≠ .propagates := by
  rcases react_answer (servers := servers) w h ha with ⟨_, hs⟩ | ⟨_, s, _, hs, _⟩ <;> simp [hs]

/-- the loop answers every request of a sequence by `react`, independently of the others -/
theorem serve_eq_map (servers : Registry) (reqs : List (Msg × HandleResult))
    (hall : ∀ x ∈ reqs, ∃ m, ReqWF x.1 m ∧ Answerable m x.2) :
    serve servers reqs = reqs.map fun x => react servers x.1 x.2 := by
  induction reqs with
  | nil => rfl
  | cons x rest ih =>
    obtain ⟨req, h⟩ := x
    obtain ⟨m, w, ha⟩ := hall (req, h) (by simp)
    have hne := react_ne_propagates (servers := servers) w h ha
    have ih' := ih (fun y hy => hall y (by simp [hy]))
    simp only [serve, List.map_cons]
    cases hr : react servers req h with
    | propagates => exact absurd hr hne
    | sends d => simp [ih']
    | silent => simp [ih']

theorem serve_append (servers : Registry) (a b : List (Msg × HandleResult))
    (ha : ∀ x ∈ a, ∃ m, ReqWF x.1 m ∧ Answerable m x.2) :
    serve servers (a ++ b) = serve servers a ++ serve servers b := by
  induction a with
  | nil => rfl
  | cons x rest ih =>
    obtain ⟨req, h⟩ := x
    obtain ⟨m, w, hans⟩ := ha (req, h) (by simp)
    have hne := react_ne_propagates (servers := servers) w h hans
    have ih' := ih (fun y hy => ha y (by simp [hy]))
    simp only [List.cons_append, serve]
    cases hr : react servers req h with
    | propagates => exact absurd hr hne
    | sends d => simp [ih']
    | silent => simp [ih']

theorem serveInc_dead (servers : Registry) (l : List (Msg × HandleResult)) : serveInc servers false l = [] := by
  induction l with
  | nil => rfl
  | cons x rest ih => simp [serveInc, serveStep, ih]

/-- the request-at-a-time loop the driver runs is `serve` -/
theorem serve_eq_serveInc (servers : Registry) (l : List (Msg × HandleResult)) :
    serve servers l = serveInc servers true l := by
  induction l with
  | nil => rfl
  | cons x rest ih =>
    obtain ⟨req, h⟩ := x
    simp only [serve, serveInc, serveStep, if_true]
    cases hr : react servers req h with
    | propagates => simp [serveInc_dead]
    | sends d => simp [ih]
    | silent => simp [ih]

/-! ### the generated dispatch -/
theorem gen_unknown_method (srv : Server) (mid : Nat) (ex : Option Exc) (u : User)
    (h : findMethod mid srv.methods = none) : generatedHandle srv mid ex u = notImplemented := by
  simp [generatedHandle, h]

theorem gen_unsupported (srv : Server) (mid : Nat) (ex : Option Exc) (u : User) (mt : Method)
    (h : findMethod mid srv.methods = some mt) (hs : mt.supported = false) :
    generatedHandle srv mid ex u = notImplemented := by
  simp [generatedHandle, h, hs]

theorem gen_extract_fails (srv : Server) (mid : Nat) (e : Exc) (u : User) (mt : Method)
    (h : findMethod mid srv.methods = some mt) (hs : mt.supported = true) :
    generatedHandle srv mid (some e) u = .raised e := by
  simp [generatedHandle, h, hs]

theorem gen_stub (srv : Server) (mid : Nat) (mt : Method)
    (h : findMethod mid srv.methods = some mt) (hs : mt.supported = true) :
    generatedHandle srv mid none .stub = notImplemented := by
  simp [generatedHandle, h, hs]

theorem gen_raises (srv : Server) (mid : Nat) (e : Exc) (mt : Method)
    (h : findMethod mid srv.methods = some mt) (hs : mt.supported = true) :
    generatedHandle srv mid none (.raises e) = .raised e := by
  simp [generatedHandle, h, hs]

theorem gen_returns_good (srv : Server) (mid : Nat) (enc : HandleResult) (mt : Method)
    (h : findMethod mid srv.methods = some mt) (hs : mt.supported = true) :
    generatedHandle srv mid none (.returns .good enc) = if mt.resp = .none then .returned [] else enc := by
  simp only [generatedHandle, h, hs]
  cases hr : mt.resp <;> simp

theorem gen_returns_bad (srv : Server) (mid : Nat) (enc : HandleResult) (mt : Method) (sh : Shape)
    (h : findMethod mid srv.methods = some mt) (hs : mt.supported = true) (hsh : sh ≠ .good)
    (hr : mt.resp = .single false ∨ mt.resp = .multi) :
    generatedHandle srv mid none (.returns sh enc) = .raised .other := by
  simp only [generatedHandle, h, hs]
  rcases hr with hr | hr <;> simp [hr, hsh]

theorem findMethod_some {mid : Nat} {l : List Method} {mt : Method} (h : findMethod mid l = some mt) :
    mt ∈ l ∧ mt.id = mid := by
  induction l with
  | nil => simp [findMethod] at h
  | cons a r ih =>
    simp only [findMethod] at h
    split at h
    · cases h; simp_all
    · have := ih h; simp [this]

/-- with distinct method ids (generated obligation) the table lookup returns *the* entry with that id -/
theorem findMethod_of_mem {l : List Method} (hd : natsDistinct (l.map (·.id)) = true) {mt : Method} (hm : mt ∈ l) :
    findMethod mt.id l = some mt := by
  induction l with
  | nil => cases hm
  | cons a r ih =>
    simp only [List.map_cons, natsDistinct, Bool.and_eq_true, Bool.not_eq_true', List.contains_eq_mem,
      decide_eq_false_iff_not] at hd
    simp only [findMethod]
    rcases List.mem_cons.mp hm with rfl | hm'
    · simp
    · have hne : a.id ≠ mt.id := by
        intro e
        exact hd.1 (by rw [e]; exact List.mem_map.mpr ⟨mt, hm', rfl⟩)
      simp [hne, ih hd.2 hm']

/-! ### unknown method ids, aliases of defined ids, and which user code runs -/

/-- an id that no table entry carries is unknown: the lookup compares the whole number -/
theorem findMethod_none_of_not_mem {mid : Nat} {l : List Method} (h : mid ∉ l.map (·.id)) : findMethod mid l = none := by
  induction l with
  | nil => rfl
  | cons a r ih =>
    simp only [List.map_cons, List.mem_cons, not_or] at h
    simp only [findMethod]
    rw [if_neg (fun e => h.1 e.symm)]
    exact ih h.2

theorem findMethod_none_iff {mid : Nat} {l : List Method} : findMethod mid l = none ↔ mid ∉ l.map (·.id) := by
  constructor
  · intro h hm
    obtain ⟨mt, hmt, he⟩ := List.mem_map.mp hm
    induction l with
    | nil => cases hmt
    | cons a r ih =>
      simp only [findMethod] at h
      split at h
      · cases h
      · rename_i hne
        rcases List.mem_cons.mp hmt with rfl | hr
        · exact hne he
        · exact ih h (List.mem_map.mpr ⟨mt, hr, he⟩) hr
  · exact findMethod_none_of_not_mem

/-- every generated id is below 2^15: whatever has a bit from 15 upwards set is unknown -/
theorem findMethod_none_of_ge {srv : Server} (hfit : srv.methodIdsFit = true) {mid : Nat} (h : 32768 ≤ mid) :
    findMethod mid srv.methods = none := by
  apply findMethod_none_of_not_mem
  intro hm
  obtain ⟨mt, hmt, he⟩ := List.mem_map.mp hm
  have := (List.all_eq_true.mp hfit) mt hmt
  simp only [decide_eq_true_eq] at this
  omega

theorem or_pow_ge (k b : Nat) (hb : 15 ≤ b) : 32768 ≤ k ||| 2 ^ b := by
  have h1 : 2 ^ b ≤ k ||| 2 ^ b := Nat.right_le_or
  have h2 : 2 ^ 15 ≤ 2 ^ b := Nat.pow_le_pow_right (by decide) hb
  omega

theorem add_pow_ge (k b : Nat) (hb : 15 ≤ b) : 32768 ≤ k + 2 ^ b := by
  have h2 : 2 ^ 15 ≤ 2 ^ b := Nat.pow_le_pow_right (by decide) hb
  omega

theorem invoked_unknown (srv : Server) (mid : Nat) (ex : Option Exc) (h : findMethod mid srv.methods = none) :
    invoked srv mid ex = none := by
  simp [invoked, h]

theorem invoked_some_iff (srv : Server) (mid : Nat) (ex : Option Exc) (k : Nat) :
    invoked srv mid ex = some k ↔
      k = mid ∧ ex = none ∧ ∃ mt, findMethod mid srv.methods = some mt ∧ mt.supported = true := by
  unfold invoked
  cases hf : findMethod mid srv.methods with
  | none => simp
  | some mt =>
    have hid := (findMethod_some hf).2
    cases hs : mt.supported <;> cases ex <;> simp [hs, hid] <;> omega

/-- when no user method runs the outcome does not depend on what the user's methods would have done -/
theorem not_invoked_user_irrelevant (srv : Server) (mid : Nat) (ex : Option Exc) (h : invoked srv mid ex = none)
    (u u' : User) : generatedHandle srv mid ex u = generatedHandle srv mid ex u' := by
  unfold invoked at h
  unfold generatedHandle
  cases hf : findMethod mid srv.methods with
  | none => rfl
  | some mt =>
    simp only [hf] at h
    cases hs : mt.supported
    · simp [hs]
    · cases ex with
      | none => simp [hs] at h
      | some e => simp [hs]

theorem findServer_some {p : Nat} {l : List Server} {s : Server} (h : findServer p l = some s) :
    s ∈ l ∧ s.protocol = p := by
  induction l with
  | nil => simp [findServer] at h
  | cons a r ih =>
    simp only [findServer] at h
    split at h
    · cases h; simp_all
    · have := ih h; simp [this]

/-- the registry `react` consults and the table `dispatch` consults agree on which protocols are registered -/
theorem regLookup_registryOf (p : Nat) (l : List Server) :
    regLookup p (registryOf l) = (findServer p l).map (·.noresponse) := by
  induction l with
  | nil => rfl
  | cons a r ih =>
    simp only [registryOf, List.map_cons, regLookup, findServer]
    split
    · rfl
    · simpa [registryOf] using ih

end Nx.RmcServer
