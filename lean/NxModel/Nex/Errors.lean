import NxModel.Nex.Common
/-!
# `nintendo/nex/errors.py` — the code ↔ name table, and `Result.name()` / `Result.error(name)`

The table is *data extracted from the source by the translator* (`tools/nexval_errors.py`, which
reads the dict literal with `ast`, so duplicate keys are still visible). Names are lists of code
points. `namesDict`/`codesDict` rebuild the two Python dicts with dict semantics (a repeated key
keeps its first position and the last value).
-/
namespace Nx.Nex
open Nx

abbrev Name := List Nat
/-- entries of the `error_names` literal in source order: (code, name) -/
abbrev ErrTable := List (Nat × Name)

def dictGet {κ ν : Type} [BEq κ] (k : κ) : List (κ × ν) → Option ν
  | [] => none
  | (k', v) :: r => if k' == k then some v else dictGet k r

/-- `error_names = { code: name, ... }` -/
def namesDict (t : ErrTable) : List (Nat × Name) := t.foldl (fun d e => dictInsert e.1 e.2 d) []
/-- `error_codes = {name: code for code, name in error_names.items()}` -/
def codesDict (t : ErrTable) : List (Name × Nat) := (namesDict t).foldl (fun d e => dictInsert e.2 e.1 d) []

def nameOf (t : ErrTable) (code : Nat) : Option Name := dictGet code (namesDict t)
def codeOf (t : ErrTable) (name : Name) : Option Nat := dictGet name (codesDict t)

def strName (s : String) : Name := s.toList.map Char.toNat

/-- "success" -/
def successName : Name := [115, 117, 99, 99, 101, 115, 115]
/-- "unknown error" -/
def unknownName : Name := [117, 110, 107, 110, 111, 119, 110, 32, 101, 114, 114, 111, 114]

/-- `Result.name()` -/
def Result.name (t : ErrTable) (code : Nat) : Name :=
  if Result.isSuccess code then successName
  else (nameOf t (Result.key code)).getD unknownName

/-- `Result.error(name)`: `KeyError` for an unknown name -/
def Result.errorNamed (t : ErrTable) (name : Name) : Except Err Nat :=
  match codeOf t name with
  | some c => .ok (Result.mkError c)
  | none => .error .key

/-! ## the Bool checker discharged by `decide +kernel` on the generated table -/

def notIn {α : Type} [BEq α] (x : α) : List α → Bool
  | [] => true
  | y :: r => !(y == x) && notIn x r

def nodupB {α : Type} [BEq α] : List α → Bool
  | [] => true
  | x :: r => notIn x r && nodupB r

/-- no duplicate code, no duplicate name, every code below the error bit and non-zero, no name that
`Result.name()` also uses for something else -/
def checkTable (t : ErrTable) : Bool :=
  nodupB (t.map (·.1)) && nodupB (t.map (·.2)) && t.all (fun e => decide (e.1 < errorMask)) &&
  notIn successName (t.map (·.2)) && notIn unknownName (t.map (·.2))

/-- first pair of entries (indices) sharing a code or a name — failing-input search -/
def firstDup {α : Type} [BEq α] (l : List α) : Option (Nat × Nat) :=
  let rec go (i : Nat) : List α → Option (Nat × Nat)
    | [] => none
    | x :: r => match r.findIdx? (· == x) with
      | some j => some (i, i + 1 + j)
      | none => go (i + 1) r
  go 0 l

end Nx.Nex

namespace Nx.Nex

/-- the two dicts are inverse bijections between exactly the table's codes and names, and
`Result` maps between them through the error bit -/
def TableBijective (t : ErrTable) : Prop :=
  (∀ c n, nameOf t c = some n ↔ (c, n) ∈ t) ∧
  (∀ c n, codeOf t n = some c ↔ (c, n) ∈ t) ∧
  (∀ c n, (c, n) ∈ t → c < errorMask ∧ Result.name t (Result.mkError c) = n ∧
     Result.errorNamed t n = .ok (Result.mkError c)) ∧
  (∀ c, (c, successName) ∉ t ∧ (c, unknownName) ∉ t)

end Nx.Nex

namespace Nx.Nex

/-! ## Nat-coded names for the generated table (kernel evaluation is fast on `Nat` literals)

A name `[d₀, d₁, …]` is coded as `Σ (dᵢ + 1) · B^i`, `B = 0x110001`. The generated file gives
`codes` and `keys` as literal lists; `names = keys.map (decodeName fuel)` and the obligation
`names.map encodeName = keys` shows that the keys are codes of exactly these names. -/

def nameBase : Nat := 1114113

def encodeName : Name → Nat
  | [] => 0
  | d :: r => d + 1 + nameBase * encodeName r

def decodeName : Nat → Nat → Name
  | 0, _ => []
  | f + 1, k => if k = 0 then [] else (k % nameBase - 1) :: decodeName f (k / nameBase)

def notInN (x : Nat) : List Nat → Bool
  | [] => true
  | y :: r => !(Nat.beq y x) && notInN x r

def nodupN : List Nat → Bool
  | [] => true
  | x :: r => notInN x r && nodupN r

def sortedN : List Nat → Bool
  | x :: y :: r => Nat.blt x y && sortedN (y :: r)
  | _ => true

def eqN : List Nat → List Nat → Bool
  | [], [] => true
  | a :: r, b :: s => Nat.beq a b && eqN r s
  | _, _ => false

def allBelowN (bound : Nat) : List Nat → Bool
  | [] => true
  | x :: r => Nat.blt x bound && allBelowN bound r

def subsetN (a b : List Nat) : Bool := match a with
  | [] => true
  | x :: r => !(notInN x b) && subsetN r b

def pairKeys : List Nat → List Nat → List Nat
  | k :: ks, c :: cs => (k * 4294967296 + c) :: pairKeys ks cs
  | _, _ => []

/-- when `error_codes` is written out as a literal dict `(ckeys, ccodes)`: no repeated name and exactly
the swapped pairs of the names table `(codes, keys)` (codes below 2^32) -/
def checkInverseN (codes keys ckeys ccodes : List Nat) : Bool :=
  nodupN ckeys && Nat.beq ckeys.length ccodes.length && allBelowN 4294967296 ccodes &&
  subsetN (pairKeys keys codes) (pairKeys ckeys ccodes) && subsetN (pairKeys ckeys ccodes) (pairKeys keys codes)

def genNames (fuel : Nat) (keys : List Nat) : List Name := keys.map (decodeName fuel)
def genTable (fuel : Nat) (codes keys : List Nat) : ErrTable := codes.zip (genNames fuel keys)

end Nx.Nex
