"""C04 helper — AGGREGATED datagrams (family `aggr`): several packets in one datagram, some genuine, some not.

The transports decode a datagram into a list of packets and handle them one after the other (v1 packets are self-delimiting; a v0
packet is self-delimiting when it carries FLAG_HAS_SIZE, otherwise it takes the rest of the datagram). Somebody on the path can
therefore put a packet of his own IN FRONT OF, BETWEEN or BEHIND genuine packets of the same sender (copies of packets that sender
really sent: the one in flight right now and earlier ones) inside ONE datagram. The property does not change: the packet that was
not produced with the connection's keys is never delivered, acknowledges nothing, closes nothing - wherever it stands in the
datagram and whatever stands next to it.

One aggregate = k genuine packets (k = 1..3, the last of them the packet in flight) + 1 packet that is not genuine, at every
position 0..k:
  * forged from scratch: SYN, SYN/ACK, CONNECT, CONNECT/ACK, DATA reliable (the receiver's next id and the one after), DATA
    unreliable, DISCONNECT (reliable, forceful), PING, acknowledgements of DATA / DISCONNECT / PING and an aggregate ack naming the
    last id the receiver sent - made with a wrong access key, with the right access key but a zero / the empty session key (sessions
    with credentials), with a wrong connection signature, with a wrong session id (v1); on v0 a forged packet that is not the last
    of the datagram carries FLAG_HAS_SIZE;
  * altered: a copy of one of the genuine packets with one bit flipped in its session id, signature, sequence id or payload - also
    when it is NOT the last packet of the datagram (a bad signature / v0 checksum on any but the last packet); on v0 also with the
    checksum recomputed under the right access key (`flip-resum`: the data signature has to reject it).
The aggregate arrives just before or just after the genuine datagram in flight (so its genuine packets are first arrivals or
duplicates), throughout handshake, data exchange, fragments, keep-alive and close, in both directions.

Oracle. A datagram of this kind may legitimately be treated in three ways, none of which lets the foreign packet have any effect:
  none   - the whole datagram is dropped (v0: a bad checksum anywhere fails the decoding of the datagram),
  prefix - the genuine packets in front of the foreign one are handled, the rest is dropped (handling stops at the first failure),
  skip   - all genuine packets are handled, the foreign one is skipped.
The attacked run must be IDENTICAL (emitted datagrams and instants, deliveries, timer sets, windows, final states) to one of the
three reference runs in which every aggregate is replaced by that reduction of itself (an empty datagram where nothing is left, so
that all runs have the same injection instants). Forgeries that fail at decoding (class `dec`: v0 checksum level) and those that
fail at the signature check (class `sig`) go into separate sessions. On a difference the session is bisected to one aggregate, whose
bytes are reported.

Not aggregated on purpose (the three reductions would not be comparable): genuine SYN / CONNECT requests other than the one in
flight (a replayed old CONNECT addressed to a server that has forgotten the client starts a new connection - C05's business), and
while the packet in flight is a SYN / CONNECT request the forged packets are SYN / CONNECT requests too (the server stream checks
those; anything else from a peer it does not know is ignored without an error, which is `skip` where a failed check is `prefix`).
"""
import random
import prudp_session as ps

MENU = [  # (type, flags, id rule)   n: receiver's next reliable id, n1: the one after, u: unreliable, z: 0, a: last id the receiver sent
    (2, 2 | 4 | 8, "n"), (2, 2 | 4 | 8, "n1"), (2, 4 | 8, "u"), (3, 2 | 4, "n"), (3, 0, "z"), (4, 2 | 4, "n"),
    (2, 1, "a"), (3, 1, "a"), (4, 1, "a"), (2, 0x200 | 1, "a"),
    (0, 4, "z"), (0, 1, "z"), (1, 2 | 4 | 8, "one"), (1, 1 | 8, "one")]
HANDSHAKE_MENU = [(0, 4, "z"), (1, 2 | 4 | 8, "one")]


def v0_offsets(cfg, data, p):
    """byte offsets of a v0 packet that can be flipped without changing how the datagram is cut into packets"""
    tf = 1 if cfg.v0[1] == 0 else 2
    ck = 4 if cfg.v0[2] == 0 else 1
    offs = [2 + tf] + list(range(3 + tf, 7 + tf)) + [7 + tf, 8 + tf]
    offs += list(range(len(data) - ck - len(p.payload), len(data)))          # payload and checksum
    return offs


def v1_offsets(data, p):
    offs = [10, 12, 13] + list(range(14, 30))
    offs += list(range(len(data) - len(p.payload), len(data)))
    return offs


def sized(cfg, p):
    return cfg.version != 0 or bool(p.flags & 8)


def make_setup(cfg, cls, variant, plan_filter, seed, D, EPS):
    """cls: 'sig' | 'dec' (which forgeries); variant: 'attack' | 'none' | 'prefix' | 'skip' (what is injected for every aggregate)"""
    from nintendo.nex import prudp

    def setup(sim, out):
        s = out.settings_s
        wrong = s.copy()
        wrong["prudp.access_key"] = "not the access key"
        sel = prudp.PRUDPMessageSelector(s)
        enc = sel.select(cfg.version)
        enc_wrong = prudp.PRUDPMessageSelector(wrong).select(cfg.version)
        obs = ps.Observer(s, cfg)
        rng = random.Random(seed ^ 0xA66)
        hist = {"c": [], "s": []}           # genuine single-packet datagrams per direction: (bytes, packet)
        last = {"c": 1, "s": 0}             # last reliable id sent per direction (substream 0)
        sid = {}
        neg = [None]
        counter = [0]
        rot = [0]
        seen = {}
        out.injections = []

        def inj(src, dst, comps, when, desc):
            i = counter[0]; counter[0] += 1
            if plan_filter is not None and i not in plan_filter:
                return
            attack = b"".join(c[1] for c in comps)
            if variant == "attack":
                data = attack
            elif variant == "none":
                data = b""
            elif variant == "skip":
                data = b"".join(c[1] for c in comps if c[0] == "G")
            else:
                data = b""
                for c in comps:
                    if c[0] != "G": break
                    data += c[1]
            out.injections.append((i, desc + (attack.hex(),)))
            sim.net.inject(src, dst, data, when)

        def forge(kind, ptype, flags, hdr, psid, pid, payload, sub, csig, real_p):
            e = enc_wrong if kind == "access-key" else enc
            p = prudp.PRUDPPacket(ptype, flags)
            p.version = cfg.version
            p.source_type, p.source_port, p.dest_type, p.dest_port = hdr
            p.session_id = psid
            p.packet_id = pid & 0xFFFF
            p.fragment_id = 0
            p.substream_id = sub
            p.payload = payload
            sk = out.session_key
            if ptype in (0, 1):
                p.connection_signature = bytes(e.signature_size()) if not (ptype == 1 and not flags & 1) else e.calc_connection_signature(ps.SERVER)
                p.max_substream_id, p.minor_version, p.supported_functions = neg[0] or (cfg.max_substream, s["prudp.minor_version"], s["prudp.supported_functions"])
                p.initial_unreliable_id = 1
                p.payload = b""
                if ptype == 0: p.session_id = 0
            if kind == "session-key":
                sk = bytes(len(sk)) if rot[0] % 2 else b""
            if kind == "conn-sig":
                csig = bytes(reversed(csig))
            if kind == "session-id":
                p.session_id = (psid + 1 + rot[0] % 250) & 0xFF
            try:
                if ptype == 0: p.signature = e.calc_packet_signature(p, b"", b"")
                elif ptype == 1: p.signature = e.calc_packet_signature(p, b"", csig)
                else: p.signature = e.calc_packet_signature(p, sk, csig)
                return e.encode(p)
            except Exception:
                return None

        def kinds_for(ptype, flags):
            """what the encoding binds the packet to, i.e. what a forger may lack (full non-interference is demanded of each)"""
            ks = []
            if cls == "dec":
                return ["access-key"] if cfg.version == 0 else []      # (a v0 checksum is keyed with the access key: decoding fails)
            if cfg.version != 0:
                ks.append("access-key")
                if ptype >= 2 and out.session_key: ks.append("session-key")
                if ptype >= 1: ks.append("conn-sig")
                if ptype >= 2 and not flags & 0x200: ks.append("session-id")
            else:
                if out.session_key and cfg.v0[0] == 0 and ptype in (2, 3) and not flags & 1 and not flags & 0x200: ks.append("session-key")
            return ks

        def genuine_sets(d, now, k, need_last_sized):
            """k genuine packets in sending order, the packet in flight last; on v0 every one that is not the last of the DATAGRAM
            must carry FLAG_HAS_SIZE"""
            cands = [h for h in hist[d][-12:] if sized(cfg, h[1]) and not (h[1].type in (0, 1) and not h[1].flags & 1)]
            tail = [now] if (sized(cfg, now[1]) or not need_last_sized) else []
            if not tail and cands:
                tail, cands = [cands[-1]], cands[:-1]
            res = cands[-(k - len(tail)):] + tail if k - len(tail) > 0 else tail
            return res

        def on_tx(tx):
            pk = obs.decode(tx.data)
            if len(pk) != 1:
                return
            p = pk[0]
            d = "c" if tx.dst == ps.SERVER else "s"
            other = "s" if d == "c" else "c"
            now = (tx.data, p)
            # only new packets start aggregates (first transmission, and the first retransmission of a request): the duplicate
            # acknowledgements that the replayed genuine packets provoke are byte-identical to earlier ones and start nothing
            occ = seen.get((d, tx.data), 0)
            seen[(d, tx.data)] = occ + 1
            if occ > (0 if p.flags & (1 | 0x200) else 1):
                return
            if p.type == 1:
                if not p.flags & 1 and neg[0] is None:
                    neg[0] = (p.max_substream_id, p.minor_version, p.supported_functions)
                sid.setdefault(d, p.session_id)
            if p.type in (2, 3, 4) and p.flags & 2 and not p.flags & (1 | 0x200) and p.substream_id == 0:
                last[d] = p.packet_id
            hdr = (p.source_type, p.source_port, p.dest_type, p.dest_port)
            csig = enc.calc_connection_signature(tx.src)
            handshake = p.type in (0, 1) and not p.flags & 1
            menu = HANDSHAKE_MENU if handshake else MENU
            k = 1 + tx.n % 3
            psid = sid.get(d, p.session_id)
            nid = (last[d] + 1) & 0xFFFF
            for ptype, flags, rule in menu:
                ks = kinds_for(ptype, flags)
                if not ks:
                    continue
                for pos in range(k + 1):
                    rot[0] += 1
                    kind = ks[rot[0] % len(ks)]
                    when = D + (EPS if rot[0] % 3 else -EPS)
                    gs = genuine_sets(d, now, k, need_last_sized=False)
                    if pos > len(gs):
                        continue
                    if pos == len(gs) and gs and not sized(cfg, gs[-1][1]):
                        gs = genuine_sets(d, now, k, need_last_sized=True)      # (v0: nothing can follow a packet without FLAG_HAS_SIZE)
                    pos_ = min(pos, len(gs))
                    if not gs:
                        continue
                    fl = flags | (8 if cfg.version == 0 and pos_ < len(gs) else 0)
                    pid = {"n": nid, "n1": nid + 1, "u": 7, "z": 0, "a": last[other], "one": 1}[rule]
                    sub, payload = 0, (b"forged!" if ptype == 2 and not flags & 1 else b"")
                    if flags & 0x200:
                        if cfg.version != 0: sub, payload, pid = 1, bytes([0, 0]) + (pid & 0xFFFF).to_bytes(2, "little"), 0
                        else: payload = (pid & 0xFFFF).to_bytes(2, "little") * 2
                    f = forge(kind, ptype, fl, hdr, psid, pid, payload, sub, csig, p)
                    if f is None:
                        continue
                    comps = [("G", g[0]) for g in gs[:pos_]] + [("F", f)] + [("G", g[0]) for g in gs[pos_:]]
                    layout = "".join(c[0] for c in comps)
                    inj(tx.src, tx.dst, comps, when, ("aggr", cls, layout, "forged:" + kind, ptype, fl, tx.n, d))
            # altered copies of the genuine packets themselves, at every position (in particular NOT the last one)
            gs = genuine_sets(d, now, k, need_last_sized=False)
            for j, g in enumerate(gs):
                offs = v0_offsets(cfg, g[0], g[1]) if cfg.version == 0 else v1_offsets(g[0], g[1])
                offs = [o for o in offs if 0 <= o < len(g[0])]
                if not offs:
                    continue
                for rep in range(2):
                    rot[0] += 1
                    when = D + (EPS if rot[0] % 3 else -EPS)
                    if cfg.version == 0 and cls == "sig":
                        # payload bit flipped, checksum recomputed under the right access key: only the data signature stands in the way
                        if g[1].type != 2 or g[1].flags & 1 or not g[1].payload:
                            continue
                        import copy
                        q = copy.copy(g[1])
                        b = rng.randrange(len(q.payload) * 8)
                        pl = bytearray(q.payload); pl[b >> 3] ^= 1 << (b & 7)
                        q.payload = bytes(pl)
                        try:
                            alt = enc.encode(q)
                        except Exception:
                            continue
                        what = "flip-resum"
                    elif (cfg.version == 0) != (cls == "dec"):
                        continue
                    else:
                        o = offs[rng.randrange(len(offs))]
                        a = bytearray(g[0]); a[o] ^= 1 << rng.randrange(8)
                        alt, what = bytes(a), "flip@%d" % o
                    comps = [("G", x[0]) for x in gs[:j]] + [("F", alt)] + [("G", x[0]) for x in gs[j + 1:]]
                    # (the untouched original of the altered packet is not in the datagram; it is in flight or was received before)
                    layout = "".join(c[0] for c in comps)
                    inj(tx.src, tx.dst, comps, when, ("aggr", cls, layout, "altered:" + what, g[1].type, g[1].flags, tx.n, d))
            if occ == 0:
                hist[d].append(now)

        sim.net.on_tx = on_tx
    return setup
