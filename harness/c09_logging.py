"""C09 helper — the process's logging configuration as an axis of the correspondence.

The framing property does not mention logging: whatever the application has done to the `logging`
module, encode/decode must give the same results as with the default configuration. Each entry of
CONFIGS is a realistic configuration an application (or someone diagnosing a connection) sets up;
`applied(name)` installs it, yields a `Sink` that formats every record it receives (as a real
StreamHandler with a Formatter does), and restores the previous state of every logger it touched.
"""
import contextlib
import io
import logging

LIB_PREFIXES = ("nintendo", "anynet")


class Sink(logging.StreamHandler):
    """a standard StreamHandler into a string buffer: formats every record (message % args, time, names);
    formatting errors go through the standard `handleError` path (counted here, swallowed as the stock
    handler does when `logging.raiseExceptions` is false)."""
    def __init__(self):
        super().__init__(io.StringIO())
        self.setFormatter(logging.Formatter("%(asctime)s %(name)s %(levelname)s %(module)s:%(lineno)d %(message)s"))
        self.records = 0
        self.format_errors = 0

    def emit(self, record):
        self.records += 1
        super().emit(record)
        if self.stream.tell() > 1 << 20:
            self.stream.seek(0); self.stream.truncate()

    def handleError(self, record):
        self.format_errors += 1


def lib_logger_names():
    """every logger the library (and anynet underneath it) has created so far, parents included"""
    names = set()
    for name in list(logging.Logger.manager.loggerDict):
        if name.split(".")[0] in LIB_PREFIXES:
            parts = name.split(".")
            for i in range(1, len(parts) + 1):
                names.add(".".join(parts[:i]))
    names.update(("nintendo", "nintendo.nex", "nintendo.nex.rmc", "nintendo.nex.streams", "anynet", "anynet.streams"))
    return sorted(names)


# name -> (root level or None, {logger name or "*lib*": level}, handler on ("root" | logger name | None), logging.disable level or None)
CONFIGS = {
    "root-debug":        (logging.DEBUG, {}, "root", None),                       # logging.basicConfig(level=logging.DEBUG)
    "root-info":         (logging.INFO, {}, "root", None),                        # what the repository's examples do
    "rmc-debug":         (None, {"nintendo.nex.rmc": logging.DEBUG}, "root", None),   # one module switched on
    "nintendo-debug":    (None, {"nintendo": logging.DEBUG}, "nintendo", None),   # the package's logger with its own handler
    "children-debug":    (logging.WARNING, {"*lib*": logging.DEBUG}, "root", None),   # every library logger set explicitly
    "children-info":     (logging.WARNING, {"*lib*": logging.INFO}, "root", None),
    "root-debug-nohandler": (logging.DEBUG, {}, None, None),                      # enabled, nobody listens (lastResort)
    "disabled":          (logging.DEBUG, {"*lib*": logging.DEBUG}, "root", logging.CRITICAL),  # logging.disable(CRITICAL) on top of DEBUG
    "root-error":        (logging.ERROR, {"*lib*": logging.NOTSET}, "root", None),
}

QUICK_CONFIGS = ["root-debug", "rmc-debug", "nintendo-debug", "children-debug", "root-info", "disabled", "root-debug-nohandler"]


@contextlib.contextmanager
def applied(name):
    root_level, levels, handler_on, disable = CONFIGS[name]
    root = logging.getLogger()
    touched = {}
    def touch(lg):
        if lg.name not in touched:
            touched[lg.name] = (lg, lg.level, list(lg.handlers), lg.propagate, lg.disabled)
        return lg
    old_disable = logging.root.manager.disable
    old_raise = logging.raiseExceptions
    sink = Sink()
    try:
        logging.raiseExceptions = False
        if root_level is not None:
            touch(root).setLevel(root_level)
        for lname, lvl in levels.items():
            for n in (lib_logger_names() if lname == "*lib*" else [lname]):
                touch(logging.getLogger(n)).setLevel(lvl)
        if handler_on == "root":
            touch(root).addHandler(sink)
        elif handler_on is not None:
            touch(logging.getLogger(handler_on)).addHandler(sink)
        if disable is not None:
            logging.disable(disable)
        yield sink
    finally:
        logging.disable(old_disable)
        for lg, level, handlers, propagate, disabled in touched.values():
            lg.handlers[:] = handlers
            lg.propagate = propagate
            lg.disabled = disabled
            lg.setLevel(level)       # also clears the isEnabledFor caches
        logging.raiseExceptions = old_raise
        sink.close()
