"""Several real client connections to one real server transport (1..3 virtual ports) in the simulation, with a third
party injecting hostile traffic (C07). Datagram transports (v0, v1, dual-stack) and stream transports (lite).

Result: per-victim observables (emitted datagrams, deliveries), server table sizes at checkpoints, decode statistics,
and — for datagram transports — what l1_trace.build_multi needs to replay the SERVER transport through the L1 model."""
import random
import anyio

from sim import Sim, quant, ticks, Deadlock
import prudp_session as ps
from nintendo.nex import prudp, settings as nexsettings

SERVER = ps.SERVER
ATTACKER = ("10.0.0.66", 40000)


class Spec:
    def __init__(self, **kw):
        self.transport = "udp"
        self.server_version = 2               # dual-stack by default
        self.clients = [dict(version=1, vport=1), dict(version=0, vport=1)]
        self.vports = [1]
        self.fragment_size = 24
        self.resend_timeout = 0.5
        self.resend_limit = 3
        self.ping_timeout = 4.0
        self.rounds = 3
        self.key = None                        # server ticket key (clients then connect with credentials)
        self.reuse_transport = 0               # > 0: every client makes that many connections one after the other over ONE client transport
        self.round_gap = None                  # fixed pause between a client's rounds (None: 0.05..0.15 s)
        self.jitter = 0                        # > 0: genuine datagrams are delayed by content-addressed amounts (reordering) and a few are lost
        self.__dict__.update(kw)

    def settings(self, version):
        s = nexsettings.default()
        if self.transport == "lite":
            s["prudp.transport"] = s.TRANSPORT_WEBSOCKET
        s["prudp.version"] = version
        s["prudp.fragment_size"] = self.fragment_size
        s["prudp.resend_timeout"] = self.resend_timeout
        s["prudp.resend_limit"] = self.resend_limit
        s["prudp.ping_timeout"] = self.ping_timeout
        return s


def run(spec, seed, attack=None, flood=None, probes=None, reconnect=None):
    """attack(sim, out, rng) installs hooks (sim.net.on_tx / scheduled injections) before the session starts.
    flood = dict(vport, version, n, size): a further, perfectly valid peer connects, makes its handler busy with one slow
    request and then sends n messages that nobody reads (a hostile peer needs no malformed traffic).
    probes = [(vport, stream type)]: a third party tries to connect, with the ordinary client, to (port, type) pairs nobody serves.
    reconnect = dict(vport, cycles, teardown): a further valid peer whose one client transport connects, exchanges a message, closes and
    connects again at once from the same virtual port, while the server's handler of the closed connection needs `teardown` s to return.
    Entries of spec.vports and the "vport" of a client may be (port, type) pairs (default type 10)."""
    def pt(x):
        return (x, 10) if isinstance(x, int) else tuple(x)
    rng = random.Random(seed)
    arng = random.Random(seed ^ 0x5A5A5A5A)      # the attacker's PRNG: the victims' script must not depend on it
    out = ps.Session()
    out.spec, out.seed = spec, seed
    out.got = {}            # client index -> list of messages received by the client
    out.srv_got = {}        # (vport, client index as claimed in the message) -> messages the server handler received
    out.misdelivered = []
    out.tables = []
    out.decodes = []        # (len(data), packets or -1)
    out.errors = []
    out.client_addr = {}
    out.connect_errors = {}
    out.flood_addr = None
    out.flood_sent = 0
    out.probe_addrs = set()
    out.probe_results = []
    out.census = {}
    with Sim(seed) as sim:
        sim.install_factories()
        log = sim.net.log
        if spec.jitter:
            # the fate of a datagram depends on its content, its sender and how often it has been sent — not on a global index, so
            # that the reference run and the attacked run treat the genuine traffic alike
            import zlib
            seen = {}
            def fate(tx):
                if tx.src == ATTACKER or tx.src == out.flood_addr or tx.src in out.probe_addrs:
                    return [0.0]
                k = seen.get((tx.src, tx.data), 0); seen[(tx.src, tx.data)] = k + 1
                h = zlib.crc32(tx.data + bytes([k & 0xFF]) + tx.src[0].encode() + tx.src[1].to_bytes(2, "little") + seed.to_bytes(8, "little"))
                if h % 100 < 4 * spec.jitter and k < 1:
                    # (only a datagram's first transmission is ever lost: a request, then its acknowledgement, then the request again ... lost
                    # four times in a row would end the connection by the configured loss alone - in the reference run too)
                    return []
                return [quant(0.004 + 0.009 * ((h >> 8) % (2 + 3 * spec.jitter)))]
            sim.net.fate = fate
        # every PRUDPClient object draws the same "random" values: which datagram creates a server-side connection need
        # not be known to replay the server through the model
        class _Const:
            def randint(self, a, b):
                return {0xFFFF: 0x1234, 0xFFFFFFFF: 0xABCDEF01, 0xFF: 0x5A}.get(b, a)
        sim._patch(prudp, "random", _Const())
        ss = spec.settings(spec.server_version)
        out.settings_s = ss
        out.epoch = sim.epoch
        streams = {}

        # decode statistics (work per read is bounded by its size)
        def wrap_decode(cls):
            orig = cls.decode
            def decode(self, data):
                try:
                    r = orig(self, data)
                    out.decodes.append((len(data), len(r)))
                    return r
                except Exception:
                    out.decodes.append((len(data), -1))
                    raise
            sim._patch(cls, "decode", decode)
        for cls in (prudp.PRUDPMessageV0, prudp.PRUDPMessageV1, prudp.PRUDPLiteMessage):
            wrap_decode(cls)

        def make_handler(vport):
            async def handler(client):
                key = (vport, client.remote_address(), client.remote_sid())
                recon = False
                try:
                    while True:
                        d = await client.recv()
                        if d.startswith(b"RECON"):
                            recon = True
                            log.append(("app", sim.now(), "s", "send", (client.remote_address(), client.remote_sid(), 10), b"echo:" + d))
                            await client.send(b"echo:" + d)
                            continue
                        if d.startswith(b"FLOOD"):
                            # a slow request: this handler is busy and reads nothing more
                            await anyio.sleep(quant(1000.0))
                            return
                        log.append(("deliver", sim.now(), "s", (vport,) + tuple(client.remote_address()), d))
                        out.srv_got.setdefault(key, []).append(d)
                        reply = b"echo:%d:" % vport + d
                        log.append(("app", sim.now(), "s", "send", (client.remote_address(), client.remote_sid(), 10), reply))
                        await client.send(reply)
                except anyio.EndOfStream:
                    if recon:
                        await anyio.sleep(quant(reconnect["teardown"]))      # a handler whose teardown takes a moment
                    log.append(("app", sim.now(), "s", "done", (client.remote_address(), client.remote_sid(), 10), b""))
                except Exception as e:
                    out.errors.append(("handler", vport, repr(e)))
            return handler

        async def client_task(i, c):
            s = spec.settings(c["version"])
            creds = None
            if spec.key:
                creds, _ = ps.make_credentials(s, random.Random(seed * 31 + i), s["kerberos.key_size"], pid=1000 + i, server_key=spec.key)
            if c.get("start"):
                await anyio.sleep(quant(c["start"]))          # a peer that arrives later (the same in both runs)
            async def rounds(client, first_round, n):
                out.client_addr[i] = client.local_address()
                log.append(("app", sim.now(), "c%d" % i, "connected", 0, b""))
                got = out.got.setdefault(i, [])
                for r in range(first_round, first_round + n):
                    msg = b"client%d:round%d:" % (i, r) + bytes([65 + i]) * rng.choice([1, 20, 60])
                    await client.send(msg)
                    with anyio.move_on_after(quant(spec.resend_timeout * (spec.resend_limit + 3))):
                        d = await client.recv()
                        got.append(d)
                        log.append(("deliver", sim.now(), "c%d" % i, 0, d))
                    pause = quant(0.05 + rng.random() * 0.1)
                    await anyio.sleep(pause if spec.round_gap is None else quant(spec.round_gap))
            try:
                if spec.reuse_transport:
                    # one client transport used for several connections one after the other (connect_transport + transport.connect):
                    # each new connection is handed the virtual port the previous one released
                    async with prudp.connect_transport(s, SERVER[0], SERVER[1]) as tr:
                        for j in range(spec.reuse_transport):
                            async with tr.connect(pt(c["vport"])[0], pt(c["vport"])[1], creds) as client:
                                await rounds(client, j * spec.rounds, spec.rounds)
                            await anyio.sleep(quant(0.0625))
                else:
                    async with prudp.connect(s, SERVER[0], SERVER[1], pt(c["vport"])[0], pt(c["vport"])[1], credentials=creds) as client:
                        await rounds(client, 0, spec.rounds)
            except BaseException as e:
                out.connect_errors[i] = repr(e)[:200]

        async def flooder():
            s = spec.settings(flood["version"])
            creds = None
            if spec.key:
                creds, _ = ps.make_credentials(s, random.Random(seed * 31 + 99), s["kerberos.key_size"], pid=6666, server_key=spec.key)
            await anyio.sleep(quant(flood.get("start", 0.3)))
            try:
                async with prudp.connect(s, SERVER[0], SERVER[1], flood["vport"], credentials=creds) as client:
                    out.flood_addr = client.local_address()
                    await client.send(b"FLOOD:slow request")
                    for j in range(flood["n"]):
                        await client.send(b"FLOOD:%d:" % j + b"x" * flood.get("size", 4))
                        out.flood_sent += 1
                        if j % 16 == 15:
                            await anyio.sleep(quant(0.002))
                    await anyio.sleep(quant(1000.0))
            except BaseException as e:
                out.flood_error = repr(e)[:200]
                raise

        async def reconnector():
            s = spec.settings(1 if spec.server_version != 0 else 0)
            creds = None
            if spec.key:
                creds, _ = ps.make_credentials(s, random.Random(seed * 31 + 55), s["kerberos.key_size"], pid=5555, server_key=spec.key)
            await anyio.sleep(quant(reconnect.get("start", 0.3)))
            out.recon_results = []
            try:
                async with prudp.connect_transport(s, SERVER[0], SERVER[1]) as tr:
                    out.probe_addrs.add(tr.socket.local_address())
                    for j in range(reconnect["cycles"]):
                        try:
                            async with tr.connect(reconnect["vport"], 10, creds) as client:
                                got = None
                                await client.send(b"RECON:%d" % j)
                                with anyio.move_on_after(quant(0.5)):
                                    got = await client.recv()
                                out.recon_results.append(("connected", got))
                        except Exception as e:
                            out.recon_results.append(("failed", repr(e)[:80]))
            except BaseException as e:
                if isinstance(e, (anyio.get_cancelled_exc_class(),)):
                    raise
                out.recon_results.append(("transport-failed", repr(e)[:80]))

        async def prober():
            async with anyio.create_task_group() as ptg:
                for j, (vp, ty) in enumerate(probes):
                    ptg.start_soon(probe_one, j, vp, ty)

        async def probe_one(j, vp, ty):
            await anyio.sleep(quant(0.25 + 0.05 * j))
            if True:
                s = spec.settings(1 if spec.server_version != 0 else 0)
                s["prudp.resend_timeout"] = 0.25; s["prudp.resend_limit"] = 1
                creds = None
                if spec.key:
                    creds, _ = ps.make_credentials(s, random.Random(seed * 31 + 77), s["kerberos.key_size"], pid=7777, server_key=spec.key)
                try:
                    async with prudp.connect_transport(s, SERVER[0], SERVER[1]) as tr:
                        out.probe_addrs.add(tr.socket.local_address())
                        async with tr.connect(vp, ty, creds) as client:
                            got = None
                            await client.send(b"PROBE")
                            with anyio.move_on_after(quant(0.5)):
                                got = await client.recv()
                            out.probe_results.append((vp, ty, "connected", got))
                except BaseException as e:
                    if isinstance(e, (anyio.get_cancelled_exc_class(),)):
                        raise
                    out.probe_results.append((vp, ty, "failed", None))

        async def main():
            async with prudp.serve_transport(ss, SERVER[0], SERVER[1]) as transport:
                out.transport = transport
                async with anyio.create_task_group() as outer:
                    ctxs = []
                    for vpx in spec.vports:
                        vp, ty = pt(vpx)
                        cm = transport.serve(make_handler(vp), vp, ty, spec.key)
                        await cm.__aenter__()
                        ctxs.append(cm)
                        streams[vp] = transport.ports.get(vp, ty)
                    if attack:
                        attack(sim, out, arng)
                    async with anyio.create_task_group() as tg:
                        for i, c in enumerate(spec.clients):
                            tg.start_soon(client_task, i, c)
                            await anyio.sleep(quant(0.013))
                        async def watcher():
                            while True:
                                await anyio.sleep(quant(0.1))
                                out.tables.append((sim.now(), {vp: len(st.clients) for vp, st in streams.items()}))
                        tg.start_soon(watcher)
                        if flood:
                            tg.start_soon(flooder)
                        if probes:
                            tg.start_soon(prober)
                        if reconnect:
                            tg.start_soon(reconnector)
                        await anyio.sleep(quant(spec.rounds * max(1, spec.reuse_transport) * 0.6 + 2.0))
                        tg.cancel_scope.cancel()
                    await anyio.sleep(quant(spec.resend_timeout * (spec.resend_limit + 2) + 0.5))
                    out.tables.append((sim.now(), {vp: len(st.clients) for vp, st in streams.items()}))
                    out.census = census(transport)
                    for cm in reversed(ctxs):
                        await cm.__aexit__(None, None, None)
                    outer.cancel_scope.cancel()

        async def guarded():
            with anyio.move_on_after(120) as scope:
                await main()
            out.timed_out = scope.cancelled_caught
        try:
            sim.run(guarded())
            out.crash = None
        except Deadlock as e:
            out.crash = "deadlock: " + str(e); out.timed_out = False
        except BaseException as e:
            out.crash = repr(e)[:300]; out.timed_out = False
        out.netlog = log
        out.end_time = sim.now()
        out.rand_values = [v for (_, _, v) in sim.prudp_rand.log]
        out.transport = None
    return out


def census(root):
    """sizes of all containers reachable from a library object through attributes of library objects (classes defined in
    `nintendo.*`) and builtin containers, aggregated by attribute path — what 'state' means beyond the documented tables"""
    import collections
    sizes, seen, stack = {}, set(), [(root, "transport")]
    while stack and len(seen) < 50000:
        obj, path = stack.pop()
        if id(obj) in seen or isinstance(obj, (str, bytes, bytearray, int, float, bool, type(None))):
            continue
        seen.add(id(obj))
        if isinstance(obj, dict):
            sizes[path] = sizes.get(path, 0) + len(obj)
            for k, v in obj.items():
                stack.append((k, path + "{key}")); stack.append((v, path + "{}"))
        elif isinstance(obj, (list, tuple, set, frozenset, collections.deque)):
            sizes[path] = sizes.get(path, 0) + len(obj)
            for v in obj:
                stack.append((v, path + "[]"))
        elif type(obj).__module__.startswith("nintendo") and hasattr(obj, "__dict__"):
            for name, v in vars(obj).items():
                stack.append((v, path + "." + name))
    return sizes


def victim_view(sess):
    """what the genuine parties observed: per endpoint address the datagrams it emitted, what clients received, what
    the server's handlers received per (vport, peer)"""
    tx = {}
    hostile = {ATTACKER, getattr(sess, "flood_addr", None)} | set(getattr(sess, "probe_addrs", ()))
    for e in sess.netlog:
        if e[0] == "tx" and e[3] not in hostile:
            tx.setdefault(e[3], []).append((ticks(e[2]), e[4], e[5]))
        elif e[0] == "stx" and e[2] not in hostile:
            tx.setdefault(e[2], []).append((ticks(e[1]), e[3], e[4]))
    return {"tx": tx, "got": {k: list(v) for k, v in sess.got.items()},
            "srv_got": {repr(k): list(v) for k, v in sess.srv_got.items()},
            "connect_errors": dict(sess.connect_errors)}
