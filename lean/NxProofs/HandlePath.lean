import NxProofs.Gating
import NxProofs.Refine
import NxProofs.RefineSend
/-!
# C01 / C04 — the whole receive path of a reliable packet: `handle` = gates, acknowledgement, `process_reliable`

`Conn.handle` of a packet that is not an acknowledgement, not a handshake packet and carries RELIABLE + NEED_ACK
(everything `send` and the keep-alive timer emit) does one of two things to the connection, on a live link:
* nothing (`c` is returned unchanged) — when one of the gates refuses it (state, signature, substream bound, session id)
  or when the acknowledgement could not be encoded (the exception leaves `handle` before `process_reliable`);
* exactly `process_reliable(packet)` — the acknowledgement itself changes nothing in the connection.
`handle_reliable_path` states this with the decision spelled out as a Bool (`Conn.accepts`).
Also: what `process_reliable` leaves alone (`processReliable_frame`): the link flag, and "EOF'd ⇒ DISCONNECTED".
-/
namespace Nx.L1
open Nx Nx.Prudp Nx.Chan

/-- `transport.send` of an acknowledgement on a live link changes nothing in the connection (no timer is armed for it) -/
theorem transmit_ack_id (env : Env) (now : Time) (c : Conn) (p : Packet) (hl : c.linkUp = true)
    (hf : ((hasReliable p.flags || p.type == TYPE_SYN) && hasNeedAck p.flags) = false) : (c.transmit env now p).c = c := by
  unfold Conn.transmit
  simp only [hl, Bool.not_true, Bool.false_eq_true, if_false]
  cases encodeChecked env.cfg p with
  | error e => rfl
  | ok data => simp [hf, R.ok]

/-- `send_packet` of an acknowledgement (flags = ACK) on a live link returns the connection unchanged -/
theorem sendPacket_ack_id (env : Env) (now : Time) (c : Conn) (p : Packet) (hl : c.linkUp = true) (hfl : p.flags = FLAG_ACK) :
    (c.sendPacket env now p).c = c := by
  have hack : (hasAck p.flags || hasMultiAck p.flags) = true := by rw [hfl]; decide
  have hrel : hasReliable p.flags = false := by rw [hfl]; decide
  have hneed : hasNeedAck p.flags = false := by rw [hfl]; decide
  unfold Conn.sendPacket
  simp only [hack, Conn.assignIf, if_true, Conn.encodeIf, Bool.not_true, Bool.false_eq_true, and_false, if_false]
  apply transmit_ack_id env now c _ hl
  split <;> simp only [hneed, Bool.and_false]

theorem sendPacket_ack_bind_id (env : Env) (now : Time) (r : R) (c : Conn) (p : Packet) (hr : r.c = c) (hl : c.linkUp = true)
    (hfl : p.flags = FLAG_ACK) : (r.bind fun c => c.sendPacket env now p).c = c := by
  unfold R.bind
  cases r.err with
  | some e => exact hr
  | none => simp only []; rw [hr]; exact sendPacket_ack_id env now c p hl hfl

/-- **`send_ack` changes nothing in the connection** (live link): it only puts acknowledgements on the wire -/
theorem sendAck_id (env : Env) (now : Time) (c : Conn) (p : Packet) (hl : c.linkUp = true) : (c.sendAck env now p).c = c := by
  unfold Conn.sendAck
  simp only []
  have h1 := sendPacket_ack_id env now c
    { mkPacket p.type FLAG_ACK with packetId := p.packetId, fragmentId := p.fragmentId, substreamId := p.substreamId } hl rfl
  split
  · exact sendPacket_ack_bind_id env now _ c _ (sendPacket_ack_bind_id env now _ c _ h1 hl rfl) hl rfl
  · exact h1

/-! ## what `process_reliable` leaves alone -/

/-- `PayloadEncoder.decode` touches nothing but the stream ciphers -/
theorem decodePayload_other (env : Env) (c c1 : Conn) (p : Packet) (d : Bytes) (h : c.decodePayload env p = .ok (d, c1)) :
    c1.linkUp = c.linkUp ∧ c1.state = c.state ∧ c1.eof = c.eof := by
  by_cases h1 : p.type = TYPE_DATA ∧ (!p.payload.isEmpty) = true
  · by_cases h2 : hasReliable p.flags = true
    · cases h3 : c.relCiphers[p.substreamId]? with
      | none => rw [decodePayload_rel_none env c p h1 h2 h3] at h; cases h
      | some sc =>
        cases h4 : c.cipherOn with
        | true =>
          rw [decodePayload_rel_on env c p sc h1 h2 h3 h4] at h
          cases hd : env.decompress (rc4At sc.key sc.decPos p.payload) with
          | error e => rw [hd] at h; cases h
          | ok x => rw [hd] at h; cases h; exact ⟨rfl, rfl, rfl⟩
        | false =>
          rw [decodePayload_rel_off env c p sc h1 h2 h3 h4] at h
          cases hd : env.decompress p.payload with
          | error e => rw [hd] at h; cases h
          | ok x => rw [hd] at h; cases h; exact ⟨rfl, rfl, rfl⟩
    · rw [decodePayload_unrel env c p h1 h2] at h
      generalize env.decompress _ = r at h
      cases r with
      | error e => cases h
      | ok x => cases h; exact ⟨rfl, rfl, rfl⟩
  · rw [decodePayload_plain env c p h1] at h; cases h; exact ⟨rfl, rfl, rfl⟩

/-- "the queues are EOF'd only on a DISCONNECTED connection" -/
def EofState (c : Conn) : Prop := c.eof = true → c.state = STATE_DISCONNECTED

theorem bind_frame (P : Conn → Prop) (r : R) (f : Conn → R) (hr : P r.c) (hf : ∀ c, P c → P (f c).c) : P (r.bind f).c := by
  unfold R.bind
  cases r.err with
  | some e => exact hr
  | none => exact hf _ hr

theorem consume_frame (env : Env) (sub : Nat) (l : Bool) : ∀ (rel : List Packet) (c : Conn), c.linkUp = l → EofState c →
    (Conn.consume env sub rel c).c.linkUp = l ∧ EofState (Conn.consume env sub rel c).c := by
  intro rel
  induction rel with
  | nil => intro c h1 h2; exact ⟨h1, h2⟩
  | cons p ps ih =>
    intro c h1 h2
    unfold Conn.consume
    split
    · split
      · exact ⟨h1, h2⟩
      · rename_i data c1 hd
        obtain ⟨e1, e2, e3⟩ := decodePayload_other env c c1 p data hd
        have h1' : c1.linkUp = l := by rw [e1]; exact h1
        have h2' : EofState c1 := by intro h; rw [e2]; exact h2 (by rw [← e3]; exact h)
        split
        · split
          · exact ⟨h1', h2'⟩
          · exact bind_frame (fun c => c.linkUp = l ∧ EofState c) _ _ ⟨h1', h2'⟩ (fun c hc => ih c hc.1 hc.2)
        · exact ih _ h1' h2'
    · split
      · exact bind_frame (fun c => c.linkUp = l ∧ EofState c) _ _ ⟨h1, fun _ => rfl⟩ (fun c hc => ih c hc.1 hc.2)
      · exact ih c h1 h2

theorem processReliable_frame (env : Env) (c : Conn) (p : Packet) (h2 : EofState c) :
    (c.processReliable env p).c.linkUp = c.linkUp ∧ EofState (c.processReliable env p).c := by
  unfold Conn.processReliable
  split
  · exact ⟨rfl, h2⟩
  · exact consume_frame env _ c.linkUp _ _ rfl h2

/-! ## the path through `handle` -/

/-- the checks in front of `process_reliable`, as `handle` and `process_other` make them, plus "the acknowledgement could be
    encoded" (an exception there leaves `handle` before `process_reliable` is reached) -/
def Conn.accepts (env : Env) (now : Time) (c : Conn) (p : Packet) : Bool :=
  decide (c.state ≠ STATE_DISCONNECTED) && decide (c.state ≠ STATE_CONNECTING) &&
  decide (p.signature = c.expectedSig env p) && decide (p.substreamId ≤ c.maxSub) &&
  decide (some p.sessionId = c.remoteSessionId) && (c.sendAck env now p).err.isNone

/-- what `send` and the keep-alive timer put on the wire: not a handshake packet, not an acknowledgement, RELIABLE + NEED_ACK -/
structure Ordinary (p : Packet) : Prop where
  nsyn : p.type ≠ TYPE_SYN
  ncon : p.type ≠ TYPE_CONNECT
  nack : hasAck p.flags = false
  nmulti : hasMultiAck p.flags = false
  need : hasNeedAck p.flags = true
  rel : hasReliable p.flags = true

theorem bind_ok_c (r : R) (h : r.err = none) : (r.bind fun c => R.ok c).c = r.c := by
  unfold R.bind; rw [h]; rfl

theorem bind_fail_c (r : R) (f : Conn → R) (e : Err) (h : r.err = some e) : (r.bind f).c = r.c := by
  unfold R.bind; rw [h]

/-- **the receive path of an ordinary reliable packet on a live link**: the connection is left as it was, or
    `process_reliable(packet)` is applied to it — decided by `accepts` -/
theorem handle_reliable_path (env : Env) (now : Time) (c : Conn) (p : Packet) (ho : Ordinary p) (hl : c.linkUp = true) :
    (c.handle env now p).c = if c.accepts env now p then (c.processReliable env p).c else c := by
  unfold Conn.accepts
  by_cases hd : c.state = STATE_DISCONNECTED
  · have := (handle_disconnected env now c p hd).1.1
    simp [hd, this]
  by_cases hcg : c.state = STATE_CONNECTING
  · have : (c.handle env now p).c = c := by
      unfold Conn.handle
      rw [if_neg hd, if_pos ⟨hcg, ho.nsyn⟩]; rfl
    simp [hcg, this]
  by_cases hsig : p.signature = c.expectedSig env p
  · by_cases hbad : p.substreamId > c.maxSub ∨ some p.sessionId ≠ c.remoteSessionId
    · have := (handle_wrong_session_or_substream env now c p ⟨ho.nsyn, ho.ncon⟩ ho.nmulti hbad).1
      rw [this]
      rcases hbad with h | h
      · have : ¬ p.substreamId ≤ c.maxSub := by omega
        simp [this]
      · simp [h]
    · have hsub : p.substreamId ≤ c.maxSub := by
        rcases Nat.lt_or_ge c.maxSub p.substreamId with h | h
        · exact absurd (Or.inl h) hbad
        · exact h
      have hsess : some p.sessionId = c.remoteSessionId := by
        by_cases h : some p.sessionId = c.remoteSessionId
        · exact h
        · exact absurd (Or.inr h) hbad
      have hsig' : ¬ p.signature ≠ env.packetSig c.codec p c.sessionKey (env.connSig c.codec c.remoteAddr) := by
        unfold Conn.expectedSig at hsig
        rw [if_neg ho.nsyn, if_neg ho.ncon] at hsig
        exact fun h => h hsig
      have hsa := sendAck_id env now c p hl
      simp only [hd, hcg, hsig, hsub, hsess, ne_eq, not_false_eq_true, decide_true, Bool.true_and]
      unfold Conn.handle
      rw [if_neg hd, if_neg (fun h => hcg h.1)]
      simp only [ho.nsyn, ho.ncon, if_false, ho.nack, Bool.false_eq_true]
      unfold Conn.processOther
      rw [if_neg hsig']
      simp only [ho.nmulti, Bool.false_eq_true, if_false, if_neg (Nat.not_lt.mpr hsub), ne_eq, hsess, not_true_eq_false, ho.nack,
        ho.need, if_true, ho.rel]
      cases he : (c.sendAck env now p).err with
      | some e =>
        simp only [Option.isNone_some, Bool.false_eq_true, if_false]
        have h1 : ((c.sendAck env now p).bind fun c => c.processReliable env p).err = some e := bind_err_of_err _ _ e he
        rw [bind_fail_c _ _ e h1, bind_fail_c _ _ e he]; exact hsa
      | none =>
        simp only [Option.isNone_none, if_true]
        cases he2 : ((c.sendAck env now p).bind fun c => c.processReliable env p).err with
        | some e2 => rw [bind_fail_c _ _ e2 he2, (bind_ok _ _ he).2, hsa]
        | none => rw [bind_ok_c _ he2, (bind_ok _ _ he).2, hsa]
  · have := (handle_bad_signature env now c p hsig).1
    simp [hsig, this]

end Nx.L1
