import NxModel.Bytes
/-!
# zlib / DEFLATE decompression (RFC 1950, RFC 1951), written from the specification

`zlibDecompress data` is what `zlib.decompress(data)` returns (`none` = `zlib.error`): header check, one or more DEFLATE
blocks (stored, fixed Huffman, dynamic Huffman), Adler-32 trailer; bytes after the trailer are ignored, as `zlib.decompress`
does. The acceptance rules for malformed streams follow zlib's `inflate.c` / `inftrees.c` (over-subscribed or incomplete
code sets, missing end-of-block code, too many symbols, repeat without a previous length, distance too far back, …) so that
the differential run can compare accept / reject on damaged streams too, not only on valid ones.

Used by the payload model (`ZlibCompression.decompress`) so that the inflater is no longer an oracle input, and to validate
the deflate oracle (`zlib.compress`, which cannot be reproduced byte for byte): every compressed fragment the harness supplies
must inflate to the fragment. No Mathlib (linked into the drivers).
-/
namespace Nx.Crypto
open Nx

/-- bit reader over the byte array, LSB first -/
structure BitRd where
  data : Array UInt8
  pos : Nat            -- bit position

def BitRd.bit (r : BitRd) : Option (Nat × BitRd) :=
  if h : r.pos / 8 < r.data.size then
    some (((r.data[r.pos / 8]).toNat >>> (r.pos % 8)) % 2, { r with pos := r.pos + 1 })
  else none

/-- `n` bits, least significant first -/
def BitRd.bits : Nat → BitRd → Option (Nat × BitRd)
  | 0, r => some (0, r)
  | n + 1, r =>
    match r.bit with
    | none => none
    | some (b, r) =>
      match BitRd.bits n r with
      | none => none
      | some (v, r) => some (b + 2 * v, r)

def BitRd.align (r : BitRd) : BitRd := { r with pos := (r.pos + 7) / 8 * 8 }

/-- a canonical Huffman code: `count[len]` and the symbols ordered by (length, symbol) — as in zlib's `puff.c` -/
structure Huff where
  count : Array Nat     -- index 0..15
  symbol : Array Nat

/-- build the decoding tables from code lengths; `none` if the set of lengths is over-subscribed, or incomplete where zlib
    rejects that (`allowIncomplete`: zlib accepts an incomplete literal/length or distance code iff its only lengths are 1,
    i.e. a single code of length 1 — and never for the code-length code) -/
def Huff.build (lengths : Array Nat) (isCodes : Bool) : Option Huff :=
  let count := lengths.foldl (fun (c : Array Nat) l => c.modify l (· + 1)) (Array.replicate 16 0)
  -- left = number of unused codes after each length
  let chk := (List.range 15).foldl (fun (acc : Option Int) i =>
      match acc with
      | none => none
      | some left =>
        let left := left * 2 - (count[i + 1]! : Nat)
        if left < 0 then none else some left) (some (1 : Int))
  match chk with
  | none => none
  | some left =>
    let maxLen := (List.range 16).foldl (fun m l => if count[l]! > 0 ∧ l > 0 then l else m) 0
    if left > 0 ∧ (isCodes ∨ maxLen ≠ 1) ∧ maxLen ≠ 0 then none
    else
      -- offsets of each length in the symbol table
      let offs := (List.range 15).foldl (fun (o : Array Nat) i => o.set! (i + 2) (o[i + 1]! + count[i + 1]!)) (Array.replicate 17 0)
      let (symbol, _) := (List.range lengths.size).foldl (fun (acc : Array Nat × Array Nat) s =>
          let (sym, o) := acc
          let l := lengths[s]!
          if l = 0 then (sym, o) else (sym.set! (o[l]!) s, o.set! l (o[l]! + 1)))
        (Array.replicate lengths.size 0, offs)
      some { count := count.set! 0 0, symbol }

/-- decode one symbol (puff.c `decode`); `none` = out of input or invalid code -/
def Huff.decodeGo (h : Huff) : Nat → Nat → Nat → Nat → Nat → BitRd → Option (Nat × BitRd)
  | 0, _, _, _, _, _ => none
  | fuel + 1, len, code, first, index, r =>
    match r.bit with
    | none => none
    | some (b, r) =>
      let code := code + b
      let count := h.count[len]!
      if code < first + count then some (h.symbol[index + (code - first)]!, r)
      else Huff.decodeGo h fuel (len + 1) ((code) * 2) ((first + count) * 2) (index + count) r

def Huff.decode (h : Huff) (r : BitRd) : Option (Nat × BitRd) := Huff.decodeGo h 15 1 0 0 0 r

def lenBase : Array Nat := #[3, 4, 5, 6, 7, 8, 9, 10, 11, 13, 15, 17, 19, 23, 27, 31, 35, 43, 51, 59, 67, 83, 99, 115, 131, 163, 195, 227, 258]
def lenExtra : Array Nat := #[0, 0, 0, 0, 0, 0, 0, 0, 1, 1, 1, 1, 2, 2, 2, 2, 3, 3, 3, 3, 4, 4, 4, 4, 5, 5, 5, 5, 0]
def distBase : Array Nat := #[1, 2, 3, 4, 5, 7, 9, 13, 17, 25, 33, 49, 65, 97, 129, 193, 257, 385, 513, 769, 1025, 1537, 2049, 3073, 4097, 6145, 8193, 12289, 16385, 24577]
def distExtra : Array Nat := #[0, 0, 0, 0, 1, 1, 2, 2, 3, 3, 4, 4, 5, 5, 6, 6, 7, 7, 8, 8, 9, 9, 10, 10, 11, 11, 12, 12, 13, 13]

/-- copy `len` bytes from `dist` back (overlapping allowed) -/
def copyBack : Nat → Nat → Array UInt8 → Array UInt8
  | 0, _, out => out
  | n + 1, dist, out => copyBack n dist (out.push out[out.size - dist]!)

/-- the symbols of one compressed block -/
def inflateCodes (lit dist : Huff) : Nat → BitRd → Array UInt8 → Option (BitRd × Array UInt8)
  | 0, _, _ => none
  | fuel + 1, r, out =>
    match lit.decode r with
    | none => none
    | some (sym, r) =>
      if sym < 256 then inflateCodes lit dist fuel r (out.push (UInt8.ofNat sym))
      else if sym = 256 then some (r, out)
      else if sym ≥ 286 then none
      else
        match r.bits lenExtra[sym - 257]! with
        | none => none
        | some (e, r) =>
          let len := lenBase[sym - 257]! + e
          match dist.decode r with
          | none => none
          | some (ds, r) =>
            if ds ≥ 30 then none
            else
              match r.bits distExtra[ds]! with
              | none => none
              | some (e2, r) =>
                let d := distBase[ds]! + e2
                if d > out.size then none
                else inflateCodes lit dist fuel r (copyBack len d out)

def fixedLit : Array Nat := (Array.replicate 144 8) ++ (Array.replicate 112 9) ++ (Array.replicate 24 7) ++ (Array.replicate 8 8)

def clOrder : Array Nat := #[16, 17, 18, 0, 8, 7, 9, 6, 10, 5, 11, 4, 12, 3, 13, 2, 14, 1, 15]

/-- read the `n` code lengths of a dynamic block with the code-length code `cl` -/
def readLengths (cl : Huff) (n : Nat) : Nat → BitRd → Array Nat → Option (BitRd × Array Nat)
  | 0, _, _ => none
  | fuel + 1, r, acc =>
    if acc.size ≥ n then some (r, acc)
    else
      match cl.decode r with
      | none => none
      | some (sym, r) =>
        if sym < 16 then readLengths cl n fuel r (acc.push sym)
        else
          let (nb, base, useprev) := if sym = 16 then (2, 3, true) else if sym = 17 then (3, 3, false) else (7, 11, false)
          if useprev ∧ acc.size = 0 then none
          else
            match r.bits nb with
            | none => none
            | some (e, r) =>
              let rep := base + e
              if acc.size + rep > n then none
              else
                let v := if useprev then acc[acc.size - 1]! else 0
                readLengths cl n fuel r (acc ++ Array.replicate rep v)

def inflateBlocks : Nat → BitRd → Array UInt8 → Option (BitRd × Array UInt8)
  | 0, _, _ => none
  | fuel + 1, r, out =>
    match r.bits 3 with
    | none => none
    | some (hdr, r) =>
      let final := hdr % 2
      let typ := hdr / 2
      let res : Option (BitRd × Array UInt8) :=
        if typ = 0 then
          let r := r.align
          match r.bits 16 with
          | none => none
          | some (len, r) =>
            match r.bits 16 with
            | none => none
            | some (nlen, r) =>
              if len + nlen ≠ 65535 then none
              else
                let p := r.pos / 8
                if p + len > r.data.size then none
                else some ({ r with pos := r.pos + 8 * len }, out ++ r.data.extract p (p + len))
        else if typ = 1 then
          match Huff.build fixedLit false, Huff.build (Array.replicate 32 5) false with
          | some l, some d => inflateCodes l d (8 * r.data.size + 8) r out
          | _, _ => none
        else if typ = 2 then
          match r.bits 5 with
          | none => none
          | some (hlit, r) =>
            match r.bits 5 with
            | none => none
            | some (hdist, r) =>
              match r.bits 4 with
              | none => none
              | some (hclen, r) =>
                let nlen := hlit + 257
                let ndist := hdist + 1
                let ncode := hclen + 4
                if nlen > 286 ∨ ndist > 30 then none
                else
                  let rec rdcl : Nat → BitRd → Array Nat → Option (BitRd × Array Nat)
                    | 0, r, a => some (r, a)
                    | k + 1, r, a =>
                      match r.bits 3 with
                      | none => none
                      | some (v, r) => rdcl k r (a.set! clOrder[ncode - (k + 1)]! v)
                  match rdcl ncode r (Array.replicate 19 0) with
                  | none => none
                  | some (r, cls) =>
                    match Huff.build cls true with
                    | none => none
                    | some cl =>
                      match readLengths cl (nlen + ndist) (nlen + ndist + 1) r #[] with
                      | none => none
                      | some (r, lens) =>
                        if lens[256]! = 0 then none
                        else
                          match Huff.build (lens.extract 0 nlen) false, Huff.build (lens.extract nlen (nlen + ndist)) false with
                          | some l, some d => inflateCodes l d (8 * r.data.size + 8) r out
                          | _, _ => none
        else none
      match res with
      | none => none
      | some (r, out) => if final = 1 then some (r, out) else inflateBlocks fuel r out

def adler32 (d : Array UInt8) : Nat :=
  let (a, b) := d.foldl (fun (ab : Nat × Nat) x => let a := (ab.1 + x.toNat) % 65521; (a, (ab.2 + a) % 65521)) (1, 0)
  b * 65536 + a

/-- raw DEFLATE -/
def inflateRaw (data : Bytes) : Option Bytes :=
  match inflateBlocks (data.length + 1) { data := data.toArray, pos := 0 } #[] with
  | none => none
  | some (_, out) => some out.toList

/-- `zlib.decompress(data)` (default `wbits = 15`, no dictionary); `none` = `zlib.error` -/
def zlibDecompress (data : Bytes) : Option Bytes :=
  match data with
  | cmf :: flg :: _ =>
    if (cmf.toNat * 256 + flg.toNat) % 31 ≠ 0 then none
    else if cmf.toNat % 16 ≠ 8 then none
    else if cmf.toNat / 16 > 7 then none
    else if (flg.toNat / 32) % 2 = 1 then none     -- FDICT: a preset dictionary is needed
    else
      let arr := data.toArray
      match inflateBlocks (data.length + 1) { data := arr, pos := 16 } #[] with
      | none => none
      | some (r, out) =>
        let p := (r.pos + 7) / 8
        if p + 4 > arr.size then none
        else
          let want := arr[p]!.toNat * 16777216 + arr[p + 1]!.toNat * 65536 + arr[p + 2]!.toNat * 256 + arr[p + 3]!.toNat
          if adler32 out = want then some out.toList else none
  | _ => none

end Nx.Crypto
