"""Worker side of the C14 tie: one generated module in a fresh process; real generated client -> real RMCClient
-> in-memory transport -> real RMCClient -> real generated server with a recording implementation, and
forward-compatibility splices on every versioned structure."""
import asyncio, os, random, struct, sys, traceback

from schema_proto2lean import load_env, code
import schema_values as SV
from schema_tie import exc_name, module_configs, driver_batch, make_class_name, FUEL


def task(args):
    repo, name, cfgs, seed, per_item, exe, deep = args
    res = {"module": name, "cases": 0, "lines": 0, "tags": {}, "diffs": [], "keys": [], "samples": [], "error": None,
           "methods": 0, "fc_cases": 0}
    try:
        _task(repo, name, cfgs, seed, per_item, exe, deep, res)
    except Exception:
        res["error"] = traceback.format_exc()
    return res


def _task(repo, name, cfgs, seed, per_item, exe, deep, res):
    sys.path.insert(0, repo)
    import importlib, logging
    logging.disable(logging.CRITICAL)
    import anyio
    from nintendo.nex import common, streams, rmc, settings as nexsettings, notification
    mod = importlib.import_module("nintendo.nex." + name)
    if not os.path.abspath(mod.__file__).startswith(os.path.abspath(repo)):
        raise RuntimeError("module %s imported from %s" % (name, mod.__file__))
    env, problem = load_env(os.path.join(repo, "nintendo/files/proto"), repo, name)
    if env is None: raise RuntimeError(problem)
    rng = random.Random("rpc/%s/%s/%r" % (seed, name, cfgs[0]))
    gen = SV.Gen(env, rng)
    real = SV.Real(gen, mod, common, notification)
    tags = res["tags"]
    def tag(t): tags[t] = tags.get(t, 0) + 1
    lines = env.driver_lines()
    nsetup = len(lines)
    checks = []

    class Pipe:
        def __init__(self, minor):
            self.q = asyncio.Queue(); self.peer = None; self.minor = minor
        def minor_version(self): return self.minor
        async def send(self, data):
            if getattr(self, "log", None) is not None: self.log.append(bytes(data))
            await self.peer.q.put(bytes(data))
        async def recv(self):
            d = await self.q.get()
            if d is None: raise anyio.EndOfStream
            return d
        async def close(self):
            await self.peer.q.put(None); await self.q.put(None)
        disconnect = close
        def pid(self): return 1
        def local_address(self): return ("127.0.0.1", 1)
        def remote_address(self): return ("127.0.0.1", 2)
        def local_sid(self): return 1
        def remote_sid(self): return 1

    def mk_settings(cfg):
        s = nexsettings.default()
        s["nex.version"] = cfg[0]; s["nex.struct_header"] = 0; s["nex.pid_size"] = cfg[2]
        return s

    async def session(ci, cfg):
        for p in env.protos:       # one RMC connection per protocol (two protocols of a module may share an id)
            await proto_session(ci, cfg, p)

    async def proto_session(ci, cfg, the_proto):
        st = mk_settings(cfg)
        cs = "%d %d %d %d" % (cfg[0], cfg[1], cfg[2], FUEL)
        minor = rng.choice([3, 4, 5]) if cfg[1] else rng.choice([0, 1, 2])
        a, b = Pipe(minor), Pipe(minor); a.peer = b; b.peer = a
        rc, rs = rmc.RMCClient(st, a), rmc.RMCClient(st, b)
        checks.append(("hdrauto", "%s:%s:hdr-auto:%r:%d" % (name, the_proto["name"], cfg, minor), len(lines),
                       {"real": (int(bool(rc.settings["nex.struct_header"])), int(bool(rs.settings["nex.struct_header"]))), "minor": minor, "orig": int(bool(st["nex.struct_header"]))}))
        lines.append("rmccfg 0 %d" % minor)
        servers = {the_proto["name"]: getattr(mod, make_class_name(the_proto["name"], "Server"))()}
        async with anyio.create_task_group() as tg:
            tg.start_soon(rc.start, [])
            tg.start_soon(rs.start, list(servers.values()))
            try:
                for p in [the_proto]:
                    pname = p["name"]
                    srv = servers[pname]
                    cli = getattr(mod, make_class_name(pname, "Client"))(rc)
                    first_supported = True
                    for m in p["methods"]:
                        if ci == 0: res["methods"] += 1
                        mref = "%d %d" % (code(pname), code(m["name"]))
                        if not m["supported"]:
                            if ci == 0 and not p["noresponse"]:
                                try:
                                    with anyio.fail_after(10):
                                        await rc.request(p["id"], m["id"], b"")
                                    r = "returned"
                                except common.RMCError as e:
                                    r = e.name()
                                checks.append(("notimpl", "%s:%s.%s:unsupported" % (name, pname, m["name"]), len(lines), {"r": r, "client_has": hasattr(cli, m["name"])}))
                                lines.append("dispatch %d %d 1" % (code(pname), m["id"]))
                            continue
                        if ci == 0 and first_supported and not p["noresponse"]:
                            # a server class that leaves the method at the generated stub
                            first_supported = False
                            try:
                                args = [real.build_typed(v["type"], gen.gen(v["type"], cfg, 0, False)) for v in m["request"]]
                                with anyio.fail_after(10):
                                    await getattr(cli, m["name"])(*args)
                                r = "returned"
                            except common.RMCError as e:
                                r = e.name()
                            except Exception as e:
                                r = "exc " + exc_name(e)
                            checks.append(("notimpl", "%s:%s.%s:unimplemented" % (name, pname, m["name"]), len(lines), {"r": r, "client_has": False}))
                            lines.append("dispatch %d %d 0" % (code(pname), m["id"]))
                        for rep in range(per_item):
                            key = "%s:%s.%s:%r:%d" % (name, pname, m["name"], cfg, rep)
                            args = [gen.gen(v["type"], cfg, 0, False) for v in m["request"]]
                            rets = [gen.gen(v["type"], cfg, 0, len(m["response"]) == 1 and v["type"]["name"] != "anydata") for v in m["response"]]
                            rec = {}
                            rargs = [real.build_typed(v["type"], t) for v, t in zip(m["request"], args)]
                            rrets = [real.build_typed(v["type"], t) for v, t in zip(m["response"], rets)]
                            if len(rrets) > 1:
                                robj = rmc.RMCResponse()
                                for v, x in zip(m["response"], rrets): setattr(robj, v["name"], x)
                            elif len(rrets) == 1: robj = rrets[0]
                            else: robj = None
                            async def impl(client, *a, _rec=rec, _robj=robj):
                                _rec["args"] = a
                                return _robj
                            setattr(srv, m["name"], impl)
                            try:
                                with anyio.fail_after(10):
                                    result = await getattr(cli, m["name"])(*rargs)
                                flow = "ok"
                            except common.RMCError as e:
                                flow, result = "rmcerror " + e.name(), None
                            except Exception as e:
                                flow, result = "err " + exc_name(e), None
                            if p["noresponse"] and flow == "ok":
                                for _ in range(200):
                                    if "args" in rec: break
                                    await anyio.sleep(0)
                            delattr(srv, m["name"])
                            checks.append(("rpc", key, len(lines), {"flow": flow, "cfg": cfg, "proto": pname, "method": m, "args": args, "rets": rets,
                                                                    "sargs": rec.get("args"), "result": result, "noresponse": p["noresponse"]}))
                            lines.append("visreq %s %s %s" % (cs, mref, SV.vals(args)))
                            lines.append("visresp %s %s %s" % (cs, mref, SV.vals(rets)))
                            lines.append("req %s %s %s" % (cs, mref, SV.vals(args)))
                            lines.append("sresp %s %s %s" % (cs, mref, SV.vals(rets)))
                    if ci == 0 and not p["noresponse"]:
                        try:
                            with anyio.fail_after(10):
                                await rc.request(p["id"], max([m["id"] for m in p["methods"]] + [0]) + 1000, b"")
                            r = "returned"
                        except common.RMCError as e:
                            r = e.name()
                        checks.append(("notimpl", "%s:%s:unknown-method" % (name, pname), len(lines), {"r": r, "client_has": False}))
                        lines.append("dispatch %d %d 1" % (code(pname), max([m["id"] for m in p["methods"]] + [0]) + 1000))
                if ci == 0 and the_proto is env.protos[0]:
                    try:
                        with anyio.fail_after(10):
                            await rc.request(0x7E00 + len(name), 1, b"")
                        r = "returned"
                    except common.RMCError as e:
                        r = e.name()
                    checks.append(("notimpl", "%s:unknown-protocol" % name, len(lines), {"r": r, "client_has": False}))
                    lines.append("dispatch 1 1 1")
            finally:
                await rc.close()

    # ---------------- forward compatibility splices (structure headers on)
    def forward_compat(cfg):
        st = mk_settings(cfg); st["nex.struct_header"] = 1
        cs = "%d 1 %d %d" % (cfg[0], cfg[2], FUEL)
        for s in env.versioned():
            sname = s["name"]
            if sname not in env.structs: continue
            tree = gen.obj(sname, cfg)
            obj = real.build(tree)
            out = streams.StreamOut(st); out.add(obj); rb = out.get()
            # walk the hierarchy levels to the structure's own level
            pos = 0
            for _ in range(len(gen.chain(sname)) - 1):
                pos += 5 + struct.unpack_from("<I", rb, pos + 1)[0]
            ver = rb[pos]; ln = struct.unpack_from("<I", rb, pos + 1)[0]
            body = rb[pos + 5: pos + 5 + ln]
            assert pos + 5 + ln == len(rb)
            base = streams.StreamIn(rb, st).extract(real.cls(sname))
            if deep:
                vers = list(range(ver + 1, 256)); ks = list(range(1, 17))
                combos = [(v, rng.choice(ks)) for v in vers] + [(rng.choice(vers), k) for k in ks]
            else:
                vers = sorted({ver + 1, min(255, ver + 2), 255, rng.randint(ver + 1, 255)})
                combos = [(v, k) for v in vers for k in sorted({1, 16, rng.randint(2, 15)})][:8]
            ty = "S %d" % code(sname)
            for v2, k in combos:
                extra = rng.randbytes(k); tail = rng.randbytes(rng.choice([0, 2, 5]))
                patched = rb[:pos] + bytes([v2]) + struct.pack("<I", ln + k) + body + extra + tail
                try:
                    sin = streams.StreamIn(patched, st)
                    d = sin.extract(real.cls(sname))
                    r = (d, patched[sin.tell():])
                except Exception as e:
                    r = "err " + exc_name(e)
                checks.append(("fc", "%s:%s:%r:v%d:k%d" % (name, sname, cfg, v2, k), len(lines),
                               {"struct": sname, "cfg": cfg, "ver": ver, "v2": v2, "k": k, "tail": tail, "r": r, "base": base,
                                "value": SV.to_val(tree), "hex": SV.hx(patched)}))
                lines.append("vis %s %s %s" % (cs, ty, SV.to_val(tree)))
                lines.append("dec %s %s %s" % (cs, ty, SV.hx(patched)))
                lines.append("wfrev %d" % code(sname))
                res["fc_cases"] += 1

    # ---------------- sequences of connections sharing ONE settings object per side
    def carries_struct(m):
        def has(t):
            n = t["name"]
            if n in ("list", "map"): return any(has(x) for x in t["template"])
            return n == "anydata" or n not in SV.BASIC
        return any(has(v["type"]) for v in m["request"] + m["response"])

    async def one_connection(cst, sst, minor, p, calls):
        """one RMC connection (client settings object cst, server settings object sst, negotiated minor version);
        returns everything observable: header flags, wire bytes, what the implementation saw, what the caller got"""
        a, b = Pipe(minor), Pipe(minor); a.peer = b; b.peer = a
        wire = []; a.log = wire; b.log = wire
        rc, rs = rmc.RMCClient(cst, a), rmc.RMCClient(sst, b)
        obs = {"hdr": (int(bool(rc.settings["nex.struct_header"])), int(bool(rs.settings["nex.struct_header"]))), "calls": []}
        srv = getattr(mod, make_class_name(p["name"], "Server"))()
        cli = getattr(mod, make_class_name(p["name"], "Client"))(rc)
        async with anyio.create_task_group() as tg:
            tg.start_soon(rc.start, []); tg.start_soon(rs.start, [srv])
            try:
                for m, args, rets in calls:
                    rec = {}
                    rargs = [real.build_typed(v["type"], t) for v, t in zip(m["request"], args)]
                    rrets = [real.build_typed(v["type"], t) for v, t in zip(m["response"], rets)]
                    if len(rrets) > 1:
                        robj = rmc.RMCResponse()
                        for v, x in zip(m["response"], rrets): setattr(robj, v["name"], x)
                    elif len(rrets) == 1: robj = rrets[0]
                    else: robj = None
                    async def impl(client, *a_, _rec=rec, _robj=robj):
                        _rec["args"] = a_
                        return _robj
                    setattr(srv, m["name"], impl)
                    w0 = len(wire)
                    try:
                        with anyio.fail_after(10):
                            result = await getattr(cli, m["name"])(*rargs)
                        flow = "ok"
                    except common.RMCError as e:
                        flow, result = "rmcerror " + e.name(), None
                    except Exception as e:
                        flow, result = "err " + exc_name(e), None
                    if p["noresponse"] and flow == "ok":
                        for _ in range(200):
                            if "args" in rec: break
                            await anyio.sleep(0)
                    delattr(srv, m["name"])
                    sa = rec.get("args")
                    seen = None if sa is None else [real.canon(v["type"], x) for v, x in zip(m["request"], sa)]
                    if flow != "ok" or p["noresponse"]: got = None
                    elif len(m["response"]) > 1: got = [real.canon(v["type"], getattr(result, v["name"], None)) for v in m["response"]]
                    elif len(m["response"]) == 1: got = [real.canon(m["response"][0]["type"], result)]
                    else: got = []
                    obs["calls"].append({"method": m["name"], "flow": flow, "wire": [x.hex() for x in wire[w0:]], "server_saw": seen, "caller_got": got})
            finally:
                await rc.close()
        return obs

    async def sequences(cfg):
        def fresh():
            s = nexsettings.default()
            s["nex.version"] = cfg[0]; s["nex.struct_header"] = 0; s["nex.pid_size"] = cfg[2]
            return s
        for p in env.protos:
            ms = [m for m in p["methods"] if m["supported"]]
            if not ms: continue
            pick = [m for m in ms if carries_struct(m)] or ms
            rng.shuffle(pick)
            pick = pick[:3]
            minors = [4, 2, 4, 0, 3]
            extra = [rng.choice([0, 1, 2, 3, 4, 5]) for _ in range(2)]
            minors = minors + extra if rng.random() < 0.5 else extra + minors
            for scenario in ("server-shared", "client-shared", "both-shared"):
                shared_c, shared_s = fresh(), fresh()
                snap_c, snap_s = dict(shared_c.settings), dict(shared_s.settings)
                for step, minor in enumerate(minors):
                    calls = []
                    for m in pick:
                        args = [gen.gen(v["type"], cfg, 0, False) for v in m["request"]]
                        rets = [gen.gen(v["type"], cfg, 0, len(m["response"]) == 1 and v["type"]["name"] != "anydata") for v in m["response"]]
                        calls.append((m, args, rets))
                    cst = shared_c if scenario in ("client-shared", "both-shared") else fresh()
                    sst = shared_s if scenario in ("server-shared", "both-shared") else fresh()
                    got = await one_connection(cst, sst, minor, p, calls)
                    twin = await one_connection(fresh(), fresh(), minor, p, calls)
                    key = "%s:%s:seq:%s:%r:step%d:minor%d" % (name, p["name"], scenario, cfg, step, minor)
                    changed = {k: (snap_c[k], v) for k, v in shared_c.settings.items() if snap_c.get(k) != v}
                    changed.update({"server." + k: (snap_s[k], v) for k, v in shared_s.settings.items() if snap_s.get(k) != v})
                    checks.append(("seq", key, len(lines), {"got": got, "twin": twin, "minor": minor, "minors": minors, "step": step, "scenario": scenario,
                                                            "proto": p["name"], "cfg": cfg, "changed": changed,
                                                            "calls": [(m["name"], SV.vals(a)[:1500], SV.vals(r)[:1500]) for m, a, r in calls]}))
                    lines.append("rmccfg 0 %d" % minor)

    async def main():
        for ci, cfg in enumerate(cfgs):
            await session(ci, cfg)
            if cfg[1]:
                forward_compat(cfg)
        # one sequence scenario set per task slice, under the slice's first nex.version / pid size
        await sequences(cfgs[0])
        if len(cfgs) > 1 and cfgs[-1][0] != cfgs[0][0]:
            await sequences(cfgs[-1])
    anyio.run(main)

    outs = driver_batch(exe, lines)
    res["lines"] = len(lines)
    for i in range(nsetup):
        if outs[i] != "ok": raise RuntimeError("driver rejected schema line %d: %r -> %r" % (i, lines[i][:200], outs[i]))

    def diff(key, what, detail):
        if len(res["diffs"]) < 40:
            d = {"key": key, "what": what}; d.update(detail); res["diffs"].append(d)
        res["ndiffs"] = res.get("ndiffs", 0) + 1

    for kind, key, i0, pl in checks:
        res["cases"] += 1
        if kind == "hdrauto":
            want = int(outs[i0].split()[1])
            tag("hdr-auto:minor%d:%d" % (pl["minor"], want))
            if pl["real"] != (want, want):
                diff(key, "RMCClient with minor version %d has struct_header=%r, model says %d" % (pl["minor"], pl["real"], want), {"module": name, "vkey": "hdr-auto:minor%d" % pl["minor"]})
            else: res["keys"].append(key)
        elif kind == "notimpl":
            tag("notimpl:" + key.rsplit(":", 1)[-1] + ":" + pl["r"])
            if outs[i0] != "ok NotImplemented":
                diff(key, "model dispatch says %s" % outs[i0], {"module": name, "soft": True})
            elif pl["r"] != "Core::NotImplemented" or pl["client_has"]:
                diff(key, "expected Core::NotImplemented, real code gave %s (client stub present: %s)" % (pl["r"], pl["client_has"]), {"module": name, "vkey": "not-implemented:" + key})
            else: res["keys"].append(key)
        elif kind == "rpc":
            m = pl["method"]
            mvreq, mvresp, mreq, msresp = outs[i0:i0 + 4]
            base = {"module": name, "protocol": pl["proto"], "method": m["name"], "method_id": m["id"], "cfg": list(pl["cfg"]),
                    "args": SV.vals(pl["args"])[:4000], "returns": SV.vals(pl["rets"])[:4000]}
            tag("rpc:" + ("hdr" if pl["cfg"][1] else "nohdr") + ":" + pl["flow"].split(" ")[0])
            if pl["flow"] != "ok":
                if msresp == "err Other" and mreq.startswith("ok") and pl["flow"] == "rmcerror PythonCore::Exception":
                    # the generated server's isinstance test rejects what the implementation returned
                    cls = type(real.build_typed(m["response"][0]["type"], pl["rets"][0])).__name__
                    diff(key, "%s.%s: the implementation returned a %s, the generated server rejects it (isinstance(response, common.Data) fails: its base class Gathering is not a Data) and the caller gets PythonCore::Exception" % (pl["proto"], m["name"], cls),
                         dict(base, vkey="result-type:anydata:" + cls))
                else:
                    diff(key, "call failed on the real code (%s); interpreter: request %s, response %s" % (pl["flow"], mreq[:40], msresp[:40]), dict(base, vkey="rpc:%s:%s.%s" % (name, pl["proto"], m["name"])))
                continue
            sargs = pl["sargs"]
            if sargs is None or len(sargs) != len(m["request"]):
                diff(key, "server implementation was not called", dict(base, vkey="rpc:%s:%s.%s" % (name, pl["proto"], m["name"])))
                continue
            mask = SV.parse_val(mvreq[3:])
            got = "ok [" + "".join(" " + real.canon(v["type"], a, mk) for v, a, mk in zip(m["request"], sargs, mask)) + " ]"
            if got != mvreq:
                diff(key, "arguments seen by the server implementation differ from those passed", dict(base, real=got[:4000], expected=mvreq[:4000], vkey="rpc:%s:%s.%s" % (name, pl["proto"], m["name"])))
                continue
            if not pl["noresponse"]:
                result = pl["result"]
                if len(m["response"]) > 1: vals = [getattr(result, v["name"], None) for v in m["response"]]
                elif len(m["response"]) == 1: vals = [result]
                else: vals = []
                mask = SV.parse_val(mvresp[3:])
                got = "ok [" + "".join(" " + real.canon(v["type"], a, mk) for v, a, mk in zip(m["response"], vals, mask)) + " ]"
                if got != mvresp or (not m["response"] and result is not None):
                    diff(key, "values returned to the caller differ from those the implementation returned", dict(base, real=got[:4000], expected=mvresp[:4000], vkey="rpc:%s:%s.%s" % (name, pl["proto"], m["name"])))
                    continue
            if len(res["samples"]) < 2 and 0 < len(mvreq) < 200:
                res["samples"].append({"module": name, "method": pl["proto"] + "." + m["name"], "cfg": list(pl["cfg"]), "args": base["args"][:200], "returns": base["returns"][:200]})
            res["keys"].append(key)
        elif kind == "seq":
            want_hdr = int(outs[i0].split()[1])
            got, twin = pl["got"], pl["twin"]
            base = {"module": name, "protocol": pl["proto"], "scenario": pl["scenario"], "cfg_nex_pid": [pl["cfg"][0], pl["cfg"][2]],
                    "minor_versions_of_the_connections": pl["minors"], "failing_step": pl["step"], "minor_version": pl["minor"],
                    "calls": pl["calls"], "vkey": "connection-sequence:%s" % name,
                    "how": "make connections one after the other with the given negotiated minor versions; the side(s) named by `scenario` pass the SAME Settings object to every RMCClient; compare with a fresh pair with fresh Settings"}
            tag("seq:%s:minor%d:%s" % (pl["scenario"], pl["minor"], "same" if got == twin and not pl["changed"] else "DIFFERS"))
            if got["hdr"] != (want_hdr, want_hdr):
                bad = [(x["method"], x["flow"], y["flow"]) for x, y in zip(got["calls"], twin["calls"]) if x != y]
                diff(key, "connection %d of the sequence %r (%s, minor version %d) runs with struct_header=%r (client, server); struct_header_auto says %d; calls that no longer behave like on a fresh pair (method, flow here, flow fresh): %r" % (
                    pl["step"], pl["minors"], pl["scenario"], pl["minor"], got["hdr"], want_hdr, bad[:3]),
                     dict(base, observed=got["hdr"], shared=[{k: str(x[k])[:800] for k in x} for x in got["calls"]], fresh=[{k: str(y[k])[:800] for k in y} for y in twin["calls"]]))
            elif got != twin:
                d = next((i for i, (x, y) in enumerate(zip(got["calls"], twin["calls"])) if x != y), 0)
                x, y = got["calls"][d], twin["calls"][d]
                what = [k for k in ("flow", "server_saw", "caller_got", "wire") if x[k] != y[k]]
                diff(key, "connection %d of the sequence %r (%s, minor version %d) does not behave like a fresh pair with fresh settings: call %s differs in %s (flow %s vs %s)" % (
                    pl["step"], pl["minors"], pl["scenario"], pl["minor"], x["method"], what, x["flow"], y["flow"]),
                     dict(base, shared={k: str(x[k])[:1500] for k in x}, fresh={k: str(y[k])[:1500] for k in y}))
            elif pl["changed"]:
                diff(key, "the caller's Settings object was modified by the library after connection %d of %r: %r" % (pl["step"], pl["minors"], pl["changed"]), dict(base, changed=repr(pl["changed"])))
            else:
                res["keys"].append(key)
        elif kind == "fc":
            mvis, mdec, mwf = outs[i0:i0 + 3]
            sname = pl["struct"]
            base = {"module": name, "struct": sname, "cfg": [pl["cfg"][0], 1, pl["cfg"][2]], "written_revision": pl["ver"], "announced_revision": pl["v2"],
                    "extra_bytes": pl["k"], "value": pl["value"][:3000], "patched_hex": pl["hex"][:6000]}
            want = "%s | %s" % (mvis, SV.hx(pl["tail"]))
            if isinstance(pl["r"], str):
                real_s = pl["r"]
            else:
                mask = SV.parse_val(mvis[3:])
                real_s = "ok %s | %s" % (real.canon({"name": sname, "template": None}, pl["r"][0], mask), SV.hx(pl["r"][1]))
            tag("forward-compat:%s:%s" % ("ascending" if mwf == "ok 1" else "NOT-ascending", "same" if real_s == want else "broken"))
            if real_s != mdec:
                diff(key, "spliced structure: real decode %s, interpreter %s" % (real_s[:80], mdec[:80]), dict(base, soft=True))
            if real_s != want:
                diff(key, "forward compatibility fails for %s at nex.version %d: written with revision %d; announced as revision %d with %d trailing bytes the real decoder gives %s instead of the same fields and the untouched rest" % (
                    sname, pl["cfg"][0], pl["ver"], pl["v2"], pl["k"], real_s[:60]), dict(base, vkey="forward-compat:%s:%s" % (name, sname), ascending=mwf))
            else:
                res["keys"].append(key)
