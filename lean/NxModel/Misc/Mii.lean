import NxModel.Misc.BitStream
import NxModel.Crypto.Crc16
/-!
# Mii data — mirrors `nintendo/miis.py` `MiiData.encode/decode/swap_endian/build/parse`

The 68 attributes are described by `miiLayout` (one entry per attribute, in stream order, with the stream
call used for it). `harness/aux_mii_layout.py` re-extracts both the decode-side and the encode-side
sequence of stream calls from the source with `ast` on every run; the generated obligations
`decView miiLayout = …`, `encView miiLayout = …`, `swapView miiRegions 0 = …` are kernel-checked.

Values: `Val.n` for ints/bools (a Python `bool` is the int 0/1), `Val.l` for `author_id`/`mii_id`
(lists of ints), `unk5`/`unk48` (bytes) and the two names (lists of UTF-16 code units = `ord` of each
character; Python strings may hold any code point, `struct.pack(">H")` rejects those ≥ 0x10000).
-/
namespace Nx.Misc
open Nx Nx.Crypto

inductive Kind where
  | bits (w : Nat)      -- `stream.bits(w)`            / `stream.bits(v, w)`   (truncates silently)
  | bit                 -- `stream.bit()`              / `stream.bit(v)`       (truthiness)
  | flag                -- `bool(stream.bit())`        / `stream.bit(v)`
  | flagBits (w : Nat)  -- `bool(stream.bits(w))`      / `stream.bits(v, w)`
  | u8                  -- `stream.u8()`               / `stream.u8(v)`        (`bytes([v])`: ValueError ≥ 256)
  | u8s (n : Nat)       -- `stream.repeat(stream.u8,n)`/ `stream.repeat(v, stream.u8)` (no length check)
  | raw (n : Nat)       -- `stream.read(n)`            / `stream.write(v)`     (no length check)
  | wstr (n : Nat)      -- `stream.wchars(n).split("\0")[0]` / `stream.wchars(v + "\0" * (n - len(v)))`
  deriving DecidableEq, Repr

structure Field where
  name : String
  kind : Kind
  deriving DecidableEq, Repr

inductive Val where
  | n (v : Nat)
  | l (vs : List Nat)
  deriving DecidableEq, Repr

def Kind.width : Kind → Nat
  | .bits w => w
  | .bit => 1
  | .flag => 1
  | .flagBits w => w
  | .u8 => 8
  | .u8s n => 8 * n
  | .raw n => 8 * n
  | .wstr n => 16 * n

/-- every element through `f` (an `Except`-valued bit writer), first failure wins -/
def encList (f : Nat → Except Err Bits) : List Nat → Except Err Bits
  | [] => .ok []
  | v :: r =>
    match f v with
    | .error e => .error e
    | .ok b =>
      match encList f r with
      | .error e => .error e
      | .ok br => .ok (b ++ br)

def encU8 (v : Nat) : Except Err Bits := if v < 256 then .ok (natToBits 8 v) else .error .value
def encU16 (v : Nat) : Except Err Bits := if v < 65536 then .ok (natToBits 16 v) else .error .struct

/-- what `encode` appends to the bit stream for one attribute -/
def encField : Kind → Val → Except Err Bits
  | .bits w, .n v => .ok (natToBits w v)
  | .bit, .n v => .ok [decide (v ≠ 0)]
  | .flag, .n v => .ok [decide (v ≠ 0)]
  | .flagBits w, .n v => .ok (natToBits w v)
  | .u8, .n v => encU8 v
  | .u8s _, .l vs => encList encU8 vs
  | .raw _, .l vs => encList encU8 vs
  | .wstr n, .l cs => encList encU16 (cs ++ List.replicate (n - cs.length) 0)
  | _, _ => .error .type

def toFlag (v : Nat) : Nat := if v ≠ 0 then 1 else 0

/-- what `decode` makes of the `width` bits of one attribute -/
def decField : Kind → Bits → Val
  | .bits _, bs => .n (bitsToNat bs)
  | .bit, bs => .n (bitsToNat bs)
  | .flag, bs => .n (toFlag (bitsToNat bs))
  | .flagBits _, bs => .n (toFlag (bitsToNat bs))
  | .u8, bs => .n (bitsToNat bs)
  | .u8s n, bs => .l ((chunkBits 8 n bs).map bitsToNat)
  | .raw n, bs => .l ((chunkBits 8 n bs).map bitsToNat)
  | .wstr n, bs => .l (((chunkBits 16 n bs).map bitsToNat).takeWhile (· ≠ 0))

def encFields : List Field → List Val → Except Err Bits
  | [], [] => .ok []
  | f :: fs, v :: vs =>
    match encField f.kind v with
    | .error e => .error e
    | .ok b =>
      match encFields fs vs with
      | .error e => .error e
      | .ok br => .ok (b ++ br)
  | _, _ => .error .type

def decFields : List Field → Bits → Except Err (List Val × Bits)
  | [], bs => .ok ([], bs)
  | f :: fs, bs =>
    if bs.length < f.kind.width then .error .overflow else
    match decFields fs (bs.drop f.kind.width) with
    | .error e => .error e
    | .ok (vs, rest) => .ok (decField f.kind (bs.take f.kind.width) :: vs, rest)

/-! ## `swap_endian` -/

/-- reverse each of `cnt` consecutive `k`-byte groups -/
def revEach (k : Nat) : Nat → Bytes → Bytes
  | 0, d => d
  | cnt + 1, d => (d.take k).reverse ++ revEach k cnt (d.drop k)

/-- regions `(group size, count)` laid end to end from offset 0; what follows the last is untouched -/
def swapRegions : List (Nat × Nat) → Bytes → Bytes
  | [], d => d
  | (k, cnt) :: rs, d => revEach k cnt (d.take (k * cnt)) ++ swapRegions rs (d.drop (k * cnt))

def regionsSize : List (Nat × Nat) → Nat
  | [] => 0
  | (k, cnt) :: rs => k * cnt + regionsSize rs

/-- `swap32(0)`; 0x04..0x18 untouched; `swap16` over 0x18..0x2E; 0x2E..0x30 untouched;
    `swap16` over 0x30..0x48, 0x48..0x5C and at 0x5C -/
def miiRegions : List (Nat × Nat) := [(4, 1), (1, 20), (2, 11), (1, 2), (2, 12), (2, 10), (2, 1)]

/-- `MiiData.swap_endian(data)`; `struct.pack_into` fails on a buffer shorter than 0x5E -/
def swapEndian (d : Bytes) : Except Err Bytes :=
  if d.length < regionsSize miiRegions then .error .struct else .ok (swapRegions miiRegions d)

/-! ## the layout -/

def miiLayout : List Field := [
  ⟨"birth_platform", .bits 4⟩, ⟨"unk1", .bits 4⟩, ⟨"unk2", .bits 4⟩, ⟨"unk3", .bits 4⟩,
  ⟨"font_region", .bits 4⟩, ⟨"region_move", .bits 2⟩, ⟨"unk4", .bit⟩, ⟨"copyable", .flag⟩,
  ⟨"mii_version", .u8⟩, ⟨"author_id", .u8s 8⟩, ⟨"mii_id", .u8s 10⟩, ⟨"unk5", .raw 2⟩,
  ⟨"unk6", .bit⟩, ⟨"unk7", .bit⟩, ⟨"color", .bits 4⟩, ⟨"birth_day", .bits 5⟩,
  ⟨"birth_month", .bits 4⟩, ⟨"gender", .bit⟩, ⟨"mii_name", .wstr 10⟩, ⟨"size", .u8⟩, ⟨"fatness", .u8⟩,
  ⟨"blush_type", .bits 4⟩, ⟨"face_style", .bits 4⟩, ⟨"face_color", .bits 3⟩, ⟨"face_type", .bits 4⟩,
  ⟨"local_only", .flag⟩, ⟨"hair_mirrored", .flagBits 5⟩, ⟨"hair_color", .bits 3⟩, ⟨"hair_type", .u8⟩,
  ⟨"eye_thickness", .bits 3⟩, ⟨"eye_scale", .bits 4⟩, ⟨"eye_color", .bits 3⟩, ⟨"eye_type", .bits 6⟩,
  ⟨"eye_height", .bits 7⟩, ⟨"eye_distance", .bits 4⟩, ⟨"eye_rotation", .bits 5⟩,
  ⟨"eyebrow_thickness", .bits 4⟩, ⟨"eyebrow_scale", .bits 4⟩, ⟨"eyebrow_color", .bits 3⟩,
  ⟨"eyebrow_type", .bits 5⟩, ⟨"eyebrow_height", .bits 7⟩, ⟨"eyebrow_distance", .bits 4⟩,
  ⟨"eyebrow_rotation", .bits 5⟩,
  ⟨"nose_height", .bits 7⟩, ⟨"nose_scale", .bits 4⟩, ⟨"nose_type", .bits 5⟩,
  ⟨"mouth_thickness", .bits 3⟩, ⟨"mouth_scale", .bits 4⟩, ⟨"mouth_color", .bits 3⟩, ⟨"mouth_type", .bits 6⟩,
  ⟨"unk34", .u8⟩, ⟨"mustache_type", .bits 3⟩, ⟨"mouth_height", .bits 5⟩, ⟨"mustache_height", .bits 6⟩,
  ⟨"mustache_scale", .bits 4⟩, ⟨"beard_color", .bits 3⟩, ⟨"beard_type", .bits 3⟩,
  ⟨"glass_height", .bits 5⟩, ⟨"glass_scale", .bits 4⟩, ⟨"glass_color", .bits 3⟩, ⟨"glass_type", .bits 4⟩,
  ⟨"unk43", .bit⟩, ⟨"mole_ypos", .bits 5⟩, ⟨"mole_xpos", .bits 5⟩, ⟨"mole_scale", .bits 4⟩,
  ⟨"mole_enabled", .bit⟩,
  ⟨"creator_name", .wstr 10⟩, ⟨"unk48", .raw 2⟩]

def layoutWidth (l : List Field) : Nat := (l.map (·.kind.width)).foldl (· + ·) 0

/-! ## build / parse -/

/-- `MiiData.build()` for the attribute values `vals` (in layout order) -/
def miiBuild (vals : List Val) : Except Err Bytes :=
  match encFields miiLayout vals with
  | .error e => .error e
  | .ok bits =>
    match swapEndian (packBits bits) with
    | .error e => .error e
    | .ok data => .ok (data ++ u16be (miiCrc16 (data ++ [0, 0])))

/-- `MiiData.parse(data)`: attribute values in layout order. Bytes after the first 0x60 are ignored. -/
def miiParse (d : Bytes) : Except Err (List Val) :=
  match rd 0x60 d with
  | .error e => .error e
  | .ok (data, _) =>
    match swapEndian data with
    | .error e => .error e
    | .ok sw =>
      match decFields miiLayout (unpackBits sw) with
      | .error e => .error e
      | .ok (vals, rest) =>
        if rest.length < 16 then .error .overflow           -- `stream.u16()`
        else if miiCrc16 data ≠ 0 then .error .value        -- "Mii data checksum not valid"
        else .ok vals

/-! ## the property's quantifier: in-range attribute values -/

def Val.InRange : Kind → Val → Prop
  | .bits w, .n v => v < 2 ^ w
  | .bit, .n v => v ≤ 1
  | .flag, .n v => v ≤ 1
  | .flagBits w, .n v => v ≤ 1 ∧ 0 < w
  | .u8, .n v => v < 256
  | .u8s k, .l vs => vs.length = k ∧ ∀ x ∈ vs, x < 256
  | .raw k, .l vs => vs.length = k ∧ ∀ x ∈ vs, x < 256
  | .wstr k, .l cs => cs.length ≤ k ∧ ∀ c ∈ cs, c < 65536 ∧ c ≠ 0
  | _, _ => False

def ValsInRange : List Field → List Val → Prop
  | [], [] => True
  | f :: fs, v :: vs => v.InRange f.kind ∧ ValsInRange fs vs
  | _, _ => False

instance : (k : Kind) → (v : Val) → Decidable (v.InRange k)
  | .bits _, .n _ => by unfold Val.InRange; exact inferInstance
  | .bit, .n _ => by unfold Val.InRange; exact inferInstance
  | .flag, .n _ => by unfold Val.InRange; exact inferInstance
  | .flagBits _, .n _ => by unfold Val.InRange; exact inferInstance
  | .u8, .n _ => by unfold Val.InRange; exact inferInstance
  | .u8s _, .l _ => by unfold Val.InRange; exact inferInstance
  | .raw _, .l _ => by unfold Val.InRange; exact inferInstance
  | .wstr _, .l _ => by unfold Val.InRange; exact inferInstance
  | .bits _, .l _ | .bit, .l _ | .flag, .l _ | .flagBits _, .l _ | .u8, .l _ => by unfold Val.InRange; exact inferInstance
  | .u8s _, .n _ | .raw _, .n _ | .wstr _, .n _ => by unfold Val.InRange; exact inferInstance

instance : (l : List Field) → (vs : List Val) → Decidable (ValsInRange l vs)
  | [], [] => by unfold ValsInRange; exact inferInstance
  | f :: fs, v :: vs =>
    have : Decidable (ValsInRange fs vs) := instDecidableValsInRange fs vs
    by unfold ValsInRange; exact inferInstance
  | [], _ :: _ => by unfold ValsInRange; exact inferInstance
  | _ :: _, [] => by unfold ValsInRange; exact inferInstance

/-! ## views compared with the translator's output -/

def nameCode (s : String) : Nat := s.toList.foldl (fun a c => a * 256 + c.toNat) 0

def Kind.code : Kind → Nat × Nat
  | .bits w => (0, w) | .bit => (1, 0) | .flag => (2, 0) | .flagBits w => (3, w)
  | .u8 => (4, 0) | .u8s n => (5, n) | .raw n => (6, n) | .wstr n => (7, n)

/-- the decode side sees every count -/
def decView (l : List Field) : List (Nat × Nat × Nat) := l.map fun f => (nameCode f.name, f.kind.code)

/-- the encode side: `bool(...)` does not exist there and `repeat`/`write` carry no count -/
def Kind.encCode : Kind → Nat × Nat
  | .bits w => (0, w) | .bit => (1, 0) | .flag => (1, 0) | .flagBits w => (0, w)
  | .u8 => (4, 0) | .u8s _ => (5, 0) | .raw _ => (6, 0) | .wstr n => (7, n)

def encView (l : List Field) : List (Nat × Nat × Nat) := l.map fun f => (nameCode f.name, f.kind.encCode)

def swapViewRegion (k : Nat) : Nat → Nat → List (Nat × Nat)
  | 0, _ => []
  | cnt + 1, off => (off, k) :: swapViewRegion k cnt (off + k)

/-- the `(offset, size)` swaps a region list stands for (groups of one byte are "untouched") -/
def swapView : List (Nat × Nat) → Nat → List (Nat × Nat)
  | [], _ => []
  | (k, cnt) :: rs, off => (if k = 1 then [] else swapViewRegion k cnt off) ++ swapView rs (off + k * cnt)

end Nx.Misc
