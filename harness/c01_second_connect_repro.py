"""C01 — observation on the UNCHANGED tree, found while exploring slow links (not wired into ./check C01; reported to the lead).

No datagram is lost, duplicated or reordered. Every datagram takes 0.45 s one way (round trip 0.9 s, resend_timeout 1.0 s) and the
client's socket needs 0.2 s per send. The SYN/ACK arrives 0.1 s before the SYN's retransmission timer; PRUDPClient.handle() runs
process_syn -> send_connect (0.2 s inside the socket) BEFORE it removes the SYN's timer, so the timer fires meanwhile and
resend_packet() re-registers ack_events[(SYN, 0, 0)] after handle() has popped it. The SYN is now retransmitted for ever, every
further SYN/ACK finds the key in ack_events and sends ANOTHER CONNECT, which takes the next sequence id of substream 0 (ids 3, 7, ..)
in the middle of the data stream. The server never sees those ids as reliable packets of the window, so client->server delivery stops
after the first message although everything is acknowledged, and after resend_limit SYN retransmissions the client gives up.

    /venv/bin/python /verif/harness/c01_second_connect_repro.py      (NX_REPO=<tree> to try another tree)
"""
import os, sys
sys.path.insert(0, os.path.dirname(os.path.abspath(__file__)))
if os.environ.get("NX_REPO"): sys.path.insert(0, os.environ["NX_REPO"])
import prudp_session as ps, c01_slowlink as sl


def run(version=1, tau=0.2, one_way=0.45):
    cfg = ps.Cfg(version=version, resend_timeout=1.0, resend_limit=3, fragment_size=100, ping_timeout=4.0)
    links = {"c": {"mode": "sleep", "tau": tau}, "s": None}
    script = [[("c", 0, b"hello"), ("c", 0, b"x" * 250), ("s", 0, b"reply")], [("c", 0, b"again")]]
    sess = ps.run_session(cfg, 1, script, lambda sim, rng: (lambda tx: [one_way]), setup=lambda sim, out: sl.install_links(sim, links))
    obs = ps.Observer(sess.settings, cfg)
    connects = []
    for e in sess.netlog:
        if e[0] == "tx" and e[4] == ps.SERVER:
            for p in obs.decode(e[5]):
                if p.type == ps.TYPE_CONNECT and not p.flags & ps.F_ACK and p.packet_id not in connects: connects.append(p.packet_id)
    sent = [m for side, sub, m in sess.accepted if side == "c"]
    return sess, connects, sent


if __name__ == "__main__":
    bad = 0
    for v in (0, 1):
        sess, connects, sent = run(v)
        got = sess.got[("s", 0)]
        print("v%d: CONNECT sequence ids sent by the client: %r; client sent %d messages, server received %d; final states %r" % (
            v, connects, len(sent), len(got), sess.final_state))
        bad += len(connects) > 1 or len(got) != len(sent)
    sys.exit(1 if bad else 0)
