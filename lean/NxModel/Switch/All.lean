import NxModel.Switch.Clients
/-!
# One entry point for "construct the client, select a system version, make a public call"
-/
namespace Nx.Switch
open Nx Nx.Http

/-- construct, `set_system_version(v)`, call -/
def runAt {σ : Type} (init : Except Err σ) (setv : σ → Nat → Upd σ) (v : Nat) (call : σ → Except Err (List Sent)) : Except Err (List Sent) :=
  match init with
  | .error e => .error e
  | .ok s =>
    match setv s v with
    | (s', none) => call s'
    | (_, some e) => .error e

/-- every public call of the seven clients (sun, atumn and dragons take the device id at construction) -/
inductive AnyCall where
  | dauth (c : DauthCall)
  | aauth (c : AauthCall)
  | baas (c : BaasCall)
  | dragons (deviceId : Option Nat) (c : DragonsCall)
  | five (c : FiveCall)
  | sun (deviceId : Nat) (c : SunCall)
  | atumn (deviceId : Nat) (c : AtumnCall)
  deriving Repr

def requestsAt (T : Tables) (v : Nat) : AnyCall → Except Err (List Sent)
  | .dauth c => runAt (Dauth.init T) (Dauth.setVersion T) v (·.call c)
  | .aauth c => runAt (Aauth.init T) (Aauth.setVersion T) v (·.call c)
  | .baas c => runAt (Baas.init T) (Baas.setVersion T) v (·.call c)
  | .dragons d c => runAt (Dragons.init T d) (Dragons.setVersion T) v (·.call c)
  | .five c => runAt (Five.init T) (Five.setVersion T) v (Five.call T · c)
  | .sun d c => runAt (Nim.init T T.latestSun sunHost d) (Nim.setVersion T) v (·.sunCall c)
  | .atumn d c => runAt (Nim.init T T.latestAtumn atumnHost d) (Nim.setVersion T) v (·.atumnCall c)

def shapes (r : Except Err (List Sent)) : Except Err (List Shape) := r.map (·.map (·.2.shape))

end Nx.Switch
