import NxModel.Nex.RmcServer
/-!
# An RMC LISTENER over its lifetime — mirrors `rmc.serve` / `rmc.serve_on_transport` (`nintendo/nex/rmc.py`)

`serve(settings, servers, …)` keeps the list `servers` it was given; its `handle(client)` runs once per accepted
connection: `client = RMCClient(settings, client)` (whose `self.servers = {}` is a NEW dict) and
`await client.start(servers)`, which registers every server of the list on that client and then serves requests from
`self.servers`. `RMCClient.register_server(server)` raises `ValueError` when `server.PROTOCOL_ID in self.servers` and
otherwise adds the server to `self.servers` — of THAT client. Nothing is written anywhere else: the table of a
connection is a function of the listener's list and of the registrations made on that connection.
-/
namespace Nx.RmcListener
open Nx Nx.Rmc Nx.RmcServer

/-- `RMCClient.register_server` on a connection whose table is `t`: `none` = it raises (protocol already there) -/
def register (t : List Server) (s : Server) : Option (List Server) :=
  match findServer s.protocol t with
  | some _ => none
  | none => some (s :: t)

/-- `servers`: the list given to `serve`; `conns`: the open connections with the table of their `RMCClient` -/
structure Listener where
  servers : List Server
  conns : List (Nat × List Server)

def tableOf (c : Nat) : List (Nat × List Server) → Option (List Server)
  | [] => none
  | (d, t) :: r => if d = c then some t else tableOf c r

def setTable (c : Nat) (t : List Server) : List (Nat × List Server) → List (Nat × List Server)
  | [] => []
  | (d, u) :: r => if d = c then (d, t) :: r else (d, u) :: setTable c t r

def dropConn (c : Nat) : List (Nat × List Server) → List (Nat × List Server)
  | [] => []
  | (d, u) :: r => if d = c then dropConn c r else (d, u) :: dropConn c r

inductive Ev where
  | accept (c : Nat)                                   -- the transport hands a new connection to `handle`
  | close (c : Nat)                                    -- its peer goes away: `start` returns, the RMCClient is dropped
  | register (c : Nat) (s : Server)                    -- code running for connection c calls `client.register_server(s)`
  | request (c : Nat) (req : Msg) (h : HandleResult)   -- a request arrives on c; `h` = what the awaited `handle` did

inductive Out where
  | nothing
  | registered (ok : Bool)       -- `false`: register_server raised
  | reaction (r : Reaction)
  | noConnection
  deriving DecidableEq, Repr

def step (l : Listener) : Ev → Listener × Out
  | .accept c => ({ l with conns := (c, l.servers) :: dropConn c l.conns }, .nothing)
  | .close c => ({ l with conns := dropConn c l.conns }, .nothing)
  | .register c s =>
    match tableOf c l.conns with
    | none => (l, .noConnection)
    | some t =>
      match register t s with
      | none => (l, .registered false)
      | some t' => ({ l with conns := setTable c t' l.conns }, .registered true)
  | .request c req h =>
    match tableOf c l.conns with
    | none => (l, .noConnection)
    | some t => (l, .reaction (react (registryOf t) req h))

def run (l : Listener) : List Ev → Listener × List Out
  | [] => (l, [])
  | e :: r => let (l', o) := step l e; let (l'', os) := run l' r; (l'', o :: os)

/-- the connection an event belongs to -/
def Ev.conn : Ev → Nat
  | .accept c => c | .close c => c | .register c _ => c | .request c _ _ => c

end Nx.RmcListener
