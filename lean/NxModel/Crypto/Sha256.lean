import NxModel.Bytes
/-!
# SHA-256 (FIPS 180-4) — executable reference for the correspondence (never reasoned about)
Validated against the FIPS/NIST vectors in the driver self-test and differentially against `hashlib`.
-/
namespace Nx.Crypto
open Nx

def sha256K : Array UInt32 := #[
  0x428a2f98,0x71374491,0xb5c0fbcf,0xe9b5dba5,0x3956c25b,0x59f111f1,0x923f82a4,0xab1c5ed5,
  0xd807aa98,0x12835b01,0x243185be,0x550c7dc3,0x72be5d74,0x80deb1fe,0x9bdc06a7,0xc19bf174,
  0xe49b69c1,0xefbe4786,0x0fc19dc6,0x240ca1cc,0x2de92c6f,0x4a7484aa,0x5cb0a9dc,0x76f988da,
  0x983e5152,0xa831c66d,0xb00327c8,0xbf597fc7,0xc6e00bf3,0xd5a79147,0x06ca6351,0x14292967,
  0x27b70a85,0x2e1b2138,0x4d2c6dfc,0x53380d13,0x650a7354,0x766a0abb,0x81c2c92e,0x92722c85,
  0xa2bfe8a1,0xa81a664b,0xc24b8b70,0xc76c51a3,0xd192e819,0xd6990624,0xf40e3585,0x106aa070,
  0x19a4c116,0x1e376c08,0x2748774c,0x34b0bcb5,0x391c0cb3,0x4ed8aa4a,0x5b9cca4f,0x682e6ff3,
  0x748f82ee,0x78a5636f,0x84c87814,0x8cc70208,0x90befffa,0xa4506ceb,0xbef9a3f7,0xc67178f2]

def rotr32 (x : UInt32) (c : UInt32) : UInt32 := (x >>> c) ||| (x <<< (32 - c))

def word32be (a b c d : UInt8) : UInt32 :=
  (a.toUInt32 <<< 24) ||| (b.toUInt32 <<< 16) ||| (c.toUInt32 <<< 8) ||| d.toUInt32

def wordsBE : Bytes → List UInt32
  | a :: b :: c :: d :: r => word32be a b c d :: wordsBE r
  | _ => []

def be32 (w : UInt32) : Bytes :=
  [(w >>> 24).toUInt8, (w >>> 16).toUInt8, (w >>> 8).toUInt8, w.toUInt8]

/-- message schedule: extend 16 words to 64 -/
def sha256Schedule (w : Array UInt32) : Array UInt32 :=
  (List.range 48).foldl (fun w j =>
    let i := j + 16
    let w15 := w[i - 15]!
    let w2 := w[i - 2]!
    let s0 := rotr32 w15 7 ^^^ rotr32 w15 18 ^^^ (w15 >>> 3)
    let s1 := rotr32 w2 17 ^^^ rotr32 w2 19 ^^^ (w2 >>> 10)
    w.push (w[i - 16]! + s0 + w[i - 7]! + s1)) w

structure Sha256State where
  a : UInt32
  b : UInt32
  c : UInt32
  d : UInt32
  e : UInt32
  f : UInt32
  g : UInt32
  h : UInt32

def sha256Init : Sha256State :=
  ⟨0x6a09e667, 0xbb67ae85, 0x3c6ef372, 0xa54ff53a, 0x510e527f, 0x9b05688c, 0x1f83d9ab, 0x5be0cd19⟩

def sha256Round (w : Array UInt32) (s : Sha256State) (i : Nat) : Sha256State :=
  let s1 := rotr32 s.e 6 ^^^ rotr32 s.e 11 ^^^ rotr32 s.e 25
  let ch := (s.e &&& s.f) ^^^ (~~~ s.e &&& s.g)
  let t1 := s.h + s1 + ch + sha256K[i]! + w[i]!
  let s0 := rotr32 s.a 2 ^^^ rotr32 s.a 13 ^^^ rotr32 s.a 22
  let maj := (s.a &&& s.b) ^^^ (s.a &&& s.c) ^^^ (s.b &&& s.c)
  let t2 := s0 + maj
  ⟨t1 + t2, s.a, s.b, s.c, s.d + t1, s.e, s.f, s.g⟩

def sha256Block (s : Sha256State) (block : Bytes) : Sha256State :=
  let w := sha256Schedule (wordsBE block).toArray
  let t := (List.range 64).foldl (sha256Round w) s
  ⟨s.a + t.a, s.b + t.b, s.c + t.c, s.d + t.d, s.e + t.e, s.f + t.f, s.g + t.g, s.h + t.h⟩

def u64be (n : Nat) : Bytes := u32be (n / 4294967296) ++ u32be n

def sha256Pad (len : Nat) : Bytes :=
  let r := (len + 1) % 64
  let z := if r ≤ 56 then 56 - r else 120 - r
  (0x80 : UInt8) :: List.replicate z 0 ++ u64be (8 * len % 18446744073709551616)

def chunksOf (k : Nat) (fuel : Nat) (b : Bytes) : List Bytes :=
  match fuel with
  | 0 => []
  | fuel + 1 => if b.isEmpty then [] else b.take k :: chunksOf k fuel (b.drop k)

def sha256 (msg : Bytes) : Bytes :=
  let padded := msg ++ sha256Pad msg.length
  let s := (chunksOf 64 (padded.length / 64 + 1) padded).foldl sha256Block sha256Init
  be32 s.a ++ be32 s.b ++ be32 s.c ++ be32 s.d ++ be32 s.e ++ be32 s.f ++ be32 s.g ++ be32 s.h

end Nx.Crypto
