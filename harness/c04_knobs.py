"""C04 helper — RARELY USED SETTINGS crossed with the forgery families (family `knobs`).

Every `prudp.*` / `prudp_v0.*` setting the transport reads (and every one it merely declares: `prudp.encryption`) is put at a
non-default value, one at a time and in a few pairs, on BOTH endpoints of a session established WITH credentials; the session is then
attacked (a) by the `keylen` family of harness/c04_keylen.py - packets signed with everything public (access key, connection
signature, ports, session id) but NOT the session key: the empty key, the default stream-cipher key b"CD&ML", zero keys, cut /
extended keys - DATA, DISCONNECT, PING, acknowledgements, aggregate acks, towards the server and towards the client, at the instant
the connection comes to exist, through an idle handshake window, and before / after every later reliable packet (mid-session), and
(b) by the general forgery families of corr_C04 (wrong access key / zero session key / wrong connection signature / wrong session id
/ spoofed port x 12 type/flag combinations, bit flips, forged acknowledgements). Same twin-run non-interference oracle and L1 replay
(sessions with zlib compression are not replayed: the L1 driver has no inflate).

A setting of the `prudp` namespaces this file does not know (one added to nintendo/nex/settings.py later) is tried at the integer
values 0, 1, 2 other than its default; a value with which even the attack-free reference session does not come up is left out.
"""
import prudp_session as ps


class KCfg(ps.Cfg):
    """ps.Cfg + `knobs`: settings written verbatim into both endpoints' Settings objects; `server_dual`: the server accepts v0 and v1"""

    def __init__(self, **kw):
        self.knobs = None
        self.server_dual = False
        super().__init__(**kw)

    def settings(self):
        s = super().settings()
        for k, v in (self.knobs or {}).items():
            s[k] = v
        return s


KNOWN = {"prudp.access_key", "prudp.version", "prudp.minor_version", "prudp.supported_functions", "prudp.transport", "prudp.compression",
         "prudp.encryption", "prudp.resend_timeout", "prudp.resend_limit", "prudp.ping_timeout", "prudp.fragment_size",
         "prudp.max_substream_id", "prudp_v0.signature_version", "prudp_v0.flags_version", "prudp_v0.checksum_version"}


def unknown_knobs():
    """settings of the prudp namespaces that were added after this file was written: (name, value) at small non-default integers"""
    from nintendo.nex import settings as nexsettings
    s = nexsettings.default()
    out = []
    for name, typ in sorted(s.field_types.items()):
        if name.split(".")[0] in ("prudp", "prudp_v0", "prudp_v1") and name not in KNOWN and typ is int:
            for v in (0, 1, 2):
                try:
                    if s[name] != v:
                        out.append((name, v))
                except Exception:
                    pass
    return out


def v1_matrix():
    """(label, Cfg overrides) for v1 sessions with credentials"""
    m = [("encryption=0", dict(knobs={"prudp.encryption": 0})),
         ("compression=zlib", dict(compression=1)),
         ("encryption=0+compression=zlib", dict(compression=1, knobs={"prudp.encryption": 0})),
         ("encryption=0+max_substream=1", dict(max_substream=1, knobs={"prudp.encryption": 0})),
         ("max_substream=1", dict(max_substream=1)),
         ("minor_version=2+supported_functions=0x104", dict(minor_version=2, supported_functions=0x104)),
         ("minor_version=0", dict(minor_version=0)),
         ("access_key", dict(access_key="ridfebb9")),
         ("access_key+encryption=0", dict(access_key="ridfebb9", knobs={"prudp.encryption": 0})),
         ("key_size=16+encryption=0", dict(key_size=16, knobs={"prudp.encryption": 0})),
         ("pid_size=8", dict(pid_size=8)),
         ("ticket_version=0", dict(ticket_version=0)),
         ("server prudp.version=2", dict(server_dual=True)),
         ("server prudp.version=2+encryption=0", dict(server_dual=True, knobs={"prudp.encryption": 0})),
         ("fragment_size=3+ping_timeout=0.75", dict(fragment_size=3, ping_timeout=0.75)),
         ("resend_limit=1+resend_timeout=0.25", dict(resend_limit=1, resend_timeout=0.25))]
    for name, v in unknown_knobs():
        m.append(("%s=%d" % (name, v), dict(knobs={name: v})))
    return m


def v0_matrix(quick):
    """(label, Cfg overrides): the v0 variants whose signature binds DATA / DISCONNECT to the session key (signature_version 0), every
    flags / checksum version, x the settings"""
    m = []
    knobs = [("encryption=0", dict(knobs={"prudp.encryption": 0})), ("compression=zlib", dict(compression=1)),
             ("access_key+encryption=0", dict(access_key="ridfebb9", knobs={"prudp.encryption": 0})),
             ("server prudp.version=2", dict(server_dual=True))]
    for name, v in unknown_knobs():
        knobs.append(("%s=%d" % (name, v), dict(knobs={name: v})))
    for i, (fv, cv) in enumerate([(1, 1), (0, 0), (0, 1), (1, 0)]):
        for j, (label, kw) in enumerate(knobs):
            if quick and j >= 1 and (i + j) % 2 and j < 4:
                continue
            m.append(("v0(0,%d,%d) %s" % (fv, cv, label), dict(kw, v0=(0, fv, cv))))
    return m
