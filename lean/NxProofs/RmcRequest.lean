import NxModel.Nex.RmcRequest
import NxProofs.Bytes
/-!
# Framing lemmas for the request reader (`NxModel/Nex/RmcRequest.lean`)

`Local f`: whenever the reader `f` succeeds it has consumed a prefix `c` of its input such that
* the result does not depend on what follows `c` (and what follows is handed on untouched), and
* on every proper prefix of `c` — a stream that ends early — `f` fails with `OverflowError`.
Every reader of the model is `Local` (`decTy_local`, `decItems_local`, `decObj_local`, `decArgs_local`); with the
bounded copy a structure frame is read from (`decLevel_frame`) this gives `short_frame_rejected`: a frame that holds
fewer bytes than its fields need is an `OverflowError` whatever follows the frame.
-/
namespace Nx.RmcRequest
open Nx

def Local {α : Type} (f : Rd α) : Prop :=
  ∀ b v r, f b = .ok (v, r) →
    ∃ c, b = c ++ r ∧ (∀ r', f (c ++ r') = .ok (v, r')) ∧ (∀ k, k < c.length → f (c.take k) = .error .overflow)

theorem Local.pure {α : Type} (a : α) : Local (Rd.pure a) := by
  intro b v r h
  simp only [Rd.pure, Except.ok.injEq, Prod.mk.injEq] at h
  obtain ⟨rfl, rfl⟩ := h
  exact ⟨[], rfl, fun r' => rfl, fun k hk => absurd hk (by simp)⟩

theorem Local.fail {α : Type} (e : Err) : Local (Rd.fail e : Rd α) := by
  intro b v r h; simp [Rd.fail] at h

theorem Local.lift {α : Type} (x : Except Err α) : Local (Rd.lift x) := by
  intro b v r h
  cases x with
  | error e => simp [Rd.lift] at h
  | ok a =>
    simp only [Rd.lift, Except.ok.injEq, Prod.mk.injEq] at h
    obtain ⟨rfl, rfl⟩ := h
    exact ⟨[], rfl, fun r' => rfl, fun k hk => absurd hk (by simp)⟩

theorem Local.seq {α β : Type} {f : Rd α} {g : α → Rd β} (hf : Local f) (hg : ∀ a, Local (g a)) : Local (f.seq g) := by
  intro b v r h
  unfold Rd.seq at h
  cases hfb : f b with
  | error e => rw [hfb] at h; simp at h
  | ok p =>
    obtain ⟨a, r1⟩ := p
    rw [hfb] at h
    simp only [] at h
    obtain ⟨c1, hb, h2, h3⟩ := hf b a r1 hfb
    obtain ⟨c2, hr1, g2, g3⟩ := hg a r1 v r h
    refine ⟨c1 ++ c2, by rw [hb, hr1, List.append_assoc], ?_, ?_⟩
    · intro r'
      unfold Rd.seq
      rw [List.append_assoc, h2 (c2 ++ r')]
      exact g2 r'
    · intro k hk
      unfold Rd.seq
      by_cases hk1 : k < c1.length
      · rw [List.take_append_of_le_length (Nat.le_of_lt hk1), h3 k hk1]
      · have hle : c1.length ≤ k := Nat.le_of_not_lt hk1
        have : (c1 ++ c2).take k = c1 ++ c2.take (k - c1.length) := by
          rw [List.take_append]
          rw [List.take_of_length_le hle]
        rw [this, h2]
        simp only []
        apply g3
        simp only [List.length_append] at hk
        omega

theorem Local.map {α β : Type} {f : Rd α} (h : α → β) (hf : Local f) : Local (Rd.map h f) :=
  Local.seq hf fun a => Local.pure (h a)

theorem Local.ite {α : Type} {p : Prop} [Decidable p] {f g : Rd α} (hf : Local f) (hg : Local g) :
    Local (if p then f else g) := by
  by_cases hp : p
  · simp only [if_pos hp]; exact hf
  · simp only [if_neg hp]; exact hg

/-! ## primitives -/

theorem rdN_local (n : Nat) : Local (rdN n) := by
  intro b v r h
  unfold rdN rd at h
  by_cases hn : n ≤ b.length
  · simp only [if_pos hn, Except.ok.injEq, Prod.mk.injEq] at h
    obtain ⟨rfl, rfl⟩ := h
    have hl : (List.take n b).length = n := by simp [List.length_take]; omega
    refine ⟨b.take n, (List.take_append_drop n b).symm, ?_, ?_⟩
    · intro r'
      unfold rdN rd
      have : n ≤ (List.take n b ++ r').length := by simp [List.length_append, hl]
      rw [if_pos this]
      have h1 : List.take n (List.take n b ++ r') = List.take n b := by
        rw [List.take_append_of_le_length (by omega)]; rw [List.take_take]; simp
      have h2 : List.drop n (List.take n b ++ r') = r' := by
        rw [List.drop_append_of_le_length (by omega)]
        rw [List.drop_of_length_le (by omega)]; rfl
      rw [h1, h2]
    · intro k hk
      unfold rdN rd
      rw [hl] at hk
      have : ¬ n ≤ (List.take k (List.take n b)).length := by
        simp [List.length_take]; omega
      rw [if_neg this]
  · simp [if_neg hn] at h

theorem rdU8_local : Local (rdU8 : Rd Nat) := by
  intro b v r h
  match b, h with
  | a :: r0, h =>
    simp only [rdU8, Except.ok.injEq, Prod.mk.injEq] at h
    obtain ⟨rfl, rfl⟩ := h
    refine ⟨[a], rfl, fun r' => rfl, ?_⟩
    intro k hk
    have : k = 0 := by simp at hk; omega
    subst this; rfl

theorem rdU16_local : Local (rdU16 : Rd Nat) := by
  intro b v r h
  match b, h with
  | a :: c :: r0, h =>
    simp only [rdU16, Except.ok.injEq, Prod.mk.injEq] at h
    obtain ⟨rfl, rfl⟩ := h
    refine ⟨[a, c], rfl, fun r' => rfl, ?_⟩
    intro k hk
    have : k = 0 ∨ k = 1 := by simp at hk; omega
    rcases this with rfl | rfl <;> rfl

theorem rdU32_local : Local (rdU32 : Rd Nat) := by
  intro b v r h
  match b, h with
  | a :: c :: d :: e :: r0, h =>
    simp only [rdU32, Except.ok.injEq, Prod.mk.injEq] at h
    obtain ⟨rfl, rfl⟩ := h
    refine ⟨[a, c, d, e], rfl, fun r' => rfl, ?_⟩
    intro k hk
    have : k = 0 ∨ k = 1 ∨ k = 2 ∨ k = 3 := by simp at hk; omega
    rcases this with rfl | rfl | rfl | rfl <;> rfl

theorem rdU64_eq : (rdU64 : Rd Nat) = Rd.seq rdU32 fun lo => Rd.map (fun hi => lo + 4294967296 * hi) rdU32 := by
  funext b
  unfold rdU64 Rd.seq Rd.map Rd.seq Rd.pure
  cases h1 : rdU32 b with
  | error e => rfl
  | ok p =>
    obtain ⟨lo, r⟩ := p
    simp only []
    cases h2 : rdU32 r with
    | error e => rfl
    | ok q => obtain ⟨hi, r'⟩ := q; rfl

theorem rdU64_local : Local (rdU64 : Rd Nat) := by
  rw [rdU64_eq]
  exact Local.seq rdU32_local fun lo => Local.map _ rdU32_local

theorem decStr_local : Local decStr :=
  Local.seq rdU16_local fun n =>
    Local.ite (Local.pure none) (Local.seq (rdN_local n) fun _ => Local.ite (Local.pure _) (Local.fail _))

theorem decBuf_local : Local decBuf := Local.seq rdU32_local rdN_local
theorem decQBuf_local : Local decQBuf := Local.seq rdU16_local rdN_local

theorem decVariant_local : Local decVariant :=
  Local.seq rdU8_local fun _ =>
    Local.ite (Local.pure _) <| Local.ite (Local.map _ rdU64_local) <| Local.ite (Local.map _ rdU64_local) <|
    Local.ite (Local.map _ rdU8_local) <| Local.ite (Local.map _ decStr_local) <| Local.ite (Local.map _ rdU64_local) <|
    Local.ite (Local.map _ rdU64_local) (Local.fail _)

theorem decList_local {f : Rd Val} (hf : Local f) : ∀ n, Local (decList f n)
  | 0 => Local.pure []
  | n + 1 => Local.seq hf fun _ => Local.map _ (decList_local hf n)

theorem decPairs_local {fk fv : Rd Val} (hk : Local fk) (hv : Local fv) : ∀ n, Local (decPairs fk fv n)
  | 0 => Local.pure []
  | n + 1 => Local.seq hk fun _ => Local.seq hv fun _ => Local.map _ (decPairs_local hk hv n)

/-! ## types, `load` bodies, structures -/

theorem decTy_local (R : Hook) (env : Env) (hR : ∀ id, Local (R id)) : ∀ t, Local (decTy R env t)
  | .u8 => Local.map _ rdU8_local
  | .u16 => Local.map _ rdU16_local
  | .u32 => Local.map _ rdU32_local
  | .u64 => Local.map _ rdU64_local
  | .s8 => Local.map _ rdU8_local
  | .s16 => Local.map _ rdU16_local
  | .s32 => Local.map _ rdU32_local
  | .s64 => Local.map _ rdU64_local
  | .float => Local.map _ rdU32_local
  | .double => Local.map _ rdU64_local
  | .bool => Local.map _ rdU8_local
  | .string => Local.map _ decStr_local
  | .buffer => Local.map _ decBuf_local
  | .qbuffer => Local.map _ decQBuf_local
  | .datetime => Local.map _ rdU64_local
  | .result => Local.map _ rdU32_local
  | .stationurl => Local.seq decStr_local fun _ => Local.lift _
  | .variant => decVariant_local
  | .list t => Local.seq rdU32_local fun n => Local.map _ (decList_local (decTy_local R env hR t) n)
  | .map k v => Local.seq rdU32_local fun n => Local.map _ (decPairs_local (decTy_local R env hR k) (decTy_local R env hR v) n)
  | .struct id => Local.map _ (hR id)
  | .anydata => Local.seq decStr_local fun _ => Local.seq decBuf_local fun _ => Local.lift _

theorem decItems_local (R : Hook) (env : Env) (hR : ∀ id, Local (R id)) (ver : Nat) : ∀ it, Local (decItems R env ver it)
  | .nil => Local.pure []
  | .field t rest => Local.seq (decTy_local R env hR t) fun _ => Local.map _ (decItems_local R env hR ver rest)
  | .rev k body rest => by
    unfold decItems
    exact Local.ite (Local.seq (decItems_local R env hR ver body) fun _ => Local.map _ (decItems_local R env hR ver rest))
      (decItems_local R env hR ver rest)

theorem decLevel_local (R : Hook) (env : Env) (hR : ∀ id, Local (R id)) (hdr : Bool) (items : Items) :
    Local (decLevel R env hdr items) := by
  unfold decLevel
  exact Local.ite (Local.seq rdU8_local fun _ => Local.seq decBuf_local fun _ => Local.lift _) (decItems_local R env hR 0 items)

theorem decLevels_local (R : Hook) (env : Env) (hR : ∀ id, Local (R id)) (hdr : Bool) : ∀ ls, Local (decLevels R env hdr ls)
  | [] => Local.pure []
  | l :: ls => Local.seq (decLevel_local R env hR hdr l) fun _ => Local.map _ (decLevels_local R env hR hdr ls)

theorem decObj_local (env : Env) (hdr : Bool) : ∀ f id, Local (decObj env hdr f id)
  | 0, _ => Local.fail _
  | f + 1, id => by
    unfold decObj
    cases lookupStruct env.structs id with
    | none => exact Local.fail _
    | some levels => exact decLevels_local _ env (decObj_local env hdr f) hdr levels

theorem decArgs_local (R : Hook) (env : Env) (hR : ∀ id, Local (R id)) : ∀ ts, Local (decArgs R env ts)
  | [] => Local.pure []
  | t :: ts => Local.seq (decTy_local R env hR t) fun _ => Local.map _ (decArgs_local R env hR ts)

/-! ## frames -/

/-- a length-prefixed frame: exactly the declared bytes are taken, the rest is handed on -/
theorem decBuf_frame (frame rest : Bytes) (h : frame.length < 4294967296) :
    decBuf (u32le frame.length ++ frame ++ rest) = .ok (frame, rest) := by
  unfold decBuf Rd.seq
  rw [List.append_assoc, rdU32_u32le _ _ h]
  simp only []
  unfold rdN rd
  rw [if_pos (by simp)]
  simp

/-- with structure headers the fields of a class are read from the frame's bytes ONLY: the outcome is `loadFrame` of the
    frame, what follows the frame is handed on untouched -/
theorem decLevel_frame (R : Hook) (env : Env) (items : Items) (ver : Nat) (hv : ver < 256) (frame rest : Bytes)
    (h : frame.length < 4294967296) :
    decLevel R env true items (u8 ver ++ u32le frame.length ++ frame ++ rest) =
      match loadFrame R env ver items frame with
      | .ok vs => .ok (vs, rest)
      | .error e => .error e := by
  unfold decLevel
  simp only [if_true]
  unfold Rd.seq
  rw [List.append_assoc, List.append_assoc, rdU8_u8 _ _ hv]
  simp only []
  rw [← List.append_assoc, decBuf_frame frame rest h]
  simp only [Rd.lift]
  cases loadFrame R env ver items frame <;> rfl

/-- a reader that succeeded on `b` fails with OverflowError on every input that ends inside what it consumed -/
theorem Local.truncated {α : Type} {f : Rd α} (hf : Local f) {b : Bytes} {v : α} {r : Bytes} (h : f b = .ok (v, r))
    (k : Nat) (hk : k < b.length - r.length) : f (b.take k) = .error .overflow := by
  obtain ⟨c, hb, _, h3⟩ := hf b v r h
  have hc : c.length = b.length - r.length := by rw [hb]; simp
  rw [hb, List.take_append_of_le_length (by omega)]
  exact h3 k (by omega)

end Nx.RmcRequest
