import NxModel.Switch.Tables
/-!
# Request builders of the seven Switch clients

Each public call of each client, as a function of the client state (set by `set_system_version` and
the other setters) and the call's arguments, returning the requests it issues in order, or the
exception it raises before issuing one.  Values produced by cryptography (the dauth MAC, the
OAEP/CBC-encrypted ticket of pre-15.0.0 `auth_digital`) and values taken from the previous response
of the same call (the dauth challenge, the atumn content id) are *inputs* of the model (`mac`,
`cert`, `certKey`, `challenge`, `contentId`): the correspondence feeds the real ones in.
The header lists are written in the order the code assigns them.
-/
namespace Nx.Switch
open Nx Nx.Http

abbrev Sent := String × Req      -- (host handed to the request callback, request)

def formT := "application/x-www-form-urlencoded"
def jsonT := "application/json"

def sv (k v : String) : String × Option String := (k, some v)

/-! ## dauth -/

inductive DauthCall where
  | challenge
  | deviceToken (clientId : Nat) (challenge mac : String)
  | edgeToken (clientId : Nat) (vendorId : String) (challenge mac : String)
  deriving Repr

def Dauth.headers (s : Dauth) : Hdrs :=
  if s.version < 1800 then
    [("Host", s.host), ("User-Agent", s.ua), ("Accept", "*/*"), ("X-Nintendo-PowerState", s.powerState),
     ("Content-Length", "0"), ("Content-Type", formT)]
  else
    [("Host", s.host), ("Accept", "*/*"), ("Content-Type", formT), ("X-Nintendo-PowerState", s.powerState),
     ("Content-Length", "0")]

def Dauth.challengeReq (s : Dauth) : Sent :=
  (s.host, { method := "POST", path := "/v" ++ dec s.api ++ "/challenge", headers := s.headers,
             body := .form [sv "key_generation" (dec s.keygen)] })

def Dauth.tokenForm (s : Dauth) (clientId : Nat) (challenge : String) : List (String × Option String) :=
  [sv "challenge" challenge, sv "client_id" (hexL 16 clientId), sv "ist" (if s.region = 2 then "true" else "false"),
   sv "key_generation" (dec s.keygen), sv "system_version" s.digest]

def Dauth.call (s : Dauth) : DauthCall → Except Err (List Sent)
  | .challenge => .ok [s.challengeReq]
  | .deviceToken cid ch mac =>
    .ok [s.challengeReq,
         (s.host, { method := "POST", path := "/v" ++ dec s.api ++ "/device_auth_token", headers := s.headers,
                    body := .rawform (s.tokenForm cid ch ++ [sv "mac" mac]) })]
  | .edgeToken cid vendor ch mac =>
    .ok [s.challengeReq,
         (s.host, { method := "POST", path := "/v" ++ dec s.api ++ "/edge_token", headers := s.headers,
                    body := .rawform (s.tokenForm cid ch ++ (if s.api = 7 then [sv "vendor_id" vendor] else []) ++ [sv "mac" mac]) })]

/-! ## aauth -/

/-- the `cert` argument of `auth_digital`: a raw ticket (bytes) or a contents authorization token (str) -/
inductive Cert where
  | bytes (b : Bytes)
  | str (s : String)
  deriving Repr

inductive AauthCall where
  | challenge (deviceToken : String)
  | authNocert (titleId titleVersion : Nat) (deviceToken : String)
  | authSystem (titleId titleVersion : Nat) (deviceToken : String)
  | authDigital (titleId titleVersion : Nat) (deviceToken : String) (cert : Cert) (encCert encKey : String)
  | authGamecard (titleId titleVersion : Nat) (deviceToken : String) (cert gvt : Bytes) (challenge challengeSrc : Option String)
  deriving Repr

def Aauth.headers (s : Aauth) (usePower : Bool) : Hdrs :=
  if s.version < 1800 then
    [("Host", s.host), ("User-Agent", s.ua), ("Accept", "*/*")] ++
    (if usePower then [("X-Nintendo-PowerState", s.powerState)] else []) ++
    [("Content-Length", "0"), ("Content-Type", formT)]
  else
    [("Host", s.host), ("Accept", "*/*"), ("Content-Type", formT)] ++
    (if usePower then [("X-Nintendo-PowerState", s.powerState)] else []) ++
    [("Content-Length", "0")]

def be64 (b : Bytes) (off : Nat) : Nat := ((b.drop off).take 8).foldl (fun acc x => acc * 256 + x.toNat) 0
def le32 (b : Bytes) (off : Nat) : Nat := ((b.drop off).take 4).foldr (fun x acc => acc * 256 + x.toNat) 0

/-- `AAuthClient.verify_ticket` on a bytes object -/
def ticketOk (t : Bytes) (titleId : Nat) : Bool :=
  t.length == 0x2C0 && le32 t 0 == 0x10004 && be64 t 0x2A0 == titleId &&
    be64 t 0x2A8 == (t.getD 0x285 0).toNat

/-- `AAuthClient.verify_token`: `isinstance(token, str) and token.count(".") == 2` -/
def tokenOk : Cert → Bool
  | .str s => (s.toList.filter (· == '.')).length == 2
  | .bytes _ => false

def Aauth.authPath (s : Aauth) : String := "/v" ++ dec s.api ++ "/application_auth_token"
def Aauth.authTypeKey (s : Aauth) : String := if s.api < 5 then "media_type" else "auth_type"

def Aauth.authBase (s : Aauth) (titleId titleVersion : Nat) (deviceToken kind : String) : List (String × Option String) :=
  [sv "application_id" (hexL 16 titleId), sv "application_version" (hexL 8 titleVersion),
   sv "device_auth_token" deviceToken, sv s.authTypeKey kind]

def optS : Option String → Option String := id

/-- the certificate fields of `auth_digital`: API 3 wants a verified raw ticket (sent encrypted), API ≥ 4 a
    contents authorization token (a JWT string), older APIs nothing -/
def digitalCert (api titleId : Nat) (cert : Cert) (encCert encKey : String) : Except Err (List (String × Option String)) :=
  if api = 3 then
    match cert with
    | .bytes b => if ticketOk b titleId then .ok [sv "cert" encCert, sv "cert_key" encKey] else .error .value
    | .str c => if c.length = 0x2C0 then .error .type else .error .value   -- `struct.unpack_from` on a str
  else if api ≥ 4 then
    match cert with
    | .str c => if tokenOk cert then .ok [sv "cert" c] else .error .value
    | .bytes _ => .error .value
  else .ok []

def Aauth.call (s : Aauth) : AauthCall → Except Err (List Sent)
  | .challenge tok =>
    let name := if s.version < 1800 then "&device_auth_token" else "device_auth_token"
    .ok [(s.host, { method := "POST", path := "/v" ++ dec s.api ++ "/challenge", headers := s.headers false,
                    body := .rawform [sv name tok] })]
  | .authNocert t v tok =>
    .ok [(s.host, { method := "POST", path := s.authPath, headers := s.headers true, body := .form (s.authBase t v tok "NO_CERT") })]
  | .authSystem t v tok =>
    .ok [(s.host, { method := "POST", path := s.authPath, headers := s.headers true, body := .form (s.authBase t v tok "SYSTEM") })]
  | .authDigital t v tok cert encCert encKey =>
    (digitalCert s.api t cert encCert encKey).map fun extra =>
      [(s.host, { method := "POST", path := s.authPath, headers := s.headers true,
                  body := .form (s.authBase t v tok "DIGITAL" ++ extra) })]
  | .authGamecard t v tok cert gvt ch src =>
    let base := s.authBase t v tok "GAMECARD" ++ [sv "gvt" (b64url gvt), sv "cert" (b64url cert)]
    let extra := if s.api ≥ 5 then [("challenge", optS ch), ("challenge_src", optS src)] else []
    .ok [(s.host, { method := "POST", path := s.authPath, headers := s.headers true, body := .form (base ++ extra) })]

/-! ## baas -/

inductive BaasCall where
  | authenticate (deviceToken : String) (penneId : Option String)
  | login (id : Nat) (password accessToken : String) (appToken naCountry : Option String) (skipVerification : Bool)
  | register (accessToken : String)
  | updatePresence (userId deviceAccountId : Nat) (accessToken state : String) (titleId presenceGroupId : Nat)
      (appFields : List (String × String)) (acdIndex : Nat)
  | getFriends (userId : Nat) (accessToken : String) (count : Nat)
  deriving Repr

def moduleAccount := "nnAccount"
def moduleFriends := "nnFriends"

/-- `template % arg` for a single string argument: `%s` consumes the argument (a second one is a
    `TypeError`: not enough arguments), `%%` is a literal percent sign, any other conversion is rejected, and an
    unused argument is a `TypeError` (not all arguments converted) -/
def fmtChars : List Char → List Char → Bool → Except Err (List Char)
  | [], _, used => if used then .ok [] else .error .type
  | '%' :: 's' :: r, arg, used =>
    if used then .error .type else (fmtChars r arg true).map (arg ++ ·)
  | '%' :: '%' :: r, arg, used => (fmtChars r arg used).map ('%' :: ·)
  | '%' :: _, _, _ => .error .value
  | c :: r, arg, used => (fmtChars r arg used).map (c :: ·)

def fmtS (tmpl arg : String) : Except Err String := (fmtChars tmpl.toList arg.toList false).map String.ofList

/-- the template formats (with any argument) -/
def templateOk (tmpl : List Char) : Bool := match fmtChars tmpl [] false with | .ok _ => true | .error _ => false

def truthy : Option String → Bool
  | some s => s ≠ ""
  | none => false

/-- header assignment order of `BAASClient.request` -/
def Baas.headers (s : Baas) (ua method : String) (hasJson : Bool) (token : Option String) (module : String) (usePower : Bool) : Hdrs :=
  let ct := if hasJson then (if method = "PATCH" then "application/json-patch+json" else jsonT) else formT
  [("Host", s.host), ("User-Agent", ua), ("Accept", "*/*")] ++
  (if module = moduleFriends ∧ hasJson then [("Content-Type", ct)] else []) ++
  (if truthy token then [("Authorization", "Bearer " ++ token.getD "")] else []) ++
  (if usePower then [("X-Nintendo-PowerState", s.powerState)] else []) ++
  (if method ≠ "GET" then
    (if !hasJson then [("Content-Length", "0"), ("Content-Type", ct)]
     else (if module ≠ moduleFriends then [("Content-Type", ct)] else []) ++ [("Content-Length", "0")])
   else [])

/-- what a public `BAASClient` method hands to `request()` -/
structure BaasPlan where
  method : String
  path : String
  params : Option (List (String × Option String)) := none
  body : Body := .empty
  token : Option String
  module : String
  usePower : Bool := false
  deriving Repr

def BaasPlan.hasJson (p : BaasPlan) : Bool := match p.body with | .json .. => true | _ => false

/-- `BAASClient.request` -/
def Baas.send (s : Baas) (p : BaasPlan) : Except Err (List Sent) := do
  let ua ← fmtS s.ua p.module
  pure [(s.host, { method := p.method, path := p.path, params := p.params,
                   headers := s.headers ua p.method p.hasJson p.token p.module p.usePower, body := p.body })]

/-- `json.dumps(app_fields, separators=(",", ":"))` of a `dict[str, str]` -/
def appFieldsJson (l : List (String × String)) : String :=
  (J.obj (l.foldl (fun acc (k, v) => objSet acc k (.str v)) [])).render true

def patchOp (op path : String) (value : J) : J := .obj [("op", .str op), ("path", .str path), ("value", value)]

/-- argument checks and request fields of each public method (depends on the version only through
    `≥ 1800` and `≥ 1900`) -/
def Baas.plan (version : Nat) : BaasCall → Except Err BaasPlan
  | .authenticate tok penne =>
    let form := [sv "grantType" "public_client", sv "assertion" tok] ++
      (match penne with | some p => if version ≥ 1900 then [sv "penneId" p] else [] | none => [])
    .ok { method := "POST", path := "/1.0.0/application/token", body := .form form, token := none, module := moduleAccount, usePower := true }
  | .login id pw access app country skip =>
    let form := [sv "id" (hexL 16 id), sv "password" pw] ++ (if truthy app then [sv "appAuthNToken" (app.getD "")] else [])
    let tail := if skip then [sv "skipOp2Verification" "1"] else []
    if version ≥ 1800 then
      match country with
      | none => .error .value
      | some c => .ok { method := "POST", path := "/1.0.0/login", body := .form (form ++ [sv "naCountry" c] ++ tail),
                        token := some access, module := moduleAccount, usePower := true }
    else
      .ok { method := "POST", path := "/1.0.0/login", body := .form (form ++ tail), token := some access, module := moduleAccount, usePower := true }
  | .register access => .ok { method := "POST", path := "/1.0.0/users", token := some access, module := moduleAccount }
  | .updatePresence uid did access state title group fields acd =>
    let ops := [patchOp "replace" "/presence/state" (.str state),
                patchOp "add" "/presence/extras/friends/appField" (.str (appFieldsJson fields)),
                patchOp "add" "/presence/extras/friends/appInfo:appId" (.str (hexL 16 title))] ++
               (if version ≥ 1900 then [patchOp "add" "/presence/extras/friends/appInfo:acdIndex" (.num acd)] else []) ++
               [patchOp "add" "/presence/extras/friends/appInfo:presenceGroupId" (.str (hexL 16 group))]
    .ok { method := "PATCH", path := "/1.0.0/users/" ++ hexL 16 uid ++ "/device_accounts/" ++ hexL 16 did,
          body := .json (.arr ops) true, token := some access, module := moduleFriends }
  | .getFriends uid access count =>
    .ok { method := "GET", path := "/2.0.0/users/" ++ hexL 16 uid ++ "/friends", params := some [sv "count" (dec count)],
          token := some access, module := moduleFriends }

def Baas.call (s : Baas) (c : BaasCall) : Except Err (List Sent) := do
  let p ← Baas.plan s.version c
  s.send p

/-! ## dragons -/

inductive DragonsCall where
  | publishElicenseArchive (deviceToken challenge : String) (certificate : Bytes) (accountId : Nat)
  | reportElicenseArchive (deviceToken archiveId : String) (accountId : Nat)
  | publishDeviceLinkedElicenses (deviceToken : String)
  | exerciseElicense (deviceToken : String) (elicenseIds : List String) (accountIds : List Nat) (currentAccountId : Nat)
  | contentsAuthorizationTokenForAauth (deviceToken elicenseId : String) (naId titleId : Nat)
  deriving Repr

/-- `DragonsClient.request` -/
def Dragons.send (s : Dragons) (method path host token : String) (account : Option Nat) (json : Option J) : Except Err (List Sent) :=
  match s.uaNim with
  | none => .error .value
  | some ua =>
    let h := [("Host", host), ("Accept", "*/*"), ("User-Agent", ua), ("DeviceAuthorization", "Bearer " ++ token)] ++
      (match account with | some a => [("Nintendo-Account-Id", hexL 16 a)] | none => []) ++
      (match json with
       | some _ => [("Content-Type", jsonT), ("Content-Length", "0")]
       | none => [("Content-Length", "0"), ("Content-Type", formT)])
    .ok [(host, { method, path, headers := h, body := match json with | some j => .json j true | none => .empty })]

def Dragons.call (s : Dragons) : DragonsCall → Except Err (List Sent)
  | .publishElicenseArchive tok ch cert acc =>
    s.send "POST" "/v1/elicense_archives/publish" s.hostDragons tok (some acc)
      (some (.obj [("challenge", .str ch), ("certificate", .str (b64 cert))]))
  | .reportElicenseArchive tok aid acc =>
    s.send "PUT" ("/v1/elicense_archives/" ++ aid ++ "/report") s.hostDragons tok (some acc) none
  | .publishDeviceLinkedElicenses tok =>
    s.send "POST" "/v1/rights/publish_device_linked_elicenses" s.hostDragons tok none none
  | .exerciseElicense tok ids accs cur =>
    s.send "POST" "/v1/elicenses/exercise" s.hostDragons tok (some cur)
      (some (.obj [("elicense_ids", .arr (ids.map .str)), ("account_ids", .arr (accs.map fun a => .str (hexL 16 a)))]))
  | .contentsAuthorizationTokenForAauth tok eid na title =>
    if s.version < 1500 then .error .value else
    let h := [("Host", s.hostDragons)] ++ (if s.version < 1800 then [("User-Agent", s.uaDauth)] else []) ++
      [("Accept", "*/*"), ("Content-Type", jsonT), ("DeviceAuthorization", "Bearer " ++ tok),
       ("Nintendo-Application-Id", hexL 16 title), ("Content-Length", "0")]
    .ok [(s.hostDragons, { method := "POST", path := "/v1/contents_authorization_token_for_aauth/issue", headers := h,
                           body := .json (.obj [("elicense_id", .str eid), ("na_id", .str (hexL 16 na))]) true })]

/-! ## five -/

inductive FiveCall where
  | getUnreadInvitationCount (accessToken : String) (userId : Nat)
  | getInbox (accessToken : String) (userId : Nat)
  | getInvitationGroup (accessToken : String) (groupId : Nat)
  | markAsRead (accessToken : String) (ids : List Nat)
  | markAllAsRead (accessToken : String) (userId : Nat)
  | sendInvitation (accessToken : String) (receivers : List Nat) (applicationId applicationGroupId : Nat)
      (applicationData : Bytes) (messages : List (String × String)) (applicationIdMatch : Bool) (acdIndex : Nat)
  deriving Repr

inductive FiveBody | json | form | nothing

/-- `FiveClient.request` -/
def Five.headers (s : Five) (method : String) (b : FiveBody) (token : String) : Hdrs :=
  [("Host", s.host), ("User-Agent", s.ua), ("Accept", "*/*")] ++
  (if method ≠ "GET" then
    match b with
    | .json => [("Content-Type", jsonT), ("Authorization", "Bearer " ++ token), ("Content-Length", "0")]
    | .form => [("Content-Type", formT), ("Authorization", "Bearer " ++ token), ("Content-Length", "0")]
    | .nothing => [("Authorization", "Bearer " ++ token), ("Content-Length", "0"), ("Content-Type", formT)]
   else [("Authorization", "Bearer " ++ token)])

/-- the first failing sanity check of `send_invitation`, in the code's order -/
def messagesOk (languages : List String) : List (String × String) → Bool
  | [] => true
  | (lang, msg) :: r => languages.contains lang && msg.length < 0xC0 && messagesOk languages r

def sendInvitationValid (languages : List String) (receivers : List Nat) (messages : List (String × String)) (data : Bytes) : Bool :=
  receivers.length ≤ 16 && messagesOk languages messages && data.length ≤ 0x400

/-- a Python `dict` built from the (key, value) pairs in order -/
def dictOfPairs (l : List (String × String)) : List (String × J) :=
  l.foldl (fun acc (k, v) => objSet acc k (.str v)) []

def Five.call (T : Tables) (s : Five) : FiveCall → Except Err (List Sent)
  | .getUnreadInvitationCount tok uid =>
    .ok [(s.host, { method := "GET", path := "/v1/users/" ++ hexL 16 uid ++ "/invitations/inbox",
                    params := some [sv "fields" "count", sv "read" "false"], headers := s.headers "GET" .nothing tok })]
  | .getInbox tok uid =>
    .ok [(s.host, { method := "GET", path := "/v1/users/" ++ hexL 16 uid ++ "/invitations/inbox", headers := s.headers "GET" .nothing tok })]
  | .getInvitationGroup tok gid =>
    .ok [(s.host, { method := "GET", path := "/v1/invitation_groups/" ++ dec gid, headers := s.headers "GET" .nothing tok })]
  | .markAsRead tok ids =>
    .ok [(s.host, { method := "PATCH", path := "/v1/invitations", headers := s.headers "PATCH" .form tok,
                    body := .form [sv "read" "true", sv "ids" (",".intercalate (ids.map (hexL 16)))] })]
  | .markAllAsRead tok uid =>
    .ok [(s.host, { method := "PATCH", path := "/v1/users/" ++ hexL 16 uid ++ "/invitations/mark_as_read",
                    headers := s.headers "PATCH" .nothing tok })]
  | .sendInvitation tok receivers appId groupId data messages idMatch acd =>
    if !sendInvitationValid T.languages receivers messages data then .error .value else
    let j : List (String × J) :=
      [("receiver_ids", .arr (receivers.map fun r => .str (hexL 16 r))), ("application_id", .str (hexL 16 appId))] ++
      (if s.version ≥ 1900 then [("acd_index", .num acd)] else []) ++
      [("application_group_id", .str (hexL 16 groupId))] ++
      (if data.isEmpty then [] else [("application_data", .str (b64 data))]) ++
      [("messages", .obj (dictOfPairs messages)), ("application_id_match", .bool idMatch)]
    .ok [(s.host, { method := "POST", path := "/v1/invitation_groups", headers := s.headers "POST" .json tok,
                    body := .json (.obj j) false })]

/-! ## sun / atumn -/

inductive SunCall where
  | systemUpdateMeta
  deriving Repr

def Nim.sunCall (s : Nim) : SunCall → Except Err (List Sent)
  | .systemUpdateMeta =>
    .ok [(s.host, { method := "GET", path := "/v1/system_update_meta", params := some [sv "device_id" (hexL 16 s.deviceId)],
                    headers := [("Host", s.host), ("User-Agent", s.ua), ("Accept", "application/json")] })]

inductive AtumnCall where
  | downloadContentMetadata (titleId titleVersion : Nat) (systemUpdate : Bool) (contentId : String)
  | downloadContent (contentId : String)
  deriving Repr

def Nim.atumnHeaders (s : Nim) : Hdrs := [("Host", s.host), ("Accept", "*/*"), ("User-Agent", s.ua)]

def Nim.atumnCall (s : Nim) : AtumnCall → Except Err (List Sent)
  | .downloadContentMetadata title ver sys cid =>
    let t := if sys then "s" else "a"
    .ok [(s.host, { method := "HEAD", path := "/t/" ++ t ++ "/" ++ hexL 16 title ++ "/" ++ dec ver,
                    params := some [sv "device_id" (hexL 16 s.deviceId)], headers := s.atumnHeaders }),
         (s.host, { method := "GET", path := "/c/" ++ t ++ "/" ++ cid, headers := s.atumnHeaders })]
  | .downloadContent cid =>
    .ok [(s.host, { method := "GET", path := "/c/c/" ++ cid, headers := s.atumnHeaders })]

end Nx.Switch
