import NxModel.Nex.Streams
/-!
# `common.DateTime` — bit packing, calendar accessors, Unix-time conversions

`val` is an unbounded Python int (`Nat` here; the stream carries it as u64).
`second = val & 63`, `minute = (val >> 6) & 63`, `hour = (val >> 12) & 31`, `day = (val >> 17) & 31`,
`month = (val >> 22) & 15`, `year = val >> 26` (all remaining bits).

Unix time: CPython's `datetime` calendar and the process time zone are *modelled* for a fixed
UTC offset `off` (seconds east of UTC): `fromtimestamp t` is the civil date-time of `t + off`,
`timestamp` of a naive local date-time is its epoch seconds minus `off`. The calendar is the
proleptic Gregorian one, computed with the days-from-civil algorithms over days counted from
0000-03-01 (`z`), so that everything stays in `Nat`; the Unix epoch is `z = 719468`.
-/
namespace Nx.Nex.DateTime
open Nx

structure Fields where
  year : Nat
  month : Nat
  day : Nat
  hour : Nat
  minute : Nat
  second : Nat
  deriving DecidableEq, Repr

def second (v : Nat) : Nat := v &&& 63
def minute (v : Nat) : Nat := (v >>> 6) &&& 63
def hour (v : Nat) : Nat := (v >>> 12) &&& 31
def day (v : Nat) : Nat := (v >>> 17) &&& 31
def month (v : Nat) : Nat := (v >>> 22) &&& 15
def year (v : Nat) : Nat := v >>> 26

def fields (v : Nat) : Fields := ⟨year v, month v, day v, hour v, minute v, second v⟩

/-- `DateTime.make` -/
def make (f : Fields) : Nat :=
  f.second ||| (f.minute <<< 6) ||| (f.hour <<< 12) ||| (f.day <<< 17) ||| (f.month <<< 22) ||| (f.year <<< 26)

/-- the fields fit their bit widths (the year is unbounded) -/
def Fields.InRange (f : Fields) : Prop :=
  f.month < 16 ∧ f.day < 32 ∧ f.hour < 32 ∧ f.minute < 64 ∧ f.second < 64

instance (f : Fields) : Decidable f.InRange := by unfold Fields.InRange; exact inferInstance

/-! ## calendar -/

def isLeap (y : Nat) : Bool := y % 4 == 0 && (y % 100 != 0 || y % 400 == 0)

def daysInMonth (y m : Nat) : Nat :=
  if m = 2 then (if isLeap y then 29 else 28)
  else if m = 4 ∨ m = 6 ∨ m = 9 ∨ m = 11 then 30 else 31

/-- what `datetime.datetime(y, mo, d, h, mi, s)` accepts (anything else is `ValueError`) -/
def Fields.Valid (f : Fields) : Prop :=
  1 ≤ f.year ∧ f.year ≤ 9999 ∧ 1 ≤ f.month ∧ f.month ≤ 12 ∧ 1 ≤ f.day ∧ f.day ≤ daysInMonth f.year f.month ∧
  f.hour ≤ 23 ∧ f.minute ≤ 59 ∧ f.second ≤ 59

instance (f : Fields) : Decidable f.Valid := by unfold Fields.Valid; exact inferInstance

/-- first day (within a 400-year era starting 1 March) of the March-based year `y` of the era -/
def yearStart (y : Nat) : Nat := 365 * y + y / 4 - y / 100

/-- March-based year of the era containing day-of-era `doe < 146097`: estimate `doe / 366`
(never too large, at most one too small) and correct -/
def yearOfEra (doe : Nat) : Nat :=
  let y1 := doe / 366
  if yearStart (y1 + 1) ≤ doe ∧ y1 < 399 then y1 + 1 else y1

/-- (year, month, day) of day number `z` counted from 0000-03-01 -/
def civilOfDays (z : Nat) : Nat × Nat × Nat :=
  let era := z / 146097
  let doe := z % 146097
  let yoe := yearOfEra doe
  let doy := doe - yearStart yoe
  let mp := (5 * doy + 2) / 153
  let d := doy - (153 * mp + 2) / 5 + 1
  let m := if mp < 10 then mp + 3 else mp - 9
  (if m ≤ 2 then yoe + era * 400 + 1 else yoe + era * 400, m, d)

/-- day number (from 0000-03-01) of a civil date with `year ≥ 1` -/
def daysOfCivil (y m d : Nat) : Nat :=
  let y' := if m ≤ 2 then y - 1 else y
  let era := y' / 400
  let yoe := y' % 400
  let doy := (153 * (if m > 2 then m - 3 else m + 9) + 2) / 5 + d - 1
  let doe := yoe * 365 + yoe / 4 - yoe / 100 + doy
  era * 146097 + doe

/-- 1970-01-01 -/
def epochZ : Nat := 719468

/-- seconds since 0000-03-01T00:00:00 of a civil date-time -/
def secondsZ (f : Fields) : Nat :=
  daysOfCivil f.year f.month f.day * 86400 + f.hour * 3600 + f.minute * 60 + f.second

/-- civil date-time of a number of seconds since 0000-03-01T00:00:00 -/
def fieldsOfSecondsZ (s : Nat) : Fields :=
  let (y, m, d) := civilOfDays (s / 86400)
  let t := s % 86400
  ⟨y, m, d, t / 3600, t % 3600 / 60, t % 60⟩

/-- seconds (from 0000-03-01T00:00:00) that fall in the years 1..9999 — what CPython's
`utc_to_seconds` / the `datetime` constructor accept: 0001-01-01 is day 306, 9999-12-31 is day 3652364 -/
def yearOk (s : Int) : Bool := decide (306 * 86400 ≤ s) && decide (s < 3652365 * 86400)

/-- `DateTime.timestamp()` in a zone `off` seconds east of UTC:
`int(datetime(y,…,tzinfo=utc).replace(tzinfo=None).timestamp())`; invalid fields are `ValueError`.
CPython's `local_to_seconds` evaluates `local(t)` (the civil time `off` later) and, probing for a
fold, `local(u - 24h)`; either raises `ValueError` when it leaves the years 1..9999 — so the call
fails in the last `off` seconds of 9999 (zones east of UTC) and in the first 24 h of year 1. -/
def timestamp (off : Int) (v : Nat) : Except Err Int :=
  let f := fields v
  if f.Valid then
    let t : Int := secondsZ f
    if yearOk (t + off) && yearOk (t - 86400) then .ok (t - (epochZ * 86400 : Nat) - off) else .error .value
  else .error .value

/-- `DateTime.fromtimestamp(t)` for an integer `t` in a zone `off` seconds east of UTC;
a local year outside 1..9999 is `ValueError`, also for the fold probe 24 h earlier. -/
def fromTimestamp (off : Int) (t : Int) : Except Err Nat :=
  let s : Int := t + off + (epochZ * 86400 : Nat)
  if yearOk s && yearOk (s - 86400) then .ok (make (fieldsOfSecondsZ s.toNat)) else .error .value

/-- `DateTime.never()` / `DateTime.future()` -/
def never : Nat := 0
def future : Nat := make ⟨9999, 12, 31, 23, 59, 59⟩

end Nx.Nex.DateTime
