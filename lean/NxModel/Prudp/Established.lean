import NxModel.Prudp.Conn
/-!
# what a handshake must leave behind, as a Bool (executable: evaluated by the L1 driver on the two model endpoints after every
replayed real handshake, and by the kernel on closed witnesses)

`establishedB sub start a b` — endpoint `a` as the sender and endpoint `b` as the receiver of substream `sub` are in the state
from which the end-to-end theorems of `NxProofs/Sys.lean` start (`established_of_B`, `good_of_established`): `a`'s next id is
`start`, both cipher positions are 0 under equal keys, `b`'s window is empty at `start`, its queue and fragment buffer are empty,
it is open on a live link, and no retransmission timer of `a` holds a packet of the channel.
-/
namespace Nx.L1
open Nx Nx.Prudp

def actPacket : Action → Option Packet
  | .resend p _ => some p
  | .ping => none

def resendsOf (c : Conn) : List Packet :=
  match c.sched with
  | none => []
  | some s => s.events.filterMap (fun t => actPacket t.act)

/-- a packet of the channel under study: reliable, of the substream, not of the handshake -/
def relevant (sub : Nat) (p : Packet) : Bool :=
  decide (p.substreamId = sub) && hasReliable p.flags && decide (p.type ≠ TYPE_SYN) && decide (p.type ≠ TYPE_CONNECT)

/-- `Established`, as a Bool (for closed witnesses) -/
def establishedB (sub start : Nat) (a b : Conn) : Bool :=
  decide (start < 65536) && (a.counters[sub]? == some start) &&
  ((a.relCiphers[sub]?).map (·.encPos) == some 0) && ((b.relCiphers[sub]?).map (·.decPos) == some 0) &&
  ((a.relCiphers[sub]?).map StreamCipher.key == (b.relCiphers[sub]?).map StreamCipher.key) && (b.cipherOn == a.cipherOn) &&
  (b.windows[sub]? == some { next := start, packets := [] }) && (b.queues[sub]? == some []) && (b.fragBufs[sub]? == some []) &&
  !b.eof && b.linkUp && (resendsOf a).all (fun p => !relevant sub p)

end Nx.L1
