import NxModel.Prudp.Established
import NxProofs.Roles
/-!
# C01 / C08 — a retransmission is a copy: the timers only ever hold packets that were handed to the transport

`resendsOf c` = the packets stored in the pending retransmission timers of `c`. `ResFr c c' new`: every packet stored in `c'`
was stored in `c` or is one of `new`. The send path stores exactly what it emits (`sendPacket_resFr`: `new` = the packets
emitted by that call); the receive path, acknowledgement handling and `cleanup` store nothing (`…_resSub`). A fired
retransmission timer (`fireOne (.resend p k)`) emits nothing but `p` itself — the stored object, not a re-encoding — and
stores nothing but `p` again. `NxProofs/Sys.lean` makes this a step of the two-endpoint system: the sender's retransmissions
are re-deliveries of elements of `net`, which is what the L2 adversary (any copy of any log entry, any number of times) assumes.
-/
namespace Nx.L1
open Nx Nx.Prudp Nx.Chan

def ResFr (c c' : Conn) (new : List Packet) : Prop := ∀ q ∈ resendsOf c', q ∈ resendsOf c ∨ q ∈ new

theorem resFr_refl (c : Conn) (new : List Packet) : ResFr c c new := fun _ h => Or.inl h

theorem resFr_of_sched {c c' : Conn} (h : c'.sched = c.sched) (new : List Packet) : ResFr c c' new := by
  intro q hq; left; unfold resendsOf at hq ⊢; rw [h] at hq; exact hq

theorem resFr_trans {a b c : Conn} {n1 n2 : List Packet} (h1 : ResFr a b n1) (h2 : ResFr b c n2) : ResFr a c (n1 ++ n2) := by
  intro q hq
  rcases h2 q hq with h | h
  · rcases h1 q h with g | g
    · exact Or.inl g
    · exact Or.inr (List.mem_append_left _ g)
  · exact Or.inr (List.mem_append_right _ h)

theorem resFr_mono {a b : Conn} {n1 n2 : List Packet} (h : ResFr a b n1) (hs : ∀ q ∈ n1, q ∈ n2) : ResFr a b n2 := by
  intro q hq
  rcases h q hq with g | g
  · exact Or.inl g
  · exact Or.inr (hs q g)

theorem resends_cleanup (c : Conn) : resendsOf c.cleanup.c = [] := by
  unfold resendsOf Conn.cleanup R.ok
  simp only []
  cases c.sched with
  | none => rfl
  | some s => simp [Sched.removeAll]

theorem cleanup_resFr (c : Conn) (new : List Packet) : ResFr c c.cleanup.c new := by
  intro q hq; rw [resends_cleanup] at hq; cases hq

theorem arm_resFr (c : Conn) (now : Time) (p : Packet) (k : Nat) : ResFr c (c.arm now p k) [p] := by
  intro q hq
  unfold Conn.arm at hq
  cases hs : c.sched with
  | none => rw [hs] at hq; left; simpa [resendsOf, hs] using hq
  | some s =>
    rw [hs] at hq
    simp only [resendsOf, Sched.schedule, List.filterMap_append, List.mem_append] at hq
    rcases hq with h | h
    · left; unfold resendsOf; rw [hs]; exact h
    · right; simpa [actPacket] using h

/-- `transport.send` + timer: what is stored is what was emitted -/
theorem transmit_resFr (env : Env) (now : Time) (c : Conn) (p : Packet) : ResFr c (c.transmit env now p).c (emitted (c.transmit env now p)) := by
  unfold Conn.transmit
  split
  · exact cleanup_resFr c _
  · split
    · exact resFr_refl c _
    · simp only [R.ok]
      split
      · intro q hq
        rcases arm_resFr c now p 0 q hq with g | g
        · exact Or.inl g
        · right; simpa [emitted] using g
      · exact resFr_refl c _

theorem assignIf_sched (c c' : Conn) (p : Packet) (isAck : Bool) (n : Nat) (h : c.assignIf p isAck = .ok (n, c')) : c'.sched = c.sched := by
  unfold Conn.assignIf at h
  split at h
  · cases h; rfl
  · unfold Conn.assign at h
    split at h
    · split at h
      · cases h
      · cases h; rfl
    · split at h
      · cases h; rfl
      · split at h <;> (cases h; rfl)

theorem encodeIf_sched (env : Env) (c c' : Conn) (p : Packet) (isAck : Bool) (d : Bytes) (h : c.encodeIf env p isAck = .ok (d, c')) :
    c'.sched = c.sched := by
  unfold Conn.encodeIf at h
  split at h
  · unfold Conn.encodePayload at h
    split at h
    · split at h
      · split at h
        · cases h
        · split at h <;> (cases h; rfl)
      · split at h <;> (cases h; rfl)
    · cases h; rfl
  · cases h; rfl

/-- **`send_packet` stores exactly what it hands to the transport** -/
theorem sendPacket_resFr (env : Env) (now : Time) (c : Conn) (p : Packet) :
    ResFr c (c.sendPacket env now p).c (emitted (c.sendPacket env now p)) := by
  unfold Conn.sendPacket
  simp only []
  split
  · exact resFr_refl c _
  · rename_i pid c1 h1
    have e1 := assignIf_sched _ _ _ _ _ h1
    split
    · exact resFr_of_sched e1 _
    · rename_i payload c2 h2
      have e2 := encodeIf_sched _ _ _ _ _ _ h2
      intro q hq
      rcases transmit_resFr env now c2 _ q hq with g | g
      · left; unfold resendsOf at g ⊢; rw [e2, e1] at g; exact g
      · exact Or.inr g

theorem resFr_bind (c : Conn) (r : R) (f : Conn → R) (hr : ResFr c r.c (emitted r)) (hf : ∀ x, ResFr x (f x).c (emitted (f x))) :
    ResFr c (r.bind f).c (emitted (r.bind f)) := by
  cases he : r.err with
  | some e =>
    have : r.bind f = r := by unfold R.bind; rw [he]
    rw [this]; exact hr
  | none =>
    rw [emitted_bind_ok _ _ he, (bind_ok _ _ he).2]
    exact resFr_trans hr (hf _)

theorem sendFrags_resFr (env : Env) (now : Time) (sub : Nat) : ∀ (fs : List Frag) (c : Conn),
    ResFr c (Conn.sendFrags env now sub fs c).c (emitted (Conn.sendFrags env now sub fs c)) := by
  intro fs
  induction fs with
  | nil => intro c; exact resFr_refl c _
  | cons f fs ih =>
    intro c
    rw [sendFrags_cons]
    exact resFr_bind c _ _ (sendPacket_resFr env now c _) ih

theorem send_resFr (env : Env) (now : Time) (c : Conn) (data : Bytes) (sub : Nat) :
    ResFr c (c.send env now data sub).c (emitted (c.send env now data sub)) := by
  unfold Conn.send
  split
  · exact resFr_refl c _
  · split
    · exact resFr_refl c _
    · exact sendFrags_resFr env now sub _ c

theorem disconnect_resFr (env : Env) (now : Time) (c : Conn) :
    ResFr c (c.disconnect env now).c (emitted (c.disconnect env now)) := by
  unfold Conn.disconnect
  split
  · exact resFr_refl c _
  · have := sendPacket_resFr env now ({ c with state := STATE_DISCONNECTING } : Conn) (mkPacket TYPE_DISCONNECT (FLAG_RELIABLE + FLAG_NEED_ACK))
    intro q hq
    rcases this q hq with g | g
    · exact Or.inl g
    · exact Or.inr g

/-! ## the receive path and acknowledgement handling store nothing -/

def ResSub (c c' : Conn) : Prop := ∀ q ∈ resendsOf c', q ∈ resendsOf c

theorem resSub_refl (c : Conn) : ResSub c c := fun _ h => h
theorem resSub_trans {a b c : Conn} (h1 : ResSub a b) (h2 : ResSub b c) : ResSub a c := fun q hq => h1 q (h2 q hq)
theorem resSub_of_sched {c c' : Conn} (h : c'.sched = c.sched) : ResSub c c' := by
  intro q hq; unfold resendsOf at hq ⊢; rw [h] at hq; exact hq
theorem cleanup_resSub (c : Conn) : ResSub c c.cleanup.c := by intro q hq; rw [resends_cleanup] at hq; cases hq

theorem resSub_bind (c : Conn) (r : R) (f : Conn → R) (hr : ResSub c r.c) (hf : ∀ x, ResSub x (f x).c) : ResSub c (r.bind f).c := by
  unfold R.bind
  cases r.err with
  | some e => exact hr
  | none => exact resSub_trans hr (hf _)

theorem decodePayload_sched (env : Env) (c c1 : Conn) (p : Packet) (d : Bytes) (h : c.decodePayload env p = .ok (d, c1)) : c1.sched = c.sched := by
  by_cases h1 : p.type = TYPE_DATA ∧ (!p.payload.isEmpty) = true
  · by_cases h2 : hasReliable p.flags = true
    · cases h3 : c.relCiphers[p.substreamId]? with
      | none => rw [decodePayload_rel_none env c p h1 h2 h3] at h; cases h
      | some sc =>
        cases h4 : c.cipherOn with
        | true =>
          rw [decodePayload_rel_on env c p sc h1 h2 h3 h4] at h
          cases hd : env.decompress (rc4At sc.key sc.decPos p.payload) with
          | error e => rw [hd] at h; cases h
          | ok x => rw [hd] at h; cases h; rfl
        | false =>
          rw [decodePayload_rel_off env c p sc h1 h2 h3 h4] at h
          cases hd : env.decompress p.payload with
          | error e => rw [hd] at h; cases h
          | ok x => rw [hd] at h; cases h; rfl
    · rw [decodePayload_unrel env c p h1 h2] at h
      generalize env.decompress _ = r at h
      cases r with
      | error e => cases h
      | ok x => cases h; rfl
  · rw [decodePayload_plain env c p h1] at h; cases h; rfl

theorem consume_resSub (env : Env) (s : Nat) : ∀ (rel : List Packet) (c : Conn), ResSub c (Conn.consume env s rel c).c := by
  intro rel
  induction rel with
  | nil => intro c; exact resSub_refl c
  | cons p ps ih =>
    intro c
    unfold Conn.consume
    split
    · split
      · exact resSub_refl c
      · rename_i data c1 hd
        have h1 : ResSub c c1 := resSub_of_sched (decodePayload_sched env c c1 p data hd)
        split
        · split
          · exact resSub_trans h1 (resSub_of_sched rfl)
          · exact resSub_trans h1 (resSub_bind _ _ _ (resSub_of_sched rfl) ih)
        · dsimp only
          exact resSub_trans h1 (resSub_trans (b := { c1 with fragBufs := setAt c1.fragBufs s ((c1.fragBufs[s]?.getD []) ++ data) }) (resSub_of_sched rfl) (ih _))
    · split
      · exact resSub_bind c _ _ (cleanup_resSub c) ih
      · exact ih c

theorem processReliable_resSub (env : Env) (c : Conn) (p : Packet) : ResSub c (c.processReliable env p).c := by
  unfold Conn.processReliable
  split
  · exact resSub_refl c
  · rename_i w hw
    generalize w.update p.packetId p = u
    obtain ⟨w', rel⟩ := u
    exact resSub_trans (b := { c with windows := setAt c.windows p.substreamId w' }) (resSub_of_sched rfl) (consume_resSub env _ _ _)

theorem transmit_ack_resSub (env : Env) (now : Time) (c : Conn) (p : Packet)
    (hf : ((hasReliable p.flags || p.type == TYPE_SYN) && hasNeedAck p.flags) = false) : ResSub c (c.transmit env now p).c := by
  unfold Conn.transmit
  split
  · exact cleanup_resSub c
  · split
    · exact resSub_refl c
    · simp only [hf, R.ok, Bool.false_eq_true, if_false]; exact resSub_refl c

theorem sendPacket_ack_resSub (env : Env) (now : Time) (c : Conn) (p : Packet) (hfl : p.flags = FLAG_ACK) :
    ResSub c (c.sendPacket env now p).c := by
  have hack : (hasAck p.flags || hasMultiAck p.flags) = true := by rw [hfl]; decide
  have hneed : hasNeedAck p.flags = false := by rw [hfl]; decide
  unfold Conn.sendPacket
  simp only [hack, Conn.assignIf, if_true, Conn.encodeIf, Bool.not_true, Bool.false_eq_true, and_false, if_false]
  apply transmit_ack_resSub
  split <;> simp only [hneed, Bool.and_false]

theorem sendAck_resSub (env : Env) (now : Time) (c : Conn) (p : Packet) : ResSub c (c.sendAck env now p).c := by
  unfold Conn.sendAck
  simp only []
  have h1 := sendPacket_ack_resSub env now c
    { mkPacket p.type FLAG_ACK with packetId := p.packetId, fragmentId := p.fragmentId, substreamId := p.substreamId } rfl
  split
  · exact resSub_bind c _ _ (resSub_bind c _ _ h1 (fun x => sendPacket_ack_resSub env now x _ rfl)) (fun x => sendPacket_ack_resSub env now x _ rfl)
  · exact h1

/-- receiving an ordinary reliable packet stores no retransmission -/
theorem handle_ordinary_resSub (env : Env) (now : Time) (c : Conn) (p : Packet) (ho : Ordinary p) : ResSub c (c.handle env now p).c := by
  unfold Conn.handle
  split
  · exact resSub_refl c
  · split
    · exact resSub_refl c
    · simp only [ho.nsyn, ho.ncon, if_false, ho.nack, Bool.false_eq_true]
      apply resSub_bind
      · unfold Conn.processOther
        split
        · exact resSub_refl c
        · simp only [ho.nmulti, Bool.false_eq_true, if_false]
          split
          · exact resSub_refl c
          · split
            · exact resSub_refl c
            · simp only [ho.nack, Bool.false_eq_true, if_false, ho.need, if_true, ho.rel]
              exact resSub_bind c _ _ (sendAck_resSub env now c p) (fun x => processReliable_resSub env x p)
      · intro x; exact resSub_refl x

theorem resends_remove (c : Conn) (s : Sched) (h : Nat) (hs : c.sched = some s) (c' : Conn) (hc : c'.sched = some (s.remove h)) : ResSub c c' := by
  intro q hq
  unfold resendsOf at hq ⊢
  rw [hc] at hq; rw [hs]
  simp only [Sched.remove, List.mem_filterMap, List.mem_filter] at hq ⊢
  obtain ⟨t, ⟨ht, _⟩, hq⟩ := hq
  exact ⟨t, ht, hq⟩

theorem foldl_remove_sub (hs : List Nat) : ∀ (s : Sched) (t : Timer), t ∈ (hs.foldl Sched.remove s).events → t ∈ s.events := by
  induction hs with
  | nil => intro s t h; exact h
  | cons h hs ih =>
    intro s t ht
    have := ih (s.remove h) t ht
    simp only [Sched.remove, List.mem_filter] at this
    exact this.1

theorem resSub_of_events_sub {c c' : Conn} (h : ∀ s', c'.sched = some s' → ∃ s, c.sched = some s ∧ ∀ t ∈ s'.events, t ∈ s.events) : ResSub c c' := by
  intro q hq
  unfold resendsOf at hq ⊢
  cases hs' : c'.sched with
  | none => rw [hs'] at hq; cases hq
  | some s' =>
    rw [hs'] at hq
    obtain ⟨s, hs, hsub⟩ := h s' hs'
    rw [hs]
    simp only [List.mem_filterMap] at hq ⊢
    obtain ⟨t, ht, hq⟩ := hq
    exact ⟨t, hsub t ht, hq⟩

theorem handleAggregateAck_resSub (env : Env) (c : Conn) (p : Packet) : ResSub c (c.handleAggregateAck env p).c := by
  unfold Conn.handleAggregateAck
  split
  · exact resSub_refl c
  · split
    · exact resSub_refl c
    · split
      · exact resSub_refl c
      · simp only []
        split
        · exact resSub_refl c
        · apply resSub_of_events_sub
          intro s' hs'
          simp only [R.ok] at hs'
          cases hs : c.sched with
          | none => rw [hs] at hs'; cases hs'
          | some s =>
            rw [hs] at hs'
            simp only [Option.map, Option.some.injEq] at hs'
            exact ⟨s, rfl, fun t ht => foldl_remove_sub _ s t (by rw [hs']; exact ht)⟩

/-- handling an acknowledgement stores no retransmission (it removes some) -/
theorem handle_ack_resSub (env : Env) (now : Time) (c : Conn) (p : Packet) (hack : (hasAck p.flags || hasMultiAck p.flags) = true)
    (hns : p.type ≠ TYPE_SYN) (hnc : p.type ≠ TYPE_CONNECT) : ResSub c (c.handle env now p).c := by
  unfold Conn.handle
  split
  · exact resSub_refl c
  · split
    · exact resSub_refl c
    · simp only [hns, hnc, if_false]
      apply resSub_bind
      · unfold Conn.processOther
        split
        · exact resSub_refl c
        · split
          · exact handleAggregateAck_resSub env c p
          · rename_i hm
            have hm' : hasMultiAck p.flags = false := by cases hh : hasMultiAck p.flags <;> simp_all
            have ha : hasAck p.flags = true := by simpa [hm'] using hack
            split
            · exact resSub_refl c
            · split
              · exact resSub_refl c
              · exact resSub_refl c
      · intro x
        split
        · split
          · rename_i h heq
            have hrem : ResSub x ({ x with ackEvents := ackErase (ackKeyOf p) x.ackEvents, sched := x.sched.map (·.remove h) } : Conn) := by
              apply resSub_of_events_sub
              intro s' hs'
              cases hs : x.sched with
              | none => simp only [hs, Option.map] at hs'; cases hs'
              | some s =>
                simp only [hs, Option.map, Option.some.injEq] at hs'
                refine ⟨s, rfl, fun t ht => ?_⟩
                rw [← hs'] at ht
                simp only [Sched.remove, List.mem_filter] at ht
                exact ht.1
            split
            · exact resSub_trans hrem (cleanup_resSub _)
            · exact hrem
          · exact resSub_refl x
        · exact resSub_refl x

/-! ## a fired retransmission timer -/

/-- **a retransmission is the stored packet itself**: what a fired retransmission timer hands to the transport is `p` or nothing
    (never a re-encoding), and what it stores is `p` again or nothing -/
theorem fire_resend (env : Env) (now : Time) (c : Conn) (p : Packet) (k : Nat) :
    (∀ q ∈ emitted (c.fireOne env now (.resend p k)), q = p) ∧ ResFr c (c.fireOne env now (.resend p k)).c [p] ∧
    (∀ sub, SendFr c (c.fireOne env now (.resend p k)).c sub) := by
  have hr : (c.resendPacket env now p k).err = none := by
    unfold Conn.resendPacket
    split
    · split
      · rfl
      · rfl
    · rfl
  unfold Conn.fireOne Conn.fire
  simp only [hr]
  unfold Conn.resendPacket
  split
  · split
    · exact ⟨(fun q hq => by rw [cleanup_emits_nothing] at hq; cases hq), cleanup_resFr c _, fun sub => cleanup_sendFr c sub⟩
    · refine ⟨fun q hq => ?_, arm_resFr c now p (k + 1), fun sub => arm_sendFr c now p (k + 1) sub⟩
      simp [emitted, R.ok] at hq; exact hq
  · exact ⟨(fun q hq => by rw [cleanup_emits_nothing] at hq; cases hq), cleanup_resFr c _, fun sub => cleanup_sendFr c sub⟩

end Nx.L1
