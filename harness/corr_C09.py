"""C09 — RMC framing: correspondence of RMCMessage.encode/decode with the Lean model,
reference-framing comparison, and the property oracle on the real code."""
import struct
import logging
from nintendo.nex import rmc, settings as nexsettings
import c09_objects, c09_logging

LEVEL = "proof"

def exc_name(e):
    if isinstance(e, struct.error): return "StructError"
    if isinstance(e, OverflowError): return "OverflowError"
    if isinstance(e, ValueError): return "ValueError"
    if isinstance(e, TypeError): return "TypeError"
    if isinstance(e, IndexError): return "IndexError"
    if isinstance(e, KeyError): return "KeyError"
    return "Other"

def hx(b): return b.hex() if b else "-"

S = nexsettings.default()

def real_enc(mode, protocol, method, call_id, error, body):
    m = rmc.RMCMessage(S)
    m.mode, m.protocol, m.method, m.call_id, m.error, m.body = mode, protocol, method, call_id, error, body
    try:
        return "ok " + hx(m.encode())
    except Exception as e:
        return "err " + exc_name(e)

def real_dec(data):
    try:
        m = rmc.RMCMessage.parse(S, data)
    except Exception as e:
        return "err " + exc_name(e)
    return "ok %d %d %s %d %d %s" % (m.mode, m.protocol, "none" if m.method is None else str(m.method), m.call_id, m.error, hx(m.body))

def enc_line(fields):
    mode, p, meth, c, err, body = fields
    return "enc %d %d %s %d %d %s" % (mode, p, "none" if meth is None else meth, c, err, hx(body))

def recompute(line, m):
    """execute a correspondence line on the real code again (used for the logging axis)"""
    if line.startswith("dec "):
        return real_dec(bytes.fromhex(line[4:]) if line[4:] != "-" else b"")
    if m[0] in ("enc", "spec"):
        return real_enc(*spec_fields(m[1]))
    op, mode, p, meth, c, err, body = line.split(" ")
    assert op == "enc"
    return real_enc(int(mode), int(p), None if meth == "none" else int(meth), int(c), int(err), bytes.fromhex(body) if body != "-" else b"")

PROTO_EDGE = [0, 1, 0x7D, 0x7E, 0x7F, 0x80, 0x81, 0xFE, 0xFF, 0x100, 0x7FFF, 0x8000, 0xFFFE, 0xFFFF]
U32_EDGE = [0, 1, 0x7FFF, 0x8000, 0xFFFF, 0x10000, 0x7FFFFFFF, 0x80000000, 0xFFFFFFFF]

def gen_body(rng, big=False):
    r = rng.random()
    if r < 0.25: n = 0
    elif r < 0.85: n = rng.randint(1, 40)
    elif r < 0.98 or not big: n = rng.randint(41, 600)
    else: n = rng.choice([65535, 65536, 40000])
    return rng.randbytes(n)

def gen_spec(rng, big=False):
    """a well-formed message in the property's quantifier: (form, protocol, call, method_or_code, body)"""
    form = rng.choice(["req", "ok", "err"])
    p = rng.choice(PROTO_EDGE) if rng.random() < 0.5 else rng.randint(0, 0xFFFF)
    c = rng.choice(U32_EDGE) if rng.random() < 0.4 else rng.randint(0, 0xFFFFFFFF)
    if form == "req":
        m = rng.choice(U32_EDGE) if rng.random() < 0.4 else rng.randint(0, 0xFFFFFFFF)
    elif form == "ok":
        m = rng.choice([0, 1, 0x7FFE, 0x7FFF]) if rng.random() < 0.4 else rng.randint(0, 0x7FFF)
    else:
        m = rng.choice([0x80000000, 0x80010002, 0xFFFFFFFF]) if rng.random() < 0.4 else rng.randint(0x80000000, 0xFFFFFFFF)
    body = b"" if form == "err" else gen_body(rng, big)
    return (form, p, c, m, body)

def spec_fields(sp):
    form, p, c, m, body = sp
    if form == "req": return (0, p, m, c, -1, body)
    if form == "ok": return (1, p, m, c, -1, body)
    return (1, p, None, c, m, b"")

def build(sp):
    form, p, c, m, body = sp
    if form == "req": return rmc.RMCMessage.request(S, p, m, c, body)
    if form == "ok": return rmc.RMCMessage.response(S, p, m, c, body)
    return rmc.RMCMessage.error(S, p, None, c, m)

def oracle_roundtrip(sp):
    """property on the real code: decode(encode(m)) preserves every field. Returns None or a description."""
    try:
        data = build(sp).encode()
        m = rmc.RMCMessage.parse(S, data)
    except Exception as e:
        return "encode/decode raised %r" % (e,)
    mode, p, meth, c, err, body = spec_fields(sp)
    got = (m.mode, m.protocol, m.method, m.call_id, m.error, m.body)
    if got != (mode, p, meth, c, err, body):
        return "round trip changed the message: sent %r got %r" % ((mode, p, meth, c, err, body[:16]), (got[:5] + (got[5][:16],)))
    return None

def run(ctx):
    rng = ctx.rng
    drv = ctx.driver()
    quick = ctx.tier == "quick"
    ctx.rule = ("messages generated over protocol/method/call-id/error boundaries and random values, bodies 0..64KiB; "
                "each is encoded by the real RMCMessage and by the Lean model (enc), compared with the Lean reference framing (spec), "
                "decoded by both (dec); plus all truncations and length-prefix perturbations of sampled valid messages and random byte strings. "
                "ONE message object over time (built by request()/response()/error(), encoded, a single field assigned -- each of the six "
                "alone for each form, the life of `.error` alone, random histories, two live objects differing in one field --, encoded again): "
                "every encoding vs the model's enc of the values held at that moment, and decoded again; "
                "the logging configuration of the process as an axis: a stratified sample of all of the above (all bodies of 0..24 bytes, error "
                "responses, truncations, perturbations, object histories, round trips) executed again under each configuration of "
                "harness/c09_logging.py (root / `nintendo` / `nintendo.nex.rmc` / every library logger at DEBUG or INFO with a formatting handler, "
                "logging.disable, DEBUG without a handler), results must be the model's. "
                "distinct non-trivial = distinct (configuration, op, input) lines whose model result is not a trivial rejection of random bytes")
    specs = []
    # exhaustive protocol axis for a fixed small body (all three forms)
    protos = range(0, 0x10000) if not quick else list(range(0, 0x200)) + list(range(0xFF00, 0x10000)) + [rng.randint(0x200, 0xFEFF) for _ in range(512)]
    for p in protos:
        specs.append(("req", p, 9, 5, b"\x01\x02"))
        specs.append(("ok", p, 9, 5, b"\x01"))
        specs.append(("err", p, 9, 0x80010002, b""))
    for _ in range(3000 if quick else 60000):
        specs.append(gen_spec(rng, big=not quick or rng.random() < 0.05))
    # the top of the body range of the quantifier (0..64 KiB): every size at which header + body crosses a 16-bit boundary,
    # for both header widths of requests and success responses, plus bodies well beyond
    for form, p in (("req", 10), ("req", 0x7F), ("ok", 10), ("ok", 0x1234)):
        for n in list(range(65519, 65537)) + [70000, 131072]:
            specs.append((form, p, 0xFFFFFFFF if n % 2 else 7, 0x7FFF if form == "ok" else 3, bytes([n & 0xFF]) * n))
    # small messages, exhaustively: every body size 0..24 for requests and success responses with a short, the last short,
    # the escape and an extended protocol id, and error responses (framed payloads of 6..40 bytes)
    small_specs = []
    for p in (10, 0x7E, 0x7F, 0x1234):
        for n in range(25):
            small_specs.append(("req", p, 1 + n, n, bytes(range(n))))
            small_specs.append(("ok", p, 0xFFFFFFFF - n, 0x7FFF - n, bytes(range(n))))
        for code in (0x80000000, 0x80010002, 0x8001000B, 0xFFFFFFFF):
            small_specs.append(("err", p, 3, code, b""))
    specs += small_specs
    small_set = set(small_specs)
    lines, reals, meta = [], [], []
    def add(line, real, m):
        lines.append(line); reals.append(real); meta.append(m)
    # 1. enc / spec / dec on well-formed messages
    valid_encodings = []
    for sp in specs:
        mode, p, meth, c, err, body = spec_fields(sp)
        r = real_enc(mode, p, meth, c, err, body)
        add("enc %d %d %s %d %d %s" % (mode, p, "none" if meth is None else meth, c, err, hx(body)), r, ("enc", sp))
        form, _, _, m, _ = sp
        add("spec %s %d %d %d %s" % (form, p, c, m, hx(body)), r, ("spec", sp))
        if r.startswith("ok "):
            data = bytes.fromhex(r[3:]) if r[3:] != "-" else b""
            add("dec " + hx(data), real_dec(data), ("dec", sp))
            if len(data) < 200: valid_encodings.append(data)
    # 2. raw message objects outside the well-formed set (model must mirror the code's behaviour too)
    for _ in range(1500 if quick else 20000):
        mode = rng.choice([0, 1, 1, 2])
        p = rng.choice(PROTO_EDGE + [0x10000, 0x12345])
        meth = rng.choice([None, 0, 5, 0x7FFF, 0x8000, 0x8005, 0xFFFF7FFF, 0xFFFFFFFF, 0x100000000])
        c = rng.choice(U32_EDGE + [0x100000000])
        err = rng.choice([-1, -1, 0, 5, 0x10001, 0x7FFFFFFF, 0x80000000, 0x80010002, 0xFFFFFFFF, 0x100000000, 0x180000000, -2, -0x80000000])
        body = gen_body(rng)
        add("enc %d %d %s %d %d %s" % (mode, p, "none" if meth is None else meth, c, err, hx(body)),
            real_enc(mode, p, meth, c, err, body), ("encraw", (mode, p, meth, c, err)))
    # 3. truncations, perturbations, trailing bytes
    rng.shuffle(valid_encodings)
    trunc_src = valid_encodings[: (60 if quick else 500)]
    for data in trunc_src:
        for k in range(len(data)):
            add("dec " + hx(data[:k]), real_dec(data[:k]), ("trunc", (data, k)))
        (ln,) = struct.unpack_from("<I", data)
        for d in [1, -1, 2, -2, 4, 256, 65536, 1 << 24, -(1 << 16)]:
            nl = ln + d
            if 0 <= nl < 1 << 32:
                pd = struct.pack("<I", nl) + data[4:]
                add("dec " + hx(pd), real_dec(pd), ("perturb", (data, d)))
        for extra in [b"\0", b"\x01\x02", rng.randbytes(rng.randint(1, 9))]:
            add("dec " + hx(data + extra), real_dec(data + extra), ("append", (data, extra)))
            # trailing bytes inside a consistent frame
            pd = struct.pack("<I", ln + len(extra)) + data[4:] + extra
            add("dec " + hx(pd), real_dec(pd), ("inner-append", (data, extra)))
    # 4. random / mutated bytes
    for _ in range(2000 if quick else 50000):
        if valid_encodings and rng.random() < 0.7:
            d = bytearray(rng.choice(valid_encodings))
            for _ in range(rng.randint(1, 3)):
                if d: d[rng.randrange(len(d))] ^= 1 << rng.randrange(8)
            d = bytes(d)
        else:
            d = rng.randbytes(rng.randint(0, 24))
        add("dec " + hx(d), real_dec(d), ("mut", d))

    # 5. ONE message object over time: encoded, a single field assigned, encoded again (c09_objects); every encoding is
    #    compared with the model's `enc` of the values the object holds at that moment
    scenarios = c09_objects.gen_scenarios(rng, gen_body, 150 if quick else 3000)
    scen_lines = []
    for si, (tag, ops) in enumerate(scenarios):
        obs = c09_objects.play(S, ops, exc_name)
        idx = []
        for j, (oi, fields, r) in enumerate(obs):
            idx.append(len(lines))
            add(enc_line(fields), r, ("obj", (si, j, fields)))
        scen_lines.append(idx)

    outs = drv.batch(lines)
    diffs = []
    for line, real, model, m in zip(lines, reals, outs, meta):
        nontrivial = not (m[0] == "mut" and model.startswith("err"))
        ctx.case(key=line if len(line) < 60 else hash(line), nontrivial=nontrivial, tag=m[0] + ":" + model.split(" ")[0] + (":" + model.split(" ")[1] if model.startswith("err") else ""),
                 sample={"op": line[:120], "model": model[:120], "real": real[:120]} if ctx.evaluations % 9973 == 0 else None)
        if real != model:
            diffs.append((line, real, model, m))
    ctx.traces_validated = len(lines)

    hist_reported = set()
    def last_set(ops, j):
        """which field was assigned last before the j-th encoding of a history (the differing field, for two objects)"""
        n, field = -1, "none"
        for op in ops:
            if op[0] == "set": field = "field=" + op[2]
            elif op[0] == "raw": field = "two-objects"
            elif op[0] == "enc":
                n += 1
                if n == j: break
        return field

    def judge(line, real, model, m, cfg=None):
        """the property's oracles for one executed line; cfg = the logging configuration it ran under (None = untouched)"""
        sfx = ":logging" if cfg else ""         # the configuration is named in the text and in the replay; one line per kind of failure
        under = (" with logging configured as '%s' (harness/c09_logging.py)" % cfg) if cfg else ""
        rp = {"logging_config": cfg} if cfg else {}
        kind = m[0]
        # strictness: truncations / perturbations / appended bytes must be rejected by the real code
        if kind in ("trunc", "perturb", "append") and not real.startswith("err"):
            ctx.violation("rmc-strict:%s%s" % (kind, sfx), "real decoder accepted a %s message%s: %s -> %s" % (kind, under, line[:80], real[:80]),
                          dict(rp, op=line, real=real, kind=kind))
        if kind == "inner-append" and real.startswith("ok 1 ") and " none " in real:
            ctx.violation("rmc-strict:error-trailing" + sfx, "real decoder accepted an error response with trailing bytes" + under,
                          dict(rp, op=line, real=real))
        if real == model:
            return
        # reference framing: real bytes vs Lean spec
        if kind == "spec":
            sp = m[1]
            ctx.violation(("rmc-reference:%s:p=%#x" % (sp[0], sp[1]) if sp[1] != 0x7F else "rmc-roundtrip:protocol=0x7F") + sfx,
                          "bytes emitted by the real encoder differ from the reference framing" + under,
                          dict(rp, spec=[sp[0], sp[1], sp[2], sp[3], sp[4].hex()], real=real[:4000], reference=model[:4000]))
        elif kind == "encraw" and model.startswith("ok") and real.startswith("ok"):
            # a message object with in-range fields (e.g. a response object that carries an error code AND a body, as a server
            # produces when a handler fails after writing part of its output): its bytes are fixed by the reference framing too
            mode, p_, meth, c_, err = m[1]
            ctx.violation("rmc-reference:object:mode=%d:error=%s%s" % (mode, "set" if err != -1 else "none", sfx),
                          "bytes emitted by the real encoder for a message object (mode %d, protocol %#x, method %r, call id %d, error %#x) differ from the reference framing%s" % (mode, p_, meth, c_, err & 0xFFFFFFFF, under),
                          dict(rp, object=[mode, p_, meth, c_, err], op=line[:4000], real=real[:4000], reference=model[:4000]))
        elif kind == "dec" and cfg and model.startswith("ok"):
            # (under the untouched configuration this is the round-trip oracle's business, below)
            ctx.violation("rmc-roundtrip:%s%s" % (m[1][0], sfx), "a valid %s message is not decoded to its fields%s: %s -> %s (reference: %s)" % (m[1][0], under, line[:80], real[:80], model[:80]),
                          dict(rp, op=line[:4000], real=real[:4000], model=model[:4000]))
        elif kind == "obj" and model.startswith("ok"):
            si, j, fields = m[1]
            tag, ops = scenarios[si]
            fresh = real_enc(*fields)
            wf = c09_objects.well_formed(fields)
            if fresh == model:
                hist_reported.add((cfg, si, j))
                ctx.violation("rmc-object-history:%s%s" % (last_set(ops, j), sfx),
                              "the bytes of a message object do not follow its current fields%s: after the history below, encode() #%d of the object "
                              "(now %s mode=%d protocol=%#x method=%r call_id=%d error=%d body=%d bytes) gives %s; the reference framing of these fields "
                              "(and a fresh object with the same fields) is %s" % (under, j + 1, wf[0] if wf else "object", fields[0], fields[1], fields[2], fields[3], fields[4], len(fields[5]), real[:90], model[:90]),
                              dict(rp, scenario=tag, ops=[list(o) for o in ops], encode_index=j, fields=list(fields[:5]) + [fields[5].hex()],
                                   real=real[:4000], reference=model[:4000], fresh_object=fresh[:4000],
                                   how="c09_objects.play(S, ops, exc_name): ops are ('new', form, protocol, call_id, method_or_code, bodyhex) | ('set', obj, field, value) | ('enc', obj)"))
            else:
                ctx.violation("rmc-reference:object:mode=%d:error=%s%s" % (fields[0], "set" if fields[4] != -1 else "none", sfx),
                              "bytes emitted by the real encoder for a message object (mode %d, protocol %#x, method %r, call id %d, error %#x) differ from the reference framing%s" % (fields[0], fields[1], fields[2], fields[3], fields[4] & 0xFFFFFFFF, under),
                              dict(rp, object=list(fields[:5]), op=line[:4000], real=real[:4000], reference=model[:4000]))

    def obj_roundtrip(si, j, fields, real, cfg=None):
        """property on the real code: what the object gives, decoded again, is the message the object currently is"""
        wf = c09_objects.well_formed(fields)
        if not wf or not real.startswith("ok ") or (cfg, si, j) in hist_reported: return
        got = real_dec(bytes.fromhex(real[3:]))
        mode, p, meth, c, err, body = wf[1]
        want = "ok %d %d %s %d %d %s" % (mode, p, "none" if meth is None else meth, c, err, hx(body))
        if got != want:
            tag, ops = scenarios[si]
            ctx.violation("rmc-object-roundtrip:%s" % last_set(ops, j) if not cfg else "rmc-object-roundtrip:logging",
                          "encode() #%d of a message object, decoded again, is not the message the object is at that moment%s: want %s got %s" % (j + 1, (" with logging configured as '%s' (harness/c09_logging.py)" % cfg) if cfg else "", want[:90], got[:90]),
                          {"scenario": tag, "ops": [list(o) for o in ops], "encode_index": j, "want": want[:4000], "got": got[:4000], "logging_config": cfg})

    for line, real, model, m in zip(lines, reals, outs, meta):
        judge(line, real, model, m)
        if m[0] == "obj":
            obj_roundtrip(m[1][0], m[1][1], m[1][2], real)

    # property oracle on the real code
    def roundtrip_all(sps, cfg=None):
        fails = 0
        for sp in sps:
            why = oracle_roundtrip(sp)
            if why:
                form, p, c, m, body = sp
                fails += 1
                key = "rmc-roundtrip:protocol=0x7F" if p == 0x7F else "rmc-roundtrip:%s:p=%#x" % (form, p)
                if cfg: key = "rmc-roundtrip:%s:logging" % form
                ctx.violation(key, "RMC round trip fails on the real code%s: %s" % ((" with logging configured as '%s' (harness/c09_logging.py)" % cfg) if cfg else "", why),
                              {"form": form, "protocol": p, "call_id": c, "method_or_code": m, "body": body.hex(), "why": why, "logging_config": cfg,
                               "how": "rmc.RMCMessage.parse(S, RMCMessage.<form>(...).encode())" + (" inside `with c09_logging.applied(%r):`" % cfg if cfg else "")})
                if fails > 20: break
    roundtrip_all(specs)

    # 6. the process's logging configuration as an axis: a sample of every family above (every kind of line x every outcome
    #    of the model, all the small messages, object histories, round trips) is executed again on the real code under each
    #    configuration; the results must be the ones of the untouched configuration, i.e. the model's
    strata = {}
    for i, (line, model, m) in enumerate(zip(lines, outs, meta)):
        if m[0] == "obj" or len(line) > 3000: continue
        strata.setdefault((m[0], model.split(" ")[0], model.split(" ")[1] if model.startswith("err") else len(line) // 16 if len(line) < 160 else -1), []).append(i)
    per = 12 if quick else 60
    sample = []
    for k in sorted(strata, key=repr):
        ix = strata[k]
        n = per * {"trunc": 12, "perturb": 4, "append": 3, "inner-append": 3}.get(k[0], 1)
        sample += ix if len(ix) <= n else rng.sample(ix, n)
    small_ix = [i for i, m in enumerate(meta) if m[0] in ("enc", "spec", "dec") and m[1] in small_set]
    sample = sorted(set(sample) | set(small_ix))
    big_ix = [i for i, m in enumerate(meta) if m[0] in ("enc", "dec") and len(lines[i]) > 100000][:4]
    sample += big_ix
    scen_sample = [si for si, (tag, ops) in enumerate(scenarios) if not tag.startswith("random")] + \
                  [si for si, (tag, ops) in enumerate(scenarios) if tag.startswith("random")][: (20 if quick else 300)]
    rt_sample = small_specs + rng.sample(specs, 200 if quick else 3000)
    cfgs = c09_logging.QUICK_CONFIGS if quick else sorted(c09_logging.CONFIGS)
    log_lines = log_diffs = log_records = log_format_errors = 0
    enabled = {}
    for cfg in cfgs:
        with c09_logging.applied(cfg) as sink:
            lg = getattr(rmc, "logger", None) or logging.getLogger(rmc.__name__)
            enabled[cfg] = [lvl for lvl in ("DEBUG", "INFO", "WARNING", "ERROR") if lg.isEnabledFor(getattr(logging, lvl))][:1]
            redo = [(i, recompute(lines[i], meta[i])) for i in sample]
            redo_scen = [(si, c09_objects.play(S, scenarios[si][1], exc_name)) for si in scen_sample]
            for i, real in redo:
                ctx.case(key=(cfg, lines[i] if len(lines[i]) < 40 else hash(lines[i])), tag="logging=%s:%s" % (cfg, meta[i][0]))
                log_lines += 1
                if real != outs[i]:
                    log_diffs += 1
                    diffs.append((lines[i], real, outs[i], meta[i] + (cfg,)))
                judge(lines[i], real, outs[i], meta[i], cfg)
            for si, obs in redo_scen:
                for j, (oi, fields, real) in enumerate(obs):
                    i = scen_lines[si][j]
                    ctx.case(key=(cfg, "obj", si, j), tag="logging=%s:obj" % cfg)
                    log_lines += 1
                    if real != outs[i]:
                        log_diffs += 1
                        diffs.append((lines[i], real, outs[i], meta[i] + (cfg,)))
                    judge(lines[i], real, outs[i], meta[i], cfg)
                    obj_roundtrip(si, j, fields, real, cfg)
            roundtrip_all(rt_sample, cfg)
        log_records += sink.records
        log_format_errors += sink.format_errors
    ctx.traces_validated = len(lines) + log_lines

    if diffs and not ctx.violations and not ctx.known_hits:
        line, real, model, m = diffs[0]
        ctx.corr_break("rmc-model-correspondence", "real RMCMessage and Lean model disagree on %d of %d lines" % (len(diffs), len(lines) + log_lines),
                       {"first_op": line[:4000], "real": real[:4000], "model": model[:4000], "logging_config": m[2] if len(m) > 2 else None,
                        "theorems_no_longer_tied": ["Nx.C09.rmc_roundtrip", "Nx.C09.rmc_encode_is_reference"]})
    ctx.extra["correspondence_lines"] = len(lines)
    ctx.extra["correspondence_diffs"] = len(diffs)
    ctx.extra["protocol_axis_exhaustive"] = not quick
    ctx.extra["object_histories"] = len(scenarios)
    ctx.extra["object_history_encodings"] = sum(len(x) for x in scen_lines)
    ctx.extra["logging_configurations"] = list(cfgs)
    ctx.extra["logging_lines_per_configuration"] = len(sample) + sum(len(scen_lines[si]) for si in scen_sample)
    ctx.extra["logging_lines"] = log_lines
    ctx.extra["logging_lowest_level_enabled_for_rmc_logger"] = enabled
    ctx.extra["logging_diffs"] = log_diffs
    ctx.extra["logging_records_formatted"] = log_records
    ctx.extra["logging_format_errors"] = log_format_errors
