import NxModel.Prudp.Endpoint
/-! C06: negotiation lemmas on the L1 model -/
namespace Nx.L1
open Nx Nx.Prudp

/-- `a & ~b == 0` as the model writes it -/
def subsetBits (a b : Nat) : Prop := (a ^^^ (a &&& b)) = 0

theorem and_subset_left (a b : Nat) : subsetBits (a &&& b) a := by
  unfold subsetBits
  have : (a &&& b) &&& a = a &&& b := by
    rw [Nat.and_comm (a &&& b) a, ← Nat.and_assoc, Nat.and_self]
  rw [this, Nat.xor_self]

theorem and_subset_right (a b : Nat) : subsetBits (a &&& b) b := by
  unfold subsetBits
  have : (a &&& b) &&& b = a &&& b := by
    rw [Nat.and_assoc, Nat.and_self]
  rw [this, Nat.xor_self]

/-- the acknowledgement `process_syn` builds carries the meet of the server's configuration and the client's offer -/
theorem server_synack_is_meet (env : Env) (s : ServerStream) (p : Packet) (addr to : Addr) (ack : Packet) (d : Bytes)
    (h : (s.processSyn env p addr).outs = [.emit to ack d]) :
    ack.maxSubstreamId = min s.maxSub p.maxSubstreamId ∧ ack.minorVersion = min s.minorVer p.minorVersion ∧
    ack.supportedFunctions = s.supFuncs &&& p.supportedFunctions ∧ ack.type = TYPE_SYN ∧ ack.flags = FLAG_ACK ∧
    to = addr ∧ (s.processSyn env p addr).s = s := by
  unfold ServerStream.processSyn at h ⊢
  simp only [] at h ⊢
  split at h
  · simp at h
  · split at h
    · simp at h
    · split at h
      · simp at h
      · split at h
        · simp at h
        · rename_i h1 h2 h3 _ _ heq
          simp only [List.cons.injEq, SOut.emit.injEq, and_true] at h
          obtain ⟨ha, hp, _⟩ := h
          subst hp
          simp [h1, h2, h3, heq, mkPacket, ha]

/-- a SYN is answered statelessly: whatever arrives, the server's tables do not change -/
theorem server_syn_stateless (env : Env) (s : ServerStream) (p : Packet) (addr : Addr) :
    (s.processSyn env p addr).s = s := by
  unfold ServerStream.processSyn
  simp only []
  split <;> try rfl
  split <;> try rfl
  split <;> try rfl
  split <;> rfl

/-- a SYN/ACK whose parameters exceed the client's offer changes nothing and is reported as an error -/
theorem client_rejects_excess (env : Env) (now : Time) (c : Conn) (p : Packet)
    (h : p.maxSubstreamId > c.maxSub ∨ p.minorVersion > c.minorVer ∨ ¬ subsetBits p.supportedFunctions c.supFuncs) :
    (c.processSyn env now p).c = c ∧ (c.processSyn env now p).outs = [] ∧ (c.processSyn env now p).err = some .value := by
  unfold Conn.processSyn
  split
  · exact ⟨rfl, rfl, rfl⟩
  · split
    · exact ⟨rfl, rfl, rfl⟩
    · split
      · exact ⟨rfl, rfl, rfl⟩
      · split
        · exact ⟨rfl, rfl, rfl⟩
        · rename_i hn
          exfalso; apply hn
          unfold subsetBits at h
          rcases h with h | h | h
          · exact Or.inl h
          · exact Or.inr (Or.inl h)
          · exact Or.inr (Or.inr h)

/-- the three negotiated parameters and nothing else identify what `configure`/adoption set -/
def Conn.params (c : Conn) : Nat × Nat × Nat := (c.minorVer, c.maxSub, c.supFuncs)

theorem cleanup_params (c : Conn) : c.cleanup.c.params = c.params := by
  simp [Conn.cleanup, Conn.params, R.ok]

theorem arm_params (c : Conn) (now : Time) (p : Packet) (k : Nat) : (c.arm now p k).params = c.params := by
  unfold Conn.arm
  split <;> simp [Conn.params]

theorem ite_params (b : Prop) [Decidable b] (x y : Conn) (z : Nat × Nat × Nat) (h1 : x.params = z) (h2 : y.params = z) :
    (if b then x else y).params = z := by split <;> assumption

theorem assign_params (c c' : Conn) (p : Packet) (n : Nat) (h : c.assign p = .ok (n, c')) : c'.params = c.params := by
  unfold Conn.assign at h
  split at h
  · split at h
    · cases h
    · cases h; rfl
  · split at h
    · cases h; rfl
    · split at h <;> (cases h; rfl)

theorem encodePayload_params (env : Env) (c c' : Conn) (p : Packet) (d : Bytes) (h : c.encodePayload env p = .ok (d, c')) :
    c'.params = c.params := by
  unfold Conn.encodePayload at h
  split at h
  · simp only [] at h
    split at h
    · split at h
      · cases h
      · split at h <;> (cases h; rfl)
    · split at h <;> (cases h; rfl)
  · cases h; rfl

theorem assignIf_params (c c' : Conn) (p : Packet) (b : Bool) (n : Nat) (h : c.assignIf p b = .ok (n, c')) :
    c'.params = c.params := by
  unfold Conn.assignIf at h
  cases b with
  | true => simp at h; rw [h.2]
  | false => simp at h; exact assign_params _ _ _ _ h

theorem encodeIf_params (env : Env) (c c' : Conn) (p : Packet) (b : Bool) (d : Bytes) (h : c.encodeIf env p b = .ok (d, c')) :
    c'.params = c.params := by
  unfold Conn.encodeIf at h
  by_cases hc : p.type = TYPE_DATA ∧ (!b) = true
  · rw [if_pos hc] at h; exact encodePayload_params _ _ _ _ _ h
  · rw [if_neg hc] at h; cases h; rfl

theorem transmit_params (env : Env) (now : Time) (c : Conn) (p : Packet) : (c.transmit env now p).c.params = c.params := by
  unfold Conn.transmit
  by_cases hl : (!c.linkUp) = true
  · rw [if_pos hl]; exact cleanup_params c
  · rw [if_neg hl]
    cases encodeChecked env.cfg p with
    | error e => rfl
    | ok data =>
      simp only [R.ok]
      exact ite_params _ _ _ _ (arm_params _ _ _ _) rfl

theorem sendPacket_params (env : Env) (now : Time) (c : Conn) (p : Packet) :
    (c.sendPacket env now p).c.params = c.params := by
  unfold Conn.sendPacket
  simp only []
  generalize hA : Conn.assignIf c _ _ = ra
  cases ra with
  | error e => rfl
  | ok v =>
    obtain ⟨pid, c1⟩ := v
    have h1 := assignIf_params _ _ _ _ _ hA
    simp only []
    generalize hE : Conn.encodeIf env c1 _ _ = re
    cases re with
    | error e => exact h1
    | ok w =>
      obtain ⟨payload, c2⟩ := w
      have h2 := encodeIf_params _ _ _ _ _ _ hE
      simp only []
      rw [transmit_params, h2, h1]

/-- when the client accepts a SYN/ACK it adopts exactly the offered parameters, and they do not exceed its own -/
theorem client_adopts_offer (env : Env) (now : Time) (c : Conn) (p : Packet) (h : Nat)
    (hp : ackLookup (ackKeyOf p) c.ackEvents = some h) (hok : (c.processSyn env now p).err = none) :
    (c.processSyn env now p).c.params = (p.minorVersion, p.maxSubstreamId, p.supportedFunctions) ∧
    p.maxSubstreamId ≤ c.maxSub ∧ p.minorVersion ≤ c.minorVer ∧ subsetBits p.supportedFunctions c.supFuncs := by
  unfold Conn.processSyn at hok ⊢
  by_cases h1 : p.signature ≠ env.packetSig c.codec p [] []
  · rw [if_pos h1] at hok; cases hok
  · rw [if_neg h1] at hok ⊢
    by_cases h2 : (!hasAck p.flags) = true
    · rw [if_pos h2] at hok; cases hok
    · rw [if_neg h2] at hok ⊢
      by_cases h3 : p.sessionId ≠ 0 ∨ p.packetId ≠ 0 ∨ p.fragmentId ≠ 0 ∨ p.substreamId ≠ 0
      · rw [if_pos h3] at hok; cases hok
      · rw [if_neg h3] at hok ⊢
        by_cases h4 : p.maxSubstreamId > c.maxSub ∨ p.minorVersion > c.minorVer ∨
            (p.supportedFunctions ^^^ (p.supportedFunctions &&& c.supFuncs)) ≠ 0
        · rw [if_pos h4] at hok; cases hok
        · rw [if_neg h4] at hok ⊢
          simp only [hp, Option.isSome_some, if_true]
          refine ⟨?_, ?_, ?_, ?_⟩
          · unfold Conn.sendConnect
            rw [sendPacket_params]
            rfl
          · omega
          · omega
          · unfold subsetBits
            by_cases hx : (p.supportedFunctions ^^^ (p.supportedFunctions &&& c.supFuncs)) = 0
            · exact hx
            · exact absurd (Or.inr (Or.inr hx)) h4

/-- the client completes its handshake only on a CONNECT/ACK that echoes exactly the agreed parameters -/
theorem client_connect_exact (env : Env) (c : Conn) (p : Packet)
    (h0 : c.handshakeEvent = false) (h1 : (c.processConnect env p).c.handshakeEvent = true) :
    (p.minorVersion, p.maxSubstreamId, p.supportedFunctions) = c.params := by
  unfold Conn.processConnect at h1
  split at h1
  · simp [R.fail, h0] at h1
  · split at h1
    · simp [R.fail, h0] at h1
    · split at h1
      · simp [R.fail, h0] at h1
      · split at h1
        · simp [R.fail, h0] at h1
        · rename_i hn
          simp only [Conn.params]
          have : p.maxSubstreamId = c.maxSub ∧ p.minorVersion = c.minorVer ∧ p.supportedFunctions = c.supFuncs := by
            refine ⟨?_, ?_, ?_⟩
            · by_cases hx : p.maxSubstreamId = c.maxSub
              · exact hx
              · exact absurd (Or.inl hx) hn
            · by_cases hx : p.minorVersion = c.minorVer
              · exact hx
              · exact absurd (Or.inr (Or.inl hx)) hn
            · by_cases hx : p.supportedFunctions = c.supFuncs
              · exact hx
              · exact absurd (Or.inr (Or.inr hx)) hn
          rw [this.1, this.2.1, this.2.2]

/-! ### the server side of CONNECT -/

theorem clientLookup_set_same (k : ClientKey) (c : Conn) (l : List (ClientKey × Conn)) :
    clientLookup k (clientSet k c l) = some c := by
  induction l with
  | nil => simp [clientSet, clientLookup]
  | cons x t ih =>
    obtain ⟨k', c'⟩ := x
    by_cases h : k' = k
    · simp [clientSet, clientLookup, h]
    · simp [clientSet, clientLookup, h, ih]

theorem clientLookup_set_other (k k' : ClientKey) (c : Conn) (l : List (ClientKey × Conn)) (hne : k' ≠ k) :
    clientLookup k' (clientSet k c l) = clientLookup k' l := by
  induction l with
  | nil => simp [clientSet, clientLookup, Ne.symm hne]
  | cons x t ih =>
    obtain ⟨k2, c2⟩ := x
    by_cases h : k2 = k
    · subst h; simp [clientSet, clientLookup, Ne.symm hne]
    · by_cases h2 : k2 = k'
      · subst h2; simp [clientSet, clientLookup, h]
      · simp [clientSet, clientLookup, h, h2, ih]

theorem login_params (c : Conn) (pid cid : Nat) (key : Bytes) : (c.login pid cid key).params = c.params := rfl
theorem serve_params (c : Conn) (now : Time) : (c.serve now).params = c.params := rfl

/-- a CONNECT that makes the server register a new connection: the connection is configured with exactly the
    parameters the CONNECT carries, and these do not exceed the server's configuration -/
theorem server_connect_params (env : Env) (now : Time) (rnd : Rnd) (up : Bool) (s : ServerStream) (p : Packet) (addr : Addr)
    (hnew : clientLookup (addr, p.sourcePort, p.sourceType) s.clients = none)
    (c' : Conn)
    (hreg : clientLookup (addr, p.sourcePort, p.sourceType) (s.processConnect env now rnd up p addr).s.clients = some c') :
    c'.params = (p.minorVersion, p.maxSubstreamId, p.supportedFunctions) ∧
    p.maxSubstreamId ≤ s.maxSub ∧ p.minorVersion ≤ s.minorVer ∧ subsetBits p.supportedFunctions s.supFuncs := by
  unfold ServerStream.processConnect at hreg
  simp only [] at hreg
  by_cases h1 : p.signature ≠ env.packetSig (select env.cfg.sel p.version) p [] (env.connSig (select env.cfg.sel p.version) addr)
  · rw [if_pos h1] at hreg; rw [hnew] at hreg; cases hreg
  · rw [if_neg h1] at hreg
    by_cases h2 : (!hasNeedAck p.flags) = true ∨ p.packetId ≠ 1 ∨ p.fragmentId ≠ 0 ∨ p.substreamId ≠ 0
    · rw [if_pos h2] at hreg; rw [hnew] at hreg; cases hreg
    · rw [if_neg h2] at hreg
      by_cases h3 : p.maxSubstreamId > s.maxSub ∨ p.minorVersion > s.minorVer ∨
          (p.supportedFunctions ^^^ (p.supportedFunctions &&& s.supFuncs)) ≠ 0
      · rw [if_pos h3] at hreg; rw [hnew] at hreg; cases hreg
      · rw [if_neg h3] at hreg
        have hle : p.maxSubstreamId ≤ s.maxSub ∧ p.minorVersion ≤ s.minorVer ∧ subsetBits p.supportedFunctions s.supFuncs := by
          refine ⟨by omega, by omega, ?_⟩
          unfold subsetBits
          by_cases hx : (p.supportedFunctions ^^^ (p.supportedFunctions &&& s.supFuncs)) = 0
          · exact hx
          · exact absurd (Or.inr (Or.inr hx)) h3
        refine ⟨?_, hle⟩
        simp only [hnew, Option.isNone_none, if_true] at hreg
        -- the login step either fails (nothing registered) or keeps the parameters
        cases hk : s.key with
        | none =>
          simp only [ServerStream.loginStep, hk] at hreg
          rw [clientLookup_set_same] at hreg; cases hreg; rfl
        | some key =>
          simp only [ServerStream.loginStep, hk] at hreg
          cases hl : env.loginRequest p.payload key now with
          | error e =>
            simp only [hl] at hreg
            rw [hnew] at hreg; cases hreg
          | ok v =>
            obtain ⟨pid, cid, sk, resp⟩ := v
            simp only [hl] at hreg
            rw [clientLookup_set_same] at hreg; cases hreg; rfl

end Nx.L1
