import NxProofs.SchemaInventory
/-!
# C12 — checked-in protocol stubs and docs are exactly the generator's output

Byte equality of 54 files with the output of a Python program is established by *re-running that program*
(the repository's generator, in a scratch copy) and comparing bytes — exhaustive and finite; Lean adds nothing
to that and it is claimed as translation validation, not as proof. What is decided by the kernel on every
run are the obligations the re-generation cannot see:
* the **inventory bijection** (`inventoryOK`, on the name lists collected from the working tree): the generator
  never deletes, so a generated page or module whose definition is gone survives every re-run unchanged;
* equality of the tables recovered by `ast` from the checked-in modules (structure classes with parent and
  DataHolder registration, protocol ids, NORESPONSE, method names and ids) with those of the definitions.
The same checker is applied a second time per run to the names of the files that one generator run wrote into
empty output directories (`run_writes_exactly_the_definitions`): a definition the generator silently gives up on
has no output of "this run", although its checked-in files still sit in the tree.
The theorems below say what a discharged `inventoryOK` obligation means.
-/
namespace Nx.C12
open Nx.Schema.Inv

/-- a discharged inventory obligation is the bijection the property states: no definition lacks its module or
    page, no generated module or page lacks its definition -/
theorem inventory_bijection (protos modules pages : List Nat) (h : inventoryOK protos modules pages = true) :
    (∀ x, x ∈ protos ↔ x ∈ modules) ∧ (∀ x, x ∈ protos ↔ x ∈ pages) :=
  inventoryOK_iff protos modules pages h

/-- an orphaned generated page (or, symmetrically by `inventory_bijection`, module) makes the obligation fail -/
theorem orphan_page_detected (protos modules pages : List Nat) (x : Nat) (hx : x ∈ pages) (hp : x ∉ protos) :
    inventoryOK protos modules pages = false :=
  orphan_breaks protos modules pages x hx hp

/-- the same obligation on the names of the files ONE generator run wrote into empty output directories: every
    definition got its module and its page from that run, and the run wrote nothing that belongs to no definition
    (the generator's exit status and log are not part of the statement) -/
theorem run_writes_exactly_the_definitions (protos written_modules written_pages : List Nat)
    (h : inventoryOK protos written_modules written_pages = true) :
    (∀ x ∈ protos, x ∈ written_modules ∧ x ∈ written_pages) ∧
    (∀ x, x ∈ written_modules ∨ x ∈ written_pages → x ∈ protos) :=
  run_complete protos written_modules written_pages h

/-- a definition for which the run wrote no module or no page makes the obligation fail, whatever else was written -/
theorem unwritten_definition_detected (protos written_modules written_pages : List Nat) (x : Nat) (hx : x ∈ protos)
    (hw : x ∉ written_modules ∨ x ∉ written_pages) : inventoryOK protos written_modules written_pages = false :=
  unwritten_breaks protos written_modules written_pages x hx hw

/-! non-vacuity -/
example : inventoryOK [1, 2, 3] [3, 1] [2, 3, 1] = false := by decide
example : missing [1, 2, 3] [3, 1] = [2] := by decide
example : inventoryOK [1, 2, 3] [3, 1, 2] [2, 3, 1] = true := by decide
example : inventoryOK [1, 2, 3] [3, 1, 2] [2, 3, 1, 4] = false := by decide
example : missing [2, 3, 1, 4] [1, 2, 3] = [4] := by decide

end Nx.C12
