import NxProofs.Negotiation
/-!
# C06 — the handshake negotiates the meet of both sides' capabilities, and both sides agree

Model: L1 endpoint (`NxModel/Prudp/{Conn,Endpoint}.lean`): `ServerStream.processSyn/processConnect`
(= `PRUDPServerStream.process_syn/process_connect`), `Conn.processSyn/processConnect/send`
(= `PRUDPClient.process_syn/process_connect/send`). The theorems hold for every `Env` (any signature functions).
`Conn.params c = (minor version, max substream id, supported functions)` is what the endpoint reports.
`subsetBits a b` is the code's `a & ~b == 0`.
-/
namespace Nx.C06
open Nx Nx.Prudp Nx.L1

/-- the server's SYN/ACK carries (min, min, AND) of its configuration and the offer; answering changes no server state -/
theorem synack_is_meet (env : Env) (s : ServerStream) (p : Packet) (addr to : Addr) (ack : Packet) (d : Bytes)
    (h : (s.processSyn env p addr).outs = [.emit to ack d]) :
    ack.maxSubstreamId = min s.maxSub p.maxSubstreamId ∧ ack.minorVersion = min s.minorVer p.minorVersion ∧
    ack.supportedFunctions = s.supFuncs &&& p.supportedFunctions ∧ ack.type = TYPE_SYN ∧ ack.flags = FLAG_ACK ∧
    to = addr ∧ (s.processSyn env p addr).s = s :=
  server_synack_is_meet env s p addr to ack d h

/-- a client never accepts parameters exceeding its own offer: such a SYN/ACK leaves it unchanged -/
theorem no_upgrade (env : Env) (now : Time) (c : Conn) (p : Packet)
    (h : p.maxSubstreamId > c.maxSub ∨ p.minorVersion > c.minorVer ∨ ¬ subsetBits p.supportedFunctions c.supFuncs) :
    (c.processSyn env now p).c = c ∧ (c.processSyn env now p).outs = [] ∧ (c.processSyn env now p).err = some .value :=
  client_rejects_excess env now c p h

/-- an accepted SYN/ACK is adopted exactly, and is within the offer -/
theorem client_accepts_only_leq (env : Env) (now : Time) (c : Conn) (p : Packet) (h : Nat)
    (hp : ackLookup (ackKeyOf p) c.ackEvents = some h) (hok : (c.processSyn env now p).err = none) :
    (c.processSyn env now p).c.params = (p.minorVersion, p.maxSubstreamId, p.supportedFunctions) ∧
    p.maxSubstreamId ≤ c.maxSub ∧ p.minorVersion ≤ c.minorVer ∧ subsetBits p.supportedFunctions c.supFuncs :=
  client_adopts_offer env now c p h hp hok

/-- the client completes its handshake only on an exact echo of the agreed parameters -/
theorem connect_echo_exact (env : Env) (c : Conn) (p : Packet)
    (h0 : c.handshakeEvent = false) (h1 : (c.processConnect env p).c.handshakeEvent = true) :
    (p.minorVersion, p.maxSubstreamId, p.supportedFunctions) = c.params :=
  client_connect_exact env c p h0 h1

/-- the server-side connection is configured with exactly what the CONNECT carries, never above the server's own -/
theorem server_adopts_connect (env : Env) (now : Time) (rnd : Rnd) (up : Bool) (s : ServerStream) (p : Packet) (addr : Addr)
    (hnew : clientLookup (addr, p.sourcePort, p.sourceType) s.clients = none) (c' : Conn)
    (hreg : clientLookup (addr, p.sourcePort, p.sourceType) (s.processConnect env now rnd up p addr).s.clients = some c') :
    c'.params = (p.minorVersion, p.maxSubstreamId, p.supportedFunctions) ∧
    p.maxSubstreamId ≤ s.maxSub ∧ p.minorVersion ≤ s.minorVer ∧ subsetBits p.supportedFunctions s.supFuncs :=
  server_connect_params env now rnd up s p addr hnew c' hreg

/-- **Agreement.** Take any server stream `s`, any client connection `c` waiting for its SYN/ACK, the SYN `syn` that
    carries the client's configuration, the server's answer `ack` to it, and a CONNECT `con` that carries what the
    client holds after accepting `ack`. If the server registers a connection for `con`, then the client and the
    server-side connection report the same parameters, and these are (min, min, AND) of the two configurations. -/
theorem C06_agree (envS envC : Env) (now now' : Time) (rnd : Rnd) (up : Bool)
    (s : ServerStream) (c : Conn) (syn ack con : Packet) (caddr to : Addr) (d : Bytes) (h : Nat) (cs : Conn)
    (hsyn : (syn.minorVersion, syn.maxSubstreamId, syn.supportedFunctions) = c.params)
    (hack : (s.processSyn envS syn caddr).outs = [.emit to ack d])
    (hpend : ackLookup (ackKeyOf ack) c.ackEvents = some h)
    (hacc : (c.processSyn envC now ack).err = none)
    (hcon : (con.minorVersion, con.maxSubstreamId, con.supportedFunctions) = (c.processSyn envC now ack).c.params)
    (hnew : clientLookup (caddr, con.sourcePort, con.sourceType) s.clients = none)
    (hreg : clientLookup (caddr, con.sourcePort, con.sourceType) (s.processConnect envS now' rnd up con caddr).s.clients = some cs) :
    cs.params = (c.processSyn envC now ack).c.params ∧
    cs.params = (min s.minorVer c.minorVer, min s.maxSub c.maxSub, s.supFuncs &&& c.supFuncs) := by
  obtain ⟨a1, a2, a3, _⟩ := server_synack_is_meet envS s syn caddr to ack d hack
  obtain ⟨b1, _⟩ := client_adopts_offer envC now c ack h hpend hacc
  obtain ⟨c1, _⟩ := server_connect_params envS now' rnd up s con caddr hnew cs hreg
  simp only [Conn.params, Prod.mk.injEq] at hsyn
  obtain ⟨s1, s2, s3⟩ := hsyn
  refine ⟨by rw [c1, hcon], ?_⟩
  rw [c1, hcon, b1, a1, a2, a3, s1, s2, s3]

/-- sending beyond the negotiated maximum is refused and changes nothing -/
theorem substream_bound (env : Env) (now : Time) (c : Conn) (data : Bytes) (sub : Nat)
    (hs : c.state = STATE_CONNECTED) (h : sub > c.maxSub) :
    (c.send env now data sub).c = c ∧ (c.send env now data sub).outs = [] ∧ (c.send env now data sub).err = some .value := by
  unfold Conn.send
  rw [if_neg (by simp [hs]), if_pos h]
  exact ⟨rfl, rfl, rfl⟩

/-- the meet never exceeds either side (so an honest SYN/ACK is always acceptable to the client that made the offer) -/
theorem meet_within_offer (sm ss sf cm cs cf : Nat) :
    min ss cs ≤ cs ∧ min sm cm ≤ cm ∧ subsetBits (sf &&& cf) cf ∧ min ss cs ≤ ss ∧ min sm cm ≤ sm ∧ subsetBits (sf &&& cf) sf :=
  ⟨Nat.min_le_right _ _, Nat.min_le_right _ _, and_subset_right sf cf, Nat.min_le_left _ _, Nat.min_le_left _ _, and_subset_left sf cf⟩

/-! non-vacuity: the bit-subset test is the code's test, and it separates -/
example : subsetBits 0x0F 0xFF ∧ ¬ subsetBits 0x100000 0x0F := by unfold subsetBits; decide
example : min 3 6 = 3 ∧ (0xA5A5A5 &&& 0x0F : Nat) = 5 := by decide

end Nx.C06
