import NxModel.Nex.DateTime
/-! Time zones with a history (C15): the UTC offset is a function of the instant, and
`DateTime.timestamp()` is CPython's `local_to_seconds` (Modules/_datetimemodule.c) - the routine behind
`timestamp()` of a naive `datetime` - which solves `t = local(u)` for `u` by probing the zone at a few instants.
Range errors at the edges of the years 1 / 9999 are NOT part of this file (they are modelled for fixed
offsets in `DateTime.timestamp`); everything here is meant for local years 1971..9998. -/
namespace Nx.Nex.Zone
open Nx Nx.Nex

/-- a zone: the UTC offset (seconds east) in force at each instant -/
abbrev Zone := Int → Int

/-- `local(u)`: the civil time of instant `u`, as seconds on the same scale -/
def localOf (z : Zone) (u : Int) : Int := u + z u

/-- `local_to_seconds(..., fold=0)`: `t` is the civil time read as if it were UTC.
```
lt = local(t); a = lt - t; u1 = t - a; t1 = local(u1)
if t1 == t: u2 = u1 - max_fold_seconds; b = local(u2) - u2; if a == b: return u1
else:       b = t1 - u1
u2 = t - b; t2 = local(u2)
if t2 == t: return u2
if t1 == t: return u1
return max(u1, u2)            # t is in the gap
``` -/
def localToSeconds (z : Zone) (t : Int) : Int :=
  let a := localOf z t - t
  let u1 := t - a
  let t1 := localOf z u1
  let b := if t1 = t then localOf z (u1 - 86400) - (u1 - 86400) else t1 - u1
  if t1 = t ∧ a = b then u1 else
  let u2 := t - b
  if localOf z u2 = t then u2 else if t1 = t then u1 else max u1 u2

/-- one rule change: offset `a` before instant `T`, `b` from `T` on -/
def zTwo (T a b : Int) : Zone := fun u => if u < T then a else b

/-- a zone given by its table: offset `o0` before the first change, then `(T, o)` = offset `o` from instant `T` on
(changes in increasing order) -/
def zTab (o0 : Int) (tab : List (Int × Int)) : Zone :=
  fun u => tab.foldl (fun acc p => if p.1 ≤ u then p.2 else acc) o0

/-- Unix seconds of 0000-03-01 + `epochZ` days -/
def E : Int := (DateTime.epochZ * 86400 : Nat)

/-- `DateTime.fromtimestamp(t)` in zone `z` (instants are Unix seconds): the offset in force at `t` -/
def fromTimestampZ (z : Zone) (t : Int) : Except Err Nat := DateTime.fromTimestamp (z t) t

/-- `DateTime.timestamp()` in zone `z`: `local_to_seconds` of the fields (no range errors, see the header) -/
def timestampZ (z : Zone) (v : Nat) : Except Err Int :=
  let f := DateTime.fields v
  if f.Valid then .ok (localToSeconds (fun x => z (x - E)) (DateTime.secondsZ f) - E) else .error .value

end Nx.Nex.Zone
