import NxModel.Nex.RmcClientMulti
import NxModel.Nex.RmcClientAbort
import NxModel.DriverUtil
/-! line-protocol driver for the RMC client call-matching model (stateful; a process = a list of model objects, one per
    live connection, `Nx.RmcClient.lift` applies a line to the selected one)
  proc               -> ok                      a fresh process holding one fresh connection (number 0), selected
  conn <i>           -> ok                      select connection <i> of the process (connections up to <i> are created
                                                fresh when they do not exist yet); every other line acts on the selected
                                                connection only
  new <nextId> [<k>] -> ok                      fresh client whose `call_id` counter is <nextId>, started with
                                                <k> protocol servers (default 0)
  hookret | hookraise -> outs                   the executing `server.logout(self)` returned / raised
  handlerret <0|1>   -> outs                    the executing `server.handle(...)` raised / returned (the answer is sent)
  xdump              -> xstate pending=[..] cleanup=none|running|returned|raised
  call <0|1>         -> outs                    `request(..., noresponse=<1>)` up to the send
  recv <hex>         -> outs | crash <Err>      one datagram through `RMCMessage.parse` + the loop body
  eof | cleanup      -> outs
  wake <t>           -> outs
  abort <t>          -> aborted t | notask t    the suspended request() of task <t> ended with an exception of send() / a cancellation
  dump               -> state next=.. tasks=.. closed=.. requests=[..] responses=[..] frames=[t:id:ready ..]
  outs = `;`-joined: sent t id | done t body <hex> | done t rmc <code> | done t closed | done t none |
         done t keyerror | set t | warn id | closing t,t,.. | notready t | notask t |
         logout srv | cleanup-returned | cleanup-raised | nohook |
         dispatch srv method callid | notimpl protocol callid | answer protocol callid <0|1> | nohandler   (`-` when empty)
  `recv` of a REQUEST message is the extended op `peerRequest` (the server registered for its protocol, 0x50 + index, is
  entered, or the NotImplemented answer is sent); on the core machine and the specification it is `recvRequest`.
  A trailing ` SPECDIFF` is appended when the specification machine (run in lock step) emitted
  different observable outputs; ` H-IDS-BROKEN` once the distinct-live-ids hypothesis failed. -/
open Nx Nx.Rmc Nx.RmcClient

def showOutcome : Outcome → String
  | .body b => "body " ++ hexOut b
  | .rmcError c => s!"rmc {c}"
  | .closed => "closed"
  | .none => "none"
  | .keyError => "keyerror"

def insertSorted (x : Nat) : List Nat → List Nat
  | [] => [x]
  | y :: r => if x ≤ y then x :: y :: r else y :: insertSorted x r
def sortNat (l : List Nat) : List Nat := l.foldr insertSorted []

def joinNat (l : List Nat) : String := ",".intercalate ((sortNat l).map toString)

def showOut : Out → String
  | .sent t id => s!"sent {t} {id}"
  | .done t o => s!"done {t} " ++ showOutcome o
  | .set t => s!"set {t}"
  | .warnInvalidCallId id => s!"warn {id}"
  | .closing ts => "closing " ++ (if ts.isEmpty then "-" else joinNat ts)
  | .notReady t => s!"notready {t}"
  | .noSuchTask t => s!"notask {t}"

def showOuts (l : List Out) : String := if l.isEmpty then "-" else ";".intercalate (l.map showOut)

def showXOut : XOut → String
  | .core o => showOut o
  | .logout srv => s!"logout {srv}"
  | .cleanupReturned => "cleanup-returned"
  | .cleanupRaised => "cleanup-raised"
  | .noHook => "nohook"
  | .dispatch srv m id => s!"dispatch {srv} {m} {id}"
  | .notImplemented p id => s!"notimpl {p} {id}"
  | .answer p id ok => s!"answer {p} {id} {if ok then 1 else 0}"
  | .noHandler => "nohandler"

def showXOuts (l : List XOut) : String := if l.isEmpty then "-" else ";".intercalate (l.map showXOut)

structure D where
  x : XState
  a : CallSpec
  hids : Bool

def dump (s : State) : String :=
  let fr := (sortNat (s.frames.map (·.1))).map fun t =>
    match dlookup t s.frames with
    | some id => s!"{t}:{id}:{if t ∈ s.fired then 1 else 0}"
    | none => "?"
  s!"state next={s.nextId} tasks={s.nextTask} closed={if s.closed then 1 else 0} requests=[{joinNat (s.requests.map (·.1))}] responses=[{joinNat (s.responses.map (·.1))}] frames=[{" ".intercalate fr}]"

def xdump (x : XState) : String :=
  let st := match x.status with
    | 0 => "none" | 1 => "running" | 2 => "returned" | _ => "raised"
  s!"xstate pending=[{",".intercalate (x.pending.map toString)}] cleanup={st}"

/-- a core op: through the extended machine; the specification machine runs in lock step on the core outputs -/
def apply (d : D) (op : Op) : D × String :=
  let ok := d.hids && distinctLive d.x.core [op]
  let (x', o) := xstep d.x (.core op)
  let (a', oa) := CallSpec.step d.a op
  let diff := (coreOuts o).filter Out.observable != oa
  ({ x := x', a := a', hids := ok },
   showXOuts o ++ (if diff then " SPECDIFF" else "") ++ (if !ok then " H-IDS-BROKEN" else ""))

def applyHook (d : D) (op : XOp) : D × String :=
  let (x', o) := xstep d.x op
  ({ d with x := x' }, showXOuts o)

/-- any extended op: the specification machine runs in lock step on the op's core projection -/
def applyX (d : D) (op : XOp) : D × String :=
  match coreOps [op] with
  | [c] =>
    let ok := d.hids && distinctLive d.x.core [c]
    let (x', o) := xstep d.x op
    let (a', oa) := CallSpec.step d.a c
    let diff := (coreOuts o).filter Out.observable != oa
    ({ x := x', a := a', hids := ok },
     showXOuts o ++ (if diff then " SPECDIFF" else "") ++ (if !ok then " H-IDS-BROKEN" else ""))
  | _ => applyHook d op

def stepLine (d : D) (line : String) : D × String :=
  match line.splitOn " " with
  | ["new", n] =>
    match n.toNat? with
    | some n => ({ x := xinit n 0, a := { CallSpec.init with nextId := n }, hids := true }, "ok")
    | none => (d, "bad-op")
  | ["new", n, k] =>
    match n.toNat?, k.toNat? with
    | some n, some k => ({ x := xinit n k, a := { CallSpec.init with nextId := n }, hids := true }, "ok")
    | _, _ => (d, "bad-op")
  | ["hookret"] => applyHook d .hookReturn
  | ["hookraise"] => applyHook d .hookRaise
  | ["handlerret", b] =>
    if b = "0" then applyHook d (.handlerEnd false) else if b = "1" then applyHook d (.handlerEnd true) else (d, "bad-op")
  | ["xdump"] => (d, xdump d.x)
  | ["call", b] =>
    if b = "0" then apply d (.call false) else if b = "1" then apply d (.call true) else (d, "bad-op")
  | ["recv", h] =>
    match fromHex h with
    | some data =>
      match decode data with
      | .error e => (d, "crash " ++ e.name)
      | .ok _ =>
        match xopOfData data with
        | some op => applyX d op
        | none => (d, "bad-op")
    | none => (d, "bad-op")
  | ["eof"] => apply d .eof
  | ["cleanup"] => apply d .cleanup
  | ["wake", t] =>
    match t.toNat? with
    | some t => apply d (.wake t)
    | none => (d, "bad-op")
  | ["abort", t] =>
    match t.toNat? with
    | some t =>
      match astep d.x (.abort t) with
      | (x', [.aborted _]) => ({ d with x := x', a := d.a.abort t }, s!"aborted {t}")
      | (x', _) => ({ d with x := x' }, s!"notask {t}")
    | none => (d, "bad-op")
  | ["dump"] => (d, dump d.x.core)
  | _ => (d, "bad-op")

def fresh : D := { x := xinit 1 0, a := CallSpec.init, hids := true }

/-- the process: one model object per connection + the selected connection -/
structure P where
  conns : List D
  cur : Nat

def procLine (p : P) (line : String) : P × String :=
  match line.splitOn " " with
  | ["proc"] => ({ conns := [fresh], cur := 0 }, "ok")
  | ["conn", i] =>
    match i.toNat? with
    | some i =>
      if i < 64 then ({ conns := p.conns ++ List.replicate (i + 1 - p.conns.length) fresh, cur := i }, "ok") else (p, "bad-op")
    | none => (p, "bad-op")
  | _ =>
    match lift stepLine p.conns p.cur line with
    | (cs, some out) => ({ p with conns := cs }, out)
    | (_, none) => (p, "bad-op")

def main : IO Unit := runState { conns := [fresh], cur := 0 : P } procLine
