import NxModel.Nex.Streams
import NxModel.Nex.Errors
/-!
# `common.StationURL` — text form, parser, typed parameter access

Strings are `List Char` here (`Str`); the stream form is `wString (String.ofList (repr u))`.
Parameter values are Python `str` or `int` objects (`PVal`); `repr` renders them with `%s`.
`parse` yields only `str` values, so `parse (repr u) = strVals u`.

`pyInt` models `int(str)` for ASCII digits (optional sign, single underscores between digits,
surrounding whitespace — `\t\n\v\f\r`, space and the non-ASCII Unicode spaces, but not U+001C..U+001F, as CPython does); non-ASCII decimal digits and the 4300-digit limit are outside the model.
-/
namespace Nx.Nex.StationURL
open Nx Nx.Nex

abbrev Str := List Char

inductive PVal where
  | s (v : Str)
  | i (v : Int)
  deriving DecidableEq, Repr

structure URL where
  scheme : Str
  params : List (Str × PVal)
  deriving DecidableEq, Repr

def strParams : List Str := ["address", "Uri", "Rsa", "Ra", "Ntrpa"].map String.toList
def intParams : List Str := ["port", "stream", "sid", "PID", "CID", "type", "RVCID",
  "natm", "natf", "upnp", "pmp", "probeinit", "PRID",
  "fastproberesponse", "NodeID", "R", "Rsp", "Rp",
  "Tpt", "Pl", "Ntrpp"].map String.toList

/-! ## decimal integers -/

def natDigits (n : Nat) : Str := Nat.toDigits 10 n

/-- `str(int)` -/
def intStr (v : Int) : Str := if v < 0 then '-' :: natDigits (-v).toNat else natDigits v.toNat

/-- `"%s" % value` -/
def PVal.render : PVal → Str
  | .s v => v
  | .i v => intStr v

def isPySpace (c : Char) : Bool :=
  let n := c.toNat
  (9 ≤ n && n ≤ 13) || n == 32 || n == 0x85 || n == 0xA0 || n == 0x1680 ||
  (0x2000 ≤ n && n ≤ 0x200A) || n == 0x2028 || n == 0x2029 || n == 0x202F || n == 0x205F || n == 0x3000

/-- digits with single underscores strictly between digits; returns the digit characters.
`prev` = the previous character was a digit. -/
def digitsUS : Bool → Str → Option Str
  | prev, [] => if prev then some [] else none
  | prev, c :: r =>
    if c.isDigit then (digitsUS true r).map (c :: ·)
    else if c = '_' ∧ prev then digitsUS false r
    else none

/-- an optional sign in front of the digits -/
def signSplit : Str → Bool × Str
  | '-' :: r => (true, r)
  | '+' :: r => (false, r)
  | r => (false, r)

/-- `int(s)` for a Python `str`; `none` = `ValueError` -/
def pyInt (s : Str) : Option Int :=
  let t := (s.dropWhile isPySpace).reverse.dropWhile isPySpace |>.reverse
  let (neg, body) := signSplit t
  match digitsUS false body with
  | none => none
  | some ds => let n := Nat.ofDigitChars 10 ds 0; some (if neg then -(n : Int) else n)

/-! ## text form -/

def joinWith (sep : Str) : List Str → Str
  | [] => []
  | [x] => x
  | x :: r => x ++ sep ++ joinWith sep r

def renderParam (p : Str × PVal) : Str := p.1 ++ '=' :: p.2.render

/-- `StationURL.__repr__` -/
def repr (u : URL) : Str :=
  let params := joinWith [';'] (u.params.map renderParam)
  if u.scheme.isEmpty then params else u.scheme ++ ':' :: '/' :: params

/-- `s.split(c)` for a single-character separator -/
def splitChar (c : Char) : Str → List Str
  | [] => [[]]
  | x :: r =>
    if x = c then [] :: splitChar c r
    else match splitChar c r with
      | h :: t => (x :: h) :: t
      | [] => [[x]]

/-- `s.split(":/")` -/
def splitColonSlash : Str → List Str
  | [] => [[]]
  | [x] => [[x]]
  | x :: y :: r =>
    if x = ':' ∧ y = '/' then [] :: splitColonSlash r
    else match splitColonSlash (y :: r) with
      | h :: t => (x :: h) :: t
      | [] => [[x]]

/-- `dict(field.split("=") for field in fields)`; a field without exactly one `=` is `ValueError` -/
def parseFields : List Str → List (Str × PVal) → Except Err (List (Str × PVal))
  | [], acc => .ok acc
  | f :: r, acc =>
    match splitChar '=' f with
    | [k, v] => parseFields r (dictInsert k (PVal.s v) acc)
    | _ => .error .value

/-- `StationURL.parse(string)` (`none` = Python `None`) -/
def parse (s : Option Str) : Except Err URL :=
  match s with
  | none => .ok ⟨"prudp".toList, []⟩
  | some [] => .ok ⟨"prudp".toList, []⟩
  | some str =>
    match splitColonSlash str with
    | [scheme, fields] => do
      let params ← if fields.isEmpty then pure [] else parseFields (splitChar ';' fields) []
      -- `cls(scheme, **params)`: a parameter named like a positional argument is a TypeError
      if params.any (fun p => p.1 = "scheme".toList ∨ p.1 = "self".toList) then throw .type
      pure ⟨scheme, params⟩
    | _ => .error .value

/-- the value `u[field]` -/
def getitem (u : URL) (field : Str) : Except Err PVal :=
  if strParams.contains field then
    match dictGet field u.params with
    | none => .ok (.s [])
    | some v => .ok (.s v.render)
  else if intParams.contains field then
    match dictGet field u.params with
    | none => .ok (.i 0)
    | some (.i v) => .ok (.i v)
    | some (.s v) => match pyInt v with
      | some n => .ok (.i n)
      | none => .error .value
  else .error .key

/-- every value rendered to `str` — what a parsed URL holds -/
def strVals (u : URL) : URL := ⟨u.scheme, u.params.map fun p => (p.1, PVal.s p.2.render)⟩

/-- `StreamOut.stationurl` / `StreamIn.stationurl` -/
def wStationURL (u : URL) : Except Err Bytes := wString (some (String.ofList (repr u)))
def rStationURL (b : Bytes) : Except Err (URL × Bytes) := do
  let (s, r) ← rString b
  let u ← parse (s.map String.toList)
  pure (u, r)

end Nx.Nex.StationURL
