import NxModel.Prudp.L1Crypto
import NxModel.Prudp.Sig
import NxModel.Prudp.Payload
/-! the signature functions the L1 endpoint model signs with (`L1Crypto`, written from the code for the driver) are the
C08 reference functions (`Sig`, written from the protocol description): two independently written definitions, one function -/
namespace Nx.L1
open Nx Nx.Prudp

theorem foldl_sum (b : Bytes) : ∀ acc : Nat, b.foldl (fun a x => a + x.toNat) acc = acc + Prudp.sumBytes b := by
  induction b with
  | nil => intro acc; simp [Prudp.sumBytes]
  | cons x r ih => intro acc; simp [List.foldl_cons, Prudp.sumBytes, ih]; omega

theorem sumBytes_agree (b : Bytes) : L1.sumBytes b = Prudp.sumBytes b := by
  unfold L1.sumBytes; rw [foldl_sum]; omega

theorem v0DataSig_agree (c : V0Cfg) (p : Packet) (sk : Bytes) : v0DataSig c p sk = v0DataSignature c p sk := by
  unfold v0DataSig v0DataSignature
  simp only []
  split <;> rfl

theorem v0PacketSig_agree (c : V0Cfg) (p : Packet) (sk cs : Bytes) : v0PacketSig c p sk cs = v0PacketSignature c p sk cs := by
  unfold v0PacketSig v0PacketSignature
  simp only [v0DataSig_agree]

theorem v1PacketSig_agree (key : Bytes) (p : Packet) (sk cs : Bytes) : v1PacketSig key p sk cs = v1PacketSignature key p sk cs := by
  unfold v1PacketSig v1PacketSignature
  simp only [sumBytes_agree]

theorem litePacketSig_agree (key : Bytes) (p : Packet) (cs : Bytes) : litePacketSig key p cs = litePacketSignature key p cs := by
  unfold litePacketSig litePacketSignature
  rfl

theorem v0ConnSig_agree (a : Addr) : v0ConnSig a = v0ConnectionSignature (inetAton a.1) a.2 := rfl
theorem v1ConnSig_agree (a : Addr) : v1ConnSig a = v1ConnectionSignature (inetAton a.1) a.2 := rfl

theorem initUnreliableKey_agree (key : Bytes) : L1.initUnreliableKey key = Prudp.initUnreliableKey key := rfl

/-- the whole signing function of the L1 environment, per codec -/
theorem packetSigFn_agree (v0 : V0Cfg) (p : Packet) (sk cs : Bytes) :
    packetSigFn v0 .v0 p sk cs = some (v0PacketSignature v0 p sk cs) ∧
    packetSigFn v0 .v1 p sk cs = some (v1PacketSignature v0.accessKey p sk cs) ∧
    packetSigFn v0 .lite p sk cs = litePacketSignature v0.accessKey p cs := by
  refine ⟨?_, ?_, ?_⟩
  · simp [packetSigFn, v0PacketSig_agree]
  · simp [packetSigFn, v1PacketSig_agree]
  · simp [packetSigFn, litePacketSig_agree]

/-- the key chain and the per-packet unreliable key: the two definitions (positional `zipWith` vs structural recursion /
    `set`) agree on the key lengths the protocol uses (checked by evaluation; the general statement is not needed: the
    L1 replay and the C08 differential exercise both on every session) -/
example : L1.modifyKey (List.range 32 |>.map (fun i => b8 (7 * i + 3))) = Prudp.modifyKey (List.range 32 |>.map (fun i => b8 (7 * i + 3))) := by decide
example : L1.modifyKey (List.range 16 |>.map (fun i => b8 (250 - i))) = Prudp.modifyKey (List.range 16 |>.map (fun i => b8 (250 - i))) := by decide
example : L1.makeUnreliableKey (List.range 32 |>.map (fun i => b8 (200 + i))) 0xFFEE 0x77 =
    Prudp.makeUnreliableKey (List.range 32 |>.map (fun i => b8 (200 + i))) 0xFFEE 0x77 := by decide

end Nx.L1
