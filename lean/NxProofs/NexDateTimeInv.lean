import NxProofs.NexDateTime
/-! DateTime: the other direction of the calendar bijection — civil → days → civil is the identity on every
valid calendar date of every year ≥ 1 (no upper bound on the year). -/
namespace Nx.Nex.DateTime
open Nx

/-- length of the March-based year `y` of an era -/
theorem yearStart_succ : ∀ y, y < 399 → yearStart (y + 1) = yearStart y + 365 +
    (if (y + 1) % 4 = 0 ∧ ((y + 1) % 100 ≠ 0 ∨ (y + 1) % 400 = 0) then 1 else 0) := by
  decide +kernel

theorem yearStart_mono {a b : Nat} (h : a ≤ b) : yearStart a ≤ yearStart b := by
  unfold yearStart
  have h4 : a / 4 ≤ b / 4 := Nat.div_le_div_right h
  have h100 : a / 100 ≤ b / 100 := Nat.div_le_div_right h
  have hk : b / 100 ≤ a / 100 + (b - a) := by omega
  omega

/-- `yearOfEra` is determined by its specification: the March-based year whose days contain `doe` -/
theorem yoe_unique (doe yoe : Nat) (hd : doe < 146097) (h1 : yoe ≤ 399) (h2 : yearStart yoe ≤ doe)
    (h3 : yoe < 399 → doe < yearStart (yoe + 1)) : yearOfEra doe = yoe := by
  have a := yoe_le doe hd
  have b := yoe_lo doe hd
  have c := yoe_next doe hd
  generalize yearOfEra doe = Y at *
  rcases Nat.lt_trichotomy Y yoe with h | h | h
  · have m := yearStart_mono (show Y + 1 ≤ yoe by omega)
    have := c (by omega)
    omega
  · exact h
  · have m := yearStart_mono (show yoe + 1 ≤ Y by omega)
    have := h3 (by omega)
    omega

/-- `civilOfDays` on a day number given by its components: era, March-based year of the era, day of that year -/
theorem civilOfDays_compose (era yoe doy mp d : Nat) (h1 : yoe ≤ 399) (hdoy : doy ≤ 365)
    (hleap : doy = 365 → ((yoe + 1) % 4 = 0 ∧ ((yoe + 1) % 100 ≠ 0 ∨ (yoe + 1) % 400 = 0)))
    (hmp : (5 * doy + 2) / 153 = mp) (hd : doy - (153 * mp + 2) / 5 + 1 = d) :
    civilOfDays (era * 146097 + (yoe * 365 + yoe / 4 - yoe / 100 + doy)) =
      (if (if mp < 10 then mp + 3 else mp - 9) ≤ 2 then yoe + era * 400 + 1 else yoe + era * 400,
       if mp < 10 then mp + 3 else mp - 9, d) := by
  have hys : yearStart yoe = yoe * 365 + yoe / 4 - yoe / 100 := by unfold yearStart; omega
  generalize hdoe : yoe * 365 + yoe / 4 - yoe / 100 + doy = doe at *
  have hb : doe < 146097 := by omega
  have e1 : (era * 146097 + doe) / 146097 = era := by omega
  have e2 : (era * 146097 + doe) % 146097 = doe := by omega
  have e3 : yearOfEra doe = yoe := by
    apply yoe_unique doe yoe hb h1 (by omega)
    intro hlt
    rw [yearStart_succ yoe hlt]
    by_cases h365 : doy = 365
    · rw [if_pos (hleap h365)]; omega
    · omega
  have e4 : doe - yearStart yoe = doy := by omega
  unfold civilOfDays
  simp only [e1, e2, e3, e4, hmp, hd]

/-- March … December: the March-based year is the civil year -/
theorem inv_mar_dec (y mp d : Nat) (hmp : mp ≤ 9) (hd1 : 1 ≤ d)
    (hA : (5 * ((153 * mp + 2) / 5 + d - 1) + 2) / 153 = mp) (hB : (153 * mp + 2) / 5 + d - 1 ≤ 364) :
    civilOfDays (daysOfCivil y (mp + 3) d) = (y, mp + 3, d) := by
  have n1 : ¬ (mp + 3 ≤ 2) := by omega
  have n2 : mp + 3 > 2 := by omega
  have hD : daysOfCivil y (mp + 3) d =
      y / 400 * 146097 + (y % 400 * 365 + y % 400 / 4 - y % 400 / 100 + ((153 * mp + 2) / 5 + d - 1)) := by
    unfold daysOfCivil
    simp only [n1, n2, if_false, if_true, Nat.add_sub_cancel]
  rw [hD, civilOfDays_compose _ _ _ mp d (by omega) (by omega) (by omega) hA (by omega)]
  have n3 : mp < 10 := by omega
  simp only [n3, if_true, n1, if_false]
  congr 1; omega

/-- January, February: the March-based year is the civil year before -/
theorem inv_jan_feb (y m d : Nat) (hy : 1 ≤ y) (hm : m = 1 ∨ m = 2) (hd1 : 1 ≤ d)
    (hA : (5 * ((153 * (m + 9) + 2) / 5 + d - 1) + 2) / 153 = m + 9)
    (hB : (153 * (m + 9) + 2) / 5 + d - 1 ≤ 365)
    (hL : (153 * (m + 9) + 2) / 5 + d - 1 = 365 → (y % 4 = 0 ∧ (y % 100 ≠ 0 ∨ y % 400 = 0))) :
    civilOfDays (daysOfCivil y m d) = (y, m, d) := by
  have n1 : m ≤ 2 := by omega
  have n2 : ¬ (m > 2) := by omega
  have hD : daysOfCivil y m d =
      (y - 1) / 400 * 146097 + ((y - 1) % 400 * 365 + (y - 1) % 400 / 4 - (y - 1) % 400 / 100 +
        ((153 * (m + 9) + 2) / 5 + d - 1)) := by
    unfold daysOfCivil
    simp only [n1, n2, if_false, if_true]
  have hq := Nat.div_add_mod (y - 1) 400
  rw [hD, civilOfDays_compose _ _ _ (m + 9) d (by omega) hB
    (by intro h; have := hL h; omega) hA (by omega)]
  have n3 : ¬ (m + 9 < 10) := by omega
  have n4 : m + 9 - 9 = m := by omega
  simp only [n3, if_false, n4, n1, if_true]
  congr 1; omega

/-- civil → days → civil is the identity on every valid calendar date (any year ≥ 1) -/
theorem civilOfDays_daysOfCivil (y m d : Nat) (hy : 1 ≤ y) (hm1 : 1 ≤ m) (hm2 : m ≤ 12) (hd1 : 1 ≤ d)
    (hd2 : d ≤ daysInMonth y m) : civilOfDays (daysOfCivil y m d) = (y, m, d) := by
  have hl := isLeap_iff y
  have hcases : m = 1 ∨ m = 2 ∨ m = 3 ∨ m = 4 ∨ m = 5 ∨ m = 6 ∨ m = 7 ∨ m = 8 ∨ m = 9 ∨ m = 10 ∨ m = 11 ∨ m = 12 := by
    omega
  rcases hcases with rfl | rfl | rfl | rfl | rfl | rfl | rfl | rfl | rfl | rfl | rfl | rfl
  · have hdm : d ≤ 31 := by simpa [daysInMonth] using hd2
    exact inv_jan_feb y 1 d hy (Or.inl rfl) hd1 (by omega) (by omega) (by omega)
  · have hdm : d ≤ if isLeap y then 29 else 28 := by simpa [daysInMonth] using hd2
    have hd29 : d ≤ 29 := by split at hdm <;> omega
    have hleap : d = 29 → (y % 4 = 0 ∧ (y % 100 ≠ 0 ∨ y % 400 = 0)) := by
      intro h29
      by_cases hL : isLeap y = true
      · exact hl.mp hL
      · simp [hL] at hdm; omega
    exact inv_jan_feb y 2 d hy (Or.inr rfl) hd1 (by omega) (by omega) (by intro h; exact hleap (by omega))
  all_goals simp [daysInMonth] at hd2
  · exact inv_mar_dec y 0 d (by omega) hd1 (by omega) (by omega)
  · exact inv_mar_dec y 1 d (by omega) hd1 (by omega) (by omega)
  · exact inv_mar_dec y 2 d (by omega) hd1 (by omega) (by omega)
  · exact inv_mar_dec y 3 d (by omega) hd1 (by omega) (by omega)
  · exact inv_mar_dec y 4 d (by omega) hd1 (by omega) (by omega)
  · exact inv_mar_dec y 5 d (by omega) hd1 (by omega) (by omega)
  · exact inv_mar_dec y 6 d (by omega) hd1 (by omega) (by omega)
  · exact inv_mar_dec y 7 d (by omega) hd1 (by omega) (by omega)
  · exact inv_mar_dec y 8 d (by omega) hd1 (by omega) (by omega)
  · exact inv_mar_dec y 9 d (by omega) hd1 (by omega) (by omega)

/-! ## DateTime → Unix time → DateTime -/

/-- valid dates of the years 1..9999 lie at or before day 3652364 (9999-12-31) -/
theorem daysOfCivil_le (y m d : Nat) (hy1 : 1 ≤ y) (hy : y ≤ 9999) (hm1 : 1 ≤ m) (hm2 : m ≤ 12) (hd1 : 1 ≤ d)
    (hd : d ≤ 31) : daysOfCivil y m d ≤ 3652364 := by
  unfold daysOfCivil
  simp only []
  by_cases h : m ≤ 2
  · have h' : ¬ m > 2 := by omega
    simp only [h, h', if_true, if_false]
    have := Nat.div_add_mod (y - 1) 400
    omega
  · have h' : m > 2 := by omega
    simp only [h, h', if_true, if_false]
    have := Nat.div_add_mod y 400
    omega

theorem daysInMonth_le (y m : Nat) : daysInMonth y m ≤ 31 := by
  unfold daysInMonth; split <;> (try split) <;> omega

/-- civil date-time → seconds → civil date-time is the identity on every valid date-time -/
theorem fieldsOfSecondsZ_secondsZ (f : Fields) (h : f.Valid) : fieldsOfSecondsZ (secondsZ f) = f := by
  obtain ⟨a1, a2, a3, a4, a5, a6, a7, a8, a9⟩ := h
  rw [fieldsOfSecondsZ_eq]
  have hs : secondsZ f / 86400 = daysOfCivil f.year f.month f.day := by unfold secondsZ; omega
  have hr : secondsZ f % 86400 = f.hour * 3600 + f.minute * 60 + f.second := by unfold secondsZ; omega
  rw [hs, hr, civilOfDays_daysOfCivil _ _ _ a1 a3 a4 a5 a6]
  cases f
  simp only [Fields.mk.injEq] at *
  refine ⟨trivial, trivial, trivial, ?_, ?_, ?_⟩ <;> omega

/-- DateTime → Unix time → DateTime is the identity in a zone `off` seconds east of UTC whenever
`timestamp()` succeeds: no further hypothesis (the range checks of `fromtimestamp` follow from those `timestamp()` made) -/
theorem fromTimestamp_timestamp (off : Int) (v : Nat) (t : Int) (h : timestamp off v = .ok t) :
    fromTimestamp off t = .ok v := by
  unfold timestamp at h
  simp only [] at h
  split at h
  case isFalse => cases h
  case isTrue hv =>
    split at h
    case isFalse => cases h
    case isTrue hy =>
      simp only [Except.ok.injEq] at h
      obtain ⟨a1, a2, a3, a4, a5, a6, a7, a8, a9⟩ := hv
      have hub := daysOfCivil_le _ _ _ a1 a2 a3 a4 a5 (Nat.le_trans a6 (daysInMonth_le _ _))
      simp only [yearOk, Bool.and_eq_true, decide_eq_true_eq] at hy
      have hsec : secondsZ (fields v) = daysOfCivil (fields v).year (fields v).month (fields v).day * 86400 +
          (fields v).hour * 3600 + (fields v).minute * 60 + (fields v).second := rfl
      have hs : t + off + (epochZ * 86400 : Nat) = (secondsZ (fields v) : Int) := by omega
      unfold fromTimestamp
      simp only [hs]
      have y1 : yearOk ((secondsZ (fields v) : Nat) : Int) = true := by
        simp only [yearOk, Bool.and_eq_true, decide_eq_true_eq]; omega
      have y2 : yearOk (((secondsZ (fields v) : Nat) : Int) - 86400) = true := by
        simp only [yearOk, Bool.and_eq_true, decide_eq_true_eq]; omega
      simp only [y1, y2, Bool.and_self, if_true, Int.toNat_natCast,
        fieldsOfSecondsZ_secondsZ _ ⟨a1, a2, a3, a4, a5, a6, a7, a8, a9⟩, make_fields]

end Nx.Nex.DateTime
