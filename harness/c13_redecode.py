"""C13 family "decode, the application mutates the decoded object in place, decode the same bytes AGAIN".

The property says that bytes produced by the interpreter of the definition decode to the values they encode. The main
tie (schema_tie) decodes every byte string once and only reads the result; c13_inplace explores histories of objects
that are WRITTEN. Here the histories are on the reading side: the real decoder (Structure.decode of every structure
class, the argument decoding of every generated server method, the response decoding of every generated client method)
is handed the same interpreter-made bytes several times, and between the decodes the decoded objects are changed in
place the way application code changes them:

    decode #0 -> single-site mutations -> decode #1 -> mutate EVERYTHING reachable -> decode #2 (fresh settings object,
                                                                                     fresh server / client object)

Oracle for EVERY decode: field by field the interpreter's visible value of those bytes (so: equal to a fresh decode),
nothing left undecoded, and the decoded object re-encodes (StreamOut.add / generated client / generated server) to the
bytes the interpreter states. Nothing of what happened to earlier decoded objects may show. A decoder that hands out
shared objects (memoised parses, interned "empty" values, per-class default instances, pooled lists, ...) fails it for
every type whose decoded value is a mutable object.

Oracle after every SINGLE-SITE mutation of a decoded object (aliasing inside ONE message): the object, read back field by
field, is what it was before with only the mutated site replaced — two equal values in one list / map / pair of
attributes / pair of arguments must not be one object.

Mutations. Single-site (type-directed from the value tree, categories in rotation over the configurations so that
every class sees every category it has a site for): the c13_inplace categories (attribute of the object / of an inner
structure / of a list element assigned, list append / setitem / del, dict new / set / del, the same in nested
containers) plus the leaf objects: StationURL.__setitem__ (existing parameter changed, new parameter added),
DateTime.val, Result.error_code (also inside variants, lists, maps, anydata payloads, RMCResponse result objects).
"Everything": a run-time-type-directed walk over the decoded object that changes every list (elements, append,
reverse), dict (values, new key, key removed), bytearray, StationURL (every parameter + a new one, through __setitem__),
and every attribute of every other object reachable (structures, payloads, DateTime, Result, ...), in place.

Start values per (item, configuration): "mt" = the marker value (every attribute set) with TWINS: every list gets a
copy of its first element appended, all values of a map are made equal, attributes / arguments of the same mutable type
hold equal values; and one of (in rotation) "r" random, "rt" random with twins, "z" all-zero/empty value (empty lists,
maps, buffers, 'prudp:/'), "em" every station url the EMPTY string on the wire, "ab" every station url ABSENT on the wire
(length 0; these bytes are made by the real encoder with StreamOut.stationurl told to write the absent form, and
judged by the interpreter's decoder of those bytes).

Replay: `/venv/bin/python /verif/harness/c13_redecode.py <replay.json>` re-runs a reported history on the tree named
by NX_REPO (default /repo).
"""
import ast, os, random, sys, traceback

HERE = os.path.dirname(os.path.abspath(__file__))
for _p in (HERE, os.path.join(os.path.dirname(HERE), "tools"), os.path.join(os.path.dirname(HERE), "lib")):
    if _p not in sys.path: sys.path.insert(0, _p)

from schema_proto2lean import code, uncode
import schema_values as SV
import schema_tie as T
import schema_c13_focus as F
import c13_inplace as IP

PRUDP = "prudp:/"
NOTWIN = {"uint8", "uint16", "uint32", "uint64", "sint8", "sint16", "sint32", "sint64", "pid", "bool", "float", "double", "string"}
ROT = ["r", "rt", "z", "ab", "em"]


# ---------------------------------------------------------------------------------------------
# value trees: twins, url rewriting, parsed canon <-> tree

def twin(gen, ty, t):
    k, n = t[0], ty["name"]
    if k == "list" and n == "list":
        xs = [twin(gen, ty["template"][0], x) for x in t[1]]
        return ("list", xs + xs[:1])
    if k == "map" and n == "map":
        ps = [(a, twin(gen, ty["template"][1], b)) for a, b in t[1]]
        return ("map", [(a, ps[0][1]) for a, _ in ps])
    if k == "obj":
        flds = gen.fields(t[1])
        xs = [twin(gen, v["type"], x) for (v, _), x in zip(flds, t[2])]
        return ("obj", t[1], same_type_equal([v["type"] for v, _ in flds], xs))
    return t


def same_type_equal(types, xs):
    first, out = {}, []
    for ty, x in zip(types, xs):
        if ty["name"] not in NOTWIN:
            x = first.setdefault(repr(ty), x)
        out.append(x)
    return out


def map_urls(t, text, hit):
    k = t[0]
    if k == "url": hit.append(1); return ("url", text)
    if k == "list": return ("list", [map_urls(x, text, hit) for x in t[1]])
    if k == "map": return ("map", [(a, map_urls(b, text, hit)) for a, b in t[1]])
    if k == "obj": return ("obj", t[1], [map_urls(x, text, hit) for x in t[2]])
    return t


def hexs(tok): return b"" if tok == "-" else bytes.fromhex(tok)


def untree(gen, ty, p):
    """parsed canonical form (SV.parse_val) + declared type -> value tree; erased attributes become ("erased",)"""
    k = p[0]
    if k == "a": return ("erased",)
    if k == "n": return ("none",)
    n = ty["name"]
    if k == "l": return ("list", [untree(gen, ty["template"][0], x) for x in p[1]])
    if k == "m": return ("map", [(untree(gen, ty["template"][0], a), untree(gen, ty["template"][1], b)) for a, b in p[1]])
    if k == "o":
        name = uncode(int(p[1]))
        return ("obj", name, [untree(gen, v["type"], x) for (v, _), x in zip(gen.fields(name), p[2])])
    tok = p[1]
    c, r = tok[0], tok[1:]
    if tok == "t": return ("bool", True)
    if tok == "f": return ("bool", False)
    if c == "i": return ("f32" if n == "float" else "f64" if n == "double" else "int", int(r))
    if c == "d": return ("dbl", int(r))
    if c == "D": return ("dt", int(r))
    if c == "s": return ("url" if n == "stationurl" else "str", hexs(r).decode("utf8"))
    if c == "b": return ("bytes", hexs(r))
    raise ValueError(tok)


def unparse(p):
    k = p[0]
    if k == "a": return "a"
    if k == "n": return "n"
    if k == "x": return p[1]
    if k == "l": return "l [" + "".join(" " + unparse(x) for x in p[1]) + " ]"
    if k == "m": return "m [" + "".join(" %s %s" % (unparse(a), unparse(b)) for a, b in p[1]) + " ]"
    if k == "o": return "o %s [%s ]" % (p[1], "".join(" " + unparse(x) for x in p[2]))
    raise ValueError(k)


def unparse_root(ps): return "[" + "".join(" " + unparse(x) for x in ps) + " ]"


def pput(p, path, new):
    if not path: return new
    h = path[0]
    if h[0] in ("arg", "idx"):
        xs = list(p[1]); xs[h[1]] = pput(xs[h[1]], path[1:], new); return (p[0], xs)
    if h[0] == "attr":
        xs = list(p[2]); xs[h[1]] = pput(xs[h[1]], path[1:], new); return (p[0], p[1], xs)
    if h[0] == "mval":
        xs = list(p[1]); xs[h[1]] = (xs[h[1]][0], pput(xs[h[1]][1], path[1:], new)); return (p[0], xs)
    raise ValueError(h)


def pget(p, path):
    for h in path:
        if h[0] in ("arg", "idx"): p = p[1][h[1]]
        elif h[0] == "attr": p = p[2][h[1]]
        elif h[0] == "mval": p = p[1][h[1]][1]
    return p


def type_at(gen, types, trees, path):
    ty = node = None
    for p in path:
        if p[0] == "arg": ty, node = types[p[1]], trees[p[1]]
        elif p[0] == "attr": ty, node = gen.fields(node[1])[p[1]][0]["type"], node[2][p[1]]
        elif p[0] == "idx": ty, node = ty["template"][0], node[1][p[1]]
        elif p[0] == "mval": ty, node = ty["template"][1], node[1][p[1]][1]
    return ty, node


# ---------------------------------------------------------------------------------------------
# single-site mutations

def leaf_sites(gen, ty, tree, path, out):
    k, n = tree[0], ty["name"]
    if k == "url": out.append(("leaf:stationurl", "urlset", path, ()))
    elif k == "dt" or (k == "int" and n == "datetime"): out.append(("leaf:datetime", "dtset", path, ()))
    elif k == "int" and n == "result": out.append(("leaf:result", "resset", path, ()))
    elif k == "obj":
        for i, ((v, _), ft) in enumerate(zip(gen.fields(tree[1]), tree[2])):
            leaf_sites(gen, v["type"], ft, path + (("attr", i, v["name"]),), out)
    elif k == "list" and n == "list":
        for j, x in enumerate(tree[1]): leaf_sites(gen, ty["template"][0], x, path + (("idx", j),), out)
    elif k == "map" and n == "map":
        for j, (a, b) in enumerate(tree[1]): leaf_sites(gen, ty["template"][1], b, path + (("mval", j),), out)
    return out


def all_sites(gen, types, trees):
    out = []
    for ai, (ty, t) in enumerate(zip(types, trees)):
        IP.sites(gen, ty, t, (("arg", ai),), "top", out)
        leaf_sites(gen, ty, t, (("arg", ai),), out)
    return out


def make_step(gen, site, types, trees, cfg, rng):
    cat, op, path, info = site
    if op in ("urlset", "dtset", "resset"):
        _, node = type_at(gen, types, trees, path)
        if op == "urlset":
            text = node[1]
            keys = [f.split("=")[0] for f in text.split(":/", 1)[-1].split(";") if "=" in f] if ":/" in text else []
            if keys and rng.random() < 0.5:
                key = rng.choice(keys)
                return (op, path, (key, "10.9.8.7" if key in ("address", "Uri", "Rsa", "Ra", "Ntrpa") else 4242))
            key = next(k for k in ("PID", "RVCID", "probeinit", "NodeID", "Tpt") if k not in keys)
            return (op, path, (key, 1234))
        return (op, path, (node[1] ^ (0x2A if op == "dtset" else 0x10),))
    return IP.make_step(gen, site, ("list", trees), cfg, rng)


def apply_step(real, root, step):
    op, path, pl = step
    if op == "urlset": IP.real_get(root, path)[pl[0]] = pl[1]
    elif op == "dtset": IP.real_get(root, path).val = pl[0]
    elif op == "resset": IP.real_get(root, path).error_code = pl[0]
    else: IP.apply_real(real, root, step)


def replaced_path(gen, step, types, trees):
    """path of the sub-value a step replaces + its declared type"""
    op, path, pl = step
    if op == "set": return path + (("attr", pl[0], pl[1]),), pl[2]
    if op == "setitem": return path + (("idx", pl[0]),), pl[1]
    if op == "mapset": return path + (("mval", pl[0]),), pl[1]
    return path, type_at(gen, types, trees, path)[0]


def step_text(step):
    op, path, pl = step
    where = "value" + "".join("." + p[2] if p[0] == "attr" else "[%d]" % p[1] if p[0] in ("idx", "arg") else "{key #%d}" % p[1] for p in path)
    if op == "urlset": return "%s[%r] = %r   (StationURL.__setitem__)" % (where, pl[0], pl[1])
    if op == "dtset": return "%s.val = %d   (DateTime)" % (where, pl[0])
    if op == "resset": return "%s.error_code = %d   (Result)" % (where, pl[0])
    if op == "scramble": return "every list, dict, station url and object reachable from the decoded value(s) changed in place"
    if op == "decode": return "decode #%d" % pl[0]
    return IP.step_text(step)


# ---------------------------------------------------------------------------------------------
# "mutate everything", directed by the run-time types only

_IMM = (int, float, str, bytes, type(None), tuple, frozenset)


def changed(v):
    if isinstance(v, bool): return not v
    if isinstance(v, int): return v ^ 0x55
    if isinstance(v, float): return v + 1.5
    if isinstance(v, str): return v + "~"
    if isinstance(v, bytes): return v[::-1] + b"\x01"
    return "was-none" if v is None else None


def scramble(common, v, seen=None, depth=0):
    """change `v` in place, everything reachable; returns the number of objects changed"""
    if seen is None: seen = set()
    if isinstance(v, _IMM) or id(v) in seen or depth > 40 or isinstance(v, type): return 0
    seen.add(id(v))
    n = 1
    if isinstance(v, list):
        for i, x in enumerate(v):
            if isinstance(x, _IMM): v[i] = changed(x)
            else: n += scramble(common, x, seen, depth + 1)
        v.append(v[0] if v else 12345)
        v.reverse()
    elif isinstance(v, dict):
        for k in list(v.keys()):
            if isinstance(v[k], _IMM): v[k] = changed(v[k])
            else: n += scramble(common, v[k], seen, depth + 1)
        ks = list(v.keys())
        if len(ks) > 1: del v[ks[0]]
        v["new-key"] = 1
    elif isinstance(v, bytearray):
        v.reverse(); v.append(1)
    elif isinstance(v, common.StationURL):
        for k in list(v.params.keys()): v[k] = "77"
        v["PID"] = 99; v["probeinit"] = 1
    elif hasattr(v, "__dict__"):
        for k, x in list(vars(v).items()):
            if isinstance(x, _IMM): setattr(v, k, changed(x))
            else: n += scramble(common, x, seen, depth + 1)
    else:
        return 0
    return n


# ---------------------------------------------------------------------------------------------
# worker

class _Stop(Exception): pass


class Capture:
    """fake RMC client that keeps the request body and stops the call"""
    def __init__(self, settings): self.settings, self.body = settings, None
    async def request(self, protocol, method, body, noresponse=False):
        self.body = body
        raise _Stop()


def task(args):
    repo, name, cfgs, seed, steps, exe = args[:6]
    ci0 = args[6] if len(args) > 6 else 0
    res = {"family": "redecode", "module": name, "cases": 0, "decodes": 0, "lines": 0, "tags": {}, "diffs": [], "keys": [], "samples": [],
           "error": None, "avail": [], "seen": [], "mutated_objects": 0}
    try:
        _task(repo, name, cfgs, seed, steps, exe, res, ci0)
    except Exception:
        res["error"] = traceback.format_exc()
    return res


def dispatch(t):
    """one pool for all families"""
    return task(t[1]) if t[0] == "redecode" else IP.dispatch(t)


def variant_trees(kind, gen, types, reqs, cfg, start, struct_name=None):
    """-> (kind actually used, trees, trees that state what a decoded value re-encodes to)"""
    if kind in ("mt", "ab", "em"):
        mk = F.Marker(gen, start=start)
        trees = [mk.obj(struct_name, cfg)] if struct_name else [mk.val(t, cfg, 0) for t in types]
    elif kind in ("r", "rt"):
        trees = [gen.obj(struct_name, cfg)] if struct_name else [gen.gen(t, cfg, 0, rq) for t, rq in zip(types, reqs)]
    else:
        trees = [F.zero(gen, t, cfg) for t in types]
    if kind in ("mt", "rt", "ab", "em"):
        trees = same_type_equal(types, [twin(gen, t, x) for t, x in zip(types, trees)])
    if kind in ("ab", "em"):
        hit = []
        canon = [map_urls(x, PRUDP, hit) for x in trees]
        if not hit: return "mt", trees, trees
        if kind == "em": return kind, [map_urls(x, "", []) for x in trees], canon
        return kind, canon, canon
    return kind, trees, trees


def _task(repo, name, cfgs, seed, steps, exe, res, ci0=0):
    mod, env, common, streams, rmc, nexsettings, notification = IP.load(repo, name)
    rng = random.Random("redecode/%s/%s/%r" % (seed, name, cfgs[0]))
    gen = SV.Gen(env, rng)
    real = SV.Real(gen, mod, common, notification)
    tags = res["tags"]
    def tag(t, n=1): tags[t] = tags.get(t, 0) + n
    lines = env.driver_lines()
    nsetup = len(lines)
    struct_names = [s["name"] for s in env.order if s["name"] in env.structs]
    subs = []

    orig_stationurl = streams.StreamOut.stationurl
    def absent_stationurl(self, url):
        if str(url) == PRUDP: self.u16(0)
        else: orig_stationurl(self, url)
    def with_absent(f):
        streams.StreamOut.stationurl = absent_stationurl
        try: return f()
        finally: streams.StreamOut.stationurl = orig_stationurl

    def enc_struct(st, tree):
        out = streams.StreamOut(st); out.add(real.build(tree)); return out.get()

    def client_body(ccls, m, st, rargs):
        cap = Capture(st)
        try: T.run_coro(getattr(ccls(cap), m["name"])(*rargs))
        except _Stop: pass
        return cap.body

    def make_robj(m, rvals):
        if len(m["response"]) > 1:
            robj = rmc.RMCResponse()
            for v, x in zip(m["response"], rvals): setattr(robj, v["name"], x)
            return robj
        return rvals[0] if rvals else None

    def server_run(scls, m, st, body, robj, srv=None):
        """-> (arguments the implementation was called with | None, response bytes | None)"""
        rec = {}
        async def impl(client, *a):
            rec["args"] = a
            return robj
        srv = srv or scls()
        setattr(srv, m["name"], impl)
        out = streams.StreamOut(st)
        try:
            T.run_coro(srv.handle(T.FakeClient(st), m["id"], streams.StreamIn(body, st), out))
            resp = out.get()
        except Exception as e:
            resp = None; rec["exc"] = e
        return rec, resp

    # ---------------- phase 0: subjects and the interpreter's statements about their bytes
    for cj, cfg in enumerate(cfgs):
        ci = ci0 + cj
        st = IP.mk_settings(nexsettings, cfg)
        cs = "%d %d %d %d" % (cfg[0], cfg[1], cfg[2], T.FUEL)
        for si, sname in enumerate(struct_names):
            ty = {"name": sname, "template": None}
            tyl = "S %d" % code(sname)
            for hi, want in enumerate(("mt", ROT[(ci + si) % len(ROT)])):
                kind, trees, canon = variant_trees(want, gen, [ty], [True], cfg, ci + si, sname)
                if hi == 1 and kind == "mt": kind, trees, canon = variant_trees("rt", gen, [ty], [True], cfg, ci + si, sname)
                sub = {"kind": "struct", "item": sname, "cfg": cfg, "ci": ci, "types": [ty], "trees": trees, "variant": kind, "i0": len(lines), "hi": hi,
                       "key": "redecode:%s:%s:%r:%d" % (name, sname, cfg, hi)}
                if kind == "ab":
                    try: sub["B"] = with_absent(lambda: enc_struct(st, trees[0]))
                    except Exception: tag("redecode:build-failed"); continue
                    lines.append("dec %s %s %s" % (cs, tyl, SV.hx(sub["B"])))
                    lines.append("enc %s %s %s" % (cs, tyl, SV.to_val(canon[0])))
                else:
                    lines.append("enc %s %s %s" % (cs, tyl, SV.to_val(trees[0])))
                    lines.append("vis %s %s %s" % (cs, tyl, SV.to_val(trees[0])))
                    if kind == "em": lines.append("enc %s %s %s" % (cs, tyl, SV.to_val(canon[0])))
                subs.append(sub)
        for p in env.protos:
            pname = p["name"]
            ccls, scls = getattr(mod, T.make_class_name(pname, "Client"), None), getattr(mod, T.make_class_name(pname, "Server"), None)
            if ccls is None or scls is None: continue
            for m in p["methods"]:
                if not m["supported"] or not (m["request"] or m["response"]): continue
                want = "mt" if (ci + m["id"]) % 2 == 0 else ROT[(ci // 2 + m["id"]) % len(ROT)]
                rqt, rst = [v["type"] for v in m["request"]], [v["type"] for v in m["response"]]
                kind, trees, canon = variant_trees(want, gen, rqt + rst, [False] * len(rqt) + [len(rst) == 1] * len(rst), cfg, ci + m["id"])
                na = len(rqt)
                args, rets, cargs, crets = trees[:na], trees[na:], canon[:na], canon[na:]
                # twins are per direction: arguments among themselves, results among themselves (done by variant_trees over
                # the concatenation: a result may equal an argument of the same type, which is harmless)
                mref = "%d %d" % (code(pname), code(m["name"]))
                base = {"item": "%s.%s" % (pname, m["name"]), "proto": pname, "method": m, "cfg": cfg, "ci": ci, "variant": kind, "ccls": ccls, "scls": scls,
                        "args": args, "rets": rets, "noresponse": p["noresponse"], "i0": len(lines)}
                if kind == "ab":
                    try:
                        rargs = [real.build_typed(t, x) for t, x in zip(rqt, args)]
                        rrets = [real.build_typed(t, x) for t, x in zip(rst, rets)]
                        base["Breq"] = with_absent(lambda: client_body(ccls, m, st, rargs))
                        base["Bresp"] = with_absent(lambda: server_run(scls, m, st, base["Breq"], make_robj(m, rrets))[1])
                    except Exception:
                        tag("redecode:build-failed"); continue
                    if base["Breq"] is None: tag("redecode:build-failed"); continue
                    lines.append("sreq %s %s %s" % (cs, mref, SV.hx(base["Breq"])))
                    lines.append("cresp %s %s %s" % (cs, mref, SV.hx(base["Bresp"] or b"")))
                    lines.append("req %s %s %s" % (cs, mref, SV.vals(cargs)))
                    lines.append("sresp %s %s %s" % (cs, mref, SV.vals(crets)))
                else:
                    lines.append("req %s %s %s" % (cs, mref, SV.vals(args)))
                    lines.append("visreq %s %s %s" % (cs, mref, SV.vals(args)))
                    lines.append("sresp %s %s %s" % (cs, mref, SV.vals(rets)))
                    lines.append("visresp %s %s %s" % (cs, mref, SV.vals(rets)))
                    if kind == "em":
                        lines.append("req %s %s %s" % (cs, mref, SV.vals(cargs)))
                        lines.append("sresp %s %s %s" % (cs, mref, SV.vals(crets)))
                if m["request"]:
                    subs.append(dict(base, kind="req", types=rqt, trees=args, key="redecode:%s:%s.%s:%r:req" % (name, pname, m["name"], cfg)))
                if m["response"] and not p["noresponse"]:
                    subs.append(dict(base, kind="resp", types=rst, trees=rets, key="redecode:%s:%s.%s:%r:resp" % (name, pname, m["name"], cfg)))

    outs = T.driver_batch(exe, lines)
    res["lines"] = len(lines)
    for i in range(nsetup):
        if outs[i] != "ok":
            raise RuntimeError("driver rejected schema line %d: %r -> %r" % (i, lines[i][:200], outs[i]))

    def body_of(o, req):
        """'ok P M hex' / 'ok hex' -> bytes | None"""
        if not o.startswith("ok"): return None
        h = o.split(" ")[-1] if len(o) > 2 else "-"
        return hexs(h)

    # ---------------- phase 1: what the interpreter says about every subject: B (bytes), vis (decoded value), Bre (re-encoding)
    for sub in subs:
        i0, k = sub["i0"], sub["variant"]
        if sub["kind"] == "struct":
            if k == "ab":
                d = outs[i0]
                sub["vis"] = "[ %s ]" % d[3:].rsplit(" | ", 1)[0] if d.startswith("ok ") and d.endswith(" | -") else None
                sub["Bre"] = body_of(outs[i0 + 1], False)
            else:
                sub["B"] = body_of(outs[i0], False)
                sub["vis"] = "[ %s ]" % outs[i0 + 1][3:] if outs[i0 + 1].startswith("ok ") else None
                sub["Bre"] = body_of(outs[i0 + 2], False) if k == "em" else sub["B"]
        else:
            if k == "ab":
                dq, dp, eq, ep = outs[i0:i0 + 4]
                visq, visp = (dq[3:] if dq.startswith("ok ") else None), (dp[3:] if dp.startswith("ok ") else None)
                Bq, Bp = sub["Breq"], sub["Bresp"]
                Bqre, Bpre = body_of(eq, True), body_of(ep, False)
            else:
                eq, vq, ep, vp = outs[i0:i0 + 4]
                Bq, Bp = body_of(eq, True), body_of(ep, False)
                visq, visp = (vq[3:] if vq.startswith("ok ") else None), (vp[3:] if vp.startswith("ok ") else None)
                Bqre, Bpre = (body_of(outs[i0 + 4], True), body_of(outs[i0 + 5], False)) if k == "em" else (Bq, Bp)
            sub["Bq"], sub["Bp"] = Bq, Bp
            if sub["kind"] == "req": sub["B"], sub["vis"], sub["Bre"] = Bq, visq, Bqre
            else: sub["B"], sub["vis"], sub["Bre"] = Bp, visp, Bpre

    # ---------------- phase 2: the histories on the real code
    avail, seen = set(), set()
    kept = {"struct": 0, "req": 0, "resp": 0}
    for sub in subs:
        if sub.get("B") is None or sub.get("vis") is None or (sub["kind"] == "resp" and sub.get("Bq") is None):
            tag("redecode:not-encodable"); continue
        r = run_history(sub, gen, real, common, streams, rmc, nexsettings, rng, steps, tag, avail, seen, make_robj, server_run, Capture)
        res["cases"] += 1
        res["decodes"] += r["decodes"]
        res["mutated_objects"] += r["mutated"]
        if r["diff"] is None:
            if r["mutated"]: res["keys"].append(sub["key"])
            if len(res["samples"]) < 1 and r["mutated"] and len(sub["B"]) < 80 and sub["variant"] == "mt":
                res["samples"].append({"module": name, "item": sub["item"], "side": sub["kind"], "cfg": list(sub["cfg"]), "bytes": SV.hx(sub["B"]),
                                       "redecode_history": r["history"][:12]})
        else:
            res["ndiffs"] = res.get("ndiffs", 0) + 1
            if kept[sub["kind"]] < 12:
                kept[sub["kind"]] += 1
                d = {"module": name, "cfg": list(sub["cfg"]), "family": "redecode", "key": sub["key"], "side": sub["kind"], "start_value": sub["variant"],
                     "bytes": SV.hx(sub["B"]), "definition_decodes_them_to": sub["vis"][:6000], "history": r["history"],
                     "replay_steps": repr(r["steps"]), "value_types": repr(sub["types"])}
                if sub["kind"] == "struct": d["struct"] = sub["item"]
                else: d.update(protocol=sub["proto"], method=sub["method"]["name"], method_id=sub["method"]["id"])
                d.update(r["diff"])
                res["diffs"].append(d)
    res["avail"], res["seen"] = sorted(avail), sorted(seen)


def run_history(sub, gen, real, common, streams, rmc, nexsettings, rng, nsteps, tag, avail, seen, make_robj, server_run, Capture):
    kind, cfg, types, m = sub["kind"], sub["cfg"], sub["types"], sub.get("method")
    st = IP.mk_settings(nexsettings, cfg)
    out = {"decodes": 0, "mutated": 0, "diff": None, "history": [], "steps": []}
    vis_parsed = SV.parse_val(sub["vis"])
    hold = {"srv": None, "cli": None, "result": None}
    other = None       # fresh values for the other direction of a method

    def decode(settings, fresh_objects):
        """-> (list of decoded values, undecoded rest) ; raises on failure of the real code"""
        if kind == "struct":
            sin = streams.StreamIn(sub["B"], settings)
            o = sin.extract(real.cls(sub["item"]))
            return [o], sub["B"][sin.tell():]
        if kind == "req":
            if fresh_objects or hold["srv"] is None: hold["srv"] = sub["scls"]()
            rrets = [real.build_typed(v["type"], t) for v, t in zip(m["response"], sub["rets"])]
            rec, _ = server_run(sub["scls"], m, settings, sub["B"], make_robj(m, rrets), hold["srv"])
            if "args" not in rec: raise rec.get("exc") or RuntimeError("implementation not called")
            return list(rec["args"]), b""
        if fresh_objects or hold["cli"] is None:
            hold["fc"] = T.FakeClient(settings); hold["cli"] = sub["ccls"](hold["fc"])
        hold["fc"].settings = settings
        hold["fc"].response = sub["B"]
        rargs = [real.build_typed(v["type"], t) for v, t in zip(m["request"], sub["args"])]
        result = T.run_coro(getattr(hold["cli"], m["name"])(*rargs))
        hold["result"] = result
        if len(m["response"]) > 1: return [getattr(result, v["name"]) for v in m["response"]], b""
        return [result], b""

    def reencode(vals, settings):
        if kind == "struct":
            o = streams.StreamOut(settings); o.add(vals[0]); return o.get()
        if kind == "req":
            cap = Capture(settings)
            try: T.run_coro(getattr(sub["ccls"](cap), m["name"])(*vals))
            except _Stop: pass
            return cap.body
        if sub.get("Bq") is None: return None
        rec, resp = server_run(sub["scls"], m, settings, sub["Bq"], hold["result"] if len(m["response"]) > 1 else vals[0])
        if resp is None: raise rec.get("exc") or RuntimeError("no response")
        return resp

    def canon_root(vals, masks):
        return "[" + "".join(" " + real.canon(t, v, mk) for t, v, mk in zip(types, vals, masks)) + " ]"

    def fail(what, **kw):
        out["diff"] = dict(kw, what=what)
        muts = [s for s in out["steps"] if s[0] != "decode"]
        tag("redecode:DIFF:" + (muts[-1][0] if muts else "first-decode"))
        return out

    def one_decode(k, settings, fresh_objects):
        """decode #k and judge it; -> decoded values | None (out["diff"] set)"""
        out["history"].append("decode #%d of the bytes%s" % (k, " (fresh settings object, fresh %s object)" % ("stream" if kind == "struct" else "server" if kind == "req" else "client") if fresh_objects else ""))
        out["decodes"] += 1
        after = "; ".join(step_text(s) for s in out["steps"] if s[0] != "decode")[:500]
        out["steps"].append(("decode", (), (k,)))
        where = "%s %s" % ({"struct": "Structure.decode of", "req": "the generated server's argument decoding of", "resp": "the generated client's response decoding of"}[kind], sub["item"])
        ctx_ = ("decode #%d after the objects of the earlier decode(s) were changed in place (%s)" % (k, after)) if k else "first decode"
        try:
            vals, rest = decode(settings, fresh_objects)
        except Exception as e:
            fail("%s: %s raised %s on bytes of the interpreter" % (where, ctx_, T.exc_name(e)), bad_decode=k, exception=repr(e)[:300]); return None
        if len(vals) != len(types):
            fail("%s: %d values decoded, the definition has %d" % (where, len(vals), len(types)), bad_decode=k); return None
        got = canon_root(vals, vis_parsed)
        if got != sub["vis"] or rest:
            fail("%s: %s does not give the values the bytes encode%s" % (where, ctx_, " — the changes made to the earlier decoded object show in the new one" if k else
                 " (this worker process had before decoded OTHER messages of this module and changed their decoded objects in place; if a fresh process decodes these bytes right, "
                 "the decoder shares objects between messages)"),
                 bad_decode=k, decoded_real=got[:6000], undecoded_rest=SV.hx(rest)); return None
        if sub.get("Bre") is not None:
            try:
                again = reencode(vals, settings)
            except Exception as e:
                fail("%s: the value of %s cannot be written again (%s)" % (where, ctx_, T.exc_name(e)), bad_decode=k, exception=repr(e)[:300]); return None
            if again is not None and again != sub["Bre"]:
                fail("%s: the value of %s reads back field by field as the definition says but is written as other bytes" % (where, ctx_),
                     bad_decode=k, rewritten_real=SV.hx(again)[:6000], rewritten_definition=SV.hx(sub["Bre"])[:6000]); return None
        return vals

    def single_site(vals, turn):
        """one in-place change of ONE site of the decoded values; everything else must read as before. -> False when a diff was recorded"""
        exp = ("l", list(vis_parsed)) if not out.get("exp_for") is vals else out["exp"]
        try:
            trees = [untree(gen, t, x) for t, x in zip(types, exp[1])]
            sites = all_sites(gen, types, trees)
        except Exception:
            tag("redecode:no-sites"); return True
        if sub["variant"] == "mt":
            for s in sites: avail.add((sub["item"], s[0]))
        cats = sorted({s[0] for s in sites})
        if not cats: return True
        cat = cats[turn % len(cats)]
        site = rng.choice([s for s in sites if s[0] == cat])
        try:
            step = make_step(gen, site, types, trees, cfg, rng)
            if step is None: return True
            rp, rty = replaced_path(gen, step, types, trees)
            old = pget(exp, rp) if step[0] in ("append", "pop", "mapnew", "mapdel") else None
            apply_step(real, vals, step)
            mask = None
            if old is not None and old[0] in ("l", "m"):
                # erased attributes inside the untouched elements stay erased
                xs = list(old[1])
                if step[0] in ("append", "mapnew"): xs.append(None if old[0] == "l" else (None, None))
                else: del xs[step[2][0]]
                mask = (old[0], xs)
            newsub = real.canon(rty, IP.real_get(vals, rp), mask)
        except Exception:
            tag("redecode:step-not-applicable"); return True
        out["steps"].append(step); out["mutated"] += 1
        out["history"].append("in place: " + step_text(step)[:300])
        seen.add((sub["item"], cat))
        if "?" in newsub:
            tag("redecode:opaque-new-value"); return "stop"
        exp = pput(exp, rp, SV.parse_val(newsub))
        want = unparse_root(exp[1])
        got = canon_root(vals, exp[1])
        tag("redecode:single:" + cat)
        if got != want:
            fail("%s %s decoded once, then ONE site of the decoded value changed in place (%s): another part of the same decoded value changed with it (two values of one message are one object)" % (
                {"struct": "structure", "req": "arguments of", "resp": "result of"}[kind], sub["item"], step_text(step)[:300]),
                bad_decode=None, decoded_real_after_the_change=got[:6000], expected_after_the_change=want[:6000])
            return False
        out["exp"], out["exp_for"] = exp, vals
        return True

    nsingle = nsteps if sub["variant"] == "mt" else max(1, nsteps // 2)
    turn0 = sub["ci"] * (nsteps + max(1, nsteps // 2)) + (0 if sub["variant"] == "mt" else nsteps)
    vals = one_decode(0, st, False)
    if vals is None: return out
    first = vals
    for k in range(nsingle):
        r = single_site(vals, turn0 + k)
        if r is False: return out
        if r == "stop": break
    vals = one_decode(1, st, False)
    if vals is None: return out
    if nsingle > 1 and single_site(vals, turn0 + nsingle) is False: return out
    try:
        n = scramble(common, vals) + scramble(common, first) + (scramble(common, hold["result"]) if hold["result"] is not None else 0)
    except Exception:
        tag("redecode:scramble-failed"); n = 0
    out["steps"].append(("scramble", (), ())); out["mutated"] += n
    out["history"].append("in place: " + step_text(("scramble", (), ())))
    tag("redecode:scrambled-objects", n)
    one_decode(2, IP.mk_settings(nexsettings, cfg), True)
    tag("redecode:%s:%s:%s" % (kind, sub["variant"], "ok" if out["diff"] is None else "DIFF"))
    return out


# ---------------------------------------------------------------------------------------------
# replay of a reported history on the real code

def replay_file(path):
    import json
    r = json.load(open(path))
    repo = os.environ.get("NX_REPO", "/repo")
    mod, env, common, streams, rmc, nexsettings, notification = IP.load(repo, r["module"])
    gen = SV.Gen(env, random.Random(0)); real = SV.Real(gen, mod, common, notification)
    cfg = tuple(r["cfg"]); st = IP.mk_settings(nexsettings, cfg)
    B = hexs(r["bytes"])
    steps = ast.literal_eval(r["replay_steps"]); types = ast.literal_eval(r["value_types"])
    print("definition decodes the bytes to:", r["definition_decodes_them_to"][:2000])
    if "struct" not in r:
        print("method histories: feed 'bytes' to the generated %s of %s.%s repeatedly, applying 'history' to the decoded values in between:" % (
            "server (handle)" if r["side"] == "req" else "client (as the response)", r["protocol"], r["method"]))
        print("\n".join(r["history"]))
        return
    def dec():
        sin = streams.StreamIn(B, st); o = sin.extract(real.cls(r["struct"]))
        print("  decoded:", "[ %s ]" % real.canon(types[0], o, None)[:2000])
        out = streams.StreamOut(st); out.add(o)
        print("  written again:", SV.hx(out.get())[:2000])
        return [o]
    vals = first = None
    for s in steps:
        if s[0] == "decode":
            print("decode #%d:" % s[2][0])
            vals = dec()
            if first is None: first = vals
        elif s[0] == "scramble":
            scramble(common, vals); scramble(common, first)
            print("in place:", step_text(s))
        else:
            apply_step(real, vals, s)
            print("in place:", step_text(s)[:300])
            print("  the decoded value now reads:", "[ %s ]" % real.canon(types[0], vals[0], None)[:2000])


if __name__ == "__main__":
    replay_file(sys.argv[1])
