import NxModel.Nex.Schema
import NxModel.Nex.Rmc
import NxModel.DriverUtil
/-! line-protocol driver for the schema interpreter (C13; C12 and C14 use the same executable logic)

 state: one environment (starts as the `common.py` builtins)
  reset                                             -> ok
  struct <name> <parent|-> [ items ]                -> ok          items: F <name> <ty> <0|1> | N <v> [ items ] | R <r> [ items ]
  proto <name> <id> <noresponse 0|1>                -> ok
  method <proto> <id> <name> <supported 0|1> [ F.. ] [ F.. ]   -> ok
  enc|vis <nex> <hdr> <pid> <fuel> <ty> <val>       -> ok <hex> | ok <val> | err <Name>
  dec <nex> <hdr> <pid> <fuel> <ty> <hex>           -> ok <val> | <resthex>
  req|sresp|visreq|visresp <cfg..> <proto> <method> [ vals ]   -> ok <protoid> <methodid> <hex> | ok <hex> | ok [ vals ]
  sreq|cresp <cfg..> <proto> <method> <hex>         -> ok [ vals ]
  maxver <nex> <fuel> <struct>                      -> ok <n>
  wf                                                -> ok <structs> <revisions> <protos>
  wfrev <struct>                                    -> ok <0|1>
 types: u1 u2 u4 u8 s1 s2 s4 s8 f32 f64 bool pid result datetime string stationurl buffer qbuffer anydata variant, L <ty>, M <k> <v>, S <name>
 values: n | a (absent) | i<int> | t | f | s<hex> | b<hex> | d<bits> | D<value> | l [ vals ] | m [ k v .. ] | o <cls> [ vals ]
-/
namespace Nx.Schema.Drv
open Nx Nx.Schema

abbrev P (α : Type) := List String → Option (α × List String)

partial def pTy : P Ty
  | "u1" :: r => some (.uint .b1, r) | "u2" :: r => some (.uint .b2, r)
  | "u4" :: r => some (.uint .b4, r) | "u8" :: r => some (.uint .b8, r)
  | "s1" :: r => some (.sint .b1, r) | "s2" :: r => some (.sint .b2, r)
  | "s4" :: r => some (.sint .b4, r) | "s8" :: r => some (.sint .b8, r)
  | "f32" :: r => some (.float, r) | "f64" :: r => some (.double, r)
  | "bool" :: r => some (.bool, r) | "pid" :: r => some (.pid, r)
  | "result" :: r => some (.result, r) | "datetime" :: r => some (.datetime, r)
  | "string" :: r => some (.string, r) | "stationurl" :: r => some (.stationurl, r)
  | "buffer" :: r => some (.buffer, r) | "qbuffer" :: r => some (.qbuffer, r)
  | "anydata" :: r => some (.anydata, r) | "variant" :: r => some (.variant, r)
  | "L" :: r => do let (t, r) ← pTy r; some (.list t, r)
  | "M" :: r => do let (k, r) ← pTy r; let (v, r) ← pTy r; some (.map k v, r)
  | "S" :: n :: r => do let n ← n.toNat?; some (.struct n, r)
  | _ => none

mutual
partial def pItems : P Items
  | "[" :: r => pItemsTail r
  | _ => none
partial def pItemsTail : P Items
  | "]" :: r => some (.nil, r)
  | "F" :: n :: r => do
    let n ← n.toNat?
    let (ty, r) ← pTy r
    match r with
    | d :: r => do
      let (rest, r) ← pItemsTail r
      some (.field n ty (d == "1") rest, r)
    | [] => none
  | "N" :: v :: r => do
    let v ← v.toNat?
    let (body, r) ← pItems r
    let (rest, r) ← pItemsTail r
    some (.nex v body rest, r)
  | "R" :: v :: r => do
    let v ← v.toNat?
    let (body, r) ← pItems r
    let (rest, r) ← pItemsTail r
    some (.rev v body rest, r)
  | _ => none
end

def itemsToArgs : Items → List (Name × Ty)
  | .field n ty _ r => (n, ty) :: itemsToArgs r
  | _ => []

mutual
partial def pVal : P Val
  | "n" :: r => some (.none, r)
  | "a" :: r => some (.absent, r)
  | "t" :: r => some (.bool true, r)
  | "f" :: r => some (.bool false, r)
  | "l" :: "[" :: r => do let (vs, r) ← pVals r; some (.list vs, r)
  | "m" :: "[" :: r => do let (vs, r) ← pVals r; some (.map (pairUp vs), r)
  | "o" :: c :: "[" :: r => do let c ← c.toNat?; let (vs, r) ← pVals r; some (.obj c vs, r)
  | tok :: r =>
    let body := (tok.drop 1).toString
    match tok.toList.head? with
    | some 'i' => do let i ← body.toInt?; some (.int i, r)
    | some 's' => do let b ← fromHex body; some (.str b, r)
    | some 'b' => do let b ← fromHex body; some (.bytes b, r)
    | some 'd' => do let n ← body.toNat?; some (.dbl n, r)
    | some 'D' => do let n ← body.toNat?; some (.dt n, r)
    | _ => none
  | [] => none
partial def pVals : P (List Val)
  | "]" :: r => some ([], r)
  | toks => do let (v, r) ← pVal toks; let (vs, r) ← pVals r; some (v :: vs, r)
partial def pairUp : List Val → List (Val × Val)
  | k :: v :: r => (k, v) :: pairUp r
  | _ => []
end

mutual
partial def showVal : Val → String
  | .none => "n"
  | .absent => "a"
  | .int i => s!"i{i}"
  | .bool true => "t"
  | .bool false => "f"
  | .str s => "s" ++ hexOut s
  | .bytes b => "b" ++ hexOut b
  | .dbl n => s!"d{n}"
  | .dt n => s!"D{n}"
  | .list vs => "l " ++ showVals vs
  | .map kvs => "m [" ++ String.join (kvs.map fun kv => " " ++ showVal kv.1 ++ " " ++ showVal kv.2) ++ " ]"
  | .obj c vs => s!"o {c} " ++ showVals vs
partial def showVals (vs : List Val) : String := "[" ++ String.join (vs.map fun v => " " ++ showVal v) ++ " ]"
end

def pCfg : P (Cfg × Nat)
  | nex :: hdr :: pid :: fuel :: r => do
    let nex ← nex.toNat?; let pid ← pid.toNat?; let fuel ← fuel.toNat?
    some (({ nexVersion := nex, structHeader := hdr == "1", pidSize := pid }, fuel), r)
  | _ => none

def showErr (e : Err) : String := "err " ++ e.name

def pMethod (env : Env) : P (ProtoDef × MethodDef)
  | p :: m :: r => do
    let p ← p.toNat?; let m ← m.toNat?
    let pd ← findProto env p
    let md ← findMethod pd m
    some ((pd, md), r)
  | _ => none

def b01 (b : Bool) : String := if b then "1" else "0"

def step (env : Env) (line : String) : Env × String :=
  let bad := (env, "bad-op")
  match words line with
  | ["reset"] => ({ structs := builtins, protos := [] }, "ok")
  | "struct" :: n :: p :: r =>
    (match n.toNat?, pItems r with
     | some n, some (items, []) =>
       let parent := if p == "-" then none else p.toNat?
       if p != "-" && parent.isNone then bad else
       ({ env with structs := env.structs ++ [{ name := n, parent, items }] }, "ok")
     | _, _ => bad)
  | ["proto", n, id, nr] =>
    (match n.toNat?, id.toNat? with
     | some n, some id => ({ env with protos := env.protos ++ [{ name := n, id, noresponse := nr == "1", methods := [] }] }, "ok")
     | _, _ => bad)
  | "method" :: p :: id :: n :: sup :: r =>
    (match p.toNat?, id.toNat?, n.toNat?, pItems r with
     | some p, some id, some n, some (req, r) =>
       match pItems r with
       | some (resp, []) =>
         let m : MethodDef := { id, name := n, supported := sup == "1", request := itemsToArgs req, response := itemsToArgs resp }
         if (findProto env p).isNone then bad else
         ({ env with protos := env.protos.map fun pd => if pd.name == p then { pd with methods := pd.methods ++ [m] } else pd }, "ok")
       | _ => bad
     | _, _, _, _ => bad)
  | "enc" :: r =>
    (match pCfg r with
     | some ((cfg, fuel), r) =>
       match pTy r with
       | some (ty, r) =>
         match pVal r with
         | some (v, []) => (env, match encode env cfg fuel ty v with | .ok b => "ok " ++ hexOut b | .error e => showErr e)
         | _ => bad
       | none => bad
     | none => bad)
  | "vis" :: r =>
    (match pCfg r with
     | some ((cfg, fuel), r) =>
       match pTy r with
       | some (ty, r) =>
         match pVal r with
         | some (v, []) => (env, "ok " ++ showVal (visible env cfg fuel ty v))
         | _ => bad
       | none => bad
     | none => bad)
  | "dec" :: r =>
    (match pCfg r with
     | some ((cfg, fuel), r) =>
       match pTy r with
       | some (ty, [h]) =>
         match fromHex h with
         | some b => (env, match decode env cfg fuel ty b with
                           | .ok (v, rest) => "ok " ++ showVal v ++ " | " ++ hexOut rest
                           | .error e => showErr e)
         | none => bad
       | _ => bad
     | none => bad)
  | op :: r =>
    if op == "req" || op == "sresp" || op == "visreq" || op == "visresp" then
      match pCfg r with
      | some ((cfg, fuel), r) =>
        match pMethod env r with
        | some ((pd, md), "[" :: r) =>
          match pVals r with
          | some (vs, []) =>
            if op == "req" then
              (env, match clientRequest env cfg fuel pd md vs with
                    | .ok (p, m, b) => s!"ok {p} {m} " ++ hexOut b | .error e => showErr e)
            else if op == "sresp" then
              (env, match serverResponse env cfg fuel md vs with | .ok b => "ok " ++ hexOut b | .error e => showErr e)
            else if op == "visreq" then (env, "ok " ++ showVals (visArgs env cfg fuel md.request vs))
            else (env, "ok " ++ showVals (visArgs env cfg fuel md.response vs))
          | _ => bad
        | _ => bad
      | none => bad
    else if op == "sreq" || op == "cresp" then
      match pCfg r with
      | some ((cfg, fuel), r) =>
        match pMethod env r with
        | some ((_, md), [h]) =>
          match fromHex h with
          | some b =>
            let res := if op == "sreq" then serverRequest env cfg fuel md b else clientResponse env cfg fuel md b
            (env, match res with | .ok vs => "ok " ++ showVals vs | .error e => showErr e)
          | none => bad
        | _ => bad
      | none => bad
    else if op == "maxver" then
      match r with
      | [nex, fuel, n] =>
        (match nex.toNat?, fuel.toNat?, n.toNat? with
         | some nex, some fuel, some n => (env, s!"ok {effMaxVersion env nex fuel n}")
         | _, _, _ => bad)
      | _ => bad
    else if op == "dispatch" then
      match r with
      | [p, id, impl] =>
        (match p.toNat?, id.toNat? with
         | some p, some id =>
           (match findProto env p with
            | some pd => (env, match dispatch pd (fun _ => impl == "1") id with
                               | .notImplemented => "ok NotImplemented" | .run m => s!"ok run {m.name}")
            | none => (env, "ok NotImplemented"))
         | _, _ => bad)
      | _ => bad
    else if op == "rmccfg" then
      match r with
      | [hdr, minor] =>
        (match minor.toNat? with
         | some minor => (env, "ok " ++ b01 (rmcClientCfg { nexVersion := 0, structHeader := hdr == "1", pidSize := 4 } minor).structHeader)
         | none => bad)
      | _ => bad
    else if op == "wf" then
      (env, s!"ok {b01 (wfStructs env)} {b01 (wfRevisions env)} {b01 (wfProtos env)}")
    else if op == "wfrev" then
      match r with
      | [n] => (match n.toNat? with
                | some n => (match lookup env n with
                             | some d => (env, "ok " ++ b01 d.items.revAscending)
                             | none => (env, "err KeyError"))
                | none => bad)
      | _ => bad
    else bad
  | [] => bad

def initEnv : Env := { structs := builtins, protos := [] }

end Nx.Schema.Drv
