"""C16 helper family: CIPHERTEXT-TARGETED tickets (generator axis `shape` of the kerberos family).

RC4 is an xor with a key stream that depends on the key only, so for a given key the field values of a ticket can
be CHOSEN such that chosen positions of the ciphertext take chosen values: plaintext[off:off+4] = keystream[off:off+4]
xor u32le(value). Random field values practically never give a ciphertext that *looks like* something (a small
length word at offset 0, a length word that exactly accounts for the rest of the ticket at offset 20, two buffers
that tile the ciphertext ...); constructed ones do, for every key. The family builds, for

  * server tickets of version 0 (envelope under the key) and version 1 (u32 16 | ticket key | u32 len | envelope under
    md5(key | ticket key)); for version 1 the 16 ticket-key bytes handed out by the pinned `secrets.token_bytes` are
    shaped as well (ticket offsets 4..19) and the targets apply to the inner envelope,
  * client tickets (session key | id | buffer), under version setting 0 and 1,
  * key sizes 16/32, id widths 4/8, several keys (16, 32 and odd lengths),

tickets whose ciphertext carries
  - one chosen u32 (0, 16, 32, len-k for k in 0,4,8,16,20,24,28,40,44; len = envelope length and, for version 1,
    the whole ticket's length) at one of the offsets 0, 4, 8, 12, 16, 20, 24, 28,
  - a pair: offset 0 in {0, 16, 32} together with any of the values at offset 20 (this contains the exact layout of
    the other version: u32 16 at 0, len-24 at 20),
  - a buffer chain: u32 a at offset 0 and u32 (len - a - 8) resp. (len - a - 24) at offset 4 + a (two length-prefixed
    buffers that tile the ciphertext / the ciphertext without its tag) for a in 0,4,8,12,16,20,32.
Positions that are not free (the tag; the length word of a client ticket's buffer) are left alone and counted.

Oracles on the real code (property C16): the ticket is issued without error, equals the reference construction for
the randomness of that call, really carries the chosen words (the generator checks itself), and decrypts under its
own key and its own settings to identical fields. Every encrypt/decrypt is also a line for the compiled Lean model;
decryption under the OTHER version setting is a differential line (model vs code), not an oracle.
"""
import hashlib, struct
from nintendo.nex import kerberos, common
import nexval_gen as G


class ChosenSecrets:
    """stands in for the `secrets` module inside nintendo.nex.kerberos: hands out the bytes queued for the next call"""
    def __init__(self, rng): self.rng, self.queue, self.calls = rng, [], []
    def token_bytes(self, n=32):
        b = self.queue.pop(0) if self.queue else self.rng.randbytes(n)
        if len(b) != n: b = (b + self.rng.randbytes(n))[:n]
        self.calls.append((n, b))
        return b
    def __getattr__(self, name):
        import secrets
        return getattr(secrets, name)


def _u32(v): return struct.pack("<I", v & 0xFFFFFFFF)


def _values(le, total=None):
    vs = [0, 16, 32]
    for n in ([le] if total is None else [le, total]):
        vs += [n - k for k in (0, 4, 8, 16, 20, 24, 28, 40, 44) if n - k >= 0]
    out = []
    for v in vs:
        if v not in out: out.append(v)
    return out


OFFSETS = (0, 4, 8, 12, 16, 20, 24, 28)


def target_sets(le, total=None):
    """list of (tag, {offset: u32 value}) in coordinates of the envelope"""
    vs = _values(le, total)
    ts = []
    for off in OFFSETS:
        for v in vs: ts.append(("single@%d" % off, {off: v}))
    for v0 in (16, 0, 32):
        for v in vs: ts.append(("pair@0+20", {0: v0, 20: v}))
    for a in (0, 4, 8, 12, 16, 20, 32):
        for tail in (8, 24):
            if le - a - tail >= 0: ts.append(("chain", {0: a, 4 + a: le - a - tail}))
    return ts


def shape_plain(plain, free, stream, targets):
    """overwrite the free bytes of `plain` such that plain xor stream carries the targets; returns (plain, hit, missed)"""
    p = bytearray(plain)
    hit, missed = {}, {}
    for off, v in sorted(targets.items()):
        if off + 4 <= len(p) and all(free[off:off + 4]):
            w = _u32(v)
            for i in range(4): p[off + i] = stream[off + i] ^ w[i]
            hit[off] = v
        else: missed[off] = v
    return bytes(p), hit, missed


def shape_tickets(ctx, B, violation, ref_rc4, ref_envelope, wrap, quick):
    rng = ctx.rng
    saved = kerberos.secrets
    chosen = ChosenSecrets(rng)
    kerberos.secrets = chosen
    stats = {"tickets": 0, "targets_hit": 0, "targets_not_free": 0, "exact_other_version_layout": 0}
    nkeys = 3 if quick else 12
    try:
        for ks in (16, 32):
            for ps in (4, 8):
                for ver in (0, 1):
                    S = G.make_settings(pid_size=ps, key_size=ks, ticket_version=ver)
                    S_other = G.make_settings(pid_size=ps, key_size=ks, ticket_version=1 - ver)
                    keys = [rng.randbytes(16), rng.randbytes(32)] + [rng.randbytes(rng.randint(1, 64)) for _ in range(nkeys - 2)]
                    for key in keys:
                        _server(ctx, B, violation, ref_rc4, ref_envelope, wrap, chosen, stats, S, S_other, ks, ps, ver, key)
                        _client(ctx, B, violation, ref_rc4, ref_envelope, wrap, chosen, stats, S, ks, ps, ver, key)
    finally:
        kerberos.secrets = saved
    for k, v in stats.items(): ctx.extra["ciphertext_targeted_" + k] = v


def _carries(env, hit):
    return all(env[o:o + 4] == _u32(v) for o, v in hit.items())


def _server(ctx, B, violation, ref_rc4, ref_envelope, wrap, chosen, stats, S, S_other, ks, ps, ver, key):
    rng = ctx.rng
    P = 8 + ps + ks
    le = P + 16
    total = le if ver == 0 else 24 + le
    free = [True] * P
    stream0 = ref_rc4(key, bytes(P)) if ver == 0 else None
    tsets = target_sets(le, None if ver == 0 else total)
    for ti, (tag, targets) in enumerate(tsets):
        # version 1: the ticket key (ticket offsets 4..19) is shaped too, one pattern per target set in rotation
        tk = b""
        tkshape = "-"
        if ver == 1:
            tk = bytearray(rng.randbytes(16))
            vs = _values(le, total)
            m = ti % 4
            if m == 1: tk[0:4] = _u32(16); tkshape = "tk0=16"
            elif m == 2:
                o = rng.choice([0, 4, 12]); v = rng.choice(vs); tk[o:o + 4] = _u32(v); tkshape = "tk%d=%d" % (o, v)
            elif m == 3:
                tk[0:4] = _u32(rng.choice([0, 4, 8])); tk[12:16] = _u32(rng.choice(vs)); tkshape = "tk-chain"
            tk = bytes(tk)
            stream = ref_rc4(hashlib.md5(key + tk).digest(), bytes(P))
            chosen.queue[:] = [tk]
        else: stream = stream0
        plain, hit, missed = shape_plain(rng.randbytes(P), free, stream, targets)
        ts = struct.unpack_from("<Q", plain, 0)[0]
        pid = int.from_bytes(plain[8:8 + ps], "little")
        sk = plain[8 + ps:]
        st = kerberos.ServerTicket(); st.timestamp, st.source, st.session_key = common.DateTime(ts), pid, sk
        n0 = len(chosen.calls)
        real = wrap(lambda: G.hx(st.encrypt(key, S)))
        drawn = chosen.calls[n0:]
        chosen.queue[:] = []
        stats["tickets"] += 1; stats["targets_hit"] += len(hit); stats["targets_not_free"] += len(missed)
        B.add("st.enc %d %d %d %s %s %d %d %s" % (ks, ps, ver, G.hx(key), G.hx(tk), ts, pid, G.hx(sk)), real, ("st.enc", "shape-" + tag.split("@")[0]))
        info = {"how": "ciphertext-targeted server ticket: field values chosen (plaintext = RC4 key stream xor wanted word) such that the envelope carries the words in `envelope_words`"
                       + ("; version 1: kerberos.secrets.token_bytes pinned to hand out `ticket_key`" if ver == 1 else ""),
                "key_size": ks, "pid_size": ps, "version": ver, "key": key.hex(), "ticket_key": tk.hex(), "ticket_key_shape": tkshape,
                "timestamp": ts, "source": pid, "session_key": sk.hex(), "envelope_words": {str(o): v for o, v in hit.items()}, "family": tag, "real": real[:400]}
        e = ref_envelope(key if ver == 0 else hashlib.md5(key + tk).digest(), plain)
        want = e if ver == 0 else _u32(16) + tk + _u32(len(e)) + e
        if [n for n, _ in drawn] != ([16] if ver == 1 else []):
            violation("server-ticket-randomness-draws-shaped:v%d" % ver, "ServerTicket.encrypt drew randomness %r times" % [n for n, _ in drawn], info); continue
        if real != "ok " + G.hx(want):
            violation("server-ticket-reference-shaped:%d/%d/v%d" % (ks, ps, ver), "a server ticket with chosen field values differs from the reference construction (or was refused)", dict(info, reference=want.hex())); continue
        if not _carries(e, hit):
            ctx.corr_break("c16-shape-generator", "the reference envelope does not carry the targeted words (harness error)", info); continue
        if ver == 0 and hit.get(0) == 16 and hit.get(20) == le - 24: stats["exact_other_version_layout"] += 1
        def sdec(Sx=S):
            d = kerberos.ServerTicket.decrypt(want, key, Sx)
            return "%d %d %s" % (d.timestamp.value(), d.source, G.hx(d.session_key))
        rd = wrap(sdec)
        B.add("st.dec %d %d %d %s %s" % (ks, ps, ver, G.hx(key), G.hx(want)), rd, ("st.dec", "shape-" + tag.split("@")[0]))
        if rd != "ok %d %d %s" % (ts, pid, G.hx(sk)):
            violation("server-ticket-roundtrip-shaped:%d/%d/v%d" % (ks, ps, ver),
                      "a genuine server ticket whose ciphertext carries chosen words (%s) does not decrypt under its own key and version setting to its fields: %s" % (sorted(hit.items()), rd[:80]),
                      dict(info, ciphertext=want.hex(), got=rd))
            continue
        if ti % 3 == 0:
            ro = wrap(lambda: sdec(S_other))
            B.add("st.dec %d %d %d %s %s" % (ks, ps, 1 - ver, G.hx(key), G.hx(want)), ro, ("st.dec", "shape-other-version"))


def _client(ctx, B, violation, ref_rc4, ref_envelope, wrap, chosen, stats, S, ks, ps, ver, key):
    rng = ctx.rng
    lens = [0, 4, 16, rng.randint(1, 40)]
    for n in lens:
        P = ks + ps + 4 + n
        le = P + 16
        free = [True] * (ks + ps) + [False] * 4 + [True] * n
        stream = ref_rc4(key, bytes(P))
        tsets = target_sets(le)
        if n != 0: tsets = [t for i, t in enumerate(tsets) if t[0] != "single@0" and (i + n) % 3 == 0] + [("pair@0+20", {0: 16, 20: le - 24})]
        for ti, (tag, targets) in enumerate(tsets):
            base = bytearray(rng.randbytes(P)); base[ks + ps:ks + ps + 4] = _u32(n)
            plain, hit, missed = shape_plain(bytes(base), free, stream, targets)
            sk = plain[:ks]
            pid = int.from_bytes(plain[ks:ks + ps], "little")
            internal = plain[ks + ps + 4:]
            t = kerberos.ClientTicket(); t.session_key, t.target, t.internal = sk, pid, internal
            n0 = len(chosen.calls)
            real = wrap(lambda: G.hx(t.encrypt(key, S)))
            stats["tickets"] += 1; stats["targets_hit"] += len(hit); stats["targets_not_free"] += len(missed)
            B.add("ct.enc %d %d %s %s %d %s" % (ks, ps, G.hx(key), G.hx(sk), pid, G.hx(internal)), real, ("ct.enc", "shape-" + tag.split("@")[0]))
            info = {"how": "ciphertext-targeted client ticket: field values chosen (plaintext = RC4 key stream xor wanted word) such that the ciphertext carries the words in `envelope_words`",
                    "key_size": ks, "pid_size": ps, "version": ver, "key": key.hex(), "session_key": sk.hex(), "target": pid, "internal": internal.hex(),
                    "envelope_words": {str(o): v for o, v in hit.items()}, "family": tag, "real": real[:400]}
            want = ref_envelope(key, plain)
            if len(chosen.calls) != n0:
                violation("client-ticket-drew-randomness-shaped", "ClientTicket.encrypt drew randomness", info); continue
            if real != "ok " + G.hx(want):
                violation("client-ticket-reference-shaped:%d/%d" % (ks, ps), "a client ticket with chosen field values differs from the reference construction (or was refused)", dict(info, reference=want.hex())); continue
            if not _carries(want, hit):
                ctx.corr_break("c16-shape-generator", "the reference envelope does not carry the targeted words (harness error)", info); continue
            if hit.get(0) == 16 and hit.get(20) == le - 24: stats["exact_other_version_layout"] += 1
            def cdec():
                d = kerberos.ClientTicket.decrypt(want, key, S)
                return "%s %d %s" % (G.hx(d.session_key), d.target, G.hx(d.internal))
            rd = wrap(cdec)
            B.add("ct.dec %d %d %s %s" % (ks, ps, G.hx(key), G.hx(want)), rd, ("ct.dec", "shape-" + tag.split("@")[0]))
            if rd != "ok %s %d %s" % (G.hx(sk), pid, G.hx(internal)):
                violation("client-ticket-roundtrip-shaped:%d/%d/v%d" % (ks, ps, ver),
                          "a genuine client ticket whose ciphertext carries chosen words (%s) does not decrypt under its own key and settings to its fields: %s" % (sorted(hit.items()), rd[:80]),
                          dict(info, ciphertext=want.hex(), got=rd))
