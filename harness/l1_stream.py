"""L1 replay of sessions over STREAM transports (PRUDPLite over TCP / WebSocket; `PRUDPSocketTransport`,
`PRUDPClientTransport` over a stream) — the counterpart of l1_trace.py / l1_corr.py for datagram sessions.

The simulated streams (harness/sim.py `FakeStream`) log, in the real order of execution,
    ("sopen",  t, client_addr, server_addr)      a stream connection came into being
    ("swrite", t, local, remote, data)           one entry per write() call of an endpoint (followed by what the network did with
                                                 its chunks: "stx" delivered / "sdrop" black hole / "sbreak" the connection broke at it)
    ("swfail", t, local, remote, data)           a write() on a stream that is already gone (raises)
    ("sread",  t, local, remote, chunk)          one entry per chunk an endpoint READ (chunks need not be packet-aligned)
    ("sgone",  t, local, remote)                 the reader learnt that the stream is gone
and the session harnesses log the application calls ("app", ...) / deliveries / EOFs as for datagram sessions.

build(sess)        -> op lines for `nxdrv_C02` for a two-endpoint session (prudp_session.run_session, crash_session.run, ...)
build_server(sess) -> op lines for the SERVER transport of a multi-client session (multi_session.run)
compare(drv, sess) / compare_server(drv, sess): replay and compare, per endpoint: every write (bytes, destination, virtual instant,
order), every delivery, the EOF instant, the handshake outcome.

Order rules (found empirically, like the datagram rule in l1_trace.py): a simulated stream has no latency, so a chunk read at
instant t is the consequence of something that happened at t — timers due at t have fired before it (`advance ep t`, then the read);
the log order is the real order of execution and is kept per endpoint.

A write that BREAKS the stream (`sbreak`): the writer's `transport.send` raises a StreamError. The model has no "the n-th write of
this operation fails": when the failing write is the first write of the operation that made it, the link is taken down in the model
just before that operation (same behaviour: nothing written, cleanup); otherwise the writer's trace is cut before that operation and
only the prefix is compared (counted as `prefix`).
"""
import l1_trace
from l1_trace import env_line, hx
import prudp_session as ps

CHUNK_KINDS = ("stx", "sdrop", "sbreak")


def ticks(t):
    """virtual time in ticks of 2^-30 s. Hostile scripts may act at instants that are not on the grid (an un-quantised sleep): the
    tick before such an instant is used — timers of the endpoint are set at grid instants, so the order of events is the same"""
    return int(t * 1073741824.0 // 1)


def is_stream(sess):
    cfg = getattr(sess, "cfg", None)
    if cfg is not None:
        return cfg.transport != "udp"
    return getattr(sess.spec, "transport", "udp") != "udp"


class _Side:
    """op lines of one endpoint under construction"""

    def __init__(self, name):
        self.name = name
        self.last_op = None        # index in `lines` of the last op line of this endpoint
        self.real_at_last_op = 0
        self.last_tick = -1
        self.cut = False           # trace cut before an operation whose 2nd.. write broke the stream
        self.gone = False          # the endpoint's transport is over (client transport whose stream went away)
        self.prefix = False


class _Builder:
    def __init__(self):
        self.lines, self.kinds = [], []
        self.real = {"c": [], "s": []}
        self.sides = {}

    def side(self, key, name):
        if key not in self.sides:
            self.sides[key] = _Side(name)
        return self.sides[key]

    def add(self, line, kind, sd=None):
        self.lines.append(line); self.kinds.append(kind)
        if sd is not None and kind[0] in ("op", "advance"):
            sd.last_op = len(self.lines) - 1
            sd.real_at_last_op = len(self.real[kind[1]])

    def insert(self, at, line, kind):
        self.lines.insert(at, line); self.kinds.insert(at, kind)
        for s in self.sides.values():
            if s.last_op is not None and s.last_op >= at:
                s.last_op += 1

    def advance(self, sd, key, tk):
        self.add("advance %s %d" % (sd.name, tk), ("advance", key), sd)
        sd.last_tick = max(sd.last_tick, tk)

    def truncate(self, sd, key):
        """drop the last operation of this endpoint (and what it wrote): only the prefix before it is compared"""
        at = sd.last_op
        # an `advance` immediately before it at the same instant stays (harmless: the prefix includes timers up to there)
        keep_l, keep_k = [], []
        for i, (l, k) in enumerate(zip(self.lines, self.kinds)):
            if i >= at and len(k) > 1 and k[1] == key and k[0] in ("op", "advance"):
                continue
            keep_l.append(l); keep_k.append(k)
        self.lines[:], self.kinds[:] = keep_l, keep_k
        del self.real[key][sd.real_at_last_op:]
        sd.cut = sd.prefix = True
        for k2, s in self.sides.items():
            idx = [i for i, k in enumerate(self.kinds) if len(k) > 1 and k[1] == k2 and k[0] in ("op", "advance")]
            s.last_op = idx[-1] if idx else None


def _lite_data(data):
    """(source port, dest port) of a lite DATA packet that is not an acknowledgement, else None (only the first packet of a write)"""
    if len(data) < 12 or data[0] != 0x80:
        return None
    tf = data[8] | (data[9] << 8)
    if tf & 0xF != 2 or (tf >> 4) & (1 | 0x200):
        return None
    return data[5], data[6]


class _Deferred:
    """application sends waiting for their first write. `send` / `send_unreliable` pass one checkpoint (the substream's lock) before
    their first write, so the call is replayed at the position of that write: the first DATA packet of that connection that is
    neither a fragment still owed by an earlier send nor a retransmission (same bytes written before) — or, if the call wrote nothing,
    at the connection's next application call / the end of the session."""

    def __init__(self, fragment_size):
        self.frag = max(1, fragment_size)
        self.q, self.owed, self.seen = {}, {}, set()

    def push(self, conn, tk, line, nbytes, reliable=True):
        self.q.setdefault(conn, []).append((tk, line, max(1, -(-nbytes // self.frag)) if reliable else 1))

    def on_data_write(self, conn, dest, data):
        if (dest, data) in self.seen:
            return []
        self.seen.add((dest, data))
        if self.owed.get(conn, 0) > 0:
            self.owed[conn] -= 1
            return []
        if self.q.get(conn):
            tk, line, n = self.q[conn].pop(0)
            self.owed[conn] = n - 1
            return [(tk, line)]
        return []

    def drain(self, conn=None):
        out = []
        for c in ([conn] if conn is not None else list(self.q)):
            out += [(tk, line) for tk, line, n in self.q.get(c, [])]
            self.q[c] = []
        return out


def _write_fate(log, i):
    """what became of the write logged at position i: 'ok' | 'break'"""
    local = log[i][2]
    j = i + 1
    while j < len(log) and log[j][0] in CHUNK_KINDS and log[j][2] == local:
        if log[j][0] == "sbreak":
            return "break"
        j += 1
    return "ok"


def build(sess, name="x"):
    """two-endpoint session over a stream transport -> (lines, kinds, real, info) or None"""
    cfg = sess.cfg
    if cfg.transport == "udp":
        return None
    l1_trace.sess_epoch[0] = sess.epoch
    saddr = sess.addr["s"]
    log = sess.netlog
    caddr = None
    for e in log:
        if e[0] == "sopen":
            caddr = e[2]; break
    if caddr is None:
        return None
    E, ES, C, S = name + "envc", name + "envs", name + "c", name + "s"
    cfg_s = getattr(sess, "cfg_s", cfg)
    b = _Builder()
    key_s = getattr(sess, "server_key", b"server key").hex() if cfg_s.credentials else "none"
    for l in (env_line(E, cfg, sess.settings), env_line(ES, cfg_s, getattr(sess, "settings_s", sess.settings)),
              "cli %s %s %s %d %s %d" % (C, E, caddr[0], caddr[1], saddr[0], saddr[1]),
              "srv %s %s %s %d 1" % (S, ES, saddr[0], saddr[1]),
              "bind %s 1 10 %s" % (S, key_s)):
        b.add(l, ("setup", None))
    sc, ss = b.side("c", C), b.side("s", S)
    srv_key = "%s:%d:%d:%d" % (caddr[0], caddr[1], 31, 10)      # stream transports: 32 ports, the client binds the highest free one
    rc = sess.rnd.get("c")
    rs = sess.rnd.get("s", (1, 0, 0))
    creds = sess.creds
    nopen = 0
    end_tick = ticks(sess.end_time)
    dfr = {"c": _Deferred(cfg.fragment_size), "s": _Deferred(cfg_s.fragment_size)}

    def emit(key, items):
        sd = sc if key == "c" else ss
        for tk0, line in items:
            if not sd.cut and not (key == "c" and sd.gone):
                t1 = max(tk0, sd.last_tick)
                b.advance(sd, key, t1)
                b.add(line % t1, ("op", key, t1), sd)

    def flush(key):
        emit(key, dfr[key].drain())

    for i, e in enumerate(log):
        k = e[0]
        if k == "app" and e[2] in dfr:
            flush(e[2])
        if k == "app" and e[3] == "reconnect":
            end_tick = ticks(e[1]) - 1
            break
        if k == "sopen":
            nopen += 1
            if nopen > 1 or e[2] != caddr or e[3] != saddr:
                return None          # further stream connections: not a two-endpoint session
            b.add("link %s %s %d 1" % (S, caddr[0], caddr[1]), ("setup2", None))
        elif k in ("swrite", "swfail"):
            _, t, local, remote, data = e
            key = "c" if local == caddr else "s"
            sd = sc if key == "c" else ss
            if sd.cut:
                continue
            tk = ticks(t)
            if _lite_data(data) is not None:
                emit(key, dfr[key].on_data_write(key, remote, data))
            if tk > sd.last_tick and not sd.gone:
                b.advance(sd, key, tk)          # a write at an instant at which nothing was done to this endpoint: a timer
            if k == "swfail":
                continue                        # the stream is gone already (the model's link is down): nothing is written
            if _write_fate(log, i) == "break":
                if sd.last_op is None:
                    return None
                if len(b.real[key]) == sd.real_at_last_op:
                    # first write of its operation: the same as the link being down when the operation starts
                    b.insert(sd.last_op, "link %s %s %d 0" % (sd.name, caddr[0], caddr[1]), ("setup2", None))
                else:
                    b.truncate(sd, key)
                continue
            b.real[key].append((tk, "%s:%d" % remote, hx(data)))
        elif k == "sread":
            _, t, local, remote, data = e
            key = "c" if local == caddr else "s"
            sd = sc if key == "c" else ss
            if sd.cut or sd.gone:
                continue
            tk = ticks(t)
            b.advance(sd, key, tk)
            if key == "c":
                b.add("dgram %s %d %s %d %s" % (C, tk, remote[0], remote[1], hx(data)), ("op", "c", tk), sd)
            else:
                b.add("dgram %s %d %s %d %s %d %d %d" % (S, tk, remote[0], remote[1], hx(data), rs[0], rs[1], rs[2]), ("op", "s", tk), sd)
        elif k == "sclose":
            # the stream is closed (by either end, or broken): from now on every write of either end raises a StreamError
            for sd, key in ((sc, "c"), (ss, "s")):
                if not sd.cut:
                    b.add("link %s %s %d 0" % (sd.name, caddr[0], caddr[1]), ("setup2", None))
        elif k == "sgone":
            _, t, local, remote = e
            tk = ticks(t)
            if local == saddr:
                if not ss.cut:
                    b.advance(ss, "s", tk)
                    b.add("link %s %s %d 0" % (S, caddr[0], caddr[1]), ("setup2", None))
            elif not sc.cut and not sc.gone:
                # the client transport's read loop raises: its task group collapses, `async with client` runs cleanup()
                b.advance(sc, "c", tk)
                b.add("link %s %s %d 0" % (C, caddr[0], caddr[1]), ("setup2", None))
                b.add("aexit %s %d c" % (C, tk), ("op", "c", tk), sc)
                sc.gone = True
                sc.gone_tick = tk
        elif k == "app":
            _, t, side, op, sub, data = e
            tk = ticks(t)
            sd = sc if side == "c" else ss
            if sd.cut or (side == "c" and sd.gone):
                continue
            ep, conn = (C, "c") if side == "c" else (S, srv_key)
            if op == "connect":
                if rc is None:
                    rc = getattr(sess, "rnd_c_fallback", None)
                    if rc is None:
                        return None
                cr = "none" if creds is None else "%d %d %s %s" % (creds.pid, creds.cid, hx(creds.ticket.session_key), hx(creds.ticket.internal))
                b.add("connect %s %d 1 10 %d %d %d %s" % (C, tk, rc[0], rc[1], rc[2], cr), ("op", "c", tk), sd)
                sd.last_tick = max(sd.last_tick, tk)
            elif op in ("send", "sendu"):
                if op == "send":
                    dfr[side].push(side, tk, "send %s %%d %s %d %s" % (ep, conn, sub, hx(data)), len(data))
                else:
                    dfr[side].push(side, tk, "sendu %s %%d %s %s" % (ep, conn, hx(data)), len(data), False)
            elif op == "preset":
                b.add("preset %s %s %d %d" % (ep, conn, sub, data), ("setup2", None))
            elif op == "close":
                b.advance(sd, side, tk)
                b.add("close %s %d %s" % (ep, tk, conn), ("op", side, tk), sd)
            elif op == "disconnect":
                b.advance(sc, "c", tk)
                b.add("disconnect %s %d c" % (C, tk), ("op", "c", tk), sc)
            elif op == "closed":
                b.advance(sc, "c", tk)
                b.add("aexit %s %d c" % (C, tk), ("op", "c", tk), sc)
            elif op == "done":
                b.advance(ss, "s", tk)
                b.add("done %s %d %s" % (S, tk, srv_key), ("op", "s", tk), ss)
            elif op == "raised":
                b.advance(ss, "s", tk)
                b.add("aexit %s %d %s" % (S, tk, srv_key), ("op", "s", tk), ss)
                b.add("done %s %d %s" % (S, tk, srv_key), ("op", "s", tk), ss)
    flush("c"); flush("s")
    if not sc.cut:
        b.advance(sc, "c", end_tick)
    if not ss.cut:
        b.advance(ss, "s", end_tick)
    info = {"prefix": [k for k, s in b.sides.items() if s.prefix], "client_gone": getattr(sc, "gone_tick", None)}
    return b.lines, b.kinds, b.real, info


def compare(drv, sess, name="x", want_lines=False):
    """as l1_corr.compare, for a two-endpoint session over a stream transport"""
    import l1_corr
    bl = build(sess, name)
    if bl is None:
        return {"ok": True, "skipped": True, "diffs": [], "lines": 0}
    lines, kinds, real, info = bl
    outs = drv.batch(lines)
    tx, other, errs = l1_trace.model_stream(lines, kinds, outs)
    diffs = []
    for line, out in errs:
        diffs.append({"kind": "driver", "line": line[:200], "model": out})
    for side in "cs":
        r, m = real[side], tx[side]
        for i, (a, b2) in enumerate(zip(r, m)):
            if a != b2:
                diffs.append({"kind": "tx", "endpoint": side, "index": i, "real": a, "model": b2})
                break
        else:
            if len(r) != len(m):
                extra = (r[len(m):] or m[len(r):])[0]
                diffs.append({"kind": "tx-count", "endpoint": side, "real_n": len(r), "model_n": len(m), "first_extra": extra,
                              "extra_in": "real" if len(r) > len(m) else "model"})
    re_, me = l1_corr.real_events(sess), l1_corr.model_events(other)
    cutoff = {"c": None, "s": None}
    slack = {"c": 0, "s": 0}
    for e in sess.netlog:
        if e[0] == "app" and e[2] == "c" and e[3] == "disconnect" and cutoff["c"] is None: cutoff["c"] = ticks(e[1])
        if e[0] == "app" and e[2] == "s" and e[3] in ("done", "raised") and cutoff["s"] is None: cutoff["s"] = ticks(e[1]); slack["s"] = 1 if e[3] == "raised" else 0
    gone = info["client_gone"]
    for key in set(re_["deliver"]) | set(me["deliver"]):
        if key[0] in info["prefix"]:
            continue
        md = [d for (tk, d) in me["deliver"].get(key, []) if cutoff[key[0]] is None or tk < cutoff[key[0]] + slack[key[0]]]
        rd = re_["deliver"].get(key, [])
        if key[0] == "c" and gone is not None:
            # the client's task group collapsed with the transport's exception: its readers were cancelled at that instant; what the
            # model delivers AT that very instant (a stream has no latency) may or may not have been picked up by them
            sure = [d for (tk, d) in me["deliver"].get(key, []) if (cutoff["c"] is None or tk < cutoff["c"]) and tk < gone]
            if len(sure) <= len(rd) <= len(md) and md[:len(rd)] == rd:
                continue
        if rd != md:
            diffs.append({"kind": "deliver", "endpoint": key[0], "substream": key[1],
                          "real": re_["deliver"].get(key, [])[:4], "model": md[:4],
                          "real_n": len(re_["deliver"].get(key, [])), "model_n": len(md)})
    for side in "cs":
        if side in info["prefix"]:
            continue
        if re_["eof"].get(side) != me["eof"].get(side):
            if side == "c" and gone is not None and re_["eof"].get(side) is None and me["eof"].get(side) is not None and me["eof"][side] >= gone:
                continue        # cancelled readers observe no EOF
            if re_["eof"].get(side) is None and me["eof"].get(side) is not None and cutoff[side] is not None and me["eof"][side] >= cutoff[side]:
                continue
            if re_["eof"].get(side) is None and not re_["hs"]:
                continue
            diffs.append({"kind": "eof", "endpoint": side, "real": re_["eof"].get(side), "model": me["eof"].get(side)})
    if re_["hs"] is not None and me["hs"] is not None and re_["hs"] != me["hs"]:
        diffs.append({"kind": "handshake", "real": re_["hs"], "model": me["hs"]})
    res = {"ok": not diffs, "diffs": diffs, "lines": len(lines), "tx": {k: len(v) for k, v in real.items()}, "stream": True,
           "prefix": info["prefix"], "reads": sum(1 for l in lines if l.startswith("dgram ")),
           "events": {"deliver": sum(len(v) for v in re_["deliver"].values()), "eof": len(re_["eof"]), "hs": re_["hs"]}}
    if want_lines:
        res["trace"] = list(zip(lines, outs))
    return res


def build_server(sess, name="m", late_reads_after_timers=False):
    """op lines for the SERVER transport of a multi-client session over a stream transport (harness/multi_session.py and the
    attack scenarios built on it): every stream connection to the server (victims, hostile third parties), every chunk the server
    read from each, every application call of its handlers. Returns (lines, kinds, real, info) or None."""
    spec = sess.spec
    if spec.transport == "udp":
        return None
    l1_trace.sess_epoch[0] = sess.epoch
    saddr = ps.SERVER
    cfg = ps.Cfg(transport="lite", version=spec.server_version, fragment_size=spec.fragment_size, resend_timeout=spec.resend_timeout,
                 resend_limit=spec.resend_limit, ping_timeout=spec.ping_timeout)
    ES, S = name + "envs", name + "s"
    b = _Builder()
    b.add(env_line(ES, cfg, sess.settings_s), ("setup", None))
    b.add("srv %s %s %s %d 1" % (S, ES, saddr[0], saddr[1]), ("setup", None))
    for vpx in spec.vports:
        vp, ty = (vpx, 10) if isinstance(vpx, int) else tuple(vpx)
        b.add("bind %s %d %d %s" % (S, vp, ty, spec.key.hex() if getattr(spec, "key", None) else "none"), ("setup", None))
    ss = b.side("s", S)
    rnd = (1, 0xABCDEF01, 0x5A)       # multi_session pins the library's random draws; lite: initial unreliable id 1
    log = sess.netlog
    dfr = _Deferred(spec.fragment_size)
    wrote_at, rbuf, stype = {}, {}, {}

    def emit(items):
        for tk0, line in items:
            t1 = max(tk0, ss.last_tick)
            b.advance(ss, "s", t1)
            b.add(line % t1, ("op", "s", t1), ss)

    for i, e in enumerate(log):
        k = e[0]
        if ss.cut:
            break
        if k == "app" and e[2] == "s":
            emit(dfr.drain(e[4]))
        if k == "sopen" and e[3] == saddr:
            b.add("link %s %s %d 1" % (S, e[2][0], e[2][1]), ("setup2", None))
        elif k in ("swrite", "swrite3", "swfail") and e[2] == saddr:
            _, t, local, remote, data = e
            tk = ticks(t)
            pd = _lite_data(data)
            if pd is not None:
                emit(dfr.on_data_write((remote, pd[1], 10), remote, data))
            if tk > ss.last_tick:
                b.advance(ss, "s", tk)
            if k == "swfail":
                continue
            if _write_fate(log, i) == "break":
                if ss.last_op is None:
                    return None
                if len(b.real["s"]) == ss.real_at_last_op:
                    b.insert(ss.last_op, "link %s %s %d 0" % (S, remote[0], remote[1]), ("setup2", None))
                else:
                    b.truncate(ss, "s")
                continue
            b.real["s"].append((tk, "%s:%d" % remote, hx(data)))
        elif k in ("swrite", "swrite3") and e[3] == saddr:
            wrote_at[e[2]] = ticks(e[1])
        elif k == "sread" and e[2] == saddr:
            _, t, local, remote, data = e
            tk = ticks(t)
            # written at this very instant (a stream without latency): the read is the consequence of something that happened at this
            # instant, the server's timers due now have fired before it. Written earlier (a stream that delivers later, by a timer of
            # the event loop): as for datagrams, the read is handled before the timers due at the same instant
            # the stream type of each peer port, from the lite headers the server read (the handlers' log does not carry it)
            buf = rbuf.get(remote, b"") + data
            while len(buf) >= 12 and buf[0] == 0x80 and len(buf) >= 12 + buf[1] + (buf[2] | buf[3] << 8):
                stype.setdefault((remote, buf[5]), buf[4] >> 4)
                buf = buf[12 + buf[1] + (buf[2] | buf[3] << 8):]
            rbuf[remote] = buf if buf[:1] == b"\x80" else b""
            b.advance(ss, "s", tk if (wrote_at.get(remote, tk) >= tk or late_reads_after_timers) else tk - 1)
            b.add("dgram %s %d %s %d %s %d %d %d" % (S, tk, remote[0], remote[1], hx(data), rnd[0], rnd[1], rnd[2]), ("op", "s", tk), ss)
        elif k == "sclose" and saddr in (e[2], e[3]):
            peer = e[3] if e[2] == saddr else e[2]
            b.add("link %s %s %d 0" % (S, peer[0], peer[1]), ("setup2", None))
        elif k == "sgone" and e[2] == saddr:
            b.advance(ss, "s", ticks(e[1]))
            b.add("link %s %s %d 0" % (S, e[3][0], e[3][1]), ("setup2", None))
        elif k == "app" and e[2] == "s":
            _, t, side, op, key, data = e
            tk = ticks(t)
            conn = "%s:%d:%d:%d" % (key[0][0], key[0][1], key[1], stype.get((key[0], key[1]), key[2]))
            if op == "send":
                dfr.push((key[0], key[1], 10), tk, "send %s %%d %s 0 %s" % (S, conn, hx(data)), len(data))
            elif op == "done":
                b.advance(ss, "s", tk)
                b.add("done %s %d %s" % (S, tk, conn), ("op", "s", tk), ss)
    if not ss.cut:
        emit(dfr.drain())
        b.advance(ss, "s", ticks(sess.end_time))
    return b.lines, b.kinds, b.real, {"prefix": ["s"] if ss.prefix else []}


def compare_server(drv, sess, same_tick_unordered=False, want_lines=False, late_variant=False):
    """replay of the server transport of a multi-client stream session: every write of the server (bytes, to which stream, instant,
    order) must be the model's; same_tick_unordered: writes at one instant are compared as a set"""
    bl = build_server(sess)
    if bl is None:
        return {"ok": True, "skipped": True, "diffs": []}
    lines, kinds, real, info = bl
    outs = drv.batch(lines)
    tx, other, errs = l1_trace.model_stream(lines, kinds, outs)
    diffs = [{"kind": "driver", "line": l[:160], "model": o} for l, o in errs]
    r, m = real["s"], tx["s"]
    if same_tick_unordered:
        r, m = sorted(r), sorted(m)
    # per PRUDP connection: the exact sequence of writes (bytes, instant, order). Across connections the order of writes at one
    # instant is not compared: handing a message to the application is a checkpoint in `process_data`, where the read loop of
    # another stream connection or the handler of another connection may run (the model handles one read atomically)
    def conn_of(x):
        # (stream connection, server port, client port): one PRUDP connection (several may share a stream connection)
        h = bytes.fromhex(x[2]) if x[2] != "-" else b""
        return (x[1], h[5], h[6]) if len(h) >= 12 and h[0] == 0x80 else (x[1], -1, -1)
    dests = sorted({conn_of(x) for x in r} | {conn_of(x) for x in m})
    for d in dests:
        rr, mm = [x for x in r if conn_of(x) == d], [x for x in m if conn_of(x) == d]
        for i, (x, y) in enumerate(zip(rr, mm)):
            if x != y:
                diffs.append({"kind": "tx", "to": d, "index": i, "real": x, "model": y}); break
        else:
            if len(rr) != len(mm):
                diffs.append({"kind": "tx-count", "to": d, "real_n": len(rr), "model_n": len(mm), "first_extra": (rr[len(mm):] or mm[len(rr):])[0]})
        if diffs:
            break
    exact_order = (r == m)
    if diffs and diffs[0]["kind"] in ("tx", "tx-count") and not late_variant:
        # an exact tie between a read that arrived by a timer of the event loop and a timer of a connection: the real scheduler has
        # already spawned the timer's task when the read is handled and runs it afterwards (e.g. a retransmission written after the
        # DISCONNECT that ended the connection was acknowledged) — an interleaving the atomic model has in neither order. Recognised
        # by replaying with the other order: if there the `advance` in front of a read at the instant of the first difference fires a
        # timer at that very instant, the session is set aside as a tie race (counted, not compared)
        d0 = diffs[0]
        tk0 = (d0.get("real") or d0.get("first_extra"))[0] if d0["kind"] == "tx" else d0["first_extra"][0]
        bl2 = build_server(sess, late_reads_after_timers=True)
        if bl2 is not None:
            l2, k2, _, _ = bl2
            o2 = drv.batch(l2)
            for j in range(len(l2) - 1):
                if l2[j] == "advance ms %d" % tk0 and l2[j + 1].startswith("dgram ms %d " % tk0) and ("@%d " % tk0) in o2[j]:
                    return {"ok": True, "skipped": True, "tie_race": True, "diffs": [], "lines": len(lines), "stream": True}
    # what the server's handlers received, per stream connection, must be what the model delivers there
    rd, md = {}, {}
    for e in sess.netlog:
        if e[0] == "deliver" and e[2] == "s":
            rd.setdefault("%s:%d" % (e[3][1], e[3][2]), []).append(hx(e[4]))
    for tk, rest in other["s"]:
        p = rest.split(" ")
        if p[0] == "deliver":
            a = p[1].split(":")
            md.setdefault("%s:%s" % (a[0], a[1]), []).append(p[3])
    if not info["prefix"]:
        for a in set(rd) | set(md):
            x, y = rd.get(a, []), md.get(a, [])
            # a handler that is busy (or gone) leaves deliveries in the queue: the real list is a prefix of the model's
            if y[:len(x)] != x:
                diffs.append({"kind": "deliver", "peer": a, "real": x[:3], "model": y[:3], "real_n": len(x), "model_n": len(y)})
    res = {"ok": not diffs, "diffs": diffs, "lines": len(lines), "stream": True, "prefix": info["prefix"],
           "reads": sum(1 for l in lines if l.startswith("dgram ")), "writes": len(real["s"]), "exact_order": exact_order,
           "links": sum(1 for l in lines if l.startswith("link ") and l.endswith(" 1"))}
    if want_lines:
        res["trace"] = list(zip(lines, outs))
    return res
