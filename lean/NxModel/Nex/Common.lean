import NxModel.Nex.Streams
/-!
# `nintendo/nex/common.py`: `Result`, `Structure` header logic, `DataHolder`

* `Result`: a code; bit 31 (`ERROR_MASK`) distinguishes failure. Names: see `Errors.lean`.
* `Structure.encode/decode`: one *level* per class of the hierarchy (base class first). With
  `nex.struct_header` each level is `u8 version | u32 length | body`; without, the bare body with
  version 0. On decode a higher version than expected and unread trailing bytes of the level are
  only logged.
* `DataHolder`: `wAnyData`/`rAnyData` (Streams.lean) + the registry lookup (`KeyError`).
-/
namespace Nx.Nex
open Nx

/-! ## Result -/

def errorMask : Nat := 2147483648

/-- `code & ERROR_MASK` as a truth value -/
def Result.isError (code : Nat) : Bool := code &&& errorMask != 0
def Result.isSuccess (code : Nat) : Bool := !(code &&& errorMask != 0)
/-- `Result.error(code)`: `code | ERROR_MASK` -/
def Result.mkError (code : Nat) : Nat := code ||| errorMask
/-- `Result.success(code)`: `code & ~ERROR_MASK` (clears bit 31 of a non-negative Python int) -/
def Result.mkSuccess (code : Nat) : Nat := code - (code &&& errorMask)
/-- the table key used by `Result.name()`: `code & ~ERROR_MASK` -/
def Result.key (code : Nat) : Nat := code - (code &&& errorMask)

/-! ## Structure levels -/

/-- one class of the hierarchy in `Structure.encode`; `body` is what `cls.save(self, substream, version)` wrote. -/
def wStructLevel (header : Bool) (version : Nat) (body : Bytes) : Except Err Bytes :=
  if header then do
    let v ← wU8 version
    let b ← wBuffer body
    pure (v ++ b)
  else .ok body

/-- one class of the hierarchy in `Structure.decode`; `load version` is `cls.load`.
With a header `load` runs on the level's own substream and whatever it leaves unread is dropped. -/
def rStructLevel {α : Type} (header : Bool) (load : Nat → Bytes → Except Err (α × Bytes)) (b : Bytes) :
    Except Err (α × Bytes) :=
  if header then do
    let (version, r) ← rdU8 b
    let (sub, r) ← rBuffer r
    let (x, _) ← load version sub
    pure (x, r)
  else load 0 b

/-- a whole hierarchy whose levels were saved to `(version, body)` pairs, base class first -/
def wStruct (header : Bool) : List (Nat × Bytes) → Except Err Bytes
  | [] => .ok []
  | (v, body) :: r => do let a ← wStructLevel header v body; let t ← wStruct header r; pure (a ++ t)

/-- decode a hierarchy given the loaders of its classes, base class first -/
def rStruct {α : Type} (header : Bool) : List (Nat → Bytes → Except Err (α × Bytes)) → Bytes → Except Err (List α × Bytes)
  | [], b => .ok ([], b)
  | l :: ls, b => do
    let (x, b) ← rStructLevel header l b
    let (xs, b) ← rStruct header ls b
    pure (x :: xs, b)

/-! ## DataHolder -/

/-- `DataHolder.decode`: name, two nested buffers, then `object_map[name]` (`KeyError`) and the object's decode
on the inner buffer (its leftover is dropped). -/
def rDataHolder {α : Type} (registry : Option String → Option (Bytes → Except Err (α × Bytes))) (b : Bytes) :
    Except Err ((Option String × α) × Bytes) := do
  let ((name, inner), r) ← rAnyData b
  match registry name with
  | none => throw .key
  | some dec => do
    let (x, _) ← dec inner
    pure ((name, x), r)

/-- `NullData(Data(Structure))`: two levels, both empty, both version 0 -/
def nullDataLevels : List (Nat × Bytes) := [(0, []), (0, [])]

def rNullData (header : Bool) (b : Bytes) : Except Err (Unit × Bytes) := do
  let (_, r) ← rStruct header [fun _ b => .ok ((), b), fun _ b => .ok ((), b)] b
  pure ((), r)

end Nx.Nex
