import NxProofs.Cipher
import NxProofs.Refine
import NxProofs.RefineSend
import NxProofs.HandlePath
import NxProofs.Liveness
import NxProofs.Roles
import NxProofs.Resend
/-!
# C01 — two L1 endpoints and the network between them, as one system

`NxProofs/Refine.lean` and `NxProofs/RefineSend.lean` relate *one* endpoint to one half of the L2 channel. Here the two
halves are put together: a sending `Conn` (`a`), a receiving `Conn` (`b`) and, between them, `net` — everything `a`
ever handed to its transport for substream `sub`. The adversary picks, step by step, either an application `send` at
`a` or the delivery of *any* element of `net` (any order, any number of times, never = loss) to `b.process_reliable`.

`sys_refines`: every such run is, step for step, a run of the L2 channel (`Chan.run`) under the coupling `Cpl`
(sender counters / cipher position = L2 sender, `net` projected = L2 log, `b`'s window projected = L2 window,
`b`'s queue / fragment buffer / decryption position = L2 core). Hence (`sys_safety`) what `b`'s application can
`recv` is a prefix of what `a`'s application passed to `send`, and (`sys_complete`) all of it once every packet
has been released — now as statements about the endpoint model that the correspondence ties byte for byte to
`PRUDPClient`, not about the abstract channel.

Also here: `cipherOf_ok` — the per-substream cipher of an endpoint (RC4 at a running position, or none on stream
transports) satisfies the `CipherOk` hypothesis of the channel theorems, for every key.
-/
namespace Nx.L1
open Nx Nx.Prudp Nx.Chan Nx.Crypto

/-- what the theorems assume of the connection's compression (none, or zlib): decompressing a compressed fragment returns
    it, and a non-empty fragment never compresses to the empty string. Both hold for the identity; for zlib they are
    assumptions on `zlib.compress` (which the model does not reproduce byte for byte) that the correspondence run validates
    on every fragment it sees, with the Lean inflater. -/
structure EnvLaws (env : Env) : Prop where
  round : ∀ b, env.decompress (env.compress b) = .ok b
  nonempty : ∀ b, b ≠ [] → env.compress b ≠ []

theorem wrap_ok (env : Env) (hl : EnvLaws env) (ci : Cipher) (h : CipherOk ci) : CipherOk (wrap env ci) := by
  refine ⟨fun p x => ?_, fun p x hx => ?_⟩
  · simp only [wrap, h.dec_enc, hl.round]
  · exact h.enc_ne p _ (hl.nonempty x hx)

theorem envLaws_of_id (env : Env) (hcomp : ∀ b, env.compress b = b) (hdec : ∀ b, env.decompress b = .ok b) : EnvLaws env :=
  ⟨fun b => by rw [hcomp, hdec], fun b hb => by rw [hcomp]; exact hb⟩

/-- the call raised nothing, or only the closed-resource error (`process_reliable` on packets behind a released DISCONNECT) -/
def R.closedOnly (r : R) : Bool :=
  match r.err with
  | none => true
  | some e => e == .closed

theorem R.closedOnly_iff (r : R) : r.closedOnly = true ↔ ∀ e, r.err = some e → e = .closed := by
  unfold R.closedOnly
  cases r.err with
  | none => simp
  | some e => simp

/-! ## the system -/

structure Sys where
  a : Conn                 -- the sending endpoint
  b : Conn                 -- the receiving endpoint
  net : List Packet        -- every packet `a` handed to its transport for the substream, in order (monotone)
  accepted : List Bytes    -- the non-empty messages whose `send` returned
  nrel : Nat               -- ghost: how many packets `b`'s window has released so far
  pend : List Frag := []   -- the fragments the `send` in progress at `a` still has to emit (the local state of its loop)
  clean : Bool := true     -- ghost: `disconnect()` was called while no `send` was between its fragments

inductive SysOp where
  | send (now : Time) (data : Bytes)   -- `await a.send(data, sub)` with nothing happening between its fragments
  | begin (now : Time) (data : Bytes)  -- the same call, up to its fragment loop (state check, send lock, split)
  | frag (now : Time)                  -- one turn of that loop: `send_fragment` of the next fragment
  | ping (now : Time)                  -- the keep-alive timer of `a` fires: `send_ping()` (numbered from substream 0's counter)
  | disconnect (now : Time)            -- `a.disconnect()` up to its wait: state DISCONNECTING, a reliable DISCONNECT (substream 0)
  | deliver (j : Nat)                  -- the network hands a copy of `net[j]` to `b` (straight to `process_reliable`)
  | deliverH (now : Time) (j : Nat)    -- the same copy through the whole receive path `b.handle`: gates, acknowledgement, `process_reliable`
  | inject (now : Time) (p : Packet)   -- somebody hands `b.handle` ANY packet whose signature is not the one `b` expects of it
  | aSendOther (now : Time) (data : Bytes) (s : Nat)  -- `a` sends on ANOTHER substream
  | aRecv (now : Time) (p : Packet)    -- `a` receives an ordinary reliable packet (the other direction's data, any substream) through `handle`
  | bSend (now : Time) (data : Bytes) (s : Nat)       -- `b` sends data of its own (the other direction; any substream)
  | bRecvOther (now : Time) (p : Packet)  -- `b` receives an ordinary reliable packet of ANOTHER substream through `handle`
  | bPing (now : Time)                 -- `b`'s keep-alive timer fires
  | bAckIn (now : Time) (p : Packet)   -- `b` is handed an acknowledgement (not of SYN / CONNECT / DISCONNECT) of its own traffic
  | bFireResend (now : Time) (p : Packet) (k : Nat)  -- a retransmission timer of `b` (for its own traffic) fires, within the budget
  | bFrag (now : Time) (f : Frag)      -- one turn of the fragment loop of a `send` of `b` (its own traffic, this substream)
  | aInject (now : Time) (p : Packet)  -- ANY packet whose signature is not the one `a` expects is handed to `a.handle`
  | bDisconnect (now : Time)           -- `b`'s application calls `disconnect()` (closing ITS sending direction; it keeps receiving)
  | fireResend (now : Time) (p : Packet) (k : Nat)  -- a retransmission timer of `a` that holds `p` (counter `k`) fires
  | ackIn (now : Time) (p : Packet)    -- `a.handle` is handed ANY acknowledgement (ACK or aggregate MULTI_ACK flag; true, stale,
                                       -- coalesced or forged) of a non-handshake packet

/-- `send` raises before doing anything (closed connection / invalid substream) -/
def sendRefused (c : Conn) (sub : Nat) : Bool := decide (c.state ≠ STATE_CONNECTED) || decide (sub > c.maxSub)

/-- `Ordinary`, as a Bool -/
def ordinaryB (p : Packet) : Bool :=
  decide (p.type ≠ TYPE_SYN) && decide (p.type ≠ TYPE_CONNECT) && !hasAck p.flags && !hasMultiAck p.flags && hasNeedAck p.flags &&
    hasReliable p.flags

theorem ordinary_of_B (p : Packet) (h : ordinaryB p = true) : Ordinary p := by
  unfold ordinaryB at h
  simp only [Bool.and_eq_true, decide_eq_true_eq, Bool.not_eq_true'] at h
  exact ⟨h.1.1.1.1.1, h.1.1.1.1.2, h.1.1.1.2, h.1.1.2, h.1.2, h.2⟩

def Sys.step (env : Env) (sub : Nat) (s : Sys) : SysOp → Sys
  | .send now data =>
    if !s.pend.isEmpty then s else     -- another `send` holds the substream's lock
    let r := s.a.send env now data sub
    { s with a := r.c, net := s.net ++ emitted r,
             accepted := if r.err.isNone && !data.isEmpty then s.accepted ++ [data] else s.accepted }
  | .begin _ data =>
    if !s.pend.isEmpty || sendRefused s.a sub then s else
    { s with pend := split s.a.fragmentSize data, accepted := if data.isEmpty then s.accepted else s.accepted ++ [data] }
  | .frag now =>
    match s.pend with
    | [] => s
    | f :: fs =>
      let r := s.a.sendPacket env now (dataPacket sub f)
      { s with a := r.c, net := s.net ++ emitted r, pend := fs }
  | .ping now =>
    let r := s.a.sendPing env now
    { s with a := r.c, net := s.net ++ emitted r }
  | .disconnect now =>
    if s.a.state ≠ STATE_CONNECTED then s else
    let r := s.a.disconnect env now
    { s with a := r.c, net := s.net ++ emitted r, clean := s.pend.isEmpty }
  | .deliver j =>
    match s.net[j]? with
    | none => s
    | some p =>
      if s.b.eof then s else
      let k := match s.b.windows[p.substreamId]? with
        | some w => (w.update p.packetId p).2.length
        | none => 0
      { s with b := (s.b.processReliable env p).c, nrel := s.nrel + k }
  | .deliverH now j =>
    match s.net[j]? with
    | none => s
    | some p =>
      let k := if s.b.accepts env now p then
          (match s.b.windows[p.substreamId]? with
           | some w => (w.update p.packetId p).2.length
           | none => 0)
        else 0
      { s with b := (s.b.handle env now p).c, nrel := s.nrel + k }
  | .inject now p => { s with b := (s.b.handle env now p).c }
  | .ackIn now p => { s with a := (s.a.handle env now p).c }
  | .fireResend now p k => { s with a := (s.a.fireOne env now (.resend p k)).c }
  | .aSendOther now data s' => { s with a := (s.a.send env now data s').c }
  | .aRecv now p => { s with a := (s.a.handle env now p).c }
  | .bSend now data s' => { s with b := (s.b.send env now data s').c }
  | .bPing now => { s with b := (s.b.sendPing env now).c }
  | .bRecvOther now p => { s with b := (s.b.handle env now p).c }
  | .bAckIn now p => { s with b := (s.b.handle env now p).c }
  | .bFireResend now p k => { s with b := (s.b.fireOne env now (.resend p k)).c }
  | .bFrag now f => { s with b := (s.b.sendPacket env now (dataPacket sub f)).c }
  | .aInject now p => { s with a := (s.a.handle env now p).c }
  | .bDisconnect now => { s with b := (s.b.disconnect env now).c }

def Sys.run (env : Env) (sub : Nat) (s : Sys) (ops : List SysOp) : Sys := ops.foldl (Sys.step env sub) s

/-- the hypotheses on a step: a `send` is either refused at once or runs to its end on a live link (an exception from the
    transport in the middle of a message is excluded: it leaves a hole in the id sequence — the connection is dead for
    the application that saw the exception), and likewise each single fragment and each ping; pings are followed on substream 0,
    whose id counter they share (on other substreams they do not appear); a delivered copy is within half the id space of the receiver's release point
    (nothing is assumed about exceptions in `process_reliable`: with compression on `decompress` can raise, but never on what
    the window releases — `ChannelWell.released_well`) -/
def Sys.opOk (env : Env) (sub : Nat) (s : Sys) : SysOp → Bool
  | .send now data =>
    !s.pend.isEmpty || sendRefused s.a sub || ((s.a.send env now data sub).err.isNone && (s.a.send env now data sub).c.linkUp)
  | .begin _ _ => true
  | .frag now =>
    match s.pend with
    | [] => true
    | f :: _ => (s.a.sendPacket env now (dataPacket sub f)).err.isNone && (s.a.sendPacket env now (dataPacket sub f)).c.linkUp
  | .ping now => decide (sub = 0) && (s.a.sendPing env now).err.isNone && (s.a.sendPing env now).c.linkUp
  | .disconnect now =>
    decide (s.a.state ≠ STATE_CONNECTED) ||
      (decide (sub = 0) && (s.a.disconnect env now).err.isNone && (s.a.disconnect env now).c.linkUp)
  | .deliver j => decide (j < s.nrel + 32768 ∧ s.nrel < j + 32768) || decide (s.net.length ≤ j)
  | .deliverH _ j => decide (j < s.nrel + 32768 ∧ s.nrel < j + 32768) || decide (s.net.length ≤ j)
  | .inject _ p => decide (p.signature ≠ s.b.expectedSig env p)
  | .ackIn _ p => (hasAck p.flags || hasMultiAck p.flags) && decide (p.type ≠ TYPE_SYN) && decide (p.type ≠ TYPE_CONNECT)
  | .fireResend _ p _ => decide (p ∈ resendsOf s.a)
  | .aSendOther _ _ s' => decide (s' ≠ sub)
  | .aRecv _ p => ordinaryB p
  | .bSend _ _ _ => true
  | .bPing _ => true
  | .bRecvOther now p =>
    -- another substream; its window holds packets of that substream; the packet does not end the connection (a DISCONNECT would)
    ordinaryB p && decide (p.substreamId ≠ sub) &&
      (match s.b.windows[p.substreamId]? with
       | some w => w.packets.all (fun kq => decide (kq.2.substreamId = p.substreamId))
       | none => true) &&
      decide ((s.b.handle env now p).c.eof = s.b.eof)
  | .bAckIn _ p => (hasAck p.flags || hasMultiAck p.flags) && decide (p.type ≠ TYPE_SYN) && decide (p.type ≠ TYPE_CONNECT) &&
      decide (p.type ≠ TYPE_DISCONNECT)
  | .bFireResend _ _ k => decide (k < s.b.resendLimit) && s.b.linkUp   -- beyond the budget `b` tears its own connection down
  | .bFrag _ _ => true
  | .aInject _ p => decide (p.signature ≠ s.a.expectedSig env p)
  | .bDisconnect _ => true

def Sys.runOk (env : Env) (sub : Nat) : Sys → List SysOp → Bool
  | _, [] => true
  | s, op :: ops => s.opOk env sub op && Sys.runOk env sub (s.step env sub op) ops

/-! ## frame lemmas of the send path -/

theorem cleanup_frag (c : Conn) : c.cleanup.c.fragmentSize = c.fragmentSize := rfl

theorem arm_frag (c : Conn) (now : Time) (p : Packet) (k : Nat) : (c.arm now p k).fragmentSize = c.fragmentSize := by
  unfold Conn.arm; cases c.sched <;> rfl

theorem transmit_frag (env : Env) (now : Time) (c : Conn) (p : Packet) : (c.transmit env now p).c.fragmentSize = c.fragmentSize := by
  unfold Conn.transmit
  split
  · rfl
  · split
    · rfl
    · simp only [R.ok]; split
      · exact arm_frag _ _ _ _
      · rfl

theorem assign_frag (c c' : Conn) (p : Packet) (n : Nat) (h : c.assign p = .ok (n, c')) : c'.fragmentSize = c.fragmentSize := by
  unfold Conn.assign at h
  split at h
  · split at h
    · cases h
    · cases h; rfl
  · split at h
    · cases h; rfl
    · split at h <;> (cases h; rfl)

theorem encodePayload_frag (env : Env) (c c' : Conn) (p : Packet) (d : Bytes) (h : c.encodePayload env p = .ok (d, c')) :
    c'.fragmentSize = c.fragmentSize := by
  unfold Conn.encodePayload at h
  split at h
  · split at h
    · split at h
      · cases h
      · split at h <;> (cases h; rfl)
    · split at h <;> (cases h; rfl)
  · cases h; rfl

theorem assignIf_frag (c c' : Conn) (p : Packet) (isAck : Bool) (n : Nat) (h : c.assignIf p isAck = .ok (n, c')) :
    c'.fragmentSize = c.fragmentSize := by
  unfold Conn.assignIf at h
  split at h
  · cases h; rfl
  · exact assign_frag _ _ _ _ h

theorem encodeIf_frag (env : Env) (c c' : Conn) (p : Packet) (isAck : Bool) (d : Bytes) (h : c.encodeIf env p isAck = .ok (d, c')) :
    c'.fragmentSize = c.fragmentSize := by
  unfold Conn.encodeIf at h
  split at h
  · exact encodePayload_frag _ _ _ _ _ h
  · cases h; rfl

/-- what `send_packet` hands to the transport keeps the packet's substream id, flags and type; the fragment size
    of the connection is not touched -/
theorem sendPacket_frame (env : Env) (now : Time) (c : Conn) (p : Packet) :
    (c.sendPacket env now p).c.fragmentSize = c.fragmentSize ∧
    ∀ q ∈ emitted (c.sendPacket env now p), q.substreamId = p.substreamId ∧ q.flags = p.flags ∧ q.type = p.type := by
  unfold Conn.sendPacket
  simp only []
  split
  · exact ⟨rfl, fun q hq => by simp [emitted, R.fail] at hq⟩
  · rename_i pid c1 h1
    have hf1 : c1.fragmentSize = c.fragmentSize := assignIf_frag _ _ _ _ _ h1
    split
    · exact ⟨hf1, fun q hq => by simp [emitted, R.fail] at hq⟩
    · rename_i payload c2 h2
      have hf2 : c2.fragmentSize = c1.fragmentSize := encodeIf_frag _ _ _ _ _ _ h2
      refine ⟨by rw [transmit_frag, hf2, hf1], fun q hq => ?_⟩
      rcases (transmit_emit env now c2 _).1 with h | h
      · rw [h.1] at hq; cases hq
      · rw [h.1] at hq
        have : q = _ := List.mem_singleton.mp hq
        subst this
        split <;> exact ⟨rfl, rfl, rfl⟩

theorem sendFrags_frame (env : Env) (now : Time) (sub : Nat) : ∀ (fs : List Frag) (c : Conn),
    (Conn.sendFrags env now sub fs c).c.fragmentSize = c.fragmentSize ∧
    ∀ q ∈ emitted (Conn.sendFrags env now sub fs c), q.substreamId = sub ∧ hasReliable q.flags = true := by
  intro fs
  induction fs with
  | nil => intro c; exact ⟨rfl, fun q hq => by simp [Conn.sendFrags, emitted, R.ok] at hq⟩
  | cons f fs ih =>
    intro c
    rw [sendFrags_cons]
    have h1 := sendPacket_frame env now c (dataPacket sub f)
    have hgood : ∀ q ∈ emitted (c.sendPacket env now (dataPacket sub f)), q.substreamId = sub ∧ hasReliable q.flags = true := by
      intro q hq
      have := h1.2 q hq
      rw [this.1, this.2.1]
      have hfl : (dataPacket sub f).flags = FLAG_RELIABLE + FLAG_NEED_ACK + FLAG_HAS_SIZE := rfl
      rw [hfl]
      exact ⟨rfl, by decide⟩
    cases he : (c.sendPacket env now (dataPacket sub f)).err with
    | some e =>
      rw [emitted_bind_err _ _ e he]
      refine ⟨?_, hgood⟩
      unfold R.bind; rw [he]; exact h1.1
    | none =>
      rw [emitted_bind_ok _ _ he, (bind_ok _ _ he).2]
      have h2 := ih (c.sendPacket env now (dataPacket sub f)).c
      refine ⟨by rw [h2.1, h1.1], fun q hq => ?_⟩
      rcases List.mem_append.mp hq with h | h
      · exact hgood q h
      · exact h2.2 q h

theorem ordinary_of_fields (q p : Packet) (h : q.flags = p.flags ∧ q.type = p.type) (hp : Ordinary p) : Ordinary q := by
  obtain ⟨h1, h2⟩ := h
  exact ⟨by rw [h2]; exact hp.nsyn, by rw [h2]; exact hp.ncon, by rw [h1]; exact hp.nack, by rw [h1]; exact hp.nmulti,
    by rw [h1]; exact hp.need, by rw [h1]; exact hp.rel⟩

theorem ordinary_data_flags : Ordinary ({ type := TYPE_DATA, flags := FLAG_RELIABLE + FLAG_NEED_ACK + FLAG_HAS_SIZE } : Packet) :=
  ⟨by decide, by decide, by decide, by decide, by decide, by decide⟩

theorem ordinary_ping_flags : Ordinary ({ type := TYPE_PING, flags := FLAG_RELIABLE + FLAG_NEED_ACK } : Packet) :=
  ⟨by decide, by decide, by decide, by decide, by decide, by decide⟩

theorem dataPacket_ordinary (sub : Nat) (f : Frag) : Ordinary (dataPacket sub f) :=
  ordinary_of_fields _ ({ type := TYPE_DATA, flags := FLAG_RELIABLE + FLAG_NEED_ACK + FLAG_HAS_SIZE } : Packet) ⟨rfl, rfl⟩ ordinary_data_flags

theorem sendFrags_ord (env : Env) (now : Time) (sub : Nat) : ∀ (fs : List Frag) (c : Conn),
    ∀ q ∈ emitted (Conn.sendFrags env now sub fs c), Ordinary q := by
  intro fs
  induction fs with
  | nil => intro c q hq; simp [Conn.sendFrags, emitted, R.ok] at hq
  | cons f fs ih =>
    intro c
    rw [sendFrags_cons]
    have h1 := sendPacket_frame env now c (dataPacket sub f)
    have hgood : ∀ q ∈ emitted (c.sendPacket env now (dataPacket sub f)), Ordinary q :=
      fun q hq => ordinary_of_fields q _ (h1.2 q hq).2 (dataPacket_ordinary sub f)
    cases he : (c.sendPacket env now (dataPacket sub f)).err with
    | some e => rw [emitted_bind_err _ _ e he]; exact hgood
    | none =>
      rw [emitted_bind_ok _ _ he]
      intro q hq
      rcases List.mem_append.mp hq with h | h
      · exact hgood q h
      · exact ih _ q h

theorem send_ord (env : Env) (now : Time) (c : Conn) (data : Bytes) (sub : Nat) :
    ∀ q ∈ emitted (c.send env now data sub), Ordinary q := by
  unfold Conn.send
  split
  · intro q hq; simp [emitted, R.fail] at hq
  · split
    · intro q hq; simp [emitted, R.fail] at hq
    · exact sendFrags_ord env now sub _ c

theorem send_frame (env : Env) (now : Time) (c : Conn) (data : Bytes) (sub : Nat) :
    (c.send env now data sub).c.fragmentSize = c.fragmentSize ∧
    ∀ q ∈ emitted (c.send env now data sub), q.substreamId = sub ∧ hasReliable q.flags = true := by
  unfold Conn.send
  split
  · exact ⟨rfl, fun q hq => by simp [emitted, R.fail] at hq⟩
  · split
    · exact ⟨rfl, fun q hq => by simp [emitted, R.fail] at hq⟩
    · exact sendFrags_frame env now sub _ c

theorem send_refused (env : Env) (now : Time) (c : Conn) (data : Bytes) (sub : Nat) (h : sendRefused c sub = true) :
    (c.send env now data sub).c = c ∧ emitted (c.send env now data sub) = [] ∧ (c.send env now data sub).err.isNone = false := by
  unfold sendRefused at h
  simp only [Bool.or_eq_true, decide_eq_true_eq] at h
  unfold Conn.send
  split
  · exact ⟨rfl, rfl, rfl⟩
  · split
    · exact ⟨rfl, rfl, rfl⟩
    · rename_i h1 h2
      rcases h with h | h
      · exact absurd h h1
      · exact absurd h h2

theorem sendFrags_cipher (env : Env) (now : Time) (sub : Nat) :
    ∀ (fs : List Frag) (c : Conn) (n pos : Nat), SRel c sub n pos →
      cipherOf (Conn.sendFrags env now sub fs c).c sub = cipherOf c sub := by
  intro fs
  induction fs with
  | nil => intro c n pos _; rfl
  | cons f fs ih =>
    intro c n pos hs
    obtain ⟨q, c2, heq, _, hs2, hc2, _⟩ := sendPacket_fragment_eq env now sub c f n pos hs
    rw [sendFrags_cons, heq]
    have hst := srel_transmit env now c2 q sub _ _ hs2
    cases he : (c2.transmit env now q).err with
    | some e =>
      have : ((c2.transmit env now q).bind (Conn.sendFrags env now sub fs)).c = (c2.transmit env now q).c := by
        unfold R.bind; rw [he]
      rw [this, hst.2, hc2]
    | none =>
      rw [(bind_ok _ _ he).2, ih _ _ _ hst.1, hst.2, hc2]

theorem send_cipher (env : Env) (now : Time) (c : Conn) (data : Bytes) (sub n pos : Nat)
    (hs : SRel c sub n pos) : cipherOf (c.send env now data sub).c sub = cipherOf c sub := by
  unfold Conn.send
  split
  · rfl
  · split
    · rfl
    · exact sendFrags_cipher env now sub _ c n pos hs

/-! ### the connection state along the send path: unchanged, or DISCONNECTED (a dead link found by `transport.send`) -/

def StateFr (c c' : Conn) : Prop := c'.state = c.state ∨ c'.state = STATE_DISCONNECTED

theorem stateFr_refl (c : Conn) : StateFr c c := Or.inl rfl

theorem stateFr_trans {a b c : Conn} (h1 : StateFr a b) (h2 : StateFr b c) : StateFr a c := by
  rcases h2 with h | h
  · rcases h1 with g | g
    · exact Or.inl (h.trans g)
    · exact Or.inr (h.trans g)
  · exact Or.inr h

theorem transmit_state (env : Env) (now : Time) (c : Conn) (p : Packet) : StateFr c (c.transmit env now p).c := by
  unfold Conn.transmit
  split
  · exact Or.inr rfl
  · split
    · exact Or.inl rfl
    · simp only [R.ok]; split
      · left; unfold Conn.arm; cases c.sched <;> rfl
      · exact Or.inl rfl

theorem assignIf_state (c c' : Conn) (p : Packet) (isAck : Bool) (n : Nat) (h : c.assignIf p isAck = .ok (n, c')) : c'.state = c.state := by
  unfold Conn.assignIf at h
  split at h
  · cases h; rfl
  · unfold Conn.assign at h
    split at h
    · split at h
      · cases h
      · cases h; rfl
    · split at h
      · cases h; rfl
      · split at h <;> (cases h; rfl)

theorem encodeIf_state (env : Env) (c c' : Conn) (p : Packet) (isAck : Bool) (d : Bytes) (h : c.encodeIf env p isAck = .ok (d, c')) :
    c'.state = c.state := by
  unfold Conn.encodeIf at h
  split at h
  · unfold Conn.encodePayload at h
    split at h
    · split at h
      · split at h
        · cases h
        · split at h <;> (cases h; rfl)
      · split at h <;> (cases h; rfl)
    · cases h; rfl
  · cases h; rfl

theorem sendPacket_state (env : Env) (now : Time) (c : Conn) (p : Packet) : StateFr c (c.sendPacket env now p).c := by
  unfold Conn.sendPacket
  simp only []
  split
  · exact stateFr_refl c
  · rename_i pid c1 h1
    have e1 := assignIf_state _ _ _ _ _ h1
    split
    · exact Or.inl e1
    · rename_i payload c2 h2
      have e2 := encodeIf_state _ _ _ _ _ _ h2
      exact stateFr_trans (Or.inl (e2.trans e1)) (transmit_state env now c2 _)

theorem bind_stateFr (c : Conn) (r : R) (f : Conn → R) (hr : StateFr c r.c) (hf : ∀ x, StateFr x (f x).c) : StateFr c (r.bind f).c := by
  unfold R.bind
  cases r.err with
  | some e => exact hr
  | none => exact stateFr_trans hr (hf _)

theorem sendFrags_state (env : Env) (now : Time) (sub : Nat) : ∀ (fs : List Frag) (c : Conn), StateFr c (Conn.sendFrags env now sub fs c).c := by
  intro fs
  induction fs with
  | nil => intro c; exact stateFr_refl c
  | cons f fs ih =>
    intro c
    rw [sendFrags_cons]
    exact bind_stateFr c _ _ (sendPacket_state env now c _) ih

theorem send_state (env : Env) (now : Time) (c : Conn) (data : Bytes) (sub : Nat) : StateFr c (c.send env now data sub).c := by
  unfold Conn.send
  split
  · exact stateFr_refl c
  · split
    · exact stateFr_refl c
    · exact sendFrags_state env now sub _ c

theorem connected_of_stateFr {c c' : Conn} (h : StateFr c c') (h' : c'.state = STATE_CONNECTED) : c.state = STATE_CONNECTED := by
  rcases h with g | g
  · rw [← g]; exact h'
  · rw [g] at h'; exact absurd h' (by decide)

/-- `disconnect()` on a CONNECTED connection, decomposed: state DISCONNECTING, id from substream 0's counter, then `transmit` -/
theorem sendDisconnect_eq (env : Env) (now : Time) (c : Conn) (n pos : Nat) (hs : SRel c 0 n pos) (hst : c.state = STATE_CONNECTED) :
    ∃ (q : Packet) (c2 : Conn), c.disconnect env now = c2.transmit env now q ∧
      wireOf q = ⟨n, .disconnect, []⟩ ∧ q.substreamId = 0 ∧ hasReliable q.flags = true ∧ Ordinary q ∧
      SRel c2 0 (seqNext n) pos ∧ cipherOf c2 0 = cipherOf c 0 ∧ c2.linkUp = c.linkUp ∧ c2.fragmentSize = c.fragmentSize ∧
      c2.state = STATE_DISCONNECTING := by
  obtain ⟨hctr, sc, hsc, hpos⟩ := hs
  have hrel : hasReliable (FLAG_RELIABLE + FLAG_NEED_ACK) = true := by decide
  have hack : (hasAck (FLAG_RELIABLE + FLAG_NEED_ACK) || hasMultiAck (FLAG_RELIABLE + FLAG_NEED_ACK)) = false := by decide
  have hne : TYPE_DISCONNECT ≠ TYPE_SYN := by decide
  have hnd : TYPE_DISCONNECT ≠ TYPE_DATA := by decide
  have hlt : 0 < c.counters.length := by
    cases h : c.counters[0]? with
    | none => rw [h] at hctr; cases hctr
    | some x => exact (List.getElem?_eq_some_iff.mp h).1
  have hst' : ¬ c.state ≠ STATE_CONNECTED := fun h => h hst
  simp only [Conn.disconnect, hst', if_false, Conn.sendPacket, mkPacket, hack, Conn.assignIf, Bool.false_eq_true, Conn.assign, hrel, if_true,
    hctr, hne, hnd, ne_eq, not_false_eq_true, Conn.encodeIf, false_and]
  refine ⟨_, _, rfl, ?_, rfl, hrel,
    ordinary_of_fields _ ({ type := TYPE_DISCONNECT, flags := FLAG_RELIABLE + FLAG_NEED_ACK } : Packet) ⟨rfl, rfl⟩
      ⟨by decide, by decide, by decide, by decide, by decide, by decide⟩,
    ⟨get_set_self _ _ _ hlt, sc, hsc, hpos⟩, rfl, rfl, rfl, rfl⟩
  simp [wireOf, kindOf, hnd]

/-- `send_ping()` decomposed: the id comes from substream 0's counter, nothing is encrypted, then `transmit` -/
theorem sendPing_eq (env : Env) (now : Time) (c : Conn) (n pos : Nat) (hs : SRel c 0 n pos) :
    ∃ (q : Packet) (c2 : Conn), c.sendPing env now = c2.transmit env now q ∧
      wireOf q = ⟨n, .ping, []⟩ ∧ q.substreamId = 0 ∧ hasReliable q.flags = true ∧ Ordinary q ∧
      SRel c2 0 (seqNext n) pos ∧ cipherOf c2 0 = cipherOf c 0 ∧ c2.linkUp = c.linkUp ∧ c2.fragmentSize = c.fragmentSize := by
  obtain ⟨hctr, sc, hsc, hpos⟩ := hs
  have hrel : hasReliable (FLAG_RELIABLE + FLAG_NEED_ACK) = true := by decide
  have hack : (hasAck (FLAG_RELIABLE + FLAG_NEED_ACK) || hasMultiAck (FLAG_RELIABLE + FLAG_NEED_ACK)) = false := by decide
  have hne : TYPE_PING ≠ TYPE_SYN := by decide
  have hnd : TYPE_PING ≠ TYPE_DATA := by decide
  have hlt : 0 < c.counters.length := by
    cases h : c.counters[0]? with
    | none => rw [h] at hctr; cases hctr
    | some x => exact (List.getElem?_eq_some_iff.mp h).1
  simp only [Conn.sendPing, Conn.sendPacket, mkPacket, hack, Conn.assignIf, Bool.false_eq_true, if_false, Conn.assign, hrel, if_true,
    hctr, hne, hnd, ne_eq, not_false_eq_true, Conn.encodeIf, false_and]
  refine ⟨_, _, rfl, ?_, rfl, hrel, ordinary_of_fields _ ({ type := TYPE_PING, flags := FLAG_RELIABLE + FLAG_NEED_ACK } : Packet) ⟨rfl, rfl⟩ ordinary_ping_flags,
    ⟨get_set_self _ _ _ hlt, sc, hsc, hpos⟩, rfl, rfl, rfl⟩
  simp [wireOf, kindOf, hnd]
  decide

/-! ### acknowledgements touch timers only -/

/-- what handling an acknowledgement may change: nothing of the send path's data state -/
structure AckFr (c c' : Conn) : Prop where
  ctr : c'.counters = c.counters
  ciph : c'.relCiphers = c.relCiphers
  con : c'.cipherOn = c.cipherOn
  fs : c'.fragmentSize = c.fragmentSize
  st : StateFr c c'

theorem ackFr_refl (c : Conn) : AckFr c c := ⟨rfl, rfl, rfl, rfl, stateFr_refl c⟩

theorem ackFr_trans {a b c : Conn} (h1 : AckFr a b) (h2 : AckFr b c) : AckFr a c :=
  ⟨h2.ctr.trans h1.ctr, h2.ciph.trans h1.ciph, h2.con.trans h1.con, h2.fs.trans h1.fs, stateFr_trans h1.st h2.st⟩

theorem ackFr_cleanup (c : Conn) : AckFr c c.cleanup.c := ⟨rfl, rfl, rfl, rfl, Or.inr rfl⟩

theorem ackFr_bind (c : Conn) (r : R) (f : Conn → R) (hr : AckFr c r.c) (hf : ∀ x, AckFr x (f x).c) : AckFr c (r.bind f).c := by
  unfold R.bind
  cases r.err with
  | some e => exact hr
  | none => exact ackFr_trans hr (hf _)

theorem handleAggregateAck_frame (env : Env) (c : Conn) (p : Packet) : AckFr c (c.handleAggregateAck env p).c := by
  unfold Conn.handleAggregateAck
  split
  · exact ackFr_refl c
  · split
    · exact ackFr_refl c
    · split
      · exact ackFr_refl c
      · simp only []
        split
        · exact ackFr_refl c
        · exact ⟨rfl, rfl, rfl, rfl, Or.inl rfl⟩

/-- **an acknowledgement changes nothing the data path depends on**: whatever packet with the ACK or MULTI_ACK flag (and not of
    the handshake types) is handed to `handle` — genuine, stale, coalesced into an aggregate ack, or forged — the sequence
    counters, the stream ciphers and the fragment size of the connection are what they were; at most timers are cancelled and,
    for an acknowledged DISCONNECT, the connection is cleaned up -/
theorem handle_ack_frame (env : Env) (now : Time) (c : Conn) (p : Packet) (hack : (hasAck p.flags || hasMultiAck p.flags) = true)
    (hns : p.type ≠ TYPE_SYN) (hnc : p.type ≠ TYPE_CONNECT) : AckFr c (c.handle env now p).c := by
  unfold Conn.handle
  split
  · exact ackFr_refl c
  · split
    · exact ackFr_refl c
    · simp only [hns, hnc, if_false]
      apply ackFr_bind
      · unfold Conn.processOther
        split
        · exact ackFr_refl c
        · split
          · exact handleAggregateAck_frame env c p
          · rename_i hm
            have hm' : hasMultiAck p.flags = false := bool_false_of_not_true hm
            have ha : hasAck p.flags = true := by simpa [hm'] using hack
            split
            · exact ackFr_refl c
            · split
              · exact ackFr_refl c
              · exact ackFr_refl c
      · intro x
        split
        · split
          · split
            · exact ⟨rfl, rfl, rfl, rfl, Or.inr rfl⟩
            · exact ⟨rfl, rfl, rfl, rfl, Or.inl rfl⟩
          · exact ackFr_refl x
        · exact ackFr_refl x

/-- a retransmission within the budget on a live link re-arms the timer and emits the stored packet: nothing of the receiver
    role moves -/
theorem fireOne_resend_recvFr (env : Env) (now : Time) (c : Conn) (p : Packet) (k sub : Nat)
    (hk : k < c.resendLimit) (hl : c.linkUp = true) : RecvFr c (c.fireOne env now (.resend p k)).c sub := by
  have h : c.fire env now (.resend p k) = R.ok (c.arm now p (k + 1)) [Out.emit c.remoteAddr p (encode env.cfg p)] := by
    simp only [Conn.fire, Conn.resendPacket, hk, if_true, hl, Bool.not_true, Bool.false_eq_true, if_false]
  unfold Conn.fireOne
  simp only [h, R.ok]
  exact arm_recvFr c now p (k + 1) sub

/-! ## the coupling with the L2 channel -/

/-- the L2 channel state `ch` describes the system `s` (substream `sub`, cipher `ci`, fragment size `size`) -/
structure Cpl (sub : Nat) (ci : Cipher) (size : Nat) (s : Sys) (ch : Chan) : Prop where
  size : s.a.fragmentSize = size
  srel : SRel s.a sub ch.s.nextId ch.s.encPos
  acipher : cipherOf s.a sub = ci
  log : s.net.map wireOf = ch.s.log
  netgood : ∀ p ∈ s.net, p.substreamId = sub ∧ hasReliable p.flags = true
  netord : ∀ p ∈ s.net, Ordinary p
  blink : s.b.linkUp = true
  beof : EofState s.b
  sent : s.accepted = ch.s.sent
  opn : s.a.state = STATE_CONNECTED → ch.s.closing = false
  cln : ch.s.clean = s.clean
  pend : ch.s.pending = s.pend
  bwf : SubWF s.b sub
  bwin : ∃ w, s.b.windows[sub]? = some w ∧ GoodWin sub w ∧ w.map wireOf = ch.r.win
  rrel : RRel s.b sub ch.r.core
  bcipher : cipherOf s.b sub = ci
  nrel : s.nrel = ch.r.nrel

/-- the L2 operation a system step amounts to (`none`: the step changes nothing) -/
def Sys.absOp (env : Env) (sub : Nat) (s : Sys) : SysOp → Option Op
  | .send _ data => if !s.pend.isEmpty || sendRefused s.a sub then none else some (.send data)
  | .begin _ data => if !s.pend.isEmpty || sendRefused s.a sub then none else some (.begin data)
  | .frag _ => some .frag
  | .ping _ => some .ping
  | .disconnect _ => if s.a.state ≠ STATE_CONNECTED then none else some .disconnect
  | .deliver j => some (.arrive j)
  | .deliverH now j =>
    match s.net[j]? with
    | none => none
    | some p => if s.b.accepts env now p then some (.arrive j) else none
  | .inject _ _ => none
  | .ackIn _ _ => none
  | .fireResend _ _ _ => none
  | .aSendOther _ _ _ => none
  | .aRecv _ _ => none
  | .bSend _ _ _ => none
  | .bPing _ => none
  | .bRecvOther _ _ => none
  | .bAckIn _ _ => none
  | .bFireResend _ _ _ => none
  | .bFrag _ _ => none
  | .aInject _ _ => none
  | .bDisconnect _ => none

def stepOpt (ci : Cipher) (size : Nat) (ch : Chan) : Option Op → Chan
  | none => ch
  | some op => Chan.step ci size ch op

def Sys.absOps (env : Env) (sub : Nat) : Sys → List SysOp → List Op
  | _, [] => []
  | s, op :: ops => (s.absOp env sub op).toList ++ Sys.absOps env sub (s.step env sub op) ops

theorem getElem?_map_some {α β : Type} (f : α → β) (l : List α) (j : Nat) (x : α) (h : l[j]? = some x) :
    (l.map f)[j]? = some (f x) := by
  rw [List.getElem?_map, h]; rfl

theorem deliver_window {s : Sys} {j : Nat} {p : Packet}
    (hok : (decide (j < s.nrel + 32768 ∧ s.nrel < j + 32768) || decide (s.net.length ≤ j)) = true) (hj : s.net[j]? = some p) :
    j < s.nrel + 32768 ∧ s.nrel < j + 32768 := by
  have hlt : j < s.net.length := (List.getElem?_eq_some_iff.mp hj).1
  simp only [Bool.or_eq_true, decide_eq_true_eq] at hok
  rcases hok with h | h
  · exact h
  · omega

/-- a copy of `net[j]` reaching `process_reliable` of the open receiver is the L2 arrival of `log[j]` -/
theorem cpl_arrive (env : Env) (hround : ∀ b, env.decompress (env.compress b) = .ok b) (sub : Nat) (ci : Cipher) (size : Nat) (s : Sys) (ch : Chan)
    (j : Nat) (p : Packet) (h : Cpl sub ci size s ch) (hj : s.net[j]? = some p) (heof : s.b.eof = false)
    (hwell : Core.wellAt (wrap env ci) ch.r.core (ch.r.win.update (wireOf p).id (wireOf p)).2) :
    ∃ w, s.b.windows[p.substreamId]? = some w ∧ ch.s.log[j]? = some (wireOf p) ∧
      Cpl sub ci size { s with b := (s.b.processReliable env p).c, nrel := s.nrel + (w.update p.packetId p).2.length }
        { ch with r := ch.r.arrive (wrap env ci) (wireOf p) } := by
  have hlog : ch.s.log[j]? = some (wireOf p) := by rw [← h.log]; exact getElem?_map_some _ _ _ _ hj
  have hp := h.netgood p (List.mem_of_getElem? hj)
  obtain ⟨w, hw, hgw, hwm⟩ := h.bwin
  refine ⟨w, by rw [hp.1]; exact hw, hlog, ?_⟩
  have hwl : sub < s.b.windows.length := (List.getElem?_eq_some_iff.mp hw).1
  have hwell' : Core.wellAt (wrap env (cipherOf s.b sub)) ch.r.core ((w.update p.packetId p).2.map wireOf) := by
    rw [h.bcipher]
    have hum := update_map wireOf w p.packetId p
    rw [hwm] at hum
    have hid : (wireOf p).id = p.packetId := rfl
    rw [hid, hum] at hwell
    exact hwell
  obtain ⟨w', hw', hgw', harr, hrr, hwf', hci'⟩ :=
    processReliable_refines env sub s.b w ch.r.core ch.r.nrel p h.bwf hwl hw hgw hp h.rrel heof hround hwell'
  have hr : ch.r = ⟨w.map wireOf, ch.r.nrel, ch.r.core⟩ := by rw [hwm]
  rw [h.bcipher] at harr hrr hci'
  rw [← hr] at harr hrr
  have hfr := processReliable_frame env s.b p h.beof
  refine ⟨h.size, h.srel, h.acipher, h.log, h.netgood, h.netord, by rw [hfr.1]; exact h.blink, hfr.2, h.sent, h.opn, h.cln, h.pend, hwf',
    ⟨w', hw', hgw', ?_⟩, hrr, hci', ?_⟩
  · rw [harr]
  · show s.nrel + _ = (Receiver.arrive (wrap env ci) ch.r (wireOf p)).nrel
    rw [harr, h.nrel]

/-- **one step of the system is one step (or none) of the L2 channel, and the coupling is kept** -/
theorem cpl_step (env : Env) (hround : ∀ b, env.decompress (env.compress b) = .ok b)
    (sub : Nat) (ci : Cipher) (size start : Nat) (s : Sys) (ch : Chan) (op : SysOp)
    (h : Cpl sub ci size s ch) (hS : SndInv (wrap env ci) start ch.s) (hR : RcvInv (wrap env ci) start ch)
    (hW : Core.wellAt (wrap env ci) core0 ch.s.log) (hok : s.opOk env sub op = true) :
    Cpl sub ci size (s.step env sub op) (stepOpt (wrap env ci) size ch (s.absOp env sub op)) ∧
    (∀ o, s.absOp env sub op = some o → Chan.opOk ch o = true) := by
  cases op with
  | send now data =>
    simp only [Sys.absOp]
    by_cases hbusy : (!s.pend.isEmpty) = true
    · -- the lock is held: nothing happens on either side
      simp only [hbusy, Bool.true_or, if_true, stepOpt, Sys.step]
      exact ⟨h, fun o ho => by cases ho⟩
    have hidle : s.pend = [] := by simpa using hbusy
    have hbusy' : (!s.pend.isEmpty) = false := by simp [hidle]
    have hpend0 : ch.s.pending = [] := by rw [h.pend, hidle]
    by_cases href : sendRefused s.a sub = true
    · -- refused: nothing happens on either side
      obtain ⟨hc, hem, herr⟩ := send_refused env now s.a data sub href
      simp only [hbusy', href, Bool.false_or, if_true]
      refine ⟨?_, fun o ho => by cases ho⟩
      have : s.step env sub (.send now data) = s := by
        simp only [Sys.step, hbusy', hc, hem, herr, List.append_nil, Bool.false_and, Bool.false_eq_true, if_false]
      rw [this]; exact h
    · have href' : sendRefused s.a sub = false := by cases hh : sendRefused s.a sub <;> simp_all
      simp only [hbusy', href', Bool.false_or, Bool.false_eq_true, if_false]
      refine ⟨?_, fun o ho => by cases ho; rfl⟩
      simp only [Sys.opOk, hbusy', href', Bool.false_or, Bool.and_eq_true] at hok
      have hfine := hok
      have hr := (send_refines env now s.a data sub ch.s.nextId ch.s.encPos h.srel).2
        (by simpa using hfine.1) hfine.2
      have hfr := send_frame env now s.a data sub
      rw [h.acipher, h.size] at hr
      have hstc : s.a.state = STATE_CONNECTED := by
        unfold sendRefused at href'
        simp only [Bool.or_eq_false_iff, decide_eq_false_iff_not, ne_eq] at href'
        exact Classical.not_not.mp href'.1
      have hcl0 : ch.s.closing = false := h.opn hstc
      have hsend : ch.s.send (wrap env ci) size data =
          { ch.s with nextId := iterSeq (wiresOf (wrap env ci) ch.s.nextId ch.s.encPos (split size data)).length ch.s.nextId,
                      encPos := ch.s.encPos + wiresLen (wiresOf (wrap env ci) ch.s.nextId ch.s.encPos (split size data)),
                      log := ch.s.log ++ wiresOf (wrap env ci) ch.s.nextId ch.s.encPos (split size data),
                      sent := if data.isEmpty then ch.s.sent else ch.s.sent ++ [data] } := by
        simp [Sender.send, hcl0, hpend0]
      simp only [stepOpt, Chan.step, Sys.step, hbusy', Bool.false_eq_true, if_false]
      rw [hsend]
      have hacc : (s.a.send env now data sub).err.isNone = true := hfine.1
      refine ⟨?_, ?_, ?_, ?_, ?_, ?_, h.blink, h.beof, ?_,
        fun hst => h.opn (connected_of_stateFr (send_state env now s.a data sub) hst), h.cln, h.pend, h.bwf, h.bwin, h.rrel, h.bcipher, h.nrel⟩
      · rw [hfr.1]; exact h.size
      · simp only [wiresOf_length]; exact hr.2
      · -- the cipher (key, on/off) of the substream is what it was
        exact (send_cipher env now s.a data sub _ _ h.srel).trans h.acipher
      · simp only [List.map_append, h.log, hr.1]
      · intro p hp
        rcases List.mem_append.mp hp with hp | hp
        · exact h.netgood p hp
        · exact hfr.2 p hp
      · intro p hp
        rcases List.mem_append.mp hp with hp | hp
        · exact h.netord p hp
        · exact send_ord env now s.a data sub p hp
      · simp only [hacc, Bool.true_and]
        cases data.isEmpty <;> simp [h.sent]
  | begin now data =>
    simp only [Sys.absOp]
    by_cases hg : (!s.pend.isEmpty || sendRefused s.a sub) = true
    · simp only [hg, if_true, stepOpt, Sys.step]
      exact ⟨h, fun o ho => by cases ho⟩
    · have hg' : (!s.pend.isEmpty || sendRefused s.a sub) = false := by cases hh : (!s.pend.isEmpty || sendRefused s.a sub) <;> simp_all
      simp only [hg', Bool.false_eq_true, if_false, stepOpt, Chan.step, Sys.step]
      refine ⟨?_, fun o ho => by cases ho; rfl⟩
      have hidle : s.pend = [] := by
        simp only [Bool.or_eq_false_iff] at hg'; simpa using hg'.1
      have hpend0 : ch.s.pending = [] := by rw [h.pend, hidle]
      have hstc : s.a.state = STATE_CONNECTED := by
        simp only [Bool.or_eq_false_iff] at hg'
        have h2 := hg'.2
        unfold sendRefused at h2
        simp only [Bool.or_eq_false_iff, decide_eq_false_iff_not, ne_eq] at h2
        exact Classical.not_not.mp h2.1
      have hcl0 : ch.s.closing = false := h.opn hstc
      have hb : ch.s.begin size data =
          { ch.s with pending := split size data, sent := if data.isEmpty then ch.s.sent else ch.s.sent ++ [data] } := by
        simp [Sender.begin, hcl0, hpend0]
      rw [hb]
      refine ⟨h.size, h.srel, h.acipher, h.log, h.netgood, h.netord, h.blink, h.beof, ?_, h.opn, h.cln, ?_, h.bwf, h.bwin, h.rrel, h.bcipher, h.nrel⟩
      · show (if data.isEmpty then s.accepted else s.accepted ++ [data]) = _
        rw [h.sent]
      · show split size data = split s.a.fragmentSize data
        rw [h.size]
  | frag now =>
    simp only [Sys.absOp, stepOpt, Chan.step]
    refine ⟨?_, fun o ho => by cases ho; rfl⟩
    cases hp : s.pend with
    | nil =>
      have hpend0 : ch.s.pending = [] := by rw [h.pend, hp]
      have : ch.s.frag (wrap env ci) = ch.s := by simp [Sender.frag, hpend0]
      simp only [Sys.step, hp, this]
      exact h
    | cons f fs =>
      have hpendc : ch.s.pending = f :: fs := by rw [h.pend, hp]
      simp only [Sys.opOk, hp, Bool.and_eq_true] at hok
      obtain ⟨q, c2, heq, hwire, hs2, hc2, hl2⟩ := sendPacket_fragment_eq env now sub s.a f ch.s.nextId ch.s.encPos h.srel
      have hfr := sendPacket_frame env now s.a (dataPacket sub f)
      have ht := transmit_emit env now c2 q
      rw [h.acipher] at hwire hs2 hc2
      have hst := srel_transmit env now c2 q sub _ _ hs2
      have hem : emitted (s.a.sendPacket env now (dataPacket sub f)) = [q] := by
        rw [heq]
        rcases ht.1 with h1 | h1
        · exfalso
          rcases h1.2 with h2 | h2
          · rw [← heq] at h2
            cases he : (s.a.sendPacket env now (dataPacket sub f)).err with
            | none => rw [he] at h2; cases h2
            | some e => rw [he] at hok; simp at hok
          · have : (s.a.sendPacket env now (dataPacket sub f)).c.linkUp = false := by
              rw [heq, ht.2.2.2.2]; exact h2
            rw [this] at hok; simp at hok
        · exact h1.1
      have hfrag : ch.s.frag (wrap env ci) =
          { ch.s with nextId := seqNext ch.s.nextId,
                      encPos := ch.s.encPos + (if f.data.isEmpty then f.data else (wrap env ci).enc ch.s.encPos f.data).length,
                      log := ch.s.log ++ [⟨ch.s.nextId, .data f.fragId, if f.data.isEmpty then f.data else (wrap env ci).enc ch.s.encPos f.data⟩],
                      pending := fs } := by
        simp [Sender.frag, hpendc]
      simp only [Sys.step, hp]
      rw [hfrag, hem]
      refine ⟨?_, ?_, ?_, ?_, ?_, ?_, h.blink, h.beof, h.sent,
        fun hst => h.opn (connected_of_stateFr (sendPacket_state env now s.a (dataPacket sub f)) hst), h.cln, rfl, h.bwf, h.bwin, h.rrel, h.bcipher, h.nrel⟩
      · rw [hfr.1]; exact h.size
      · rw [heq]; exact hst.1
      · rw [heq, hst.2]; exact hc2
      · simp only [List.map_append, List.map_cons, List.map_nil, h.log, hwire]
      rotate_left
      · intro p hpm
        rcases List.mem_append.mp hpm with hpm | hpm
        · exact h.netord p hpm
        · exact ordinary_of_fields p _ (hfr.2 p (by rw [hem]; exact hpm)).2 (dataPacket_ordinary sub f)
      · intro p hpm
        rcases List.mem_append.mp hpm with hpm | hpm
        · exact h.netgood p hpm
        · have := hfr.2 p (by rw [hem]; exact hpm)
          rw [this.1, this.2.1]
          have hfl : (dataPacket sub f).flags = FLAG_RELIABLE + FLAG_NEED_ACK + FLAG_HAS_SIZE := rfl
          rw [hfl]; exact ⟨rfl, by decide⟩
  | ping now =>
    simp only [Sys.absOp, stepOpt, Chan.step]
    refine ⟨?_, fun o ho => by cases ho; rfl⟩
    simp only [Sys.opOk, Bool.and_eq_true, decide_eq_true_eq] at hok
    obtain ⟨⟨hsub, herr⟩, hlink⟩ := hok
    subst hsub
    obtain ⟨q, c2, heq, hwire, hq0, hqr, hqo, hs2, hc2, hl2, hf2⟩ := sendPing_eq env now s.a ch.s.nextId ch.s.encPos h.srel
    have ht := transmit_emit env now c2 q
    have hst := srel_transmit env now c2 q 0 _ _ hs2
    have hem : emitted (s.a.sendPing env now) = [q] := by
      rw [heq]
      rcases ht.1 with h1 | h1
      · exfalso
        rcases h1.2 with h2 | h2
        · rw [← heq] at h2
          cases he : (s.a.sendPing env now).err with
          | none => rw [he] at h2; cases h2
          | some e => rw [he] at herr; simp at herr
        · have : (s.a.sendPing env now).c.linkUp = false := by rw [heq, ht.2.2.2.2]; exact h2
          rw [this] at hlink; cases hlink
      · exact h1.1
    simp only [Sys.step, Sender.ping]
    rw [hem]
    refine ⟨?_, ?_, ?_, ?_, ?_, ?_, h.blink, h.beof, h.sent,
      fun hst => h.opn (connected_of_stateFr (sendPacket_state env now s.a _) hst), h.cln, h.pend, h.bwf, h.bwin, h.rrel, h.bcipher, h.nrel⟩
    · rw [heq, transmit_frag, hf2]; exact h.size
    · rw [heq]; exact hst.1
    · rw [heq, hst.2, hc2]; exact h.acipher
    · simp only [List.map_append, List.map_cons, List.map_nil, h.log, hwire]
    rotate_left
    · intro p hpm
      rcases List.mem_append.mp hpm with hpm | hpm
      · exact h.netord p hpm
      · have : p = q := List.mem_singleton.mp hpm
        subst this; exact hqo
    · intro p hpm
      rcases List.mem_append.mp hpm with hpm | hpm
      · exact h.netgood p hpm
      · have : p = q := List.mem_singleton.mp hpm
        subst this; exact ⟨hq0, hqr⟩
  | disconnect now =>
    simp only [Sys.absOp]
    by_cases hst : s.a.state = STATE_CONNECTED
    · have hne : ¬ s.a.state ≠ STATE_CONNECTED := fun h => h hst
      simp only [hne, if_false, stepOpt, Chan.step, Sys.step]
      refine ⟨?_, fun o ho => by cases ho; rfl⟩
      simp only [Sys.opOk, hne, decide_false, Bool.false_or, Bool.and_eq_true, decide_eq_true_eq] at hok
      obtain ⟨⟨hsub, herr⟩, hlink⟩ := hok
      subst hsub
      have hcl0 : ch.s.closing = false := h.opn hst
      obtain ⟨q, c2, heq, hwire, hq0, hqr, hqo, hs2, hc2, hl2, hf2, hst2⟩ := sendDisconnect_eq env now s.a ch.s.nextId ch.s.encPos h.srel hst
      have ht := transmit_emit env now c2 q
      have hstr := srel_transmit env now c2 q 0 _ _ hs2
      have hem : emitted (s.a.disconnect env now) = [q] := by
        rw [heq]
        rcases ht.1 with h1 | h1
        · exfalso
          rcases h1.2 with h2 | h2
          · rw [← heq] at h2
            cases he : (s.a.disconnect env now).err with
            | none => rw [he] at h2; cases h2
            | some e => rw [he] at herr; simp at herr
          · have : (s.a.disconnect env now).c.linkUp = false := by rw [heq, ht.2.2.2.2]; exact h2
            rw [this] at hlink; cases hlink
        · exact h1.1
      have hdis : Sender.disconnect ch.s =
          { ch.s with nextId := seqNext ch.s.nextId
                      log := ch.s.log ++ [({ id := ch.s.nextId, kind := Kind.disconnect, cipher := [] } : Wire)]
                      closing := true
                      clean := ch.s.pending.isEmpty } := by
        simp [Sender.disconnect, hcl0]
      rw [hdis, hem]
      refine ⟨?_, ?_, ?_, ?_, ?_, ?_, h.blink, h.beof, h.sent, ?_, ?_, h.pend, h.bwf, h.bwin, h.rrel, h.bcipher, h.nrel⟩
      · rw [heq, transmit_frag, hf2]; exact h.size
      · rw [heq]; exact hstr.1
      · rw [heq, hstr.2, hc2]; exact h.acipher
      · simp only [List.map_append, List.map_cons, List.map_nil, h.log, hwire]
      · intro p hpm
        rcases List.mem_append.mp hpm with hpm | hpm
        · exact h.netgood p hpm
        · have : p = q := List.mem_singleton.mp hpm
          subst this; exact ⟨hq0, hqr⟩
      · intro p hpm
        rcases List.mem_append.mp hpm with hpm | hpm
        · exact h.netord p hpm
        · have : p = q := List.mem_singleton.mp hpm
          subst this; exact hqo
      · intro hcon
        exfalso
        have hfr := transmit_state env now c2 q
        rw [← heq] at hfr
        rcases hfr with g | g
        · rw [g, hst2] at hcon; exact absurd hcon (by decide)
        · rw [g] at hcon; exact absurd hcon (by decide)
      · show ch.s.pending.isEmpty = s.pend.isEmpty
        rw [h.pend]
    · have hne : s.a.state ≠ STATE_CONNECTED := hst
      simp only [hne, ne_eq, not_false_eq_true, if_true, stepOpt, Sys.step]
      exact ⟨h, fun o ho => by cases ho⟩
  | deliver j =>
    simp only [Sys.absOp, stepOpt, Chan.step]
    refine ⟨?_, fun o ho => ?_⟩
    · cases hj : s.net[j]? with
      | none =>
        have : ch.s.log[j]? = none := by rw [← h.log, List.getElem?_map, hj]; rfl
        simp only [Sys.step, hj, this]; exact h
      | some p =>
        cases heof : s.b.eof with
        | true =>
          -- both sides ignore the packet
          have hlog : ch.s.log[j]? = some (wireOf p) := by rw [← h.log]; exact getElem?_map_some _ _ _ _ hj
          have hcl : ch.r.core.closed = true := by rw [h.rrel.closed]; exact heof
          simp only [Sys.step, hj, hlog, heof, if_true, Receiver.arrive, hcl]
          exact h
        | false =>
          have hlog0 : ch.s.log[j]? = some (wireOf p) := by rw [← h.log]; exact getElem?_map_some _ _ _ _ hj
          have hwin := deliver_window hok hj
          have hwell := released_well (wrap env ci) start ch j (wireOf p) hS hR hW hlog0 (by rw [← h.nrel]; exact hwin.1)
            (by rw [← h.nrel]; exact hwin.2) (by rw [h.rrel.closed]; exact heof)
          obtain ⟨w, hw, hlog, hc⟩ := cpl_arrive env hround sub ci size s ch j p h hj heof hwell
          simp only [Sys.step, hj, hlog, heof, Bool.false_eq_true, if_false, hw]
          exact hc
    · cases ho
      simp only [Sys.opOk] at hok
      simp only [Chan.opOk]
      rw [← h.nrel, ← h.log, List.length_map]
      exact hok

  | deliverH now j =>
    simp only [Sys.absOp]
    cases hj : s.net[j]? with
    | none => simp only [stepOpt, Sys.step, hj]; exact ⟨h, fun o ho => by cases ho⟩
    | some p =>
      have hord := h.netord p (List.mem_of_getElem? hj)
      have hpath := handle_reliable_path env now s.b p hord h.blink
      cases hacc : s.b.accepts env now p with
      | false =>
        simp only [Bool.false_eq_true, if_false, stepOpt, Sys.step, hj, hacc, Nat.add_zero]
        rw [hpath, hacc]
        exact ⟨h, fun o ho => by cases ho⟩
      | true =>
        simp only [if_true, stepOpt, Chan.step, Sys.step, hj, hacc]
        rw [hpath, hacc]
        have heof : s.b.eof = false := by
          cases he : s.b.eof with
          | false => rfl
          | true =>
            have hst := h.beof he
            unfold Conn.accepts at hacc
            simp [hst] at hacc
        have hlog0 : ch.s.log[j]? = some (wireOf p) := by rw [← h.log]; exact getElem?_map_some _ _ _ _ hj
        have hwin := deliver_window (show (decide (j < s.nrel + 32768 ∧ s.nrel < j + 32768) || decide (s.net.length ≤ j)) = true from hok) hj
        have hwell := released_well (wrap env ci) start ch j (wireOf p) hS hR hW hlog0 (by rw [← h.nrel]; exact hwin.1)
          (by rw [← h.nrel]; exact hwin.2) (by rw [h.rrel.closed]; exact heof)
        obtain ⟨w, hw, hlog, hc⟩ := cpl_arrive env hround sub ci size s ch j p h hj heof hwell
        simp only [hlog, hw, if_true]
        refine ⟨hc, fun o ho => ?_⟩
        cases ho
        simp only [Sys.opOk] at hok
        simp only [Chan.opOk]
        rw [← h.nrel, ← h.log, List.length_map]
        exact hok
  | bDisconnect now =>
    simp only [Sys.absOp, stepOpt, Sys.step]
    by_cases hst : s.b.state ≠ STATE_CONNECTED
    · have : (s.b.disconnect env now).c = s.b := by unfold Conn.disconnect; rw [if_pos hst]; rfl
      rw [this]
      exact ⟨h, fun o ho => by cases ho⟩
    · have hst' : s.b.state = STATE_CONNECTED := Classical.not_not.mp hst
      have heof : s.b.eof = false := by
        cases he : s.b.eof with
        | false => rfl
        | true => have := h.beof he; rw [hst'] at this; exact absurd this (by decide)
      have hd : (s.b.disconnect env now).c =
          (({ s.b with state := STATE_DISCONNECTING } : Conn).sendPacket env now (mkPacket TYPE_DISCONNECT (FLAG_RELIABLE + FLAG_NEED_ACK))).c := by
        unfold Conn.disconnect; rw [if_neg hst]
      rw [hd]
      have hf := sendPacket_recvFr env now ({ s.b with state := STATE_DISCONNECTING } : Conn)
        (mkPacket TYPE_DISCONNECT (FLAG_RELIABLE + FLAG_NEED_ACK)) sub h.blink
      obtain ⟨h1, h2, h3, h4, h5, h6⟩ := rrel_of_recvFr hf (show SubWF ({ s.b with state := STATE_DISCONNECTING } : Conn) sub from h.bwf)
        (show RRel ({ s.b with state := STATE_DISCONNECTING } : Conn) sub ch.r.core from ⟨h.rrel.closed, h.rrel.out, h.rrel.live⟩)
      obtain ⟨w, hw, hgw, hwm⟩ := h.bwin
      have he0 : EofState ({ s.b with state := STATE_DISCONNECTING } : Conn) := fun he => by
        have : s.b.eof = true := he
        rw [heof] at this; cases this
      exact ⟨⟨h.size, h.srel, h.acipher, h.log, h.netgood, h.netord, h5 h.blink, h6 he0, h.sent, h.opn, h.cln, h.pend, h1,
        ⟨w, by rw [h4]; exact hw, hgw, hwm⟩, h2, h3.trans h.bcipher, h.nrel⟩, fun o ho => by cases ho⟩
  | aInject now p =>
    simp only [Sys.absOp, stepOpt, Sys.step]
    simp only [Sys.opOk, decide_eq_true_eq] at hok
    have := (handle_bad_signature env now s.a p hok).1
    rw [this]
    exact ⟨h, fun o ho => by cases ho⟩
  | inject now p =>
    simp only [Sys.absOp, stepOpt, Sys.step]
    simp only [Sys.opOk, decide_eq_true_eq] at hok
    have := (handle_bad_signature env now s.b p hok).1
    rw [this]
    exact ⟨h, fun o ho => by cases ho⟩

  | ackIn now p =>
    simp only [Sys.absOp, stepOpt, Sys.step]
    simp only [Sys.opOk, Bool.and_eq_true, decide_eq_true_eq] at hok
    obtain ⟨⟨hack, hns⟩, hnc⟩ := hok
    have hf := handle_ack_frame env now s.a p hack hns hnc
    refine ⟨?_, fun o ho => by cases ho⟩
    refine ⟨by rw [hf.fs]; exact h.size, ?_, ?_, h.log, h.netgood, h.netord, h.blink, h.beof, h.sent,
      fun hst => h.opn (connected_of_stateFr hf.st hst), h.cln, h.pend, h.bwf, h.bwin, h.rrel, h.bcipher, h.nrel⟩
    · obtain ⟨hc, sc, hsc, hpos⟩ := h.srel
      exact ⟨by rw [hf.ctr]; exact hc, sc, by rw [hf.ciph]; exact hsc, fun hon => hpos (by rw [← hf.con]; exact hon)⟩
    · rw [← h.acipher]; simp only [cipherOf, hf.ciph, hf.con]

  | fireResend now p k =>
    simp only [Sys.absOp, stepOpt, Sys.step]
    have hf := (fire_resend env now s.a p k).2.2 sub
    obtain ⟨hs', hc'⟩ := srel_of_sendFr hf h.srel
    exact ⟨⟨by rw [hf.fs]; exact h.size, hs', hc'.trans h.acipher, h.log, h.netgood, h.netord, h.blink, h.beof, h.sent,
      fun hst => h.opn (connected_of_stateFr hf.st hst), h.cln, h.pend, h.bwf, h.bwin, h.rrel, h.bcipher, h.nrel⟩, fun o ho => by cases ho⟩
  | aSendOther now data s' =>
    simp only [Sys.absOp, stepOpt, Sys.step]
    simp only [Sys.opOk, decide_eq_true_eq] at hok
    have hf := send_other_sendFr env now s.a data s' sub hok
    obtain ⟨hs', hc'⟩ := srel_of_sendFr hf h.srel
    exact ⟨⟨by rw [hf.fs]; exact h.size, hs', hc'.trans h.acipher, h.log, h.netgood, h.netord, h.blink, h.beof, h.sent,
      fun hst => h.opn (connected_of_stateFr hf.st hst), h.cln, h.pend, h.bwf, h.bwin, h.rrel, h.bcipher, h.nrel⟩, fun o ho => by cases ho⟩
  | aRecv now p =>
    simp only [Sys.absOp, stepOpt, Sys.step]
    simp only [Sys.opOk] at hok
    have hf := handle_ordinary_sendFr env now s.a p sub (ordinary_of_B p hok)
    obtain ⟨hs', hc'⟩ := srel_of_sendFr hf h.srel
    exact ⟨⟨by rw [hf.fs]; exact h.size, hs', hc'.trans h.acipher, h.log, h.netgood, h.netord, h.blink, h.beof, h.sent,
      fun hst => h.opn (connected_of_stateFr hf.st hst), h.cln, h.pend, h.bwf, h.bwin, h.rrel, h.bcipher, h.nrel⟩, fun o ho => by cases ho⟩
  | bSend now data s' =>
    simp only [Sys.absOp, stepOpt, Sys.step]
    have hf := send_recvFr env now s.b data s' sub h.blink
    obtain ⟨h1, h2, h3, h4, h5, h6⟩ := rrel_of_recvFr hf h.bwf h.rrel
    obtain ⟨w, hw, hgw, hwm⟩ := h.bwin
    exact ⟨⟨h.size, h.srel, h.acipher, h.log, h.netgood, h.netord, h5 h.blink, h6 h.beof, h.sent, h.opn, h.cln, h.pend, h1,
      ⟨w, by rw [h4]; exact hw, hgw, hwm⟩, h2, h3.trans h.bcipher, h.nrel⟩, fun o ho => by cases ho⟩
  | bFrag now f =>
    simp only [Sys.absOp, stepOpt, Sys.step]
    have hf := sendPacket_recvFr env now s.b (dataPacket sub f) sub h.blink
    obtain ⟨h1, h2, h3, h4, h5, h6⟩ := rrel_of_recvFr hf h.bwf h.rrel
    obtain ⟨w, hw, hgw, hwm⟩ := h.bwin
    exact ⟨⟨h.size, h.srel, h.acipher, h.log, h.netgood, h.netord, h5 h.blink, h6 h.beof, h.sent, h.opn, h.cln, h.pend, h1,
      ⟨w, by rw [h4]; exact hw, hgw, hwm⟩, h2, h3.trans h.bcipher, h.nrel⟩, fun o ho => by cases ho⟩
  | bPing now =>
    simp only [Sys.absOp, stepOpt, Sys.step]
    have hf := sendPing_recvFr env now s.b sub h.blink
    obtain ⟨h1, h2, h3, h4, h5, h6⟩ := rrel_of_recvFr hf h.bwf h.rrel
    obtain ⟨w, hw, hgw, hwm⟩ := h.bwin
    exact ⟨⟨h.size, h.srel, h.acipher, h.log, h.netgood, h.netord, h5 h.blink, h6 h.beof, h.sent, h.opn, h.cln, h.pend, h1,
      ⟨w, by rw [h4]; exact hw, hgw, hwm⟩, h2, h3.trans h.bcipher, h.nrel⟩, fun o ho => by cases ho⟩
  | bRecvOther now p =>
    simp only [Sys.absOp, stepOpt, Sys.step]
    simp only [Sys.opOk, Bool.and_eq_true, decide_eq_true_eq] at hok
    obtain ⟨⟨⟨hord, hne⟩, hwin⟩, heof⟩ := hok
    have hpath := handle_reliable_path env now s.b p (ordinary_of_B p hord) h.blink
    cases hacc : s.b.accepts env now p with
    | false =>
      rw [hpath, hacc]
      exact ⟨h, fun o ho => by cases ho⟩
    | true =>
      rw [hpath, hacc] at heof ⊢
      simp only [if_true] at heof ⊢
      have hgw : ∀ w, s.b.windows[p.substreamId]? = some w → ∀ kq ∈ w.packets, kq.2.substreamId = p.substreamId := by
        intro w hw kq hkq
        rw [hw] at hwin
        simp only [List.all_eq_true, decide_eq_true_eq] at hwin
        exact hwin kq hkq
      have hf := processReliable_other_recvFr env s.b p sub hne hgw h.beof heof
      obtain ⟨h1, h2, h3, h4, h5, h6⟩ := rrel_of_recvFr hf h.bwf h.rrel
      obtain ⟨w, hw, hgw', hwm⟩ := h.bwin
      exact ⟨⟨h.size, h.srel, h.acipher, h.log, h.netgood, h.netord, h5 h.blink, h6 h.beof, h.sent, h.opn, h.cln, h.pend, h1,
        ⟨w, by rw [h4]; exact hw, hgw', hwm⟩, h2, h3.trans h.bcipher, h.nrel⟩, fun o ho => by cases ho⟩
  | bFireResend now p k =>
    simp only [Sys.absOp, stepOpt, Sys.step]
    simp only [Sys.opOk, Bool.and_eq_true, decide_eq_true_eq] at hok
    have hf := fireOne_resend_recvFr env now s.b p k sub hok.1 hok.2
    obtain ⟨h1, h2, h3, h4, h5, h6⟩ := rrel_of_recvFr hf h.bwf h.rrel
    obtain ⟨w, hw, hgw, hwm⟩ := h.bwin
    exact ⟨⟨h.size, h.srel, h.acipher, h.log, h.netgood, h.netord, h5 h.blink, h6 h.beof, h.sent, h.opn, h.cln, h.pend, h1,
      ⟨w, by rw [h4]; exact hw, hgw, hwm⟩, h2, h3.trans h.bcipher, h.nrel⟩, fun o ho => by cases ho⟩
  | bAckIn now p =>
    simp only [Sys.absOp, stepOpt, Sys.step]
    simp only [Sys.opOk, Bool.and_eq_true, decide_eq_true_eq] at hok
    obtain ⟨⟨⟨hack, hns⟩, hnc⟩, hnd⟩ := hok
    have hf := handle_ack_recvFr env now s.b p sub hack hns hnc hnd
    obtain ⟨h1, h2, h3, h4, h5, h6⟩ := rrel_of_recvFr hf h.bwf h.rrel
    obtain ⟨w, hw, hgw, hwm⟩ := h.bwin
    exact ⟨⟨h.size, h.srel, h.acipher, h.log, h.netgood, h.netord, h5 h.blink, h6 h.beof, h.sent, h.opn, h.cln, h.pend, h1,
      ⟨w, by rw [h4]; exact hw, hgw, hwm⟩, h2, h3.trans h.bcipher, h.nrel⟩, fun o ho => by cases ho⟩

/-! ## the sender's retransmission timers hold nothing but elements of `net` -/

/-- every packet of the channel that a retransmission timer of the sender holds was handed to the transport before -/
def TimersOk (sub : Nat) (s : Sys) : Prop := ∀ p ∈ resendsOf s.a, relevant sub p = true → p ∈ s.net

theorem timers_of_resFr {sub : Nat} {a a' : Conn} {net net' new : List Packet} (h : ∀ p ∈ resendsOf a, relevant sub p = true → p ∈ net)
    (hf : ResFr a a' new) (hmono : ∀ q ∈ net, q ∈ net') (hnew : ∀ q ∈ new, relevant sub q = true → q ∈ net') :
    ∀ p ∈ resendsOf a', relevant sub p = true → p ∈ net' := by
  intro p hp hr
  rcases hf p hp with g | g
  · exact hmono p (h p g hr)
  · exact hnew p g hr

theorem timers_step (env : Env) (sub : Nat) (s : Sys) (op : SysOp) (h : TimersOk sub s) (hok : s.opOk env sub op = true) :
    TimersOk sub (s.step env sub op) := by
  unfold TimersOk at h ⊢
  cases op with
  | send now data =>
    simp only [Sys.step]
    split
    · exact h
    · exact timers_of_resFr h (send_resFr env now s.a data sub) (fun q hq => List.mem_append_left _ hq) (fun q hq _ => List.mem_append_right _ hq)
  | begin now data => simp only [Sys.step]; split <;> exact h
  | frag now =>
    simp only [Sys.step]
    split
    · exact h
    · exact timers_of_resFr h (sendPacket_resFr env now s.a _) (fun q hq => List.mem_append_left _ hq) (fun q hq _ => List.mem_append_right _ hq)
  | ping now =>
    exact timers_of_resFr h (sendPacket_resFr env now s.a _) (fun q hq => List.mem_append_left _ hq) (fun q hq _ => List.mem_append_right _ hq)
  | disconnect now =>
    simp only [Sys.step]
    split
    · exact h
    · exact timers_of_resFr h (disconnect_resFr env now s.a) (fun q hq => List.mem_append_left _ hq) (fun q hq _ => List.mem_append_right _ hq)
  | deliver j => simp only [Sys.step]; split; exact h; split <;> exact h
  | deliverH now j => simp only [Sys.step]; split <;> exact h
  | inject now p => exact h
  | ackIn now p =>
    simp only [Sys.opOk, Bool.and_eq_true, decide_eq_true_eq] at hok
    intro q hq hr
    exact h q (handle_ack_resSub env now s.a p hok.1.1 hok.1.2 hok.2 q hq) hr
  | fireResend now p k =>
    simp only [Sys.opOk, decide_eq_true_eq] at hok
    exact timers_of_resFr h (fire_resend env now s.a p k).2.1 (fun q hq => hq)
      (fun q hq hr => by rw [List.mem_singleton.mp hq] at hr ⊢; exact h p hok hr)
  | aSendOther now data s' =>
    simp only [Sys.opOk, decide_eq_true_eq] at hok
    refine timers_of_resFr h (send_resFr env now s.a data s') (fun q hq => hq) (fun q hq hr => ?_)
    exfalso
    have := (send_frame env now s.a data s').2 q hq
    unfold relevant at hr
    simp only [Bool.and_eq_true, decide_eq_true_eq] at hr
    exact hok (this.1.symm.trans hr.1.1.1)
  | aRecv now p =>
    simp only [Sys.opOk] at hok
    intro q hq hr
    exact h q (handle_ordinary_resSub env now s.a p (ordinary_of_B p hok) q hq) hr
  | bSend now data s' => exact h
  | bPing now => exact h
  | bRecvOther now p => exact h
  | bAckIn now p => exact h
  | bFireResend now p k => exact h
  | bFrag now f => exact h
  | aInject now p =>
    simp only [Sys.opOk, decide_eq_true_eq] at hok
    have := (handle_bad_signature env now s.a p hok).1
    simp only [Sys.step, this]
    exact h
  | bDisconnect now => exact h

/-- **a retransmission is a re-delivery**: when a retransmission timer of the sender that holds a packet of the channel fires,
    what is handed to the transport is that very packet (or nothing), and it is an element of `net` — a copy of something
    emitted before, which the network may already deliver any number of times -/
theorem resend_is_redelivery (env : Env) (sub : Nat) (s : Sys) (now : Time) (p : Packet) (k : Nat) (h : TimersOk sub s)
    (hp : p ∈ resendsOf s.a) (hr : relevant sub p = true) :
    ∀ q ∈ emitted (s.a.fireOne env now (.resend p k)), q = p ∧ q ∈ s.net := by
  intro q hq
  have := (fire_resend env now s.a p k).1 q hq
  exact ⟨this, by rw [this]; exact h p hp hr⟩

/-! ## whole runs -/

/-- coupling plus the two invariants of the L2 channel -/
structure Good (env : Env) (sub : Nat) (ci : Cipher) (size start : Nat) (s : Sys) (ch : Chan) : Prop where
  cpl : Cpl sub ci size s ch
  snd : SndInv (wrap env ci) start ch.s
  rcv : RcvInv (wrap env ci) start ch
  well : Core.wellAt (wrap env ci) core0 ch.s.log
  tim : TimersOk sub s

theorem good_cipher {env : Env} (hl : EnvLaws env) {sub : Nat} {ci : Cipher} {size start : Nat} {s : Sys} {ch : Chan}
    (h : Good env sub ci size start s ch) : CipherOk (wrap env ci) := by
  rw [← h.cpl.acipher]; exact wrap_ok env hl _ (cipherOf_ok _ _)

theorem run_append (ci : Cipher) (size : Nat) (ch : Chan) (l1 l2 : List Op) :
    Chan.run ci size ch (l1 ++ l2) = Chan.run ci size (Chan.run ci size ch l1) l2 := by
  unfold Chan.run; exact List.foldl_append

theorem runOk_append (ci : Cipher) (size : Nat) : ∀ (l1 l2 : List Op) (ch : Chan),
    Chan.runOk ci size ch (l1 ++ l2) = (Chan.runOk ci size ch l1 && Chan.runOk ci size (Chan.run ci size ch l1) l2) := by
  intro l1
  induction l1 with
  | nil => intro l2 ch; simp [Chan.runOk, Chan.run]
  | cons o l1 ih =>
    intro l2 ch
    simp only [List.cons_append, Chan.runOk, Chan.run, List.foldl_cons, Bool.and_assoc]
    rw [ih]; rfl

theorem run_toList (ci : Cipher) (size : Nat) (ch : Chan) (o : Option Op) :
    Chan.run ci size ch o.toList = stepOpt ci size ch o := by
  cases o <;> rfl

theorem good_step (env : Env) (hl : EnvLaws env)
    (sub : Nat) (ci : Cipher) (size : Nat) (hsz : 1 ≤ size) (start : Nat) (s : Sys) (ch : Chan) (op : SysOp)
    (h : Good env sub ci size start s ch) (hok : s.opOk env sub op = true) :
    Good env sub ci size start (s.step env sub op) (stepOpt (wrap env ci) size ch (s.absOp env sub op)) ∧
    Chan.runOk (wrap env ci) size ch (s.absOp env sub op).toList = true := by
  obtain ⟨hc, hop⟩ := cpl_step env hl.round sub ci size start s ch op h.cpl h.snd h.rcv h.well hok
  have hrun : Chan.runOk (wrap env ci) size ch (s.absOp env sub op).toList = true := by
    cases ho : s.absOp env sub op with
    | none => rfl
    | some o => simp [Chan.runOk, hop o ho]
  have hinv := inv_run (wrap env ci) (good_cipher hl h) size hsz start (s.absOp env sub op).toList ch h.snd h.rcv hrun
  rw [run_toList] at hinv
  have hwell : Core.wellAt (wrap env ci) core0 (stepOpt (wrap env ci) size ch (s.absOp env sub op)).s.log := by
    cases ho : s.absOp env sub op with
    | none => exact h.well
    | some o => exact logWell_step (wrap env ci) size start ch o h.snd h.well
  exact ⟨⟨hc, hinv.1, hinv.2, hwell, timers_step env sub s op h.tim hok⟩, hrun⟩

/-- **every run of the two-endpoint system is a run of the L2 channel** that satisfies the channel's half-window
    hypothesis, and the coupling holds at its end -/
theorem sys_refines (env : Env) (hl : EnvLaws env)
    (sub : Nat) (ci : Cipher) (size : Nat) (hsz : 1 ≤ size) (start : Nat) :
    ∀ (ops : List SysOp) (s : Sys) (ch : Chan), Good env sub ci size start s ch → Sys.runOk env sub s ops = true →
      Good env sub ci size start (Sys.run env sub s ops) (Chan.run (wrap env ci) size ch (Sys.absOps env sub s ops)) ∧
      Chan.runOk (wrap env ci) size ch (Sys.absOps env sub s ops) = true := by
  intro ops
  induction ops with
  | nil => intro s ch h _; exact ⟨h, rfl⟩
  | cons op ops ih =>
    intro s ch h hok
    simp only [Sys.runOk, Bool.and_eq_true] at hok
    obtain ⟨hg, hr1⟩ := good_step env hl sub ci size hsz start s ch op h hok.1
    obtain ⟨hg2, hr2⟩ := ih _ _ hg hok.2
    simp only [Sys.run, List.foldl_cons, Sys.absOps]
    rw [run_append, runOk_append, run_toList, hr1, Bool.true_and]
    exact ⟨hg2, hr2⟩

/-- when `decompress` cannot fail (compression off), `process_reliable` on a packet of the log raises at most the
    closed-resource error, in every coupled state -/
theorem deliver_ok_without_compression (env : Env) (hdec : ∀ b, ∃ x, env.decompress b = .ok x) {sub : Nat} {ci : Cipher}
    {size : Nat} {s : Sys} {ch : Chan} (h : Cpl sub ci size s ch) (j : Nat) (p : Packet) (hj : s.net[j]? = some p) :
    (s.b.processReliable env p).closedOnly = true := by
  obtain ⟨w, hw, hgw, _⟩ := h.bwin
  exact (R.closedOnly_iff _).mpr
    (processReliable_closedOnly_of_id env hdec sub s.b w p h.bwf hw hgw (h.netgood p (List.mem_of_getElem? hj)))

theorem out_prefix_of_inv (ci : Cipher) (start : Nat) (ch : Chan) (hS : SndInv ci start ch.s) (hR : RcvInv ci start ch) :
    ch.r.core.reasm.out <+: ch.s.sent := delivered_prefix_sent ci start ch hS hR

/-- what the receiving application can read, in a coupled state -/
theorem good_safe {env : Env} {sub : Nat} {ci : Cipher} {size start : Nat} {s : Sys} {ch : Chan} (h : Good env sub ci size start s ch) :
    (s.b.queues[sub]?.getD []) <+: s.accepted := by
  rw [← h.cpl.rrel.out, h.cpl.sent]
  exact out_prefix_of_inv (wrap env ci) start ch h.snd h.rcv

theorem good_complete {env : Env} {sub : Nat} {ci : Cipher} {size start : Nat} {s : Sys} {ch : Chan} (h : Good env sub ci size start s ch)
    (hall : s.nrel = s.net.length) (hidle : s.pend = []) (hopen : s.a.state = STATE_CONNECTED ∨ s.clean = true) :
    (s.b.queues[sub]?.getD []) = s.accepted ∧ (s.b.eof = false → (s.b.fragBufs[sub]?.getD []) = []) := by
  have hn : ch.r.nrel = ch.s.log.length := by rw [← h.cpl.nrel, hall, ← h.cpl.log, List.length_map]
  have hc := h.rcv.core
  have hcc : ch.s.closing = false ∨ ch.s.clean = true := by
    rcases hopen with h1 | h1
    · exact Or.inl (h.cpl.opn h1)
    · exact Or.inr (h.cpl.cln.trans h1)
  rw [hn, List.take_length, sndInv_cons h.snd (h.cpl.pend.trans hidle) hcc] at hc
  refine ⟨?_, fun hl => ?_⟩
  · rw [← h.cpl.rrel.out, h.cpl.sent, hc]
  · rw [← (h.cpl.rrel.live hl).1, hc]

/-- **graceful close, end to end**: if the receiving endpoint has reached end-of-stream (in this system that can only happen
    through the sender's DISCONNECT being released) and `disconnect()` was called while no `send` was between its fragments,
    everything the sending application passed to `send` had been delivered before -/
theorem good_closed {env : Env} {sub : Nat} {ci : Cipher} {size start : Nat} {s : Sys} {ch : Chan} (h : Good env sub ci size start s ch)
    (heof : s.b.eof = true) (hclean : s.clean = true) :
    (s.b.queues[sub]?.getD []) = s.accepted := by
  have hcl : ch.r.core.closed = true := by rw [h.cpl.rrel.closed]; exact heof
  have := closed_after_everything (wrap env ci) start ch h.snd h.rcv hcl (h.cpl.cln.trans hclean)
  rw [← h.cpl.rrel.out, h.cpl.sent, this.2.1]

end Nx.L1

namespace Nx.L1
open Nx Nx.Prudp Nx.Chan Nx.Crypto

/-- two endpoints as `PRUDPClient.__init__` leaves them (states and the receiver's view of the peer's session id as the
    handshake sets them), nothing on the wire yet -/
def Sys.fresh (a b : Conn) : Sys := { a := a, b := b, net := [], accepted := [], nrel := 0 }

theorem replicate_get {α : Type} (n i : Nat) (x : α) (h : i < n) : (List.replicate n x)[i]? = some x := by
  rw [List.getElem?_replicate]; simp [h]

/-- **the hypotheses of the system theorems hold at the start**: for every environment and every substream the settings
    allow, two freshly constructed endpoints (any addresses, ports, session ids, random draws) and the initial L2 channel
    with first id 1 are coupled, and the channel invariants hold -/
theorem fresh_good (env : Env) (sub : Nat) (hsub : sub ≤ env.s.maxSubstreamId)
    (va vb : Option Nat) (ua ca sa ub cb sb : Nat) (la ra lb rb : Addr) (lpa lta rpa rta lpb ltb rpb rtb : Nat) (st stb : Nat)
    (rsb : Option Nat) :
    let a := { Conn.new env va ua ca sa la lpa lta ra rpa rta with state := st }
    let b := { Conn.new env vb ub cb sb lb lpb ltb rb rpb rtb with state := stb, remoteSessionId := rsb }
    Good env sub (cipherOf a sub) env.s.fragmentSize 1 (Sys.fresh a b) (Chan.init 1) := by
  intro a b
  have hn : sub < env.s.maxSubstreamId + 1 := by omega
  have hi := inv_init (wrap env (cipherOf a sub)) 1 (by omega)
  have hq : ((List.replicate (env.s.maxSubstreamId + 1) ([] : List Bytes))[sub]?).getD [] = [] := by
    rw [replicate_get _ _ _ hn]; rfl
  have hf : ((List.replicate (env.s.maxSubstreamId + 1) ([] : Bytes))[sub]?).getD [] = [] := by
    rw [replicate_get _ _ _ hn]; rfl
  have hcpl : Cpl sub (cipherOf a sub) env.s.fragmentSize (Sys.fresh a b) (Chan.init 1) :=
    { size := rfl
      srel := ⟨replicate_get _ _ _ hn, ⟨_, replicate_get _ _ _ hn, fun _ => rfl⟩⟩
      acipher := rfl
      log := rfl
      netgood := fun p hp => by cases hp
      netord := fun p hp => by cases hp
      blink := rfl
      beof := fun he => by cases he
      sent := rfl
      opn := fun _ => rfl
      cln := rfl
      pend := rfl
      bwf := ⟨by simp [Sys.fresh, b, Conn.new, hn], by simp [Sys.fresh, b, Conn.new, hn], by simp [Sys.fresh, b, Conn.new, hn]⟩
      bwin := ⟨_, replicate_get _ _ _ hn, (fun kq hkq => by cases hkq), rfl⟩
      rrel := ⟨rfl, hq.symm, fun _ => ⟨hf.symm, fun _ => ⟨_, replicate_get _ _ _ hn, rfl⟩⟩⟩
      bcipher := by simp only [cipherOf, Sys.fresh, a, b, Conn.new, replicate_get _ _ _ hn]
      nrel := rfl }
  exact ⟨hcpl, hi.1, hi.2, trivial, fun p hp => by simp [resendsOf, Sys.fresh, a, Conn.new, Conn.login] at hp⟩

end Nx.L1

namespace Nx.L1
open Nx Nx.Prudp Nx.Chan Nx.Crypto

theorem keyChain_length : ∀ (n : Nat) (k : Bytes), (keyChain n k).length = n := by
  intro n
  induction n with
  | zero => intro k; rfl
  | succ n ih => intro k; simp [keyChain, ih]

/-- **the coupling also holds after both sides have logged in with the same session key** (`login` → `set_session_key`:
    every substream's cipher restarts at position 0 under the key chain derived from the session key): two freshly constructed
    endpoints that logged in with one key — whatever the user ids — and the initial channel are coupled -/
theorem fresh_good_login (env : Env) (sub : Nat) (hsub : sub ≤ env.s.maxSubstreamId) (key : Bytes) (pa ca pb cb : Nat)
    (va vb : Option Nat) (ua cka sa ub ckb sb : Nat) (la ra lb rb : Addr) (lpa lta rpa rta lpb ltb rpb rtb : Nat) (st stb : Nat)
    (rsb : Option Nat) :
    let a := { (Conn.new env va ua cka sa la lpa lta ra rpa rta).login pa ca key with state := st }
    let b := { (Conn.new env vb ub ckb sb lb lpb ltb rb rpb rtb).login pb cb key with state := stb, remoteSessionId := rsb }
    Good env sub (cipherOf a sub) env.s.fragmentSize 1 (Sys.fresh a b) (Chan.init 1) := by
  intro a b
  have hn : sub < env.s.maxSubstreamId + 1 := by omega
  have hi := inv_init (wrap env (cipherOf a sub)) 1 (by omega)
  have hq : ((List.replicate (env.s.maxSubstreamId + 1) ([] : List Bytes))[sub]?).getD [] = [] := by
    rw [replicate_get _ _ _ hn]; rfl
  have hf : ((List.replicate (env.s.maxSubstreamId + 1) ([] : Bytes))[sub]?).getD [] = [] := by
    rw [replicate_get _ _ _ hn]; rfl
  have hlen : (keyChain (List.replicate (env.s.maxSubstreamId + 1) ({ key := [0x43, 0x44, 0x26, 0x4D, 0x4C] } : StreamCipher)).length key).length
      = env.s.maxSubstreamId + 1 := by rw [keyChain_length]; simp
  obtain ⟨k, hk⟩ : ∃ k, (keyChain (List.replicate (env.s.maxSubstreamId + 1) ({ key := [0x43, 0x44, 0x26, 0x4D, 0x4C] } : StreamCipher)).length key)[sub]? = some k := by
    have : sub < (keyChain (List.replicate (env.s.maxSubstreamId + 1) ({ key := [0x43, 0x44, 0x26, 0x4D, 0x4C] } : StreamCipher)).length key).length := by
      rw [hlen]; exact hn
    exact ⟨_, List.getElem?_eq_getElem this⟩
  have hca : a.relCiphers[sub]? = some { key := k } := by
    simp only [a, Conn.login, Conn.new, List.getElem?_map, hk, Option.map]
  have hcb : b.relCiphers[sub]? = some { key := k } := by
    simp only [b, Conn.login, Conn.new, List.getElem?_map, hk, Option.map]
  have hcpl : Cpl sub (cipherOf a sub) env.s.fragmentSize (Sys.fresh a b) (Chan.init 1) :=
    { size := rfl
      srel := ⟨replicate_get _ _ _ hn, ⟨_, hca, fun _ => rfl⟩⟩
      acipher := rfl
      log := rfl
      netgood := fun p hp => by cases hp
      netord := fun p hp => by cases hp
      blink := rfl
      beof := fun he => by cases he
      sent := rfl
      opn := fun _ => rfl
      cln := rfl
      pend := rfl
      bwf := ⟨(List.getElem?_eq_some_iff.mp hcb).1, by simp [Sys.fresh, b, Conn.login, Conn.new, hn], by simp [Sys.fresh, b, Conn.login, Conn.new, hn]⟩
      bwin := ⟨_, replicate_get _ _ _ hn, (fun kq hkq => by cases hkq), rfl⟩
      rrel := ⟨rfl, hq.symm, fun _ => ⟨hf.symm, fun _ => ⟨_, hcb, rfl⟩⟩⟩
      bcipher := by
        show cipherOf b sub = cipherOf a sub
        simp only [cipherOf, hca, hcb]
        rfl
      nrel := rfl }
  exact ⟨hcpl, hi.1, hi.2, trivial, fun p hp => by simp [resendsOf, Sys.fresh, a, Conn.new, Conn.login] at hp⟩

end Nx.L1

namespace Nx.L1
open Nx Nx.Prudp Nx.Chan Nx.Crypto

/-- what has to be true of two endpoints for the coupling with the initial channel `Chan.init start` to hold — observable facts
    about the two connection objects, nothing else: the sender's counter of the substream is `start` and its cipher is at
    position 0; the receiver's window of the substream expects `start` and is empty, its queue and fragment buffer are empty,
    its cipher has the same key and is at position 0; same cipher switch; the receiver is live -/
structure Established (sub start : Nat) (a b : Conn) : Prop where
  lt : start < 65536
  ctr : a.counters[sub]? = some start
  akey : ∃ sa, a.relCiphers[sub]? = some sa ∧ sa.encPos = 0
  bkey : ∃ sb, b.relCiphers[sub]? = some sb ∧ sb.decPos = 0
  same : (a.relCiphers[sub]?).map StreamCipher.key = (b.relCiphers[sub]?).map StreamCipher.key
  con : b.cipherOn = a.cipherOn
  win : b.windows[sub]? = some { next := start, packets := [] }
  q : b.queues[sub]? = some []
  fb : b.fragBufs[sub]? = some []
  live : b.eof = false ∧ b.linkUp = true
  idle : resendsOf a = [] ∨ ∀ p ∈ resendsOf a, relevant sub p = false

/-- **`Established` is enough**: two endpoints with these properties and the initial channel are coupled (and the channel
    invariants hold), so every end-to-end theorem applies from there on -/
theorem good_of_established (sub start : Nat) (a b : Conn) (h : Established sub start a b) :
    Good env sub (cipherOf a sub) a.fragmentSize start (Sys.fresh a b) (Chan.init start) := by
  have hi := inv_init (wrap env (cipherOf a sub)) start h.lt
  obtain ⟨sa, hsa, hea⟩ := h.akey
  obtain ⟨sb, hsb, hdb⟩ := h.bkey
  have hk : sa.key = sb.key := by
    have := h.same; rw [hsa, hsb] at this; simpa using this
  have hcpl : Cpl sub (cipherOf a sub) a.fragmentSize (Sys.fresh a b) (Chan.init start) :=
    { size := rfl
      srel := ⟨h.ctr, sa, hsa, fun _ => hea⟩
      acipher := rfl
      log := rfl
      netgood := fun p hp => by cases hp
      netord := fun p hp => by cases hp
      blink := h.live.2
      beof := fun he => by have h1 : b.eof = true := he; rw [h.live.1] at h1; cases h1
      sent := rfl
      opn := fun _ => rfl
      cln := rfl
      pend := rfl
      bwf := ⟨(List.getElem?_eq_some_iff.mp hsb).1, (List.getElem?_eq_some_iff.mp h.fb).1, (List.getElem?_eq_some_iff.mp h.q).1⟩
      bwin := ⟨_, h.win, (fun kq hkq => by cases hkq), rfl⟩
      rrel := ⟨h.live.1.symm, by show ([] : List Bytes) = (b.queues[sub]?).getD []; rw [h.q]; rfl,
        fun _ => ⟨by show ([] : Bytes) = (b.fragBufs[sub]?).getD []; rw [h.fb]; rfl, fun _ => ⟨sb, hsb, hdb.symm⟩⟩⟩
      bcipher := by
        show cipherOf b sub = cipherOf a sub
        simp only [cipherOf, hsa, hsb, Option.map, Option.getD, hk, h.con]
      nrel := rfl }
  refine ⟨hcpl, hi.1, hi.2, trivial, ?_⟩
  intro p hp hr
  have hp' : p ∈ resendsOf a := hp
  rcases h.idle with h0 | h0
  · rw [h0] at hp'; cases hp'
  · rw [h0 p hp'] at hr; cases hr

end Nx.L1

namespace Nx.L1
open Nx Nx.Prudp Nx.Chan Nx.Crypto

theorem established_of_B (sub start : Nat) (a b : Conn) (h : establishedB sub start a b = true) : Established sub start a b := by
  unfold establishedB at h
  simp only [Bool.and_eq_true, decide_eq_true_eq, beq_iff_eq, Bool.not_eq_true', List.all_eq_true] at h
  obtain ⟨⟨⟨⟨⟨⟨⟨⟨⟨⟨⟨h1, h2⟩, h3⟩, h4⟩, h5⟩, h6⟩, h7⟩, h8⟩, h9⟩, h10⟩, h11⟩, h12⟩ := h
  refine ⟨h1, h2, ?_, ?_, h5, h6, h7, h8, h9, ⟨h10, h11⟩, Or.inr h12⟩
  · cases ha : a.relCiphers[sub]? with
    | none => rw [ha] at h3; cases h3
    | some sa => rw [ha] at h3; exact ⟨sa, rfl, by simpa using h3⟩
  · cases hb : b.relCiphers[sub]? with
    | none => rw [hb] at h4; cases h4
    | some sb => rw [hb] at h4; exact ⟨sb, rfl, by simpa using h4⟩

end Nx.L1

namespace Nx.L1
open Nx Nx.Prudp Nx.Chan Nx.Crypto

/-- position by position: the k-th message the receiving application is handed is the k-th message the sending application's
    `send` accepted — for every k, whatever happened to the packets of earlier and later messages -/
theorem good_delivers_kth {env : Env} {sub : Nat} {ci : Cipher} {size start : Nat} {s : Sys} {ch : Chan} (h : Good env sub ci size start s ch)
    (k : Nat) (got : Bytes) (hgot : (s.b.queues[sub]?.getD [])[k]? = some got) : s.accepted[k]? = some got := by
  obtain ⟨t, ht⟩ := good_safe h
  rw [← ht]
  have hk : k < (s.b.queues[sub]?.getD []).length := by
    rcases Nat.lt_or_ge k (s.b.queues[sub]?.getD []).length with h1 | h1
    · exact h1
    · rw [List.getElem?_eq_none h1] at hgot; cases hgot
  rw [List.getElem?_append_left hk]; exact hgot

end Nx.L1
