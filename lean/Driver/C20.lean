import NxModel.Api.Effects
import NxModel.Api.Legacy
import NxModel.Api.Wire
import NxModel.DriverUtil
/-! line-protocol driver for the C20 models (settings, setting effects, nnas / nasc / hpp request builders)

  cfg <name> <hexline,hexline,…>                 -> ok                 (register the lines of a configuration file)
  construct <name|->                             -> ok|err <E> ; <dump>  (Settings() / Settings(name))
  setseq <name|-> <keyhex>=<pyval> …             -> <ok|err E>,… ; <dump>  (construct, then the assignments in order)
  copytest <keyhex>=<pyval>                      -> <dump original after> ; <dump copy after> ; <dump original2> ; <dump copy2>
  observe <name|-> <keyhex>=<pyval> …            -> the observations of the consumers (`;`-separated name=value)
  nnas <setter> … -- login <s:user> <s:pw> <s:type|none>  |  token <s:tok> <n:id>     -> <urlhex>|<requesthex>
  nasc <s:bssid> <setter> … -- login <n:id> <s:nick> <s:devtime>                       -> ok <urlhex>|<requesthex> | err <E> [<index of failing setter>]
  hpp <n:id> <s:env|none>                        -> <hosthex>
  nnas calls also: svctoken <s:tok> <s:client_id> | profile <s:tok> | miis <ln:1,2> | pids <ls:hex,hex> | nnids <ln:…>
  nnasfields <setter>                            -> h:<namehex>=<valuehex> … l:<namehex>=<valuehex> …   (documented headers; l = login only) | -
  nascfields <setter>                            -> f:<namehex>=<rawhex> … h:<namehex>=<valuehex> …     (documented form fields before base64 / headers) | -
  wire <v0|v1|v2|lite> <client minor> <server minor> <hdr 0|1> <pid size> <nex version> <client version>
       <userhex> <tokenhex> <mainurlhex> <specialurlhex> <time> <tickethex> <pid of login> <source> <target> <pid of get_name>
                                                 -> minor=<n> hdr=<0|1> backend=<method>:<hex> loginex=<hex> ticket=<hex> getname=<hex> resplogin=<hex> respticket=<hex>
                                                    (bodies an RMCClient of that connection writes with the caller's nex.* settings; `err <E>` in place of a hex)
  pyval: i<int> s<hex> T F N ;  setter: name(arg;arg;…) with args n:<dec> s:<hex> b:<hex> none
-/
open Nx Nx.Http Nx.Api

def strOfBytes (b : Bytes) : Option String := String.fromUTF8? (ByteArray.mk b.toArray)
def strOfHex (h : String) : Option String := (fromHex h).bind strOfBytes
def hexOfStr (s : String) : String := hexOut s.toUTF8.toList
def hexOfChars (c : List Char) : String := hexOfStr (String.ofList c)

def parsePyVal (t : String) : Option PyVal :=
  if t = "T" then some (.bool true) else if t = "F" then some (.bool false) else if t = "N" then some .none
  else match t.toList with
    | 'i' :: r => (String.ofList r).toInt?.map .int
    | 's' :: r => (strOfHex (String.ofList r)).map fun s => .str s.toList
    | _ => none

def showVal : Val → String
  | .int i => s!"int:{i}"
  | .str s => "str:" ++ hexOfChars s
  | .rat n d => s!"float:{n}/{d}"

def dump (s : Settings) : String :=
  ",".intercalate (Key.all.map fun k => match s k with | some v => showVal v | none => "unset")

structure St where
  cfgs : List (String × List (List Char)) := []

def St.cfg (st : St) (name : String) : Option (List (List Char)) := (st.cfgs.find? (·.1 == name)).map (·.2)

def construct (st : St) (name : String) : Option (Settings × Option Err) := do
  let d ← st.cfg "default"
  if name = "-" then pure (Settings.construct d none)
  else
    let n ← st.cfg name
    pure (Settings.construct d (some n))

def parseAssign (t : String) : Option (List Char × PyVal) :=
  match t.splitOn "=" with
  | [k, v] => do let k ← strOfHex k; let v ← parsePyVal v; pure (k.toList, v)
  | _ => none

def applySeq (s : Settings) (ops : List (List Char × PyVal)) : Settings × List String :=
  ops.foldl (fun (acc : Settings × List String) (k, v) =>
    match acc.1.setitem k v with
    | .ok s' => (s', acc.2 ++ ["ok"])
    | .error e => (acc.1, acc.2 ++ ["err " ++ e.name])) (s, [])

def showRat (r : Int × Nat) : String := s!"{r.1}/{r.2}"

def showObs (o : Obs) : String :=
  ";".intercalate [
    s!"fragment_size={o.fragmentSize}", "resend_timeout=" ++ showRat o.resendTimeout, s!"resend_limit={o.resendLimit}",
    "ping_timeout=" ++ showRat o.pingTimeout, s!"max_substream_id={o.maxSubstreamId}", s!"supported_functions={o.supportedFunctions}",
    s!"minor_ver={o.minorVer}", s!"v0_signature={o.v0Signature}", s!"v0_checksum={o.v0Checksum}", s!"v0_flags={o.v0Flags}",
    "access_key=" ++ hexOfChars o.accessKey, s!"reliable_ciphers={o.reliableCiphers}", "compression=" ++ o.compression,
    "cipher=" ++ o.cipher, "selected=" ++ o.selected, "analyze_v1=" ++ o.analyzeV1Magic, "analyze_other=" ++ o.analyzeOther,
    s!"counters={o.counters}", s!"random_unreliable_id={o.randomUnreliableId}", s!"pid_bytes={o.pidBytes}",
    s!"struct_header={o.structHeader}", "auth_proto=" ++ o.authProto, "login_path=" ++ o.loginPath, s!"rv_max_version={o.rvMaxVersion}",
    "key_derivation=" ++ o.keyDerivation, s!"param_nex_version={o.paramNexVersion}", s!"param_client_version={o.paramClientVersion}",
    s!"client_ticket_32_ok={o.clientTicket32Ok}",
    "server_ticket_len=" ++ (match o.serverTicketLen with | some n => toString n | none => "ValueError")]

/-! setters of nnas / nasc -/

inductive A where
  | n (v : Nat) | s (v : String) | b (v : Bytes) | none | ln (v : List Nat) | ls (v : List String)

def splitL (v : String) : List String := if v = "-" then [] else v.splitOn ","

def parseA (t : String) : Option A :=
  if t = "none" then some .none else
  match t.splitOn ":" with
  | ["n", v] => v.toNat?.map .n
  | ["s", v] => (strOfHex v).map .s
  | ["b", v] => (fromHex v).map .b
  | ["ln", v] => ((splitL v).mapM String.toNat?).map .ln
  | ["ls", v] => ((splitL v).mapM strOfHex).map .ls
  | _ => Option.none

def parseSetter (t : String) : Option (String × List A) :=
  match t.splitOn "(" with
  | [name, rest] =>
    let inner := String.ofList (rest.toList.takeWhile (· ≠ ')'))
    let toks := if inner = "" then [] else inner.splitOn ";"
    (toks.mapM parseA).map fun a => (name, a)
  | _ => none

def optS : A → Option (Option String)
  | .none => some Option.none
  | .s v => some (some v)
  | _ => Option.none

def nnasSetter : String × List A → Option NnasSet
  | ("set_url", [.s u]) => some (.url u)
  | ("set_client_id", [.s c]) => some (.clientId c)
  | ("set_client_secret", [.s c]) => some (.clientSecret c)
  | ("set_platform_id", [.n c]) => some (.platformId c)
  | ("set_device_type", [.n c]) => some (.deviceType c)
  | ("set_device", [.n id, .s serial, .n sv, cert]) => (optS cert).map fun c => .device id serial sv c
  | ("set_locale", [.n r, .s c, .s l]) => some (.locale r c l)
  | ("set_fpd_version", [.n v]) => some (.fpdVersion v)
  | ("set_environment", [.s e]) => some (.environment e)
  | ("set_title", [.n id, .n v]) => some (.title id v)
  | _ => Option.none

def nascSetter : String × List A → Option NascSet
  | ("set_url", [.s u]) => some (.url u)
  | ("set_sdk_version", [.n a, .n b]) => some (.sdkVersion a b)
  | ("set_title", [.n id, .n v, .s pc, .s mc, .n mt, rom]) => (optS rom).map fun r => .title id v pc mc mt r
  | ("set_device", [.s serial, .s mac, .b cert, .s name, .s unit]) => some (.device serial mac cert name unit)
  | ("set_network", [.s b, .s a]) => some (.network b a)
  | ("set_locale", [.n r, .n l]) => some (.locale r l)
  | ("set_user", [.n p, .s h]) => some (.user p h)
  | ("set_password", [.s p]) => some (.password p)
  | ("set_fpd_version", [.n v]) => some (.fpdVersion v)
  | ("set_environment", [.s e]) => some (.environment e)
  | _ => Option.none

def showSent (p : String × Req) : String := hexOfStr p.1 ++ "|" ++ hexOfStr p.2.encode

def splitAtDashes (l : List String) : List String × List String :=
  (l.takeWhile (· ≠ "--"), (l.dropWhile (· ≠ "--")).drop 1)

def runNnas (toks : List String) : Option String := do
  let (sets, call) := splitAtDashes toks
  let sets ← sets.mapM fun t => (parseSetter t).bind nnasSetter
  let s := sets.foldl Nnas.apply {}
  match call with
  | ["login", u, p, t] =>
    match parseA u, parseA p, (parseA t).bind optS with
    | some (.s u), some (.s p), some t => some (showSent (s.login u p t))
    | _, _, _ => Option.none
  | ["token", t, g] =>
    match parseA t, parseA g with
    | some (.s t), some (.n g) => some (showSent (s.getNexToken t g))
    | _, _ => Option.none
  | ["svctoken", t, c] =>
    match parseA t, parseA c with
    | some (.s t), some (.s c) => some (showSent (s.getServiceToken t c))
    | _, _ => Option.none
  | ["profile", t] =>
    match parseA t with
    | some (.s t) => some (showSent (s.getProfile t))
    | _ => Option.none
  | ["miis", l] =>
    match parseA l with
    | some (.ln l) => some (showSent (s.getMiis l))
    | _ => Option.none
  | ["pids", l] =>
    match parseA l with
    | some (.ls l) => some (showSent (s.getPids l))
    | _ => Option.none
  | ["nnids", l] =>
    match parseA l with
    | some (.ln l) => some (showSent (s.getNnids l))
    | _ => Option.none
  | _ => Option.none

def showFields (tag : String) (l : List (String × String)) : List String :=
  l.map fun (k, v) => tag ++ ":" ++ hexOfStr k ++ "=" ++ hexOfStr v

def orDash (l : List String) : String := if l.isEmpty then "-" else " ".intercalate l

def runNnasFields (t : String) : Option String := do
  let st ← (parseSetter t).bind nnasSetter
  pure (orDash (showFields "h" st.fields ++ showFields "l" st.loginFields))

def runNascFields (t : String) : Option String := do
  let st ← (parseSetter t).bind nascSetter
  pure (orDash ((st.fields.map fun (k, v) => "f:" ++ hexOfStr k ++ "=" ++ hexOut v.bytes) ++ showFields "h" st.hdrFields))

def runNasc (toks : List String) : Option String := do
  match toks with
  | bss :: rest =>
    let bss ← match parseA bss with | some (.s b) => some b | _ => Option.none
    let (sets, call) := splitAtDashes rest
    let sets ← sets.mapM fun t => (parseSetter t).bind nascSetter
    let init : Nasc := { bssId := bss }
    let r := sets.foldl (fun (acc : Except (Err × Nat) Nasc × Nat) st =>
      match acc.1 with
      | .error e => (.error e, acc.2 + 1)
      | .ok s => match s.apply st with
        | .ok s' => (.ok s', acc.2 + 1)
        | .error e => (.error (e, acc.2), acc.2 + 1)) (.ok init, 0)
    match r.1 with
    | .error (e, i) => some s!"err {e.name} {i}"
    | .ok s =>
      match call with
      | ["login", g, n, d] =>
        match parseA g, parseA n, parseA d with
        | some (.n g), some (.s n), some (.s d) =>
          match s.login g n d with
          | .ok p => some ("ok " ++ showSent p)
          | .error e => some ("err " ++ e.name)
        | _, _, _ => Option.none
      | _ => Option.none
  | [] => Option.none

def step (st : St) (line : String) : St × String :=
  match words line with
  | ["cfg", name, ls] =>
    match ((if ls = "-" then [] else ls.splitOn ",").mapM fun h => strOfHex h) with
    | some lines => ({ st with cfgs := (name, lines.map String.toList) :: st.cfgs.filter (·.1 ≠ name) }, "ok")
    | none => (st, "bad-op")
  | ["construct", name] =>
    match construct st name with
    | some (s, none) => (st, "ok ; " ++ dump s)
    | some (s, some e) => (st, "err " ++ e.name ++ " ; " ++ dump s)
    | none => (st, "bad-op")
  | "setseq" :: name :: ops =>
    match construct st name, ops.mapM parseAssign with
    | some (s, none), some ops =>
      let (s', outs) := applySeq s ops
      (st, ",".intercalate outs ++ " ; " ++ dump s')
    | _, _ => (st, "bad-op")
  | ["copytest", op] =>
    match construct st "-", parseAssign op with
    | some (s, none), some (k, v) =>
      -- original r0, copy r1; assign on the copy, then (separately) on the original
      let (h, r0) := Heap.new [] s
      let (h, r1) := h.copy r0
      let h1 := match h.setitem r1 k v with | .ok h' => h' | .error _ => h
      let h2 := match h.setitem r0 k v with | .ok h' => h' | .error _ => h
      (st, dump (h1.get r0) ++ " ; " ++ dump (h1.get r1) ++ " ; " ++ dump (h2.get r0) ++ " ; " ++ dump (h2.get r1))
    | _, _ => (st, "bad-op")
  | "observe" :: name :: ops =>
    match construct st name, ops.mapM parseAssign with
    | some (s, none), some ops => (st, showObs (observe (applySeq s ops).1))
    | _, _ => (st, "bad-op")
  | ["nnasfields", t] => (st, (runNnasFields t).getD "bad-op")
  | ["nascfields", t] => (st, (runNascFields t).getD "bad-op")
  | "nnas" :: toks => (st, (runNnas toks).getD "bad-op")
  | "nasc" :: toks => (st, (runNasc toks).getD "bad-op")
  | ["hpp", g, e] =>
    match parseA g, (parseA e).bind optS with
    | some (.n g), some e => (st, hexOfStr (Hpp.host { gameServerId := g, environment := e.getD "L1" }))
    | _, _ => (st, "bad-op")
  | _ => (st, "bad-op")

/-! several objects in one process: `objseq <op> <op> …` with ops
   new:<name|->   set:<k>:<keyhex>=<pyval>   copy:<k>   load:<k>:<name>   reset:<k>
   -> per op `<ok|err E>#<dump of object 0>|<dump of object 1>|…`, `;`-separated -/
def runObjOp (st : St) (h : Heap) (op : String) : Option (Heap × String) :=
  match op.splitOn ":" with
  | ["new", name] =>
    match construct st name with
    | some (s, Option.none) => some ((h.new s).1, "ok")
    | some (_, some e) => some (h, "err " ++ e.name)
    | Option.none => Option.none
  | ["set", k, asg] => do
    let k ← k.toNat?
    let (key, v) ← parseAssign asg
    match h.setitem k key v with
    | .ok h' => pure (h', "ok")
    | .error e => pure (h, "err " ++ e.name)
  | ["copy", k] => do
    let k ← k.toNat?
    pure ((h.copy k).1, "ok")
  | ["load", k, name] => do
    let k ← k.toNat?
    let lines ← st.cfg name
    match Settings.loadLines (h.get k) lines with
    | (s, Option.none) => pure (h.set k s, "ok")
    | (s, some e) => pure (h.set k s, "err " ++ e.name)
  | ["reset", k] => do
    let k ← k.toNat?
    let lines ← st.cfg "default"
    match Settings.loadLines (h.get k) lines with
    | (s, Option.none) => pure (h.set k s, "ok")
    | (s, some e) => pure (h.set k s, "err " ++ e.name)
  | _ => Option.none

def runObjSeq (st : St) (ops : List String) : String :=
  let r := ops.foldl (fun (acc : Option (Heap × List String)) op =>
    match acc with
    | Option.none => Option.none
    | some (h, outs) =>
      match runObjOp st h op with
      | some (h', status) => some (h', outs ++ [status ++ "#" ++ "|".intercalate (h'.map dump)])
      | Option.none => Option.none) (some ([], []))
  match r with
  | some (_, outs) => ";".intercalate outs
  | Option.none => "bad-op"

/-! the nex.* settings at the RMC layer (NxModel/Api/Wire.lean) -/
def showEx : Except Err Bytes → String
  | .ok b => hexOut b
  | .error e => "err:" ++ e.name

def parseKind : String → Option Wire.Kind
  | "v0" => some .v0 | "v1" => some .v1 | "v2" => some .v2 | "lite" => some .lite | _ => Option.none

def runWire (toks : List String) : Option String :=
  match toks with
  | [kind, cmin, smin, hdr, pid, ver, cver, user, token, main, special, time, ticket, p7, p1, p2, p3] => do
    let kind ← parseKind kind
    let cmin ← cmin.toNat?; let smin ← smin.toNat?; let hdr ← hdr.toNat?; let pid ← pid.toNat?; let ver ← ver.toNat?; let cver ← cver.toNat?
    let user ← strOfHex user; let token ← strOfHex token; let main ← strOfHex main; let special ← strOfHex special
    let time ← time.toNat?; let ticket ← fromHex ticket
    let p7 ← p7.toNat?; let p1 ← p1.toNat?; let p2 ← p2.toNat?; let p3 ← p3.toNat?
    let minor := Wire.negotiatedMinor kind cmin smin
    let c := Wire.rmcSettings minor { structHeader := hdr != 0, pidSize := pid, version := ver, clientVersion := cver }
    let be := Wire.reqBackendLogin c user token
    pure (" ".intercalate [
      s!"minor={minor}", "hdr=" ++ (if c.structHeader then "1" else "0"), s!"backend={be.1}:" ++ showEx be.2,
      "loginex=" ++ showEx (Wire.reqLoginEx c user token), "ticket=" ++ showEx (Wire.reqTicket c p1 p2), "getname=" ++ showEx (Wire.reqGetName c p3),
      "resplogin=" ++ showEx (Wire.respLogin c 65537 p7 ticket main special [1, 2] time "srv"), "respticket=" ++ showEx (Wire.respTicket 65537 ticket)])
  | _ => Option.none

def step2 (st : St) (line : String) : St × String :=
  match words line with
  | "objseq" :: ops => (st, runObjSeq st ops)
  | "wire" :: toks => (st, (runWire toks).getD "bad-op")
  | _ => step st line

def main : IO Unit := runState ({} : St) step2
