"""C06 — ONE long-lived server visited one after another from the SAME (ip, port) by clients of different protocol
versions and capabilities (a console that binds a fixed local port and runs one title after another; a client that
probes one protocol version and falls back to the other on one socket).

run(seed, server, visits) -> Session-like object with the per-visit observations and the server's datagram trace;
oracle(sess) -> list of property failures on the real code; build_server_trace(sess) -> op lines for the Lean L1 model
of the SERVER transport (every datagram the server emits must be reproduced byte for byte at the same instant).

server = (prudp.version, minor, max substream, function mask)
visit  = (prudp.version, minor, max substream, function mask, gap after the visit [s], mode, address index)
  mode "full":  connect, report, one message + echo on every negotiated substream, send beyond refused, disconnect
  mode "probe": the network loses every CONNECT of this visit (the peer probed this protocol version and gave up):
                the handshake must fail cleanly within the retransmission budget and leave nothing behind
  address index 0 = the shared address (all but a few visits), 1.. = another address (control)
"""
import contextlib, random
import anyio

from sim import Sim, quant, ticks
import prudp_session as ps
import l1_trace
from nintendo.nex import prudp

SERVER = ps.SERVER
ADDRS = [("10.0.0.2", 50001), ("10.0.0.3", 50001), ("10.0.0.2", 50002)]
RND = (0x1234, 0xABCDEF01, 0x5A)
RESEND_TIMEOUT, RESEND_LIMIT = 0.5, 1


def mk(t):
    return ps.Cfg(version=t[0], v0=(0, 1, 1), minor_version=t[1], max_substream=t[2], supported_functions=t[3], fragment_size=7,
                  resend_timeout=RESEND_TIMEOUT, resend_limit=RESEND_LIMIT)


def compatible(cv, sv):
    return (cv == 0 and sv in (0, 2)) or (cv in (1, 2) and sv in (1, 2))


def expected(visit, server):
    if visit[0] == 0:
        return (0, 0, 0)          # v0 packets carry no negotiation options (documented reading, DESIGN §5 C06)
    return (min(visit[1], server[1]), min(visit[2], server[2]), visit[3] & server[3])


def run(seed, server, visits):
    out = ps.Session()
    out.seed, out.server, out.visits = seed, server, visits
    out.client = {}        # visit -> (minor, sub, funcs) reported by the client endpoint
    out.srv = {}           # visit -> same, reported by the server-side connection
    out.echo = {}          # (visit, sub) -> bytes received back
    out.beyond = {}        # (visit, side) -> "refused" | "accepted" | other exception
    out.failed = {}        # visit -> (exception text, seconds from connect to failure)
    out.stuck = []
    out.handlers = {}      # visit -> number of handlers started during the visit
    out.errors = []
    out.table_end = None
    cur = [None]
    local = [ADDRS[0]]
    cfg_s = mk(server)
    ss = cfg_s.settings()
    out.cfg_s, out.settings_s = cfg_s, ss
    with Sim(seed) as sim:
        sim.install_factories()
        log = sim.net.log
        out.epoch = sim.epoch
        obs_cfg = ps.Cfg(version=2, v0=(0, 1, 1))
        obs = ps.Observer(obs_cfg.settings(), obs_cfg)

        class _Const:      # every PRUDPClient object draws the same values: the server can be replayed through the model
            def randint(self, a, b):
                return {0xFFFF: RND[0], 0xFFFFFFFF: RND[1], 0xFF: RND[2]}.get(b, a)
        sim._patch(prudp, "random", _Const())

        @contextlib.asynccontextmanager
        async def connect_transport_socket(settings, host, port, context):
            sock = sim.net.connect(local[0], (host, port))       # every visitor binds the address its visit names
            try:
                yield sock
            finally:
                await sock.close()
        sim._patch(prudp, "connect_transport_socket", connect_transport_socket)

        def fate(tx):
            i = cur[0]
            if i is not None and visits[i][5] == "probe" and tx.dst == SERVER:
                if any(p.type == ps.TYPE_CONNECT for p in obs.decode(tx.data)):
                    return []
            return [quant(0.004 + 0.002 * ((tx.n * 7919 + seed) % 5))]
        sim.net.fate = fate

        async def handler(client):
            i = cur[0]
            out.handlers[i] = out.handlers.get(i, 0) + 1
            out.srv[i] = (client.minor_ver, client.max_substream_id, client.supported_functions)
            key = (client.remote_address(), client.remote_sid(), 10)
            try:
                await client.send(b"beyond", client.max_substream_id + 1)
                out.beyond[(i, "s")] = "accepted"
            except ValueError:
                out.beyond[(i, "s")] = "refused"
            except Exception as e:
                out.beyond[(i, "s")] = repr(e)
            async def reader(sub):
                try:
                    while True:
                        d = await client.recv(sub)
                        log.append(("app", sim.now(), "s", "send", key, sub, b"echo:" + d))
                        await client.send(b"echo:" + d, sub)
                except anyio.EndOfStream:
                    pass
                except Exception as e:
                    out.errors.append(("handler", i, sub, repr(e)))
            async with anyio.create_task_group() as tg:
                for sub in range(client.max_substream_id + 1):
                    tg.start_soon(reader, sub)
            log.append(("app", sim.now(), "s", "done", key, 0, b""))

        async def visit(i, v):
            cur[0] = i
            local[0] = ADDRS[v[6]]
            t0 = sim.now()
            log.append(("visit", t0, i))
            with anyio.move_on_after(30) as scope:
                try:
                    async with prudp.connect(mk(v).settings(), SERVER[0], SERVER[1]) as c:
                        out.client[i] = (c.minor_ver, c.max_substream_id, c.supported_functions)
                        try:
                            await c.send(b"beyond", c.max_substream_id + 1)
                            out.beyond[(i, "c")] = "accepted"
                        except ValueError:
                            out.beyond[(i, "c")] = "refused"
                        for sub in range(c.max_substream_id + 1):
                            await c.send(b"visit%d:%d" % (i, sub), sub)
                            with anyio.move_on_after(5):
                                out.echo[(i, sub)] = await c.recv(sub)
                except Exception as e:
                    out.failed[i] = (repr(e)[:200], sim.now() - t0)
            if scope.cancelled_caught:
                out.stuck.append(i)
            await anyio.sleep(quant(v[4]))

        async def main():
            async with prudp.serve_transport(ss, SERVER[0], SERVER[1]) as transport:
                async with transport.serve(handler, 1, 10, None):
                    stream = transport.ports.get(1, 10)
                    for i, v in enumerate(visits):
                        await visit(i, v)
                    cur[0] = None
                    await anyio.sleep(quant(RESEND_TIMEOUT * (RESEND_LIMIT + 2) + 0.5))
                    out.table_end = len(stream.clients)

        async def guarded():
            with anyio.move_on_after(400) as scope:
                await main()
            out.timed_out = scope.cancelled_caught
        try:
            sim.run(guarded())
            out.crash = None
        except BaseException as e:
            out.crash = repr(e)[:300]; out.timed_out = False
        out.netlog = log
        out.end_time = sim.now()
    return out


def oracle(sess):
    bad = []
    server, visits = sess.server, sess.visits
    hist = []
    if sess.crash or sess.timed_out:
        bad.append("the visitor sequence did not run to its end (crash=%s, timed_out=%s)" % (sess.crash, sess.timed_out))
    for i, v in enumerate(visits):
        where = "visit %d (prudp.version=%d, offer %r, from %s:%d, %s) on the long-lived server %r after %s" % (
            i, v[0], v[1:4], ADDRS[v[6]][0], ADDRS[v[6]][1], v[5], server, ("visits " + " ".join(hist)) if hist else "no earlier visit")
        hist.append("v%d%s@%d" % (v[0], "" if v[5] == "full" else "(" + v[5] + ")", v[6]))
        if i in sess.stuck:
            bad.append("%s: neither connected nor failed within 30 s" % where); continue
        if v[5] == "probe" or not compatible(v[0], server[0]):
            # no CONNECT ever arrives / the server does not speak this version: a clean failure within the budget, nothing left behind
            why = "whose CONNECTs are all lost" if v[5] == "probe" else "of an incompatible version"
            if i not in sess.failed:
                bad.append("%s: a handshake %s completed (client reports %r)" % (where, why, sess.client.get(i)))
            else:
                err, dt = sess.failed[i]
                if "PRUDP connection failed" not in err:
                    bad.append("%s: the handshake did not end with the library's connection error but with %s" % (where, err))
                if dt > 2 * (RESEND_LIMIT + 1) * RESEND_TIMEOUT + 0.1:
                    bad.append("%s: the handshake took %.2f s to fail, the retransmission budget of SYN and CONNECT together is %.2f s" % (where, dt, 2 * (RESEND_LIMIT + 1) * RESEND_TIMEOUT))
            if sess.handlers.get(i):
                bad.append("%s: the server created a connection although the handshake cannot have completed" % where)
            continue
        want = expected(v, server)
        if i in sess.failed:
            bad.append("%s: the server did not serve this client: handshake ended with %s after %.2f s" % (where, sess.failed[i][0], sess.failed[i][1])); continue
        pc, psv = sess.client.get(i), sess.srv.get(i)
        if pc != want or psv != want:
            bad.append("%s: client reports %r, server reports %r, expected min/min/AND %r" % (where, pc, psv, want)); continue
        if sess.handlers.get(i) != 1:
            bad.append("%s: %r server-side connections were created for one handshake" % (where, sess.handlers.get(i)))
        for sub in range(want[1] + 1):
            if sess.echo.get((i, sub)) != b"echo:visit%d:%d" % (i, sub):
                bad.append("%s: substream %d did not carry its data (got back %r)" % (where, sub, sess.echo.get((i, sub))))
        for side in "cs":
            if sess.beyond.get((i, side)) != "refused":
                bad.append("%s: send on substream %d (beyond the negotiated %d) at %s: %s" % (where, want[1] + 1, want[1], side, sess.beyond.get((i, side))))
    if not bad and sess.table_end:
        bad.append("server %r still holds %d connection(s) after all visitors %s have left" % (server, sess.table_end, " ".join(hist)))
    for e in sess.errors:
        bad.append("server handler raised: %r" % (e,))
    return bad


def build_server_trace(sess, name="v"):
    """op lines for the SERVER transport (lean/Driver/C02.lean), like l1_trace.build_server, with the server's negotiation
    settings and the substream of every application send"""
    l1_trace.sess_epoch[0] = sess.epoch
    saddr = SERVER
    ES, S = name + "envs", name + "s"
    lines = [l1_trace.env_line(ES, sess.cfg_s, sess.settings_s), "srv %s %s %s %d 0" % (S, ES, saddr[0], saddr[1]), "bind %s 1 10 none" % S]
    kinds = [("setup", None)] * len(lines)
    real = {"c": [], "s": []}

    def add(line, kind):
        lines.append(line); kinds.append(kind)

    for e in sess.netlog:
        k = e[0]
        if k == "tx":
            _, n, t, src, dst, data, delays = e
            if src == saddr:
                real["s"].append((ticks(t), "%s:%d" % dst, l1_trace.hx(data)))
        elif k == "rx":
            _, n, t, src, dst, data, alive = e
            if alive and dst == saddr:
                add("advance %s %d" % (S, ticks(t) - 1), ("advance", "s"))
                add("dgram %s %d %s %d %s %d %d %d" % (S, ticks(t), src[0], src[1], l1_trace.hx(data), RND[0], RND[1], RND[2]), ("op", "s", ticks(t)))
        elif k == "app" and e[2] == "s":
            _, t, side, op, key, sub, data = e
            tk = ticks(t)
            conn = "%s:%d:%d:%d" % (key[0][0], key[0][1], key[1], key[2])
            add("advance %s %d" % (S, tk), ("advance", "s"))
            if op == "send":
                add("send %s %d %s %d %s" % (S, tk, conn, sub, l1_trace.hx(data)), ("op", "s", tk))
            elif op == "done":
                add("done %s %d %s" % (S, tk, conn), ("op", "s", tk))
    add("advance %s %d" % (S, ticks(sess.end_time)), ("advance", "s"))
    return lines, kinds, real


def l1_compare(drv, sess):
    lines, kinds, real = build_server_trace(sess)
    outs = drv.batch(lines)
    tx, other, errs = l1_trace.model_stream(lines, kinds, outs)
    diffs = [{"kind": "driver", "line": l[:160], "model": o} for l, o in errs]
    r, m = real["s"], tx["s"]
    for i, (x, y) in enumerate(zip(r, m)):
        if x != y:
            diffs.append({"kind": "tx", "endpoint": "s", "index": i, "real": x, "model": y}); break
    else:
        if len(r) != len(m):
            diffs.append({"kind": "tx-count", "endpoint": "s", "real_n": len(r), "model_n": len(m), "first_extra": (r[len(m):] or m[len(r):])[0]})
    return {"ok": not diffs, "diffs": diffs, "lines": len(lines)}


def sequences(rng, quick):
    """(server, visits) pairs: every short sequence of protocol versions from ONE address is exhausted, longer ones are drawn"""
    import itertools
    out = []
    def cap(v, weak=False):
        if weak:
            return (v, 0, 0, rng.choice([0, 2]))
        return (v, rng.choice(range(7)), rng.choice(range(4)), rng.choice([0, 1, 0x0F, 0xA5A5A5, 0xFFFFFF]))
    def srv(v=2):
        return (v, rng.choice([3, 6]), rng.choice([1, 3]), rng.choice([0xFF, 0xFFFFFE, 0xA5A5A4]))
    def gap():
        return rng.choice([0.0, 0.01, 0.2, 1.0, 3.0])
    lens = (2, 3) if quick else (2, 3, 4)
    for n in lens:
        for vs in itertools.product((0, 1) if (quick or n == 4) else (0, 1, 2), repeat=n):
            out.append((srv(), tuple(cap(v) + (gap(), "full", 0) for v in vs)))
    out.append((srv(), tuple(cap(v) + (gap(), "full", 0) for v in (1, 1, 0, 0))))
    out.append((srv(), tuple(cap(v) + (gap(), "full", 0) for v in (0, 0, 1, 1, 0))))
    for _ in range(8 if quick else 80):
        sv = rng.choice([2, 2, 2, 2, 0, 1])
        vis = []
        for j in range(rng.randint(3, 6)):
            v = rng.choice([0, 1, 1, 2]) if sv == 2 else (0 if sv == 0 else rng.choice([1, 2]))
            if sv != 2 and rng.random() < 0.15:
                v = 1 if sv == 0 else 0            # a strictly incompatible visitor in between: fails cleanly, disturbs nobody
            mode = "probe" if rng.random() < 0.2 else "full"
            addr = 0 if rng.random() < 0.8 else rng.choice([1, 2])
            vis.append(cap(v, weak=rng.random() < 0.2) + (gap(), mode, addr))
        out.append((srv(sv), tuple(vis)))
    return out
