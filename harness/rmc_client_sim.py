"""Scripted runs of the real `nintendo.nex.rmc.RMCClient` (client side: request/start/cleanup)
over a fake PRUDP client object, inside an anyio task group on asyncio.

A scenario is JSON-able: {"start_id": int, "steps": [step, ...]} with steps
  ["start", noresp(0|1), send_yields]   start a task that calls client.request(...)
  ["yield", n]                          the director yields n times (asyncio loop iterations)
  ["resp", call_id, "ok"|"err", serial] the peer's next datagram: a response carrying call_id
  ["ans", task, kind, serial]           the peer answers the REQUEST MESSAGE that task `task` sent (one-way requests
                                        included): a response echoing the call id that request carried, whose body /
                                        error code names the task (skipped when that task has not sent anything)
  ["raw", hex]                          the peer's next datagram (any bytes)
  ["req", protocol, method, call_id]    the peer's next datagram: a request (no server registered)
  ["preq", protocol, method, call_id, serial]
                                        the peer's next datagram: a REQUEST of its own, body P<call_id>.<serial>, to the
                                        server registered under `protocol` (server i has PROTOCOL_ID 0x50+i) or to
                                        nobody; `method` tells the server's handle() what to do (see FakeServer.handle):
                                        method & 15 = 1 return b"ack:"+body | 2 raise RMCError | 3 TypeError | 4 KeyError |
                                        5 ValueError, (method >> 4) & 15 = loop iterations it takes first (the receive
                                        loop is suspended in the handler meanwhile). The call id is the peer's own
                                        numbering: it may equal the id of one of our outstanding calls.
  ["eof"]                               the peer closes: recv() raises anyio.EndOfStream
  ["close"] | ["disconnect"] | ["cleanup"]   local closure via RMCClient.close()/disconnect()/__aexit__
Optional scenario keys:
  "servers": [hook, ...]   protocol servers handed to RMCClient.start(); hook = what `logout(client)` does:
                           ["ret"] | ["yret", k] (k loop iterations, then returns) | ["raise"] | ["yraise", k] |
                           ["idle"] (returns once no call is outstanding on the connection) | ["forever"]
  "spawn_close": 1         every local closure runs in a task of its own (as a real owner would: the director
                           must not depend on the closure returning)
  "reply_yields": k        the transport's send() of anything that is not a caller's request (the answers to the peer's
                           requests) takes k loop iterations
Log lines of the hooks: `hookret` / `hookraise` at the moment a logout hook returns / raises; of the request handlers:
`handlerret 1` / `handlerret 0` at the moment a server's handle() returns / raises. `sim.dispatches` = every entry of a
handle() (op index, server, method, body it was given); `sim.sends_at` = everything the client sent that is not a
caller's request (op index, datagram): the answers to the peer's requests.
Every atomic section that the model has an op for appends one line to the op log *at the moment
it happens*; asyncio runs the code between two awaits atomically, so the log order is the real
interleaving. The log is what the Lean model replays.
"""
import collections, contextvars, logging
import anyio
from nintendo.nex import rmc, common, settings as nexsettings

S = nexsettings.default()
FINAL_YIELDS = 12
EOF = object()


def hx(b): return b.hex() if b else "-"


def resp_body(call_id, serial):
    return b"R%d.%d" % (call_id, serial)


def resp_code(call_id, serial):
    # distinct error code per (id, serial); bit 31 set as in any conforming error response
    return 0x80000000 | ((0x10000 + (call_id * 7 + serial * 13) % 0xFFF0) & 0x7FFFFFFF)


def build_resp(call_id, kind, serial, protocol=10, method=1):
    if kind == "ok":
        return rmc.RMCMessage.response(S, protocol, method, call_id, resp_body(call_id, serial)).encode()
    if kind == "ok-empty":
        return rmc.RMCMessage.response(S, protocol, method, call_id, b"").encode()
    if kind == "err":
        return rmc.RMCMessage.error(S, protocol, method, call_id, resp_code(call_id, serial)).encode()
    if kind == "err-nobit":
        # non-conforming error response: code without bit 31 (RMCError() ors the bit in)
        import struct
        payload = bytes([protocol, 0]) + struct.pack("<II", 0x00010005 + serial, call_id)
        return struct.pack("<I", len(payload)) + payload
    raise ValueError(kind)


def ans_body(task, serial):
    return b"A%d.%d" % (task, serial)


def ans_code(task, serial):
    return 0x20000 + task * 64 + serial


def preq_body(call_id, serial):
    return b"P%d.%d" % (call_id, serial)


def build_preq(protocol, method, call_id, serial):
    return rmc.RMCMessage.request(S, protocol, method, call_id, preq_body(call_id, serial)).encode()


HANDLER_EXC = {3: TypeError, 4: KeyError, 5: ValueError}


def build_ans(call_id, task, kind, serial, protocol=10, method=1):
    """the peer's answer to the request message sent by `task` (echoes that request's call id)"""
    import struct
    if kind == "ok":
        return rmc.RMCMessage.response(S, protocol, method, call_id, ans_body(task, serial)).encode()
    if kind == "err":
        return rmc.RMCMessage.error(S, protocol, method, call_id, 0x80000000 | ans_code(task, serial)).encode()
    if kind == "err-nobit":
        payload = bytes([protocol, 0]) + struct.pack("<II", ans_code(task, serial) + 0x10000, call_id)
        return struct.pack("<I", len(payload)) + payload
    raise ValueError(kind)


class HookError(Exception):
    pass


class FakeServer:
    """a protocol server as RMCClient sees it: PROTOCOL_ID, handle(), logout()"""
    def __init__(self, sim, idx, hook):
        self.sim, self.idx, self.hook = sim, idx, hook
        self.PROTOCOL_ID = 0x50 + idx
    async def handle(self, client, method, input, output):
        sim = self.sim
        body = input.readall()
        sim.dispatches.append((len(sim.oplog) - 1, self.idx, method, body.hex()))
        kind = method & 15
        for _ in range((method >> 4) & 15):
            await anyio.sleep(0)
        if kind == 2:
            sim.log("handlerret 0")
            raise common.RMCError("Core::AccessDenied")
        if kind in HANDLER_EXC:
            sim.log("handlerret 0")
            raise HANDLER_EXC[kind]("handler of server %d" % self.idx)
        output.write(b"ack:" + body)
        sim.log("handlerret 1")
    async def logout(self, client):
        sim = self.sim
        sim.hook_entries.append((len(sim.oplog) - 1, self.idx))
        kind = self.hook[0]
        if kind in ("yret", "yraise"):
            for _ in range(self.hook[1]):
                await anyio.sleep(0)
        elif kind == "idle":
            # a hook that waits until nobody uses the connection any more
            while any(c["outcome"] is None for c in sim.callers):
                await anyio.sleep(0)
        elif kind == "forever":
            await anyio.Event().wait()
        if kind in ("raise", "yraise"):
            sim.log("hookraise")
            raise HookError("logout hook %d" % self.idx)
        sim.log("hookret")


# the connection whose receive loop is running in the current task (set inside that task: every task has a context of
# its own, so with several live connections in one process each warning is attributed to the connection that logged it)
_cur_sim = contextvars.ContextVar("c10_current_connection", default=None)


class _WarnCounter(logging.Handler):
    def __init__(self):
        super().__init__(level=logging.WARNING)
        self.invalid = 0
    def emit(self, record):
        if record.levelno == logging.WARNING and "invalid call id" in record.getMessage():
            sim = _cur_sim.get()
            if sim is not None: sim.invalid += 1
            else: self.invalid += 1

_handler = _WarnCounter()
_lg = logging.getLogger("nintendo.nex.rmc")
_lg.addHandler(_handler)
_lg.propagate = False
_lg.setLevel(logging.WARNING)


class FakePRUDP:
    """what RMCClient needs of a PRUDP client: async send/recv/close/disconnect, minor_version, pid, addresses"""
    def __init__(self, sim):
        self.sim = sim
        self.inbox = collections.deque()
        self.closed = False
        self.wakeup = None
    def minor_version(self): return self.sim.minor
    def pid(self): return 1234
    def local_address(self): return ("127.0.0.1", 1)
    def remote_address(self): return ("127.0.0.1", 2)
    def local_sid(self): return 1
    def remote_sid(self): return 1
    async def send(self, data):
        sim = self.sim
        caller = sim.current
        sim.current = None
        if caller is not None:
            m = rmc.RMCMessage.parse(S, data)
            caller["sent_id"] = m.call_id
            caller["sent_mode"] = m.mode
            caller["sent_body"] = m.body
            for _ in range(caller["send_yields"]):
                await anyio.sleep(0)
        else:
            sim.other_sends.append(data)
            sim.sends_at.append((len(sim.oplog) - 1, data.hex()))
            for _ in range(sim.sc.get("reply_yields", 0)):
                await anyio.sleep(0)
    def _kick(self):
        if self.wakeup is not None:
            self.wakeup.set()
    async def recv(self):
        while True:
            if self.inbox:
                item = self.inbox.popleft()
                if item is EOF:
                    self.sim.eof()
                    raise anyio.EndOfStream
                item, addressee = item
                self.sim.log("recv " + hx(item))
                self.sim.recv_marks.append((len(self.sim.oplog) - 1, self.sim.invalid))
                if addressee is not None:
                    self.sim.recv_addr[len(self.sim.oplog) - 1] = addressee
                return item
            if self.closed:
                self.sim.eof()
                raise anyio.EndOfStream
            self.wakeup = anyio.Event()
            await self.wakeup.wait()
            self.wakeup = None
    async def close(self):
        self.closed = True
        self._kick()
    async def disconnect(self):
        self.closed = True
        self._kick()


class Sim:
    def __init__(self, sc):
        self.sc = sc
        self.minor = sc.get("minor", 0)
        self.oplog = []
        self.callers = []       # in order of the model's task numbers
        self.current = None
        self.other_sends = []
        self.recv_marks = []    # (oplog index of a recv line, warning counter before processing)
        self.loop_result = None
        self.warn_after = {}
        self.recv_addr = {}     # oplog index of a recv line -> task whose request message that datagram answers
        self.hook_entries = []  # (oplog index of the op during which logout() of server idx was entered, idx)
        self.cleanup_by = None  # who ran the body of cleanup(): "loop" or the index of a local closure
        self.cleanup_status = "none"    # none | running | returned | raised
        self.closures = []      # outcome of every local closure: [kind, "returned" | "raised <type>" | "running"]
        self.skipped_ans = 0
        self.dispatches = []    # (oplog index of the op during which handle() of a server was entered, server idx, method, body hex)
        self.sends_at = []      # (oplog index, datagram hex) of everything sent that is not a caller's request
        self.invalid = 0        # "invalid call id" warnings logged by this connection's receive loop
        self.conn = 0           # number of this connection among the live connections of the process (run_multi)
        self.glog = None        # run_multi: the schedule of the whole process, (connection, index in its op log) in real order
        self.settings = S
    def log(self, line):
        if self.glog is not None:
            self.glog.append((self.conn, len(self.oplog)))
        self.oplog.append(line)
    def eof(self):
        # recv() is about to raise EndOfStream: start() will call cleanup()
        if not self.client.closed:
            self.cleanup_by = "loop"; self.cleanup_status = "running"
        self.log("eof")


def classify(exc):
    if isinstance(exc, common.RMCError): return "rmc %d" % exc.code()
    if isinstance(exc, RuntimeError) and str(exc) == "RMC connection is closed": return "closed"
    if isinstance(exc, KeyError): return "keyerror"
    return "exc " + type(exc).__name__


async def _caller(sim, client, noresp, send_yields):
    c = {"task": len(sim.callers), "noresp": noresp, "send_yields": send_yields, "sent_id": None,
         "outcome": None, "done_at": None, "call_at": len(sim.oplog)}
    sim.callers.append(c)
    sim.log("call %d" % noresp)
    sim.current = c
    try:
        r = await client.request(10, 1, b"Q%d" % c["task"], bool(noresp))
        out = "none" if r is None else "body " + hx(r)
    except Exception as e:
        out = classify(e)
    finally:
        sim.current = None if sim.current is c else sim.current
    c["outcome"] = out
    if c["sent_id"] is not None and not noresp:
        # the completion of a suspended request() *is* the model's `wake`
        sim.log("wake %d" % c["task"])
    c["done_at"] = len(sim.oplog) - 1


async def _loop(sim, client, servers):
    _cur_sim.set(sim)
    try:
        await client.start(servers)
        sim.loop_result = "returned"
        if sim.cleanup_by == "loop": sim.cleanup_status = "returned"
    except HookError:
        # a logout hook raised inside the EndOfStream branch: start() ends with that exception
        sim.loop_result = "hook-raised"
        if sim.cleanup_by == "loop": sim.cleanup_status = "raised"
    except Exception as e:
        sim.loop_result = "crash " + type(e).__name__
        sim.log("loopcrash")


async def _closer(sim, client, kind):
    """one local closure: close() / disconnect() / leaving `async with client`"""
    me = len(sim.closures)
    rec = [kind, "running"]
    sim.closures.append(rec)
    if not client.closed:
        sim.log("cleanup")
        sim.cleanup_by = me; sim.cleanup_status = "running"
    try:
        if kind == "close": await client.close()
        elif kind == "disconnect": await client.disconnect()
        else: await client.__aexit__(None, None, None)
        rec[1] = "returned"
    except Exception as e:
        rec[1] = "raised " + type(e).__name__
    if sim.cleanup_by == me:
        sim.cleanup_status = "returned" if rec[1] == "returned" else "raised"


class Conn:
    """one live connection: its own settings object, transport, RMCClient, servers and records — nothing of it is
    shared with any other connection of the process"""
    def __init__(self, sc, conn=0, glog=None, own_settings=False):
        self.sc = sc
        self.sim = sim = Sim(sc)
        sim.conn, sim.glog = conn, glog
        if own_settings:
            sim.settings = nexsettings.default()
        self.fake = FakePRUDP(sim)
        self.client = rmc.RMCClient(sim.settings, self.fake)
        self.client.call_id = sc.get("start_id", 1)
        sim.client = self.client
        self.servers = [FakeServer(sim, i, h) for i, h in enumerate(sc.get("servers", []))]
        self.spawn = sc.get("spawn_close", 0)

    def start(self, tg):
        tg.start_soon(_loop, self.sim, self.client, self.servers)

    async def step(self, tg, st):
        sim, fake, client = self.sim, self.fake, self.client
        k = st[0]
        if k == "start":
            tg.start_soon(_caller, sim, client, st[1], st[2])
        elif k == "yield":
            for _ in range(st[1]):
                await anyio.sleep(0)
        elif k == "resp":
            fake.inbox.append((build_resp(st[1], st[2], st[3]), None)); fake._kick()
        elif k == "ans":
            t = st[1]
            if t < len(sim.callers) and sim.callers[t]["sent_id"] is not None:
                fake.inbox.append((build_ans(sim.callers[t]["sent_id"], t, st[2], st[3]), t)); fake._kick()
            else:
                sim.skipped_ans += 1
        elif k == "raw":
            fake.inbox.append((bytes.fromhex(st[1]) if st[1] != "-" else b"", None)); fake._kick()
        elif k == "req":
            fake.inbox.append((rmc.RMCMessage.request(S, st[1], st[2], st[3], b"").encode(), None)); fake._kick()
        elif k == "preq":
            fake.inbox.append((build_preq(st[1], st[2], st[3], st[4]), None)); fake._kick()
        elif k == "eof":
            fake.inbox.append(EOF); fake._kick()
        elif k in ("close", "disconnect", "cleanup"):
            if self.spawn:
                tg.start_soon(_closer, sim, client, k)
            else:
                await _closer(sim, client, k)
        else:
            raise ValueError(st)

    def settle_yields(self):
        # the receive loop waits in every request handler and in every slow answer send
        sc = self.sc
        ry = sc.get("reply_yields", 0)
        return (sum(((st[2] >> 4) & 15) + ry + 1 for st in sc["steps"] if st[0] == "preq")
                + sum(ry + 1 for st in sc["steps"] if st[0] == "req"))

    def snapshot(self):
        """white-box snapshot before the tasks are torn down"""
        sim, fake, client = self.sim, self.fake, self.client
        sim.final = {
            "next": client.call_id, "closed": int(client.closed),
            "requests": sorted(client.requests.keys()), "responses": sorted(client.responses.keys()),
            "hung": [c["task"] for c in sim.callers if c["outcome"] is None],
            "loop": sim.loop_result, "undelivered": len(fake.inbox),
            "cleanup_status": sim.cleanup_status, "closures": [list(r) for r in sim.closures],
            "nservers": len(self.servers),
        }
        # per recv line: did the loop warn about an invalid call id while processing it?
        marks = sim.recv_marks
        for i, (idx, before) in enumerate(marks):
            after = marks[i + 1][1] if i + 1 < len(marks) else sim.invalid
            sim.warn_after[idx] = after - before


async def run_scenario(sc):
    """runs one scenario on the real code; returns the Sim (op log, callers, final white-box state)"""
    conn = Conn(sc)
    async with anyio.create_task_group() as tg:
        conn.start(tg)
        for st in sc["steps"]:
            await conn.step(tg, st)
        for _ in range(FINAL_YIELDS + conn.settle_yields()):
            await anyio.sleep(0)
        conn.snapshot()
        tg.cancel_scope.cancel()
    return conn.sim


async def run_multi_scenario(msc):
    """several live connections in ONE process (one event loop, one task group, as in BackEndClient.login or a server):
    msc = {"multi": [scenario of connection 0, scenario of connection 1, ...], "order": [c, c, ...]}; the k-th entry of
    "order" executes the next step of connection order[k] (steps left over run afterwards, connection by connection).
    A "yield" step lets the tasks of ALL connections run. Every connection has its own settings, transport, client,
    servers and op log; `glog` (harness bookkeeping only) records the real order of the atomic sections of the process.
    Returns the list of Sims; sims[0].glog is the schedule."""
    glog = []
    conns = [Conn(sc, i, glog, own_settings=True) for i, sc in enumerate(msc["multi"])]
    async with anyio.create_task_group() as tg:
        for c in conns:
            c.start(tg)
        nxt = [0] * len(conns)
        order = list(msc.get("order", []))
        for i, c in enumerate(conns):
            order += [i] * len(c.sc["steps"])
        for ci in order:
            c = conns[ci]
            if nxt[ci] < len(c.sc["steps"]):
                st = c.sc["steps"][nxt[ci]]
                nxt[ci] += 1
                await c.step(tg, st)
        for _ in range(FINAL_YIELDS + sum(c.settle_yields() for c in conns)):
            await anyio.sleep(0)
        for c in conns:
            c.snapshot()
        tg.cancel_scope.cancel()
    return [c.sim for c in conns]


def run_many(scenarios):
    async def main():
        res = []
        for sc in scenarios:
            res.append(await run_scenario(sc))
        return res
    return anyio.run(main)


def run_many_multi(mscs):
    """-> one list of Sims per multi-connection scenario"""
    async def main():
        res = []
        for msc in mscs:
            res.append(await run_multi_scenario(msc))
        return res
    return anyio.run(main)
