import NxProofs.Schema
import NxProofs.Rmc
import NxProofs.RmcClient
import NxProofs.RmcClientX
import NxProofs.Channel
import NxProofs.Cipher
import NxProofs.Negotiation
import NxModel.Nex.C14Wire
import NxProofs.C14Str
import NxProofs.Sys
import NxProofs.Duplex
import NxProofs.HandshakeAcks
/-!
# C14 — values survive a client → server → client round trip through any generated method

Model: the schema interpreter of C13 (`NxModel/Nex/Schema.lean`) composed with the RMC framing of C09
(`NxModel/Nex/Rmc.lean`). The PRUDP layer underneath is C01's subject; here a message handed to the RMC layer
is the message the peer's RMC layer receives. Statements only; proofs in `NxProofs/Schema.lean`, `NxProofs/Rmc.lean`.
Several calls in flight at once on one connection: which response a caller is handed is decided by the call-matching
machine of `NxModel/Nex/RmcClient.lean` (C10's model, `NxProofs/RmcClient.lean`); `rpc_concurrent_own_result`
composes it with the response leg.

Over the real transport: an RMC message is one application message of the PRUDP channel of C01
(`NxModel/Prudp/Channel.lean`: fragmentation, position-indexed cipher, sliding window; the network is ANY list of arrivals —
loss, duplication, reordering). `rpc_request_over_faulty_network` / `rpc_response_over_faulty_network` compose the channel's
safety invariant with the two legs: whatever the network did, the k-th message the receiving RMC layer is handed is the k-th
message sent, so it decodes to the visible values of the k-th call — for every call of a connection, not only the first.
Which codec configuration (structure headers) each end uses follows from the minor version its endpoint reports after the
handshake (`NxModel/Nex/C14Wire.lean`); `both_ends_same_codec` and `negotiated_minor_is_handshake` tie that to C06's L1 lemmas.

`forward_compat` needs "revisions ascending" — for every `nex.version` the number the generated `max_version`
returns bounds every reachable `revision` block (`Items.revAscending`, a kernel-checked generated obligation per
versioned structure). It FAILS today for `MatchmakeSession` (`revision 1,2,3` followed by `nex 40000 { revision 0 }`:
from NEX 4.0 on `max_version` is 0 although revision-1..3 blocks are reachable); `forward_compat_counterexample`
proves the negation on the same shape, the check reproduces it on the real class (known finding).
-/
namespace Nx.C14
open Nx Nx.Schema

/-- **forward compatibility**, one hierarchy level, any hooks: with structure headers on, a header announcing
    any revision `v' ≥ max_version` and any bytes `x` appended *inside* the length-prefixed body decode to the same
    attributes, and the rest of the message is untouched -/
theorem forward_compat (env : Env) (cfg : Cfg) (ver : Nat) (leaf : Items × List Val) (d : StructDef)
    {E : EncHook} {D : DecHook} {V : VisHook} (H : HookRT E D V) (hh : cfg.structHeader = true)
    (vs vs' : List Val) (b : Bytes) (henc : encClass E env cfg ver leaf d vs = .ok (b, vs'))
    (hb : revsBelow ver cfg.nexVersion d.items = true) :
    ∃ body, b = u8 ver ++ u32le body.length ++ body ∧
      ∀ (v' : Nat) (x r : Bytes), ver ≤ v' → v' < 256 → body.length + x.length < 4294967296 →
        decClass D env cfg d (u8 v' ++ u32le (body.length + x.length) ++ (body ++ x) ++ r)
          = .ok ((visItems V cfg ver d.items vs).1, r) :=
  forward_compat_class env cfg ver leaf d H hh vs vs' b henc hb

/-- the generated obligation `rev_ascending_<Struct>` gives the hypothesis of `forward_compat` for every
    `nex.version` at once (only the gate thresholds are enumerated by the checker) -/
theorem revisions_ascending_sound {it : Items} (h : it.revAscending = true) (nex : Nat) :
    revsBelow (maxVersion nex it) nex it = true ∧ maxVersion nex it < 256 :=
  revAscending_sound h nex

/-- forward compatibility of a whole instance of a versioned structure without base class, as
    `Structure.encode` / `Structure.decode` see it -/
theorem forward_compat_struct (env : Env) (cfg : Cfg) (f : Nat) (c : Name) (d : StructDef)
    (hl : lookup env c = some d) (hp : d.parent = none) (hh : cfg.structHeader = true)
    (hasc : d.items.revAscending = true) (vs vs' : List Val) (b : Bytes)
    (henc : encObj env cfg (f + 1) c vs = .ok (b, vs')) :
    ∃ body, b = u8 (effMaxVersion env cfg.nexVersion (f + 1) c) ++ u32le body.length ++ body ∧
      ∀ (v' : Nat) (x r : Bytes), effMaxVersion env cfg.nexVersion (f + 1) c ≤ v' → v' < 256 →
        body.length + x.length < 4294967296 →
        decObj env cfg (f + 1) c (u8 v' ++ u32le (body.length + x.length) ++ (body ++ x) ++ r)
          = .ok ((visObj env cfg (f + 1) c vs).1, r) :=
  forward_compat_root env cfg f c d hl hp hh hasc vs vs' b henc

/-- without ascending revisions the property is false: the shape of `MatchmakeSession` at NEX 4.0 writes
    revision 0; the same bytes announced as revision 1 with one trailing byte no longer decode -/
theorem forward_compat_counterexample :
    Ex.session.items.revAscending = false
    ∧ encObj Ex.env Ex.cfgNew 8 77 [.int 7, .str [0x41], .list [.int 1], .int 99, .str [0x42]]
        = .ok ([0, 8, 0, 0, 0, 7, 0, 0, 0, 2, 0, 65, 0] ++ ([0, 9, 0, 0, 0] ++ [1, 0, 0, 0, 1, 2, 0, 66, 0]), [])
    ∧ decObj Ex.env Ex.cfgNew 8 77
        ([0, 8, 0, 0, 0, 7, 0, 0, 0, 2, 0, 65, 0] ++ ([1, 10, 0, 0, 0] ++ ([1, 0, 0, 0, 1, 2, 0, 66, 0] ++ [0xAA])) ++ [9])
        = .error .overflow := by
  refine ⟨by decide, by rfl, by rfl⟩

/-- request leg: what the generated client hands to the RMC layer, framed, parsed by the peer's RMC layer and
    decoded by the generated server, is the visible argument list — with the protocol id, method id and call id
    it was sent with -/
theorem rpc_roundtrip_request {env : Env} {cfg : Cfg} {fuel : Nat} {p : ProtoDef} {m : MethodDef} {args : List Val}
    {pi mi : Nat} {body : Bytes} (h : clientRequest env cfg fuel p m args = .ok (pi, mi, body))
    (callId : Nat) (hwf : (Rmc.Spec.request pi callId mi body).WF) :
    ∃ wire msg, Rmc.encode (Rmc.ofSpec (.request pi callId mi body)) = .ok wire ∧ Rmc.decode wire = .ok msg
      ∧ msg.mode = 0 ∧ msg.protocol = p.id ∧ msg.method = some m.id ∧ msg.callId = callId
      ∧ serverRequest env cfg fuel m msg.body = .ok (visArgs env cfg fuel m.request args) := by
  obtain ⟨h1, h2, h3⟩ := clientRequest_ok h
  refine ⟨_, _, Rmc.encode_ofSpec _ hwf, Rmc.decode_specEncode _ hwf, rfl, h1, by rw [← h2]; rfl, rfl, ?_⟩
  have := serverRequest_of_client h3 []
  simpa [Rmc.ofSpec] using this

/-- response leg: what the generated server wrote, framed as a success response and parsed by the caller's RMC
    layer, is decoded by the generated client to the visible results (and the call id is the request's) -/
theorem rpc_roundtrip_response {env : Env} {cfg : Cfg} {fuel : Nat} {m : MethodDef} {res : List Val} {body : Bytes}
    (h : serverResponse env cfg fuel m res = .ok body) (protocol callId : Nat)
    (hwf : (Rmc.Spec.success protocol callId m.id body).WF) :
    ∃ wire msg, Rmc.encode (Rmc.ofSpec (.success protocol callId m.id body)) = .ok wire ∧ Rmc.decode wire = .ok msg
      ∧ msg.mode = 1 ∧ msg.callId = callId ∧ msg.error = -1
      ∧ clientResponse env cfg fuel m msg.body = .ok (visArgs env cfg fuel m.response res) := by
  refine ⟨_, _, Rmc.encode_ofSpec _ hwf, Rmc.decode_specEncode _ hwf, rfl, rfl, rfl, ?_⟩
  exact clientResponse_of_server (serverResponse_ok h)

/-- **several calls in flight on one connection**: `ops` is ANY interleaving of `request()` sections, received
    datagrams, closures and resumptions of suspended callers on one `RMCClient` (fewer than 2^32 − 1 calls, so that
    the wrapping call id counter cannot collide). If every response that carries a call id under which caller `t`'s
    request went out is the server's answer to that request (success, body = what the generated server wrote for the
    values `res` its implementation returned for `t`'s arguments), then `t`, when it completes, is told "closed",
    or was response-less, or is handed exactly that body — whatever the other callers sent and received in between —
    and the generated client decodes it to the visible results `res` -/
theorem rpc_concurrent_own_result {env : Env} {cfg : Cfg} {fuel : Nat} {m : MethodDef} {res : List Val} {body : Bytes}
    (h : serverResponse env cfg fuel m res = .ok body)
    (ops : List RmcClient.Op) (hn : RmcClient.nCalls ops < 4294967295) (t : Nat) (o : RmcClient.Outcome)
    (hdone : RmcClient.Out.done t o ∈ (RmcClient.run RmcClient.init ops).2)
    (hans : ∀ id msg, RmcClient.Out.sent t id ∈ (RmcClient.run RmcClient.init ops).2 →
        RmcClient.Op.recvResponse msg ∈ ops → msg.callId = id → msg.error = -1 ∧ msg.body = body) :
    o = .closed ∨ o = .none ∨
      (o = .body body ∧ clientResponse env cfg fuel m body = .ok (visArgs env cfg fuel m.response res)) := by
  have hd : RmcClient.distinctLive RmcClient.init ops = true :=
    RmcClient.distinctLive_of_small RmcClient.init ops (by simp [RmcClient.init]) (by simp [RmcClient.init]; omega)
  have href := (RmcClient.run_refines (RmcClient.rel_init 1) ops hd).2
  have hspec : RmcClient.Out.done t o ∈ (RmcClient.CallSpec.run RmcClient.CallSpec.init ops).2 := by
    have : RmcClient.Out.done t o ∈ RmcClient.obs (RmcClient.run RmcClient.init ops).2 := RmcClient.mem_obs.mpr ⟨hdone, rfl⟩
    exact href ▸ this
  rcases RmcClient.spec_run_hist RmcClient.CallSpec.init ops [] [] (by intro c hc; cases hc) t o hspec
    with e | e | ⟨id, msg, s1, s2, s3, s4⟩
  · exact .inl e
  · exact .inr (.inl e)
  · refine .inr (.inr ?_)
    have hs : RmcClient.Out.sent t id ∈ (RmcClient.run RmcClient.init ops).2 := by
      have h' : RmcClient.Out.sent t id ∈ (RmcClient.CallSpec.run RmcClient.CallSpec.init ops).2 := by simpa using s1
      have : RmcClient.Out.sent t id ∈ RmcClient.obs (RmcClient.run RmcClient.init ops).2 := href ▸ h'
      exact (RmcClient.mem_obs.mp this).1
    obtain ⟨he, hb⟩ := hans id msg hs (by simpa using s2) s3
    refine ⟨?_, clientResponse_of_server (serverResponse_ok h)⟩
    rw [s4]; unfold RmcClient.outcomeOf; simp [he, hb]

/-- a call id names ONE request message of a connection — requests of response-less protocols included: they use up an
    id like every other request although nobody waits under it (`request(..., noresponse=True)`), as long as the 32-bit
    counter does not wrap -/
theorem one_way_request_has_its_own_call_id (ops : List RmcClient.Op) (hn : RmcClient.nCalls ops < 4294967295)
    (t u id : Nat) (ht : RmcClient.Out.sent t id ∈ (RmcClient.run RmcClient.init ops).2)
    (hu : RmcClient.Out.sent u id ∈ (RmcClient.run RmcClient.init ops).2) : t = u :=
  RmcClient.sent_ids_distinct RmcClient.init ops (by simp [RmcClient.init]; omega) t u id ht hu

/-- **response-less (one-way) calls mixed with ordinary calls on one connection.** Whether a peer answers a one-way
    request is not under the caller's control: only a peer that registered a handler for the protocol knows that it is
    response-less; a peer without one answers like for every unknown protocol id, with Core::NotImplemented under the
    request's call id. So the hypothesis about the peer is only: every response the client's loop receives is the reaction
    to SOME request message of this connection (it carries the call id under which a request `u` — ordinary or one-way —
    went out), and the reactions to caller `t`'s own request are the server's answer to it (success, body = what the
    generated server wrote for the values `res`). Then `t` — any interleaving of `request()` sections (ordinary and
    one-way), received datagrams, closures and resumptions — is told "closed", or was itself one-way, or is handed exactly
    that body and decodes it to the visible results: reactions to other requests, the stray errors for one-way requests
    included, never reach it. -/
theorem rpc_mixed_one_way_own_result {env : Env} {cfg : Cfg} {fuel : Nat} {m : MethodDef} {res : List Val} {body : Bytes}
    (h : serverResponse env cfg fuel m res = .ok body)
    (ops : List RmcClient.Op) (hn : RmcClient.nCalls ops < 4294967295) (t : Nat) (o : RmcClient.Outcome)
    (hdone : RmcClient.Out.done t o ∈ (RmcClient.run RmcClient.init ops).2)
    (hpeer : ∀ msg, RmcClient.Op.recvResponse msg ∈ ops →
        ∃ u id, RmcClient.Out.sent u id ∈ (RmcClient.run RmcClient.init ops).2 ∧ msg.callId = id ∧
          (u = t → msg.error = -1 ∧ msg.body = body)) :
    o = .closed ∨ o = .none ∨
      (o = .body body ∧ clientResponse env cfg fuel m body = .ok (visArgs env cfg fuel m.response res)) := by
  refine rpc_concurrent_own_result h ops hn t o hdone ?_
  intro id msg hs hr hid
  obtain ⟨u, id', hs', hid', hown⟩ := hpeer msg hr
  have hsame : u = t := by
    refine one_way_request_has_its_own_call_id ops hn u t id' hs' ?_
    rw [← hid', hid]; exact hs
  exact hown hsame

/-- methods the definition marks unsupported, methods a server class leaves unimplemented and unknown method
    ids all end in `Core::NotImplemented` -/
theorem not_supported {p : ProtoDef} {impl : Name → Bool} {id : Nat} :
    (findMethodById p id = none → dispatch p impl id = .notImplemented)
    ∧ (∀ m, findMethodById p id = some m → m.supported = false → dispatch p impl id = .notImplemented)
    ∧ (∀ m, findMethodById p id = some m → impl m.name = false → dispatch p impl id = .notImplemented) :=
  ⟨dispatch_unknown, fun _ h hs => dispatch_unsupported h hs, fun _ h hi => dispatch_unimplemented h hi⟩

/-- and only those: a supported, implemented method runs -/
theorem supported_runs {p : ProtoDef} {impl : Name → Bool} {id : Nat} {m : MethodDef}
    (h : findMethodById p id = some m) (hs : m.supported = true) (hi : impl m.name = true) :
    dispatch p impl id = .run m :=
  dispatch_run h hs hi

/-- `RMCClient` switches structure headers on when the negotiated PRUDP minor version is ≥ 3, and otherwise
    leaves the settings alone; nothing else changes -/
theorem struct_header_auto (cfg : Cfg) (minor : Nat) :
    (minor ≥ 3 → (rmcClientCfg cfg minor).structHeader = true)
    ∧ (minor < 3 → rmcClientCfg cfg minor = cfg)
    ∧ (rmcClientCfg cfg minor).nexVersion = cfg.nexVersion ∧ (rmcClientCfg cfg minor).pidSize = cfg.pidSize :=
  ⟨rmcClientCfg_header cfg minor, rmcClientCfg_keep cfg minor, (rmcClientCfg_other cfg minor).1, (rmcClientCfg_other cfg minor).2⟩


/-! ## string-valued positions, at the level of Python `str`

The interpreter carries a string as its UTF-8 bytes and drops the last *byte* when reading (difference G4 of
`NxModel/Nex/Schema.lean`); `StreamIn.string` drops the last *character* of the decoded text. For every encodable `str`
(a Lean `String`: any sequence of Unicode scalar values — U+0000 anywhere, white space, U+D7FF / U+E000 / U+FFFF included)
the two are the same codec, so `rpc_roundtrip_request` / `rpc_roundtrip_response`, which speak about `Val.str (utf8 s)`,
speak about `s` itself. Proofs in `NxProofs/C14Str.lean` (over C15's `wString` / `rString`). -/

/-- a string position is written identically by the interpreter and by `StreamOut.string`, is encodable exactly up to
    65534 UTF-8 bytes, and reads back — bytewise in the interpreter, characterwise in `StreamIn.string` — as the string
    that was written, whatever it ends in; the rest of the message is untouched -/
theorem string_position_char_level (s : String) :
    encStr (Nex.utf8Enc s.toList) = Nex.wString (some s)
    ∧ ((∃ b, encStr (Nex.utf8Enc s.toList) = .ok b) ↔ (Nex.utf8Enc s.toList).length ≤ 65534)
    ∧ ∀ b, Nex.wString (some s) = .ok b → ∀ rest,
        decStr (b ++ rest) = .ok (some (Nex.utf8Enc s.toList), rest) ∧ Nex.rString (b ++ rest) = .ok (some s, rest) :=
  ⟨C14Str.encStr_eq_wString s, C14Str.encodable_iff s, fun _ h rest => C14Str.decStr_eq_rString h rest⟩

/-- strings that differ (for instance only in trailing U+0000) have different wire forms -/
theorem string_position_injective {s t : String} {b : Bytes}
    (hs : Nex.wString (some s) = .ok b) (ht : Nex.wString (some t) = .ok b) : s = t :=
  C14Str.wString_injective hs ht

/-- non-trivial points: a string ending in U+0000, one consisting of U+0000 only, U+FFFF -/
example : Nex.rString ((Nex.wString (some "abc\x00")).toOption.getD [] ++ [7]) = .ok (some "abc\x00", [7])
    ∧ Nex.rString ((Nex.wString (some "\x00")).toOption.getD []) = .ok (some "\x00", [])
    ∧ decStr ((Nex.wString (some "\uffff\x00")).toOption.getD []) = .ok (some [0xEF, 0xBF, 0xBF, 0], []) := by decide

/-! ## over the real PRUDP leg -/

/-- what the receiver of a channel has delivered so far, position by position, is what was sent -/
theorem channel_delivers_what_was_sent (c : Chan.Cipher) (hc : Chan.CipherOk c) (size : Nat) (hsz : 1 ≤ size)
    (start : Nat) (hs : start < 65536) (ops : List Chan.Op) (hok : Chan.runOk c size (Chan.init start) ops = true)
    (k : Nat) (got : Bytes) (hgot : (Chan.run c size (Chan.init start) ops).r.core.reasm.out[k]? = some got) :
    (Chan.run c size (Chan.init start) ops).s.sent[k]? = some got := by
  obtain ⟨hS, hR⟩ := Chan.inv_run c hc size hsz start ops (Chan.init start) (Chan.inv_init c start hs).1 (Chan.inv_init c start hs).2 hok
  have h2 := Chan.delivered_prefix_sent c start _ hS hR
  obtain ⟨t, ht⟩ := h2
  have ht' : (Chan.run c size (Chan.init start) ops).r.core.reasm.out ++ t = (Chan.run c size (Chan.init start) ops).s.sent := ht
  rw [← ht']
  have hk : k < (Chan.run c size (Chan.init start) ops).r.core.reasm.out.length := by
    rcases Nat.lt_or_ge k (Chan.run c size (Chan.init start) ops).r.core.reasm.out.length with h | h
    · exact h
    · rw [List.getElem?_eq_none h] at hgot; cases hgot
  rw [List.getElem?_append_left hk]; exact hgot

/-- **request leg over a misbehaving network.** `ops` is ANY history of one direction of a PRUDP connection (sends, pings,
    arrivals of any emitted packet in any order, any number of times, or never — within the half window, C01). If the
    k-th message the client's RMC layer sent is the framed request of a generated-client call, then the k-th message the
    server's RMC layer is handed — if it has been handed k+1 messages — parses to that request and the generated server
    decodes the visible arguments, with the call's protocol, method and call id. Holds for every k: earlier faults on the
    connection do not matter. (The cipher is any position-indexed cipher, RC4 included: `C01.rc4_like_ok`.) -/
theorem rpc_request_over_faulty_network (c : Chan.Cipher) (hc : Chan.CipherOk c) (size : Nat) (hsz : 1 ≤ size)
    (start : Nat) (hs : start < 65536) (ops : List Chan.Op) (hok : Chan.runOk c size (Chan.init start) ops = true)
    {env : Env} {cfg : Cfg} {fuel : Nat} {p : ProtoDef} {m : MethodDef} {args : List Val} {pi mi : Nat} {body : Bytes}
    (h : clientRequest env cfg fuel p m args = .ok (pi, mi, body)) (callId : Nat)
    (hwf : (Rmc.Spec.request pi callId mi body).WF) (wire : Bytes)
    (henc : Rmc.encode (Rmc.ofSpec (.request pi callId mi body)) = .ok wire)
    (k : Nat) (hsent : (Chan.run c size (Chan.init start) ops).s.sent[k]? = some wire)
    (got : Bytes) (hgot : (Chan.run c size (Chan.init start) ops).r.core.reasm.out[k]? = some got) :
    ∃ msg, Rmc.decode got = .ok msg ∧ msg.mode = 0 ∧ msg.protocol = p.id ∧ msg.method = some m.id ∧ msg.callId = callId
      ∧ serverRequest env cfg fuel m msg.body = .ok (visArgs env cfg fuel m.request args) := by
  have hd := channel_delivers_what_was_sent c hc size hsz start hs ops hok k got hgot
  rw [hsent] at hd
  cases hd
  obtain ⟨wire', msg, e1, e2, r⟩ := rpc_roundtrip_request h callId hwf
  rw [henc] at e1
  cases e1
  exact ⟨msg, e2, r⟩

/-- **request leg between two PRUDP ENDPOINTS** (the L1 endpoint model that is tied byte for byte to `PRUDPClient`, instead
    of the abstract channel): `ops` is ANY run of the two-endpoint system of C01 — sends fragment by fragment, keep-alive pings,
    retransmissions, deliveries of any copy in any order through the whole receive path, injected packets with wrong
    signatures, acknowledgements of any kind, traffic of the other direction and of other substreams. If the k-th message the
    client's RMC layer passed to `send` is the framed request of a generated-client call, then the k-th message the server's
    RMC layer is handed — if it has been handed k+1 messages — parses to that request and the generated server decodes the
    visible arguments. -/
theorem rpc_request_between_endpoints (penv : L1.Env) (hl : L1.EnvLaws penv)
    (sub : Nat) (ci : Chan.Cipher) (size : Nat) (hsz : 1 ≤ size) (start : Nat) (ops : List L1.SysOp) (s : L1.Sys) (ch : Chan.Chan)
    (h0 : L1.Good penv sub ci size start s ch) (hok : L1.Sys.runOk penv sub s ops = true)
    {env : Env} {cfg : Cfg} {fuel : Nat} {p : ProtoDef} {m : MethodDef} {args : List Val} {pi mi : Nat} {body : Bytes}
    (h : clientRequest env cfg fuel p m args = .ok (pi, mi, body)) (callId : Nat)
    (hwf : (Rmc.Spec.request pi callId mi body).WF) (wire : Bytes)
    (henc : Rmc.encode (Rmc.ofSpec (.request pi callId mi body)) = .ok wire)
    (k : Nat) (hsent : (L1.Sys.run penv sub s ops).accepted[k]? = some wire)
    (got : Bytes) (hgot : ((L1.Sys.run penv sub s ops).b.queues[sub]?.getD [])[k]? = some got) :
    ∃ msg, Rmc.decode got = .ok msg ∧ msg.mode = 0 ∧ msg.protocol = p.id ∧ msg.method = some m.id ∧ msg.callId = callId
      ∧ serverRequest env cfg fuel m msg.body = .ok (visArgs env cfg fuel m.request args) := by
  have hd := L1.good_delivers_kth (L1.sys_refines penv hl sub ci size hsz start ops s ch h0 hok).1 k got hgot
  rw [hsent] at hd
  cases hd
  obtain ⟨wire', msg, e1, e2, r⟩ := rpc_roundtrip_request h callId hwf
  rw [henc] at e1
  cases e1
  exact ⟨msg, e2, r⟩

/-- **a whole remote call between two PRUDP endpoints, both directions on ONE connection** (`NxProofs/Duplex.lean`): `ops` is
    ANY history of the duplex system — sends of both ends fragment by fragment, keep-alives, deliveries of any copy of any packet
    of either direction through the other end's whole receive path, acknowledgements, retransmission timers of both ends. If
    the k-th message the client's RMC layer (end A) passed to `send` is the framed request of a generated-client call and the
    k'-th message the server's RMC layer (end B) passed to `send` is the framed success response of that method, then the k-th
    message B's RMC layer is handed parses to that request and the generated server decodes the visible arguments, AND the
    k'-th message A's RMC layer is handed parses to that response and the generated client decodes the visible results. -/
theorem rpc_roundtrip_between_endpoints (penv : L1.Env) (hl : L1.EnvLaws penv)
    (sub : Nat) (ciA ciB : Chan.Cipher) (sizeA sizeB : Nat) (hA : 1 ≤ sizeA) (hB : 1 ≤ sizeB) (startA startB : Nat)
    (ops : List L1.DOp) (d : L1.Duplex) (chAB chBA : Chan.Chan)
    (h0 : L1.DGood penv sub ciA ciB sizeA sizeB startA startB d chAB chBA) (hok : L1.Duplex.runOk penv sub d ops = true)
    {env : Env} {cfg : Cfg} {fuel : Nat} {p : ProtoDef} {m : MethodDef} {args res : List Val} {pi mi : Nat} {body rbody : Bytes}
    (h : clientRequest env cfg fuel p m args = .ok (pi, mi, body)) (callId : Nat)
    (hwf : (Rmc.Spec.request pi callId mi body).WF) (wire : Bytes)
    (henc : Rmc.encode (Rmc.ofSpec (.request pi callId mi body)) = .ok wire)
    (hr : serverResponse env cfg fuel m res = .ok rbody)
    (hwfr : (Rmc.Spec.success pi callId m.id rbody).WF) (rwire : Bytes)
    (hencr : Rmc.encode (Rmc.ofSpec (.success pi callId m.id rbody)) = .ok rwire)
    (k k' : Nat)
    (hsent : (L1.Duplex.run penv sub d ops).ab.accepted[k]? = some wire)
    (hsentr : (L1.Duplex.run penv sub d ops).ba.accepted[k']? = some rwire)
    (got : Bytes) (hgot : ((L1.Duplex.run penv sub d ops).ab.b.queues[sub]?.getD [])[k]? = some got)
    (gotr : Bytes) (hgotr : ((L1.Duplex.run penv sub d ops).ab.a.queues[sub]?.getD [])[k']? = some gotr) :
    (∃ msg, Rmc.decode got = .ok msg ∧ msg.mode = 0 ∧ msg.protocol = p.id ∧ msg.method = some m.id ∧ msg.callId = callId
      ∧ serverRequest env cfg fuel m msg.body = .ok (visArgs env cfg fuel m.request args)) ∧
    (∃ msg, Rmc.decode gotr = .ok msg ∧ msg.mode = 1 ∧ msg.callId = callId ∧ msg.error = -1
      ∧ clientResponse env cfg fuel m msg.body = .ok (visArgs env cfg fuel m.response res)) := by
  have hg := L1.duplex_run penv hl sub ciA ciB sizeA sizeB hA hB startA startB ops d chAB chBA h0 hok
  constructor
  · have hd := L1.good_delivers_kth hg.ab k got hgot
    rw [hsent] at hd
    cases hd
    obtain ⟨wire', msg, e1, e2, r⟩ := rpc_roundtrip_request h callId hwf
    rw [henc] at e1
    cases e1
    exact ⟨msg, e2, r⟩
  · rw [hg.same.a] at hgotr
    have hd := L1.good_delivers_kth hg.ba k' gotr hgotr
    rw [hsentr] at hd
    cases hd
    obtain ⟨wire', msg, e1, e2, r⟩ := rpc_roundtrip_response hr pi callId hwfr
    rw [hencr] at e1
    cases e1
    exact ⟨msg, e2, r⟩

/-- **a remote call from the very beginning of a connection**: a client object fresh from `Conn.new`, `handshake()` without
    credentials, ANY sequence of SYN / CONNECT packets handed to it (`clientRun`), the connection a server without a ticket key
    registered for a CONNECT from this peer — and then ANY history of the duplex system. Nothing is assumed about the state after the
    handshake: `L1.client_half_any_packets`, `L1.server_half_established` and `L1.server_ciphers` give `Established` in both
    directions, `L1.duplex_established` the coupling, and the request and the response of a generated method arrive as in
    `rpc_roundtrip_between_endpoints`. -/
theorem rpc_roundtrip_from_handshake (penv : L1.Env) (hl : L1.EnvLaws penv)
    (version : Option Nat) (u chk sid : Nat) (la : L1.Addr) (lp lt : Nat) (ra : L1.Addr) (rp rt : Nat) (t0 t3 : L1.Time)
    (xs : List L1.HsPkt) (c' : L1.Conn)
    (hrun : L1.clientRun penv ((L1.Conn.new penv version u chk sid la lp lt ra rp rt).handshake penv t0 none).c xs = some c')
    (now : L1.Time) (rnd : L1.Rnd) (s : L1.ServerStream) (con : Prudp.Packet) (addr : L1.Addr) (hkey : s.key = none)
    (hnew : L1.clientLookup (addr, con.sourcePort, con.sourceType) s.clients = none) (cs : L1.Conn)
    (hreg : L1.clientLookup (addr, con.sourcePort, con.sourceType) (s.processConnect penv now rnd true con addr).s.clients = some cs)
    (sub : Nat) (hsub : sub ≤ penv.s.maxSubstreamId)
    (hconn : (c'.resumeHandshake t3).c.state = L1.STATE_CONNECTED)
    (hA : 1 ≤ (c'.resumeHandshake t3).c.fragmentSize) (hB : 1 ≤ cs.fragmentSize)
    (ops : List L1.DOp)
    (hok : L1.Duplex.runOk penv sub { ab := L1.Sys.fresh (c'.resumeHandshake t3).c cs, ba := L1.Sys.fresh cs (c'.resumeHandshake t3).c } ops = true)
    {env : Env} {cfg : Cfg} {fuel : Nat} {p : ProtoDef} {m : MethodDef} {args res : List Val} {pi mi : Nat} {body rbody : Bytes}
    (h : clientRequest env cfg fuel p m args = .ok (pi, mi, body)) (callId : Nat)
    (hwf : (Rmc.Spec.request pi callId mi body).WF) (wire : Bytes)
    (henc : Rmc.encode (Rmc.ofSpec (.request pi callId mi body)) = .ok wire)
    (hr : serverResponse env cfg fuel m res = .ok rbody)
    (hwfr : (Rmc.Spec.success pi callId m.id rbody).WF) (rwire : Bytes)
    (hencr : Rmc.encode (Rmc.ofSpec (.success pi callId m.id rbody)) = .ok rwire)
    (k k' : Nat)
    (hsent : (L1.Duplex.run penv sub { ab := L1.Sys.fresh (c'.resumeHandshake t3).c cs, ba := L1.Sys.fresh cs (c'.resumeHandshake t3).c } ops).ab.accepted[k]? = some wire)
    (hsentr : (L1.Duplex.run penv sub { ab := L1.Sys.fresh (c'.resumeHandshake t3).c cs, ba := L1.Sys.fresh cs (c'.resumeHandshake t3).c } ops).ba.accepted[k']? = some rwire)
    (got : Bytes) (hgot : ((L1.Duplex.run penv sub { ab := L1.Sys.fresh (c'.resumeHandshake t3).c cs, ba := L1.Sys.fresh cs (c'.resumeHandshake t3).c } ops).ab.b.queues[sub]?.getD [])[k]? = some got)
    (gotr : Bytes) (hgotr : ((L1.Duplex.run penv sub { ab := L1.Sys.fresh (c'.resumeHandshake t3).c cs, ba := L1.Sys.fresh cs (c'.resumeHandshake t3).c } ops).ab.a.queues[sub]?.getD [])[k']? = some gotr) :
    (∃ msg, Rmc.decode got = .ok msg ∧ msg.mode = 0 ∧ msg.protocol = p.id ∧ msg.method = some m.id ∧ msg.callId = callId
      ∧ serverRequest env cfg fuel m msg.body = .ok (visArgs env cfg fuel m.request args)) ∧
    (∃ msg, Rmc.decode gotr = .ok msg ∧ msg.mode = 1 ∧ msg.callId = callId ∧ msg.error = -1
      ∧ clientResponse env cfg fuel m msg.body = .ok (visArgs env cfg fuel m.response res)) := by
  obtain ⟨hcr, hck, hcon⟩ := L1.client_half_any_packets penv version u chk sid la lp lt ra rp rt t0 t3 none xs c' hrun sub hsub hconn
  obtain ⟨hson, hsk⟩ := L1.server_ciphers penv now rnd true s con addr hnew cs hreg
  have hest := L1.established_of_halves sub _ cs hcr (L1.server_half_established penv now rnd true s con addr hnew cs hreg sub hsub)
    (by rw [hck, hsk hkey]
        simp only [L1.clientKeys, List.getElem?_map])
    (by rw [hson, hcon])
  have h0 := L1.duplex_established penv sub _ _ _ cs hest.1 hest.2
  exact rpc_roundtrip_between_endpoints penv hl sub _ _ _ _ hA hB _ _ ops _ _ _ h0 hok h callId hwf wire henc hr hwfr rwire hencr
    k k' hsent hsentr got hgot gotr hgotr

/-- **response leg over a misbehaving network** (the other direction of the connection is another channel) -/
theorem rpc_response_over_faulty_network (c : Chan.Cipher) (hc : Chan.CipherOk c) (size : Nat) (hsz : 1 ≤ size)
    (start : Nat) (hs : start < 65536) (ops : List Chan.Op) (hok : Chan.runOk c size (Chan.init start) ops = true)
    {env : Env} {cfg : Cfg} {fuel : Nat} {m : MethodDef} {res : List Val} {body : Bytes}
    (h : serverResponse env cfg fuel m res = .ok body) (protocol callId : Nat)
    (hwf : (Rmc.Spec.success protocol callId m.id body).WF) (wire : Bytes)
    (henc : Rmc.encode (Rmc.ofSpec (.success protocol callId m.id body)) = .ok wire)
    (k : Nat) (hsent : (Chan.run c size (Chan.init start) ops).s.sent[k]? = some wire)
    (got : Bytes) (hgot : (Chan.run c size (Chan.init start) ops).r.core.reasm.out[k]? = some got) :
    ∃ msg, Rmc.decode got = .ok msg ∧ msg.mode = 1 ∧ msg.callId = callId ∧ msg.error = -1
      ∧ clientResponse env cfg fuel m msg.body = .ok (visArgs env cfg fuel m.response res) := by
  have hd := channel_delivers_what_was_sent c hc size hsz start hs ops hok k got hgot
  rw [hsent] at hd
  cases hd
  obtain ⟨wire', msg, e1, e2, r⟩ := rpc_roundtrip_response h protocol callId hwf
  rw [henc] at e1
  cases e1
  exact ⟨msg, e2, r⟩

/-- both ends of a connection that were given equal settings encode and decode with the same configuration, whatever
    minor versions were configured; on PRUDP v0 (no option fields: both ends report 0) that configuration is the
    settings' own; in general each end has structure headers iff its settings say so or the negotiated minor version is ≥ 3 -/
theorem both_ends_same_codec (v0 : Bool) (cfg cfgC cfgS : Cfg) (minorC minorS : Nat) :
    (C14Wire.endCfgs v0 cfg cfg minorC minorS).1 = (C14Wire.endCfgs v0 cfg cfg minorC minorS).2
    ∧ (v0 = true → C14Wire.endCfgs v0 cfgC cfgS minorC minorS = (cfgC, cfgS))
    ∧ (C14Wire.endCfgs v0 cfgC cfgS minorC minorS).1.structHeader
        = (cfgC.structHeader || decide (C14Wire.negotiatedMinor v0 minorC minorS ≥ 3))
    ∧ (C14Wire.endCfgs v0 cfgC cfgS minorC minorS).2.structHeader
        = (cfgS.structHeader || decide (C14Wire.negotiatedMinor v0 minorC minorS ≥ 3)) := by
  refine ⟨rfl, ?_, ?_, ?_⟩
  · intro hv; subst hv; simp [C14Wire.endCfgs, C14Wire.negotiatedMinor, rmcClientCfg]
  · by_cases h3 : C14Wire.negotiatedMinor v0 minorC minorS ≥ 3 <;> simp [C14Wire.endCfgs, rmcClientCfg, h3]
  · by_cases h3 : C14Wire.negotiatedMinor v0 minorC minorS ≥ 3 <;> simp [C14Wire.endCfgs, rmcClientCfg, h3]

/-- `negotiatedMinor false` is what the L1 handshake model (C06's lemmas) makes both endpoints report: the connection
    the server registers for the client's CONNECT and the client after its SYN/ACK both hold the meet -/
theorem negotiated_minor_is_handshake (envS envC : L1.Env) (now now' : L1.Time) (rnd : L1.Rnd) (up : Bool)
    (s : L1.ServerStream) (c : L1.Conn) (syn ack con : Prudp.Packet) (caddr to : L1.Addr) (d : Bytes) (hn : Nat) (cs : L1.Conn)
    (hsyn : (syn.minorVersion, syn.maxSubstreamId, syn.supportedFunctions) = c.params)
    (hack : (s.processSyn envS syn caddr).outs = [.emit to ack d])
    (hpend : L1.ackLookup (L1.ackKeyOf ack) c.ackEvents = some hn)
    (hacc : (c.processSyn envC now ack).err = none)
    (hcon : (con.minorVersion, con.maxSubstreamId, con.supportedFunctions) = (c.processSyn envC now ack).c.params)
    (hnew : L1.clientLookup (caddr, con.sourcePort, con.sourceType) s.clients = none)
    (hreg : L1.clientLookup (caddr, con.sourcePort, con.sourceType) (s.processConnect envS now' rnd up con caddr).s.clients = some cs)
    (cfg : Cfg) :
    cs.minorVer = C14Wire.negotiatedMinor false c.minorVer s.minorVer
    ∧ (c.processSyn envC now ack).c.minorVer = C14Wire.negotiatedMinor false c.minorVer s.minorVer
    ∧ rmcClientCfg cfg cs.minorVer = rmcClientCfg cfg (c.processSyn envC now ack).c.minorVer := by
  obtain ⟨_, a2, _⟩ := L1.server_synack_is_meet envS s syn caddr to ack d hack
  obtain ⟨b1, _⟩ := L1.client_adopts_offer envC now c ack hn hpend hacc
  obtain ⟨c1, _⟩ := L1.server_connect_params envS now' rnd up s con caddr hnew cs hreg
  simp only [L1.Conn.params, Prod.mk.injEq] at hsyn b1 c1 hcon
  have e1 : (c.processSyn envC now ack).c.minorVer = min s.minorVer c.minorVer := by rw [b1.1, a2, hsyn.1]
  have e2 : cs.minorVer = min s.minorVer c.minorVer := by rw [c1.1, hcon.1, e1]
  refine ⟨by simp [C14Wire.negotiatedMinor, e2], by simp [C14Wire.negotiatedMinor, e1], by rw [e1, e2]⟩

/-! non-vacuity -/
example : Ex.conn.items.revAscending = true := by decide
example : lookup Ex.env 82 = some Ex.conn ∧ Ex.conn.parent = none := by decide
-- RVConnectionData-like value at nex 4.0 with headers: revision 1, 19-byte body
example : encObj Ex.env Ex.cfgNew 8 82 [.str Schema.prudpUrl, .int 5]
    = .ok ([1, 18, 0, 0, 0] ++ [8, 0, 0x70, 0x72, 0x75, 0x64, 0x70, 0x3A, 0x2F, 0, 5, 0, 0, 0, 0, 0, 0, 0], []) := by rfl
-- announced as revision 7 with two trailing bytes inside the body: same attributes, rest untouched
example : decObj Ex.env Ex.cfgNew 8 82
    ([7, 20, 0, 0, 0] ++ [8, 0, 0x70, 0x72, 0x75, 0x64, 0x70, 0x3A, 0x2F, 0, 5, 0, 0, 0, 0, 0, 0, 0] ++ [0xAA, 0xBB] ++ [9, 9])
    = .ok ([.str Schema.prudpUrl, .int 5], [9, 9]) := by rfl
-- strings are length-prefixed in BYTES (UTF-8 + terminator), not characters: "é" = C3 A9 is written with length 3
example : encObj Ex.env Ex.cfgNew 8 71 [.int 7, .str [0xC3, 0xA9]]
    = .ok ([0, 9, 0, 0, 0] ++ [7, 0, 0, 0, 3, 0, 0xC3, 0xA9, 0], []) := by rfl
-- two calls in flight, answered in the opposite order: each caller is handed the body carrying its own call id
example : (RmcClient.run RmcClient.init [.call false, .call false,
      .recvResponse { mode := 1, protocol := 21, method := some 1, callId := 2, error := -1, body := [2, 2] },
      .recvResponse { mode := 1, protocol := 21, method := some 1, callId := 1, error := -1, body := [1] },
      .wake 0, .wake 1]).2
    = [.sent 0 1, .sent 1 2, .set 1, .set 0, .done 0 (.body [1]), .done 1 (.body [2, 2])] := by decide
example : RmcClient.nCalls [.call false, .call false, .wake 0] < 4294967295 := by decide
-- a one-way request (call id 1) to a peer without a handler for its protocol, directly followed by an ordinary call (call id 2):
-- the peer's Core::NotImplemented for the one-way request is dropped ("invalid call id"), the ordinary caller gets its own body
example : (RmcClient.run RmcClient.init [.call true, .call false,
      .recvResponse { mode := 1, protocol := 14, method := none, callId := 1, error := 0x10002, body := [] },
      .recvResponse { mode := 1, protocol := 10, method := some 2, callId := 2, error := -1, body := [7] },
      .wake 1]).2
    = [.sent 0 1, .done 0 .none, .sent 1 2, .warnInvalidCallId 1, .set 1, .done 1 (.body [7])] := by decide
example : RmcClient.nCalls [.call true, .call false, .wake 1] < 4294967295 := by decide
example : (Rmc.Spec.request 21 1 1 [7, 0, 0, 0]).WF := by decide
example : dispatch Ex.proto (fun _ => true) 2 = .notImplemented ∧ dispatch Ex.proto (fun _ => true) 1 = .run Ex.meth
    ∧ dispatch Ex.proto (fun _ => false) 1 = .notImplemented ∧ dispatch Ex.proto (fun _ => true) 3 = .notImplemented := by decide
example : (rmcClientCfg Ex.cfgOld 3).structHeader = true ∧ (rmcClientCfg Ex.cfgOld 2).structHeader = false := by decide

-- a request of 5 bytes, fragment size 2, id wrap: the second fragment arrives twice, the last one first — delivered once, intact
example : let ops := [Chan.Op.send [1, 2, 3, 4, 5], .arrive 1, .arrive 1, .arrive 2, .arrive 0, .arrive 2]
    Chan.runOk Chan.idCipher 2 (Chan.init 65535) ops = true ∧
      (Chan.run Chan.idCipher 2 (Chan.init 65535) ops).r.core.reasm.out = [[1, 2, 3, 4, 5]] := by decide
-- 3ds / friends (v0): server configured with minor version 4, both ends run without structure headers; default (v1): with
example : C14Wire.endCfgs true Ex.cfgOld Ex.cfgOld 4 4 = (Ex.cfgOld, Ex.cfgOld)
    ∧ (C14Wire.endCfgs false Ex.cfgOld Ex.cfgOld 4 4).2.structHeader = true
    ∧ (C14Wire.endCfgs false Ex.cfgOld Ex.cfgOld 4 2).1.structHeader = false := by decide

end Nx.C14
