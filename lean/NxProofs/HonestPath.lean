import NxProofs.NexStreams
import NxProofs.NexKerberos
import NxProofs.Admission
import NxModel.Prudp.L1Crypto
/-! C05, the honest direction: a client that holds a ticket produced by the reference construction (C16) for the server's key,
not older than 120 s, and builds its connection request the way `build_connection_request` does, IS admitted, as the
ticket's user, with the ticket's session key, and is sent exactly the response its own check demands. -/
namespace Nx.L1
open Nx Nx.Nex Nx.Nex.Kerberos Nx.Crypto Nx.Prudp

theorem rBuffer_self {d b : Bytes} (h : wBuffer d = .ok b) : rBuffer b = .ok (d, []) := by
  have := rBuffer_wBuffer h []
  simpa using this

/-- the server side of the honest path -/
theorem honest_request_admitted (kc : Nex.Kerberos.Cfg) (epoch : Nat) (tz : Int) (key ticketKey : Bytes) (t : ServerTicket)
    (tb rb tbuf reqbuf pidb : Bytes) (cid check : Nat) (now : Time) (ts : Int)
    (hT : ServerTicket.encrypt kc key ticketKey t = .ok tb)
    (hpid : wPid kc.pidSize t.source = .ok pidb) (hplen : pidb.length = kc.pidSize)
    (hcid : cid < 4294967296) (hchk : check < 4294967296)
    (hR : Kerberos.encrypt t.sessionKey (pidb ++ u32le cid ++ u32le check) = .ok rb)
    (hb1 : wBuffer tb = .ok tbuf) (hb2 : wBuffer rb = .ok reqbuf)
    (hts : DateTime.timestamp tz t.timestamp = .ok ts)
    (hfresh : ¬ ((ts + 120 - (epoch : Int)) * 1073741824 < (now : Int))) :
    loginRequestFn kc epoch tz (tbuf ++ reqbuf) key now =
      .ok (t.source, cid, t.sessionKey, u32le 4 ++ u32le ((check + 1) % 4294967296)) := by
  unfold loginRequestFn
  have h1 : rBuffer (tbuf ++ reqbuf) = .ok (tb, reqbuf) := rBuffer_wBuffer hb1 reqbuf
  have h2 : rBuffer reqbuf = .ok (rb, []) := rBuffer_self hb2
  have h3 : ServerTicket.decrypt kc key tb = .ok t := serverTicket_roundtrip kc key ticketKey t tb hT
  have h4 : Kerberos.decrypt t.sessionKey rb = .ok (pidb ++ u32le cid ++ u32le check) := decrypt_encrypt _ _ _ hR
  have h5 : rPid kc.pidSize (pidb ++ (u32le cid ++ u32le check)) = .ok (t.source, u32le cid ++ u32le check) := rPid_wPid kc.pidSize hpid _
  have h6 : rdU32 (u32le cid ++ u32le check) = .ok (cid, u32le check) := rdU32_u32le cid _ hcid
  have h7 : rdU32 (u32le check) = .ok (check, []) := by
    have := rdU32_u32le check [] hchk
    simpa using this
  have hlen : (pidb ++ u32le cid ++ u32le check).length = kc.pidSize + 8 := by
    simp only [List.length_append, hplen, u32le, List.length_cons, List.length_nil]
  simp only [bind, Except.bind, h1, h2, h3, hts, hfresh, if_false, h4, hlen, ne_eq, not_true_eq_false, List.append_assoc, h5, h6, h7, pure, Except.pure]
  simp [hplen]

theorem rc4Apply_len : ∀ (x : Bytes) (st : Rc4), (rc4Apply st x).1.length = x.length := by
  intro x
  induction x with
  | nil => intro st; rfl
  | cons a r ih => intro st; simp only [rc4Apply, List.length_cons]; rw [ih]

theorem wBuffer_ok (d : Bytes) (h : d.length < 4294967296) : wBuffer d = .ok (u32le d.length ++ d) := by
  simp [wBuffer, wU32, h, bind, Except.bind, pure, Except.pure]

theorem kerbEncryptFn_is_encrypt (key data : Bytes) (h : rc4KeyOk key = true) :
    Kerberos.encrypt key data = .ok (kerbEncryptFn key data) := by
  simp [Kerberos.encrypt, kerbEncryptFn, h]

/-- **the honest path, end to end**: the connection request the L1 client builds from credentials that hold a reference-built
    ticket for the server's key is admitted by the L1 server's login check as the ticket's user with the ticket's session key,
    and the response the server sends is exactly the one the client's check accepts. -/
theorem honest_path (s : Settings) (cfg : Prudp.Cfg) (kc : Nex.Kerberos.Cfg) (epoch : Nat) (tz : Int)
    (key ticketKey : Bytes) (t : ServerTicket) (tb : Bytes) (c : Conn) (cr : Creds) (now : Time) (ts : Int)
    (hT : ServerTicket.encrypt kc key ticketKey t = .ok tb)
    (hcreds : c.credentials = some cr) (hint : cr.internal = tb) (hsk : cr.sessionKey = t.sessionKey) (hpid : cr.pid = t.source)
    (hps : s.pidSize = kc.pidSize) (hps' : kc.pidSize = 8 ∨ kc.pidSize = 4)
    (hpr : t.source < (if kc.pidSize = 8 then 18446744073709551616 else 4294967296))
    (hcid : cr.cid < 4294967296) (hchk : c.connectionCheck < 4294967296)
    (hkey : rc4KeyOk t.sessionKey = true) (htl : tb.length < 4294967296)
    (hts : DateTime.timestamp tz t.timestamp = .ok ts)
    (hfresh : ¬ ((ts + 120 - (epoch : Int)) * 1073741824 < (now : Int))) :
    let env := mkEnv s cfg kc epoch tz
    ∃ resp, env.loginRequest (c.buildConnectionRequest env) key now = .ok (t.source, cr.cid, t.sessionKey, resp) ∧
      c.checkConnectionResponse resp = none := by
  intro env
  refine ⟨u32le 4 ++ u32le ((c.connectionCheck + 1) % 4294967296), ?_, ?_⟩
  · -- the request as built
    have hb : c.buildConnectionRequest env =
        (u32le tb.length ++ tb) ++ (u32le (kerbEncryptFn t.sessionKey ((if kc.pidSize = 8 then u64le t.source else u32le t.source) ++ u32le cr.cid ++ u32le c.connectionCheck)).length ++
          kerbEncryptFn t.sessionKey ((if kc.pidSize = 8 then u64le t.source else u32le t.source) ++ u32le cr.cid ++ u32le c.connectionCheck)) := by
      simp only [Conn.buildConnectionRequest, hcreds, env, mkEnv, hint, hsk, hpid, hps, List.append_assoc]
    rw [hb]
    have hpidw : wPid kc.pidSize t.source = .ok (if kc.pidSize = 8 then u64le t.source else u32le t.source) := by
      unfold wPid wU64 wU32
      by_cases h8 : kc.pidSize = 8
      · simp only [h8, if_true] at hpr ⊢; rw [if_pos hpr]
      · simp only [h8, if_false] at hpr ⊢; rw [if_pos hpr]
    have hplen : (if kc.pidSize = 8 then u64le t.source else u32le t.source).length = kc.pidSize := by
      rcases hps' with h | h <;> simp [h, u64le, u32le]
    have hel : (kerbEncryptFn t.sessionKey ((if kc.pidSize = 8 then u64le t.source else u32le t.source) ++ u32le cr.cid ++ u32le c.connectionCheck)).length < 4294967296 := by
      have e1 : (kerbEncryptFn t.sessionKey ((if kc.pidSize = 8 then u64le t.source else u32le t.source) ++ u32le cr.cid ++ u32le c.connectionCheck)).length
          = ((if kc.pidSize = 8 then u64le t.source else u32le t.source).length + (u32le cr.cid).length + (u32le c.connectionCheck).length) + 16 := by
        simp only [kerbEncryptFn, List.length_append, rc4, rc4Apply_len, Kerberos.hmacMd5_length]
      rw [e1, hplen]
      have : (u32le cr.cid).length = 4 ∧ (u32le c.connectionCheck).length = 4 := ⟨rfl, rfl⟩
      rw [this.1, this.2]
      rcases hps' with h | h <;> omega
    exact honest_request_admitted kc epoch tz key ticketKey t tb _ _ _ _ cr.cid c.connectionCheck now ts hT hpidw hplen hcid hchk
      (kerbEncryptFn_is_encrypt _ _ hkey) (wBuffer_ok tb htl) (wBuffer_ok _ hel) hts hfresh
  · apply (client_response_check c _).mpr
    rw [hcreds]

end Nx.L1
